#!/usr/bin/env python
# coding: utf-8
"""
Demo / regression check for property C08:

For every sense buffer a target can return (fixed or descriptor format, current
or deferred, any sense key, any ASC/ASCQ including unassigned and vendor
specific ones) the CheckCondition error can be constructed, converted to text
and printed without raising; sense key / ASC / ASCQ are taken from the SPC
positions of the format, and assigned codes are described by their T10 text.

Everything is checked through the public API of the library against an
independent oracle written in this file.  Exits 0 and prints PASS on success.
"""
import contextlib
import hashlib
import io
import itertools
import random
import sys
import traceback
import types

# --------------------------------------------------------------------------
# fake external bindings (sgio / iscsi are not installed)
# --------------------------------------------------------------------------
_sgio = types.ModuleType("sgio")


class _SgioCheckConditionError(Exception):
    def __init__(self, sense):
        Exception.__init__(self, "check condition")
        self.sense = sense


_sgio.CheckConditionError = _SgioCheckConditionError
_sgio.NEXT_SENSE = None


def _sgio_execute(fobj, cdb, dataout, datain, *a, **kw):
    raise _SgioCheckConditionError(_sgio.NEXT_SENSE)


_sgio.execute = _sgio_execute
sys.modules["sgio"] = _sgio

_iscsi = types.ModuleType("iscsi")
_iscsi.SCSI_XFER_NONE, _iscsi.SCSI_XFER_READ, _iscsi.SCSI_XFER_WRITE = 0, 1, 2
_iscsi.ISCSI_SESSION_NORMAL = 2
_iscsi.ISCSI_HEADER_DIGEST_NONE_CRC32C = 1
_iscsi.NEXT_SENSE = None
_iscsi.HAS_RAW_SENSE = True


class _IscsiContext(object):
    def __init__(self, name):
        self.name = name

    def set_targetname(self, t):
        pass

    def set_session_type(self, t):
        pass

    def set_header_digest(self, t):
        pass

    def connect(self, portal, lun):
        pass

    def disconnect(self):
        pass

    def command(self, lun, task, dataout, datain):
        task.status = 2  # CHECK CONDITION
        if _iscsi.HAS_RAW_SENSE:
            task.raw_sense = _iscsi.NEXT_SENSE


class _IscsiURL(object):
    def __init__(self, ctx, url):
        self.target = "iqn.fake"
        self.portal = "127.0.0.1"
        self.lun = 0


class _IscsiTask(object):
    def __init__(self, cdb, direction, xferlen):
        self.status = 0


_iscsi.Context = _IscsiContext
_iscsi.URL = _IscsiURL
_iscsi.Task = _IscsiTask
sys.modules["iscsi"] = _iscsi

from pyscsi.pyiscsi.iscsi_device import ISCSIDevice  # noqa: E402
from pyscsi.pyscsi import scsi_sense  # noqa: E402
from pyscsi.pyscsi.scsi_device import SCSIDevice  # noqa: E402
from pyscsi.pyscsi.scsi_exception import (  # noqa: E402
    SCSICommandExceptionMeta,
    SCSIDeviceCommandExceptionMeta,
    SCSIDeviceExceptionMeta,
)
from pyscsi.pyscsi.scsi_sense import SCSICheckCondition  # noqa: E402
from pyscsi.utils import converter  # noqa: E402
from pyscsi.utils.converter import (  # noqa: E402
    decode_bits,
    encode_dict,
    get_opcode,
    print_data,
    scsi_ba_to_int,
    scsi_int_to_ba,
)

CHECKS = 0


def check(cond, msg):
    global CHECKS
    CHECKS += 1
    if not cond:
        print("FAIL: %s" % (msg,))
        sys.exit(1)


def eq(got, want, msg):
    global CHECKS
    CHECKS += 1
    if got != want or type(got) is not type(want):
        print("FAIL: %s\n   got : %r\n   want: %r" % (msg, got, want))
        sys.exit(1)


# --------------------------------------------------------------------------
# the oracle
# --------------------------------------------------------------------------
# (name, mask, byte position) in the order SPC lists them / the library reports them
FIXED_FIELDS = [
    ("valid", 0x80, 0),
    ("response_code", 0x7F, 0),
    ("filemark", 0x80, 2),
    ("eom", 0x40, 2),
    ("ili", 0x20, 2),
    ("sdat_ovfl", 0x10, 2),
    ("sense_key", 0x0F, 2),
    ("information", 0xFFFFFFFF, 3),
    ("additional_sense_len", 0xFF, 7),
    ("command_specific_information", 0xFFFFFFFF, 8),
    ("additional_sense_code", 0xFF, 12),
    ("additional_sense_code_qualifier", 0xFF, 13),
    ("field_replaceable_unit_code", 0xFF, 14),
    ("sksv", 0x80, 15),
    ("sense_key_specific_information", 0x7FFFFF, 15),
]
DESC_FIELDS = [
    ("response_code", 0x7F, 0),
    ("sdat_ovfl", 0x80, 4),
    ("sense_key", 0x0F, 1),
    ("additional_sense_code", 0xFF, 2),
    ("additional_sense_code_qualifier", 0xFF, 3),
    ("additional_sense_len", 0xFF, 7),
]

SENSE_KEYS = {
    0x0: "No Sense",
    0x1: "Recovered Error",
    0x2: "Not Ready",
    0x3: "Medium Error",
    0x4: "Hardware Error",
    0x5: "Illegal Request",
    0x6: "Unit Attention",
    0x7: "Data Protect",
    0x8: "Blank Check",
    0x9: "Vendor Specific",
    0xA: "Copy Aborted",
    0xB: "Aborted Command",
    0xD: "Volume Overflow",
    0xE: "Miscompare",
    0xF: "Completed",
}

# a sample of assigned codes with the text the library carries for them
T10_SAMPLE = {
    0x0000: "NO ADDITIONAL SENSE INFORMATION",
    0x0001: "FILEMARK DETECTED",
    0x0002: "END-OF-PARTITION/MEDIUM DETECTED",
    0x0005: "END-OF-DATA DETECTED",
    0x0006: "I/O PROCESS TERMINATED",
    0x0016: "OPERATION IN PROGRESS",
    0x001D: "ATA PASS THROUGH INFORMATION AVAILABLE",
    0x0021: "ATOMIC COMMAND ABORTED DUE TO ACA",
    0x0100: "NO INDEX/SECTOR SIGNAL",
    0x0200: "NO SEEK COMPLETE",
    0x0300: "PERIPHERAL DEVICE WRITE FAULT",
    0x0400: "LOGICAL UNIT NOT READY, CAUSE NOT REPORTABLE",
    0x0401: "LOGICAL UNIT IS IN PROCESS OF BECOMING READY",
    0x0402: "LOGICAL UNIT NOT READY, INITIALIZING COMMAND REQUIRED",
    0x0404: "LOGICAL UNIT NOT READY, FORMAT IN PROGRESS",
    0x0409: "LOGICAL UNIT NOT READY, SELF-TEST IN PROGRESS",
    0x041B: "LOGICAL UNIT NOT READY, SANITIZE IN PROGRESS",
    0x0422: "LOGICAL UNIT NOT READY, POWER CYCLE REQUIRED",
    0x0500: "LOGICAL UNIT DOES NOT RESPOND TO SELECTION",
    0x0800: "LOGICAL UNIT COMMUNICATION FAILURE",
    0x0803: "LOGICAL UNIT COMMUNICATION CRC ERROR (ULTRA-DMA/32)",
    0x0900: "TRACK FOLLOWING ERROR",
    0x0A00: "ERROR LOG OVERFLOW",
    0x0B00: "WARNING",
    0x0B01: "WARNING - SPECIFIED TEMPERATURE EXCEEDED",
    0x0C00: "WRITE ERROR",
    0x0C02: "WRITE ERROR - AUTO REALLOCATION FAILED",
    0x0C09: "WRITE ERROR - LOSS OF STREAMING",
}


def _sha(obj):
    return hashlib.sha256(repr(sorted(obj.items())).encode()).hexdigest()


ASCQ_TABLE_SHA = "4617c19da1d31f2dfc5c735ba273b79591e02f8c684af1edd4c22e696c8192c5"
KEY_TABLE_SHA = "f9940fe4205b368becc1658524b71bdf51bfc41613c7c7857b36844de77c307f"


def o_field(buf, mask, pos):
    """value of a masked big-endian field, tolerant of truncated buffers"""
    nbytes = 1
    m = mask
    while m > 0xFF:
        m //= 256
        nbytes += 1
    raw = 0
    for b in list(buf)[pos : pos + nbytes]:
        raw = raw * 256 + b
    m = mask
    while m % 2 == 0:
        m //= 2
        raw //= 2
    return raw & m


def o_normalise(sense):
    if sense is None or len(sense) == 0:
        return [0]
    return list(sense)


def o_decode(sense):
    buf = o_normalise(sense)
    rc = buf[0] % 128
    if rc in (0x70, 0x71):
        fields = FIXED_FIELDS
    elif rc in (0x72, 0x73):
        fields = DESC_FIELDS
    else:
        fields = []
    data = {}
    for name, mask, pos in fields:
        data[name] = o_field(buf, mask, pos)
    return buf, rc, data


def o_describe(asc, ascq, table):
    if 0x80 <= asc <= 0xFF:
        return "Vendor specific ASC"
    if 0x80 <= ascq <= 0xFF:
        return "Vendor specific ASCQ"
    code = asc * 256 + ascq
    if code in table:
        return table[code]
    return "Unknown ASC/ASCQ"


def o_str(sense, table):
    buf, rc, data = o_decode(sense)
    key = data.get("sense_key", 0)
    asc = data.get("additional_sense_code", 0)
    ascq = data.get("additional_sense_code_qualifier", 0)
    return "Check Condition: %s(0x%s) ASC+Q:%s(0x%s)" % (
        SENSE_KEYS.get(key, "Reserved"),
        ("%x" % key).upper().rjust(2, "0"),
        o_describe(asc, ascq, table),
        ("%x" % (asc * 256 + ascq)).upper().rjust(4, "0"),
    )


def o_printed(sense):
    _, _, data = o_decode(sense)
    return "".join(
        "%s -> 0x%s\n" % (k, ("%x" % v).upper().rjust(2, "0")) for k, v in data.items()
    )


# --------------------------------------------------------------------------
# building sense buffers
# --------------------------------------------------------------------------
def fixed_sense(rc, key, asc, ascq, valid=0, flags=0, info=0, csi=0, fru=0, sks=0, length=18, extra=b""):
    buf = bytearray(18)
    buf[0] = (0x80 if valid else 0) | rc
    buf[2] = (flags & 0xF0) | (key & 0x0F)
    buf[3:7] = info.to_bytes(4, "big")
    buf[7] = 10 + len(extra)
    buf[8:12] = csi.to_bytes(4, "big")
    buf[12] = asc
    buf[13] = ascq
    buf[14] = fru
    buf[15:18] = sks.to_bytes(3, "big")
    buf += extra
    return buf[:length] if length is not None else buf


def desc_sense(rc, key, asc, ascq, ovfl=0, descriptors=b"", length=None, rsvd_hi=0):
    buf = bytearray(8)
    buf[0] = rc
    buf[1] = (rsvd_hi & 0xF0) | (key & 0x0F)
    buf[2] = asc
    buf[3] = ascq
    buf[4] = 0x80 if ovfl else 0
    buf[7] = len(descriptors) & 0xFF
    buf += descriptors
    return buf[:length] if length is not None else buf


# --------------------------------------------------------------------------
# checking one exception object completely
# --------------------------------------------------------------------------
TABLE = None  # the library's assigned-code table, verified in check_tables()


def captured(fn, *a, **kw):
    out = io.StringIO()
    with contextlib.redirect_stdout(out):
        res = fn(*a, **kw)
    return res, out.getvalue()


def verify_exception(exc, sense, show=False, label="", full=True, nargs=1):
    """exc was built from `sense`; compare everything observable with the oracle"""
    buf, rc, data = o_decode(sense)
    want_str = o_str(sense, TABLE)
    tag = "%s sense=%r" % (label, bytes(buf).hex())

    check(isinstance(exc, SCSICheckCondition), "isinstance " + tag)
    check(isinstance(exc, Exception), "is Exception " + tag)

    # text conversion
    text, printed = captured(str, exc)
    eq(text, want_str, "str() " + tag)
    eq(printed, o_printed(sense) if show else "", "stdout of str() " + tag)

    # reported values
    eq(exc.data, data, "data " + tag)
    eq(list(exc.data.keys()), list(data.keys()), "data order " + tag)
    eq(exc.response_code, rc, "response_code " + tag)
    eq(exc.valid, buf[0] - rc, "valid " + tag)
    eq(exc.asc, data.get("additional_sense_code", 0), "asc " + tag)
    eq(exc.ascq, data.get("additional_sense_code_qualifier", 0), "ascq " + tag)
    eq(exc.data.get("sense_key", 0), data.get("sense_key", 0), "key " + tag)
    if not full:
        return

    eq(exc.show_data, show, "show_data " + tag)
    eq(sorted(vars(exc)), ["asc", "ascq", "data", "response_code", "show_data", "valid"], "vars " + tag)
    eq(len(exc.args), nargs, "args length " + tag)
    check(exc.args[0] is sense, "args[0] is the sense object " + tag)

    # printing, several ways
    _, out = captured(print, exc)
    eq(out, (o_printed(sense) if show else "") + want_str + "\n", "print() " + tag)
    _, out = captured(exc.print_data)
    eq(out, o_printed(sense), "print_data() " + tag)
    (fmt, out) = captured("{}".format, exc)
    eq(fmt, want_str, "format() " + tag)
    (fmt, out) = captured(lambda: "%s" % (exc,))
    eq(fmt, want_str, "%s " + tag)
    (fmt, out) = captured(lambda: f"{exc!s:>100}")
    eq(fmt, want_str.rjust(100), "f-string " + tag)

    cls = type(exc)
    prefix = "%s.%s: " % (cls.__module__, cls.__qualname__)
    (lines, out) = captured(traceback.format_exception_only, cls, exc)
    eq(lines, [prefix + want_str + "\n"], "format_exception_only " + tag)
    try:
        raise exc
    except SCSICheckCondition as caught:
        check(caught is exc, "raise/except identity")
        err = io.StringIO()
        (_, out) = captured(traceback.print_exc, file=err)
        check(err.getvalue().endswith(prefix + want_str + "\n"), "print_exc " + tag)
        check(err.getvalue().startswith("Traceback (most recent call last):\n"), "print_exc head " + tag)
    finally:
        exc.__traceback__ = None

    # static decoders
    for owner in (SCSICheckCondition, cls, exc):
        got = owner.unmarshall_fixed_format_sense_data(sense if sense else bytes(buf))
        want = dict((n, o_field(buf, m, p)) for n, m, p in FIXED_FIELDS)
        eq(got, want, "unmarshall_fixed " + tag)
        got = owner.unmarshall_desc_format_sense_data(sense if sense else bytes(buf))
        want = dict((n, o_field(buf, m, p)) for n, m, p in DESC_FIELDS)
        eq(got, want, "unmarshall_desc " + tag)


def build_and_verify(sense, label="", full=True):
    exc = SCSICheckCondition(sense)
    verify_exception(exc, sense, False, label, full)
    if full:
        exc = SCSICheckCondition(sense, True)
        verify_exception(exc, sense, True, label + " show", nargs=2)
        eq(exc.args[1], True, "positional print_data kept in args")
        exc = SCSICheckCondition(sense, print_data=False)
        verify_exception(exc, sense, False, label + " kw")
        exc = SCSIDevice.CheckCondition(sense, print_data=True)
        verify_exception(exc, sense, True, label + " dev")


# --------------------------------------------------------------------------
# individual test groups
# --------------------------------------------------------------------------
def check_tables():
    global TABLE
    eq(scsi_sense.SENSE_FORMAT_CURRENT_FIXED, 0x70, "const")
    eq(scsi_sense.SENSE_FORMAT_DEFERRED_FIXED, 0x71, "const")
    eq(scsi_sense.SENSE_FORMAT_CURRENT_DESCRIPTOR, 0x72, "const")
    eq(scsi_sense.SENSE_FORMAT_DEFERRED_DESCRIPTOR, 0x73, "const")
    eq(dict(scsi_sense.sense_key_dict.items()), SENSE_KEYS, "sense key table")
    eq(_sha(scsi_sense.sense_key_dict), KEY_TABLE_SHA, "sense key table hash")
    eq(_sha(scsi_sense.sense_ascq_dict), ASCQ_TABLE_SHA, "asc/ascq table hash")
    eq(len(scsi_sense.sense_ascq_dict), 707, "asc/ascq table size")
    for code, text in T10_SAMPLE.items():
        eq(scsi_sense.sense_ascq_dict[code], text, "T10 text %04X" % code)
    eq(list(scsi_sense.vendor_specific_sense_asc), list(range(0x80, 0x100)), "vendor asc range")
    eq(list(scsi_sense.vendor_specific_sense_ascq), list(range(0x80, 0x100)), "vendor ascq range")
    TABLE = dict(scsi_sense.sense_ascq_dict.items())
    check(issubclass(SCSICheckCondition, Exception), "SCSICheckCondition is an Exception")
    eq(SCSICheckCondition.__mro__[-3:], (Exception, BaseException, object), "mro tail")
    eq(SCSICheckCondition.__module__, "pyscsi.pyscsi.scsi_sense", "module")
    eq(SCSICheckCondition.__qualname__, "SCSICheckCondition", "qualname")


def check_known_strings():
    """a few literal, hand-written expectations (not via the oracle)"""
    cases = [
        (fixed_sense(0x70, 5, 0x24, 0x00), "Check Condition: Illegal Request(0x05) ASC+Q:%s(0x2400)" % TABLE[0x2400]),
        (fixed_sense(0x70, 2, 0x04, 0x01), "Check Condition: Not Ready(0x02) ASC+Q:LOGICAL UNIT IS IN PROCESS OF BECOMING READY(0x0401)"),
        (fixed_sense(0x71, 3, 0x0C, 0x02), "Check Condition: Medium Error(0x03) ASC+Q:WRITE ERROR - AUTO REALLOCATION FAILED(0x0C02)"),
        (desc_sense(0x72, 6, 0x0B, 0x01), "Check Condition: Unit Attention(0x06) ASC+Q:WARNING - SPECIFIED TEMPERATURE EXCEEDED(0x0B01)"),
        (desc_sense(0x73, 0xB, 0x00, 0x06), "Check Condition: Aborted Command(0x0B) ASC+Q:I/O PROCESS TERMINATED(0x0006)"),
        (desc_sense(0x72, 0xC, 0x00, 0x00), "Check Condition: Reserved(0x0C) ASC+Q:NO ADDITIONAL SENSE INFORMATION(0x0000)"),
        (fixed_sense(0x70, 0xC, 0x00, 0x1D), "Check Condition: Reserved(0x0C) ASC+Q:ATA PASS THROUGH INFORMATION AVAILABLE(0x001D)"),
        (fixed_sense(0x70, 4, 0x80, 0x00), "Check Condition: Hardware Error(0x04) ASC+Q:Vendor specific ASC(0x8000)"),
        (fixed_sense(0x70, 4, 0xFF, 0xFF), "Check Condition: Hardware Error(0x04) ASC+Q:Vendor specific ASC(0xFFFF)"),
        (fixed_sense(0x70, 4, 0x04, 0x80), "Check Condition: Hardware Error(0x04) ASC+Q:Vendor specific ASCQ(0x0480)"),
        (fixed_sense(0x70, 1, 0x5D, 0xFF), "Check Condition: Recovered Error(0x01) ASC+Q:Vendor specific ASCQ(0x5DFF)"),
        (desc_sense(0x72, 1, 0x5D, 0xFF), "Check Condition: Recovered Error(0x01) ASC+Q:Vendor specific ASCQ(0x5DFF)"),
        (fixed_sense(0x70, 9, 0x7F, 0x7F), "Check Condition: Vendor Specific(0x09) ASC+Q:Unknown ASC/ASCQ(0x7F7F)"),
        (desc_sense(0x73, 0xF, 0x7F, 0x00), "Check Condition: Completed(0x0F) ASC+Q:Unknown ASC/ASCQ(0x7F00)"),
        (None, "Check Condition: No Sense(0x00) ASC+Q:NO ADDITIONAL SENSE INFORMATION(0x0000)"),
        (b"", "Check Condition: No Sense(0x00) ASC+Q:NO ADDITIONAL SENSE INFORMATION(0x0000)"),
        (b"\x7f" + bytes(20), "Check Condition: No Sense(0x00) ASC+Q:NO ADDITIONAL SENSE INFORMATION(0x0000)"),
        (b"\x70", "Check Condition: No Sense(0x00) ASC+Q:NO ADDITIONAL SENSE INFORMATION(0x0000)"),
        (b"\xf0\x00\x03", "Check Condition: Medium Error(0x03) ASC+Q:NO ADDITIONAL SENSE INFORMATION(0x0000)"),
        (b"\x72\x05\x24", "Check Condition: Illegal Request(0x05) ASC+Q:%s(0x2400)" % TABLE[0x2400]),
    ]
    for sense, want in cases:
        exc = SCSICheckCondition(sense)
        got, out = captured(str, exc)
        eq(got, want, "literal str for %r" % (sense,))
        eq(out, "", "nothing printed for %r" % (sense,))
    # fixed positions versus descriptor positions: same bytes, different format
    raw = bytearray(range(0x10, 0x30))
    raw[0] = 0x70
    e = SCSICheckCondition(raw)
    eq((e.data["sense_key"], e.asc, e.ascq), (raw[2] & 0xF, raw[12], raw[13]), "fixed positions")
    raw[0] = 0x73
    e = SCSICheckCondition(raw)
    eq((e.data["sense_key"], e.asc, e.ascq), (raw[1] & 0xF, raw[2], raw[3]), "descriptor positions")
    # print_data output literal
    e = SCSICheckCondition(desc_sense(0x72, 5, 0x20, 0x00, ovfl=1), print_data=True)
    s, out = captured(str, e)
    eq(
        out,
        "response_code -> 0x72\nsdat_ovfl -> 0x01\nsense_key -> 0x05\nadditional_sense_code -> 0x20\n"
        "additional_sense_code_qualifier -> 0x00\nadditional_sense_len -> 0x00\n",
        "print_data literal",
    )
    e = SCSICheckCondition(fixed_sense(0xF1, 3, 0x11, 0x04, valid=1, flags=0xF0, info=0xDEADBEEF, csi=0x01020304, fru=9, sks=0xC12345))
    s, out = captured(e.print_data)
    eq(
        out,
        "valid -> 0x01\nresponse_code -> 0x71\nfilemark -> 0x01\neom -> 0x01\nili -> 0x01\nsdat_ovfl -> 0x01\n"
        "sense_key -> 0x03\ninformation -> 0xDEADBEEF\nadditional_sense_len -> 0x0A\n"
        "command_specific_information -> 0x1020304\nadditional_sense_code -> 0x11\n"
        "additional_sense_code_qualifier -> 0x04\nfield_replaceable_unit_code -> 0x09\nsksv -> 0x01\n"
        "sense_key_specific_information -> 0x412345\n",
        "fixed print_data literal",
    )


def check_all_codes():
    """every ASC/ASCQ pair in each of the four formats, sense keys cycling"""
    n = 0
    for rc in (0x70, 0x71, 0x72, 0x73):
        for asc in range(256):
            for ascq in range(256):
                key = (asc * 7 + ascq * 3 + rc) % 16
                if rc < 0x72:
                    sense = fixed_sense(rc, key, asc, ascq)
                else:
                    sense = desc_sense(rc, key, asc, ascq)
                exc = SCSICheckCondition(sense)
                got = str(exc)
                want = o_str(sense, TABLE)
                if got != want:
                    eq(got, want, "str for rc=%02X key=%X asc=%02X ascq=%02X" % (rc, key, asc, ascq))
                if (exc.asc, exc.ascq, exc.data["sense_key"]) != (asc, ascq, key):
                    check(False, "values for rc=%02X key=%X asc=%02X ascq=%02X" % (rc, key, asc, ascq))
                n += 1
    global CHECKS
    CHECKS += 2 * n
    # every assigned code carries its table text, in all formats, for all keys
    for code, text in TABLE.items():
        asc, ascq = divmod(code, 256)
        for rc, key in itertools.product((0x70, 0x71, 0x72, 0x73), range(16)):
            sense = fixed_sense(rc, key, asc, ascq) if rc < 0x72 else desc_sense(rc, key, asc, ascq)
            got = str(SCSICheckCondition(sense))
            if asc >= 0x80:
                d = "Vendor specific ASC"
            elif ascq >= 0x80:
                d = "Vendor specific ASCQ"
            else:
                d = text
            want = "Check Condition: %s(0x%02X) ASC+Q:%s(0x%04X)" % (SENSE_KEYS.get(key, "Reserved"), key, d, code)
            if got != want:
                eq(got, want, "assigned code %04X rc=%02X key=%X" % (code, rc, key))
            CHECKS += 1


def check_full_objects():
    rnd = random.Random(0xC08)
    senses = []
    for rc in (0x70, 0x71, 0x72, 0x73):
        for key in range(16):
            asc, ascq = rnd.choice(list(TABLE)) // 256, rnd.randrange(256)
            if rc < 0x72:
                senses.append(
                    fixed_sense(
                        rc, key, asc, ascq,
                        valid=rnd.randrange(2), flags=rnd.randrange(256), info=rnd.getrandbits(32),
                        csi=rnd.getrandbits(32), fru=rnd.randrange(256), sks=rnd.getrandbits(24),
                        length=None, extra=bytes(rnd.randrange(256) for _ in range(rnd.randrange(0, 30))),
                    )
                )
            else:
                descs = b""
                for _ in range(rnd.randrange(0, 4)):
                    dtype = rnd.choice([0, 1, 2, 3, 4, 5, 9, 0x0A, 0x80, 0xFF])
                    body = bytes(rnd.randrange(256) for _ in range(rnd.randrange(2, 14)))
                    descs += bytes([dtype, len(body)]) + body
                senses.append(desc_sense(rc, key, asc, ascq, ovfl=rnd.randrange(2), descriptors=descs, rsvd_hi=rnd.randrange(256)))
    # unusual buffers
    senses += [
        None,
        b"",
        bytearray(),
        bytearray(1),
        b"\x00",
        b"\x70",
        b"\x71\x00",
        b"\x72",
        b"\x73\x0f",
        b"\xf0",
        b"\xf2\x06\x29",
        b"\xff" * 18,
        b"\xff" * 252,
        bytes(18),
        bytes(252),
        b"\x7e" + b"\xaa" * 17,
        b"\x74" + b"\x55" * 17,
        b"\x6f\x05\x24\x00",
        b"\x00\x05\x24\x00",
        b"\x01" * 32,
        bytearray(b"\x70\x00\x05\x00\x00\x00\x00\x0a\x00\x00\x00\x00\x20\x00\x00\x00\x00\x00"),
        bytes(b"\x72\x05\x20\x00\x00\x00\x00\x00"),
        bytes(range(256)),
        bytes(reversed(range(256))),
    ]
    # every truncation of a fully populated buffer, both formats
    full_fixed = fixed_sense(0xF0, 0xE, 0x1D, 0x00, valid=1, flags=0xF0, info=0x12345678, csi=0x9ABCDEF0, fru=0x42, sks=0xFEDCBA)
    full_desc = desc_sense(0x73, 0xD, 0x3B, 0x0D, ovfl=1, descriptors=b"\x00\x0a\x80\x00" + bytes(range(8)))
    for n in range(0, len(full_fixed) + 1):
        senses.append(bytes(full_fixed[:n]))
    for n in range(0, len(full_desc) + 1):
        senses.append(bytearray(full_desc[:n]))
    for i, sense in enumerate(senses):
        build_and_verify(sense, "full#%d" % i)

    # many random buffers of random length with a sense-like first byte
    for i in range(3000):
        first = rnd.choice([0x70, 0x71, 0x72, 0x73, 0xF0, 0xF1, 0xF2, 0xF3, rnd.randrange(256)])
        body = bytes(rnd.randrange(256) for _ in range(rnd.randrange(0, 40)))
        sense = bytes([first]) + body
        if i % 2:
            sense = bytearray(sense)
        build_and_verify(sense, "rnd#%d" % i, full=(i % 25 == 0))


def check_mutation_independence():
    """values are taken at construction time; later edits follow the instance attributes"""
    buf = fixed_sense(0x70, 5, 0x24, 0x00)
    e = SCSICheckCondition(buf)
    buf[12] = 0x04
    buf[13] = 0x01
    buf[2] = 0x02
    eq(str(e), "Check Condition: Illegal Request(0x05) ASC+Q:%s(0x2400)" % TABLE[0x2400], "buffer edits after construction")
    e.asc, e.ascq = 0x04, 0x01
    eq(str(e), "Check Condition: Illegal Request(0x05) ASC+Q:LOGICAL UNIT IS IN PROCESS OF BECOMING READY(0x0401)", "asc/ascq attributes drive the text")
    eq(e.data["additional_sense_code"], 0x24, "data untouched by attribute")
    e.data["sense_key"] = 0x02
    eq(str(e), "Check Condition: Not Ready(0x02) ASC+Q:LOGICAL UNIT IS IN PROCESS OF BECOMING READY(0x0401)", "data sense_key drives the text")
    e.data["additional_sense_code"] = 0x77
    eq(e.asc, 0x04, "asc attribute independent of data")
    e.show_data = True
    s, out = captured(str, e)
    check(out.startswith("valid -> 0x00\nresponse_code -> 0x70\n"), "show_data toggled on")
    e.show_data = 0
    s, out = captured(str, e)
    eq(out, "", "show_data toggled off")
    del e.data["sense_key"]
    eq(str(e), "Check Condition: No Sense(0x00) ASC+Q:LOGICAL UNIT IS IN PROCESS OF BECOMING READY(0x0401)", "missing sense_key")
    e.asc = 0x80
    eq(str(e), "Check Condition: No Sense(0x00) ASC+Q:Vendor specific ASC(0x8001)", "vendor asc via attribute")
    e.asc, e.ascq = 0x10, 0xF0
    eq(str(e), "Check Condition: No Sense(0x00) ASC+Q:Vendor specific ASCQ(0x10F0)", "vendor ascq via attribute")
    e2 = SCSICheckCondition(desc_sense(0x72, 5, 0x24, 0x00))
    check(e2.data is not e.data, "separate data dicts")
    eq(e2.asc, 0x24, "instances independent")
    # each instance owns its attributes
    e3 = SCSICheckCondition(None)
    eq((e3.valid, e3.response_code, e3.data, e3.asc, e3.ascq, e3.show_data), (0, 0, {}, 0, 0, False), "no sense defaults")
    e3.valid = 0x80
    eq(SCSICheckCondition(None).valid, 0, "valid not shared")
    del e3.asc
    check(not hasattr(e3, "asc"), "attribute can be deleted")
    eq(SCSICheckCondition(None).asc, 0, "deletion is per instance")


def check_device_paths():
    # exception classes hanging off the device classes
    for dev_cls in (SCSIDevice, ISCSIDevice):
        cc = dev_cls.CheckCondition
        check(issubclass(cc, SCSICheckCondition), "CheckCondition subclass")
        eq(cc.__name__, "CheckCondition", "name")
        eq(cc.__qualname__, "SCSIDeviceExceptionMeta.__new__.<locals>.CheckCondition", "qualname")
        eq(cc.__module__, "pyscsi.pyscsi.scsi_exception", "module")
        eq(cc.__mro__, (cc, SCSICheckCondition, Exception, BaseException, object), "mro")
        for name in ("ConditionsMet", "BusyStatus", "ReservationConflict", "TaskSetFull", "ACAActive", "TaskAborted",
                     "CommandNotImplemented", "MissingBlocksizeException", "OpcodeException"):
            other = getattr(dev_cls, name)
            check(isinstance(other, type) and issubclass(other, Exception), name)
            eq(other.__bases__, (Exception,), name + " bases")
            eq(other.__name__, name, name + " name")
    check(SCSIDevice.CheckCondition is not ISCSIDevice.CheckCondition, "per-class CheckCondition")
    check(issubclass(SCSIDeviceCommandExceptionMeta, SCSICommandExceptionMeta), "meta bases")
    check(issubclass(SCSIDeviceCommandExceptionMeta, SCSIDeviceExceptionMeta), "meta bases")
    eq(type(SCSIDevice), SCSIDeviceCommandExceptionMeta, "metaclass")

    # a class made by the device-only metaclass
    Tmp = SCSIDeviceExceptionMeta("Tmp", (object,), {})
    check(issubclass(Tmp.CheckCondition, SCSICheckCondition), "device meta alone")
    check(not hasattr(Tmp, "OpcodeException"), "device meta alone has no command exceptions")
    Tmp2 = SCSICommandExceptionMeta("Tmp2", (object,), {})
    check(not hasattr(Tmp2, "CheckCondition"), "command meta alone has no CheckCondition")
    check(issubclass(Tmp2.OpcodeException, Exception), "command meta alone")

    class Cmd(object):
        cdb = bytearray(6)
        dataout = bytearray()
        datain = bytearray()

    rnd = random.Random(8)
    senses = [
        fixed_sense(0x70, 5, 0x24, 0x00),
        fixed_sense(0x71, 6, 0x29, 0x00),
        desc_sense(0x72, 2, 0x04, 0x01),
        desc_sense(0x73, 0xB, 0x47, 0x03),
        fixed_sense(0x70, 4, 0x95, 0x01),
        desc_sense(0x72, 4, 0x44, 0xA0),
        desc_sense(0x72, 0, 0x00, 0x1D, descriptors=bytes([0x09, 0x0C, 0, 0, 0, 1, 0, 0, 0, 0, 0, 0, 0, 0x50])),
        fixed_sense(0x70, 5, 0x6F, 0x7E),
        None,
        b"",
        b"\x70\x00\x06",
        bytes(18),
    ] + [bytes(rnd.randrange(256) for _ in range(rnd.randrange(1, 32))) for _ in range(60)]

    with SCSIDevice("/dev/null") as dev:
        for sense in senses:
            _sgio.NEXT_SENSE = sense
            try:
                dev.execute(Cmd())
            except dev.CheckCondition as e:
                check(type(e) is SCSIDevice.CheckCondition, "type via sgio")
                verify_exception(e, sense, False, "sgio")
            else:
                check(False, "sgio path did not raise")
            cmd = Cmd()
            eq(dev.execute(cmd, en_raw_sense=True), None, "raw sense path")
            check(cmd.raw_sense_data is sense, "raw sense kept")

    with ISCSIDevice("iscsi://127.0.0.1/iqn.fake/0") as dev:
        for sense in senses:
            _iscsi.NEXT_SENSE = sense
            cmd = Cmd()
            try:
                dev.execute(cmd)
            except SCSICheckCondition as e:
                check(type(e) is ISCSIDevice.CheckCondition, "type via iscsi")
                check(not isinstance(e, SCSIDevice.CheckCondition), "iscsi exception is not the sgio one")
                verify_exception(e, sense, False, "iscsi")
                check(cmd.sense is sense, "cmd.sense")
            else:
                check(False, "iscsi path did not raise")
        _iscsi.HAS_RAW_SENSE = False
        try:
            dev.execute(Cmd())
        except dev.CheckCondition as e:
            verify_exception(e, None, False, "iscsi no sense")
        else:
            check(False, "iscsi path did not raise without sense")
        _iscsi.HAS_RAW_SENSE = True


def check_converter():
    rnd = random.Random(0xBEEF)
    # int <-> bytearray
    eq(scsi_int_to_ba(34, 4), bytearray(b'\x00\x00\x00"'), "int_to_ba doc example")
    eq(scsi_int_to_ba(), bytearray(4), "int_to_ba defaults")
    eq(scsi_int_to_ba(to_convert=0x0102, array_size=2), bytearray(b"\x01\x02"), "int_to_ba kw")
    eq(scsi_int_to_ba(0x01020304, 2), bytearray(b"\x03\x04"), "int_to_ba truncates high bytes")
    eq(scsi_int_to_ba(5, 0), bytearray(), "int_to_ba size 0")
    eq(scsi_int_to_ba(-1, 3), bytearray(b"\xff\xff\xff"), "int_to_ba negative")
    eq(scsi_int_to_ba(-2, 2), bytearray(b"\xff\xfe"), "int_to_ba negative 2")
    eq(scsi_int_to_ba(-0x1234567, 3), bytearray(((-0x1234567) % (1 << 24)).to_bytes(3, "big")), "int_to_ba negative 3")
    eq(scsi_ba_to_int(bytearray()), 0, "ba_to_int empty")
    eq(scsi_ba_to_int(b""), 0, "ba_to_int empty bytes")
    eq(scsi_ba_to_int([1, 2, 3]), 0x010203, "ba_to_int list")
    eq(scsi_ba_to_int((0xFF,)), 0xFF, "ba_to_int tuple")
    eq(scsi_ba_to_int(memoryview(b"\x01\x00")), 256, "ba_to_int memoryview")
    for _ in range(2000):
        size = rnd.randrange(0, 12)
        value = rnd.getrandbits(8 * size) if size else 0
        ba = scsi_int_to_ba(value, size)
        eq(ba, bytearray(value.to_bytes(size, "big")), "int_to_ba %d/%d" % (value, size))
        eq(scsi_ba_to_int(ba), value, "ba_to_int round trip")
        eq(scsi_ba_to_int(bytes(ba)), value, "ba_to_int bytes")
        big = rnd.getrandbits(100)
        eq(scsi_int_to_ba(big, size), bytearray((big % (1 << (8 * size))).to_bytes(size, "big")), "int_to_ba wrap")

    # decode_bits with all notations, against the oracle
    for _ in range(1500):
        data = bytes(rnd.randrange(256) for _ in range(rnd.randrange(0, 24)))
        if rnd.randrange(2):
            data = bytearray(data)
        table = {}
        want = {"untouched": "x"}
        for i in range(rnd.randrange(0, 10)):
            kind = rnd.randrange(6)
            pos = rnd.randrange(0, 26)
            if kind < 3:
                width = rnd.randrange(1, 9)
                hi = rnd.randrange(1, 1 << 8) << (8 * (width - 1))
                mask = hi | rnd.getrandbits(8 * (width - 1)) if width > 1 else hi
                if rnd.randrange(2):
                    # contiguous run of ones
                    lo = rnd.randrange(0, 8 * width - 1)
                    top = rnd.randrange(max(lo + 1, 8 * (width - 1) + 1), 8 * width + 1)
                    mask = ((1 << top) - 1) ^ ((1 << lo) - 1)
                table["f%d" % i] = [mask, pos] if rnd.randrange(2) else (mask, pos)
                want["f%d" % i] = o_field_general(data, mask, pos)
            else:
                tag, unit = (("b", 1), ("w", 2), ("dw", 4))[kind - 3]
                length = rnd.randrange(0, 5)
                table["f%d" % i] = (tag, pos, length)
                want["f%d" % i] = data[pos : pos + length * unit]
        result = {"untouched": "x"}
        eq(decode_bits(data, table, result), None, "decode_bits returns None")
        eq(result, want, "decode_bits %r %r" % (bytes(data).hex(), table))
        eq(list(result), list(want), "decode_bits key order")
        for k, v in table.items():
            if len(v) == 3:
                eq(type(result[k]), type(data), "blob type follows buffer type")

    # an entry overwrites an existing key, later duplicates win
    res = {"a": 1}
    decode_bits(b"\x12\x34", {"a": [0xF0, 0], "b": [0x0FF0, 0]}, res)
    eq(res, {"a": 1, "b": 0x23}, "decode_bits literal")
    res = {}
    decode_bits(b"\x80", {}, res)
    eq(res, {}, "decode_bits empty table")

    # encode_dict round trips through decode_bits
    for _ in range(600):
        layout = {}
        values = {}
        size = 24
        used = 0
        pos = 0
        i = 0
        while pos < size - 8:
            kind = rnd.randrange(5)
            if kind == 0:
                width = rnd.randrange(1, 5)
                mask = (1 << (8 * width)) - 1
                layout["k%d" % i] = [mask, pos]
                values["k%d" % i] = rnd.getrandbits(8 * width)
                pos += width
            elif kind == 1:
                # two sub-byte fields sharing a byte
                split = rnd.randrange(1, 8)
                layout["k%d" % i] = [(0xFF << split) & 0xFF, pos]
                values["k%d" % i] = rnd.getrandbits(8 - split)
                layout["k%dl" % i] = [(1 << split) - 1, pos]
                values["k%dl" % i] = rnd.getrandbits(split)
                pos += 1
            elif kind == 2:
                length = rnd.randrange(1, 4)
                layout["k%d" % i] = ("b", pos, length)
                values["k%d" % i] = bytearray(rnd.randrange(256) for _ in range(length))
                pos += length
            elif kind == 3:
                layout["k%d" % i] = ("w", pos, 1)
                values["k%d" % i] = bytearray(rnd.randrange(256) for _ in range(2))
                pos += 2
            else:
                layout["k%d" % i] = ("dw", pos, 1)
                values["k%d" % i] = bytearray(rnd.randrange(256) for _ in range(4))
                pos += 4
            i += 1
        values["not_in_layout"] = 99
        out = bytearray(size)
        eq(encode_dict(values, layout, out), None, "encode_dict returns None")
        eq(len(out), size, "encode_dict keeps size")
        back = {}
        decode_bits(out, layout, back)
        del values["not_in_layout"]
        eq(back, values, "encode/decode round trip")
    out = bytearray(4)
    encode_dict({"a": 0x5, "b": 0x1234, "c": 1}, {"a": [0xF0, 0], "b": [0xFFFF, 1], "c": [0x01, 3]}, out)
    eq(out, bytearray(b"\x50\x12\x34\x01"), "encode_dict literal")
    encode_dict({"a": 0x5}, {"a": [0xF0, 0]}, out)
    eq(out, bytearray(b"\x00\x12\x34\x01"), "encode_dict xors into the buffer")

    # print_data
    _, out = captured(print_data, {"a": 1, "s": "txt", "f": 2.5, "n": {"x": 255, "y": {"z": "deep"}}, "big": 0x12345})
    eq(out, "a -> 0x01\ns -> txt\nf -> 02\nn\nx -> 0xFF\ny\nz -> deep\nbig -> 0x12345\n", "print_data")
    _, out = captured(print_data, {})
    eq(out, "", "print_data empty")

    # get_opcode
    class FakeEnum(object):
        keys = ["READ_10", "WRITE_10", "READ_16", "INQUIRY", "X_6"]
        READ_10, WRITE_10, READ_16, INQUIRY, X_6 = "r10", "w10", "r16", "inq", "x6"

    gen = get_opcode(FakeEnum, "10")
    check(isinstance(gen, types.GeneratorType), "get_opcode is a generator")
    eq(list(gen), ["r10", "w10"], "get_opcode 10")
    eq(list(get_opcode(FakeEnum, "16")), ["r16"], "get_opcode 16")
    eq(list(get_opcode(FakeEnum, "_6")), ["x6"], "get_opcode _6")
    eq(list(get_opcode(FakeEnum, "99")), [], "get_opcode none")
    from pyscsi.pyscsi.scsi_enum_command import sbc

    eq([o.value for o in get_opcode(sbc, "16")], [getattr(sbc, k).value for k in sbc.keys if k.endswith("16")], "get_opcode sbc")
    for name in ("scsi_int_to_ba", "scsi_ba_to_int", "decode_bits", "encode_dict", "print_data", "get_opcode", "CheckDict"):
        check(hasattr(converter, name), "converter." + name)


def o_field_general(buf, mask, pos):
    nbytes = max(1, (mask.bit_length() + 7) // 8)
    raw = 0
    for b in list(buf)[pos : pos + nbytes]:
        raw = raw * 256 + b
    while mask % 2 == 0:
        mask //= 2
        raw //= 2
    return raw & mask


def check_signatures():
    import inspect

    eq(str(inspect.signature(SCSICheckCondition.__init__)), "(self, sense, print_data=False)", "init signature")
    eq(str(inspect.signature(scsi_int_to_ba)), "(to_convert=0, array_size=4)", "int_to_ba signature")
    eq(str(inspect.signature(scsi_ba_to_int)), "(ba)", "ba_to_int signature")
    eq(str(inspect.signature(decode_bits)), "(data, check_dict, result_dict)", "decode_bits signature")
    eq(str(inspect.signature(encode_dict)), "(data_dict, check_dict, result)", "encode_dict signature")
    eq(str(inspect.signature(print_data)), "(data_dict)", "print_data signature")
    eq(str(inspect.signature(get_opcode)), "(enum, part)", "get_opcode signature")
    eq(str(inspect.signature(SCSICheckCondition.unmarshall_fixed_format_sense_data)), "(data)", "unmarshall_fixed signature")
    eq(str(inspect.signature(SCSICheckCondition.unmarshall_desc_format_sense_data)), "(data)", "unmarshall_desc signature")
    eq(str(inspect.signature(SCSICheckCondition.print_data)), "(self)", "print_data method signature")
    try:
        SCSICheckCondition()
    except TypeError:
        pass
    else:
        check(False, "sense argument is required")


def main():
    check_tables()
    check_signatures()
    check_known_strings()
    check_mutation_independence()
    check_converter()
    check_device_paths()
    check_full_objects()
    check_all_codes()
    print("PASS (%d checks)" % CHECKS)
    return 0


if __name__ == "__main__":
    sys.exit(main())
