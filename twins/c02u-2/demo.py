#!/usr/bin/env python
# Demo / oracle for property C02:
#   decoding a CDB the library built returns exactly the field values it was
#   built from, re-encoding a decoded CDB reproduces the original bytes, and
#   changing one field's value changes only that field's decoded value.
#
# Run:  cd /tmp/seed/C02u && PYTHONPATH=/tmp/seed/C02u /venv/bin/python SEED/demo.py
import hashlib
import inspect
import random
import sys
import types

for _name in ("sgio", "iscsi"):
    if _name not in sys.modules:
        try:
            __import__(_name)
        except Exception:
            sys.modules[_name] = types.ModuleType(_name)

from pyscsi.pyscsi.scsi import SCSI
from pyscsi.pyscsi.scsi_cdb_atapassthrough12 import ATAPassThrough12
from pyscsi.pyscsi.scsi_cdb_atapassthrough16 import ATAPassThrough16
from pyscsi.pyscsi.scsi_cdb_exchangemedium import ExchangeMedium
from pyscsi.pyscsi.scsi_cdb_extended_copy_spc4 import ExtendedCopy as ExtendedCopy4
from pyscsi.pyscsi.scsi_cdb_extended_copy_spc5 import ExtendedCopy as ExtendedCopy5
from pyscsi.pyscsi.scsi_cdb_getlbastatus import GetLBAStatus
from pyscsi.pyscsi.scsi_cdb_initelementstatus import InitializeElementStatus
from pyscsi.pyscsi.scsi_cdb_initelementstatuswithrange import (
    InitializeElementStatusWithRange,
)
from pyscsi.pyscsi.scsi_cdb_inquiry import Inquiry
from pyscsi.pyscsi.scsi_cdb_modesense6 import ModeSelect6, ModeSense6
from pyscsi.pyscsi.scsi_cdb_modesense10 import ModeSelect10, ModeSense10
from pyscsi.pyscsi.scsi_cdb_movemedium import MoveMedium
from pyscsi.pyscsi.scsi_cdb_openclose_exportimport_element import (
    OpenCloseImportExportElement,
)
from pyscsi.pyscsi.scsi_cdb_persistentreservein import (
    PersistentReserveIn,
    PersistentReserveInReadFullStatus,
    PersistentReserveInReadKeys,
    PersistentReserveInReadReservation,
    PersistentReserveInReportCapabilities,
)
from pyscsi.pyscsi.scsi_cdb_persistentreserveout import PersistentReserveOut
from pyscsi.pyscsi.scsi_cdb_positiontoelement import PositionToElement
from pyscsi.pyscsi.scsi_cdb_preventallow_mediumremoval import PreventAllowMediumRemoval
from pyscsi.pyscsi.scsi_cdb_read10 import Read10
from pyscsi.pyscsi.scsi_cdb_read12 import Read12
from pyscsi.pyscsi.scsi_cdb_read16 import Read16
from pyscsi.pyscsi.scsi_cdb_readcapacity10 import ReadCapacity10
from pyscsi.pyscsi.scsi_cdb_readcapacity16 import ReadCapacity16
from pyscsi.pyscsi.scsi_cdb_readcd import ReadCd
from pyscsi.pyscsi.scsi_cdb_readdiscinformation import ReadDiscInformation
from pyscsi.pyscsi.scsi_cdb_readelementstatus import ReadElementStatus
from pyscsi.pyscsi.scsi_cdb_report_luns import ReportLuns
from pyscsi.pyscsi.scsi_cdb_report_priority import ReportPriority
from pyscsi.pyscsi.scsi_cdb_report_target_port_groups import ReportTargetPortGroups
from pyscsi.pyscsi.scsi_cdb_synchronize_cache10 import SynchronizeCache10
from pyscsi.pyscsi.scsi_cdb_synchronize_cache16 import SynchronizeCache16
from pyscsi.pyscsi.scsi_cdb_testunitready import TestUnitReady
from pyscsi.pyscsi.scsi_cdb_write10 import Write10
from pyscsi.pyscsi.scsi_cdb_write12 import Write12
from pyscsi.pyscsi.scsi_cdb_write16 import Write16
from pyscsi.pyscsi.scsi_cdb_writesame10 import WriteSame10
from pyscsi.pyscsi.scsi_cdb_writesame16 import WriteSame16
from pyscsi.pyscsi.scsi_command import SCSICommand
from pyscsi.pyscsi.scsi_enum_command import mmc, sbc, smc, spc, ssc
from pyscsi.pyscsi.scsi_opcode import OpCode
from pyscsi.utils.converter import (
    decode_bits,
    encode_dict,
    scsi_ba_to_int,
    scsi_int_to_ba,
)

FAILURES = []
DIGEST = hashlib.sha256()
CHECKS = 0


def check(cond, msg):
    global CHECKS
    CHECKS += 1
    if not cond:
        FAILURES.append(msg)
        if len(FAILURES) <= 25:
            print("FAIL:", msg)


def record(*items):
    DIGEST.update(repr(items).encode())


# --------------------------------------------------------------------------
# independent model of the layouts (offset, mask-in-field, width in bytes)
# name -> (byte offset, bitmask)  -- a copy of the SCSI standards' CDB layouts
# --------------------------------------------------------------------------
def F(mask, off):
    return (mask, off)


class Spec:
    def __init__(self, name, cls, opcode, size, layout, build, fixed=None, extra=None):
        self.name = name
        self.cls = cls
        self.opcode = opcode
        self.size = size
        self.layout = layout  # field -> (mask, offset); includes opcode + fixed
        self.build = build  # callable(values dict) -> command
        self.fixed = dict(fixed or {})
        self.fixed["opcode"] = opcode.value
        self.extra = extra

    def variable_fields(self):
        return [k for k in self.layout if k not in self.fixed]


def width(mask):
    n = 1
    while mask > 0xFF:
        mask >>= 8
        n += 1
    return n


def shift_of(mask):
    s = 0
    while not mask & 1:
        mask >>= 1
        s += 1
    return s


def maxval(mask):
    return mask >> shift_of(mask)


def model_encode(spec, values):
    out = bytearray(spec.size)
    for k, v in values.items():
        mask, off = spec.layout[k]
        n = width(mask)
        word = (v << shift_of(mask)) & ((1 << (8 * n)) - 1)
        for i in range(n):
            out[off + i] |= (word >> (8 * (n - 1 - i))) & 0xFF
    return out


def kw(**mapping):
    """return a function translating CDB field names to constructor kwargs"""

    def tr(values):
        return {mapping.get(k, k): v for k, v in values.items()}

    return tr


SPECS = []


def add(*a, **k):
    SPECS.append(Spec(*a, **k))


RD = lambda cls: lambda v: cls(cls_op[cls], 512, **v)
cls_op = {}


def rw_layout(prot, w):
    lay = {
        "opcode": F(0xFF, 0),
        prot: F(0xE0, 1),
        "dpo": F(0x10, 1),
        "fua": F(0x08, 1),
    }
    if prot == "rdprotect":
        lay["rarc"] = F(0x04, 1)
    if w == 10:
        lay.update(lba=F(0xFFFFFFFF, 2), group=F(0x1F, 6), tl=F(0xFFFF, 7))
    elif w == 12:
        lay.update(lba=F(0xFFFFFFFF, 2), tl=F(0xFFFFFFFF, 6), group=F(0x1F, 10))
    else:
        lay.update(lba=F(0xFFFFFFFFFFFFFFFF, 2), tl=F(0xFFFFFFFF, 10), group=F(0x1F, 14))
    return lay


for cls, op, w in ((Read10, sbc.READ_10, 10), (Read12, sbc.READ_12, 12), (Read16, sbc.READ_16, 16)):
    add(
        cls.__name__, cls, op, w, rw_layout("rdprotect", w),
        (lambda cls, op: lambda v: cls(op, 512, **{**v, "tl": min(v["tl"], 64)}))(cls, op),
        extra="tlcap",
    )
for cls, op, w in ((Write10, sbc.WRITE_10, 10), (Write12, sbc.WRITE_12, 12), (Write16, sbc.WRITE_16, 16)):
    add(
        cls.__name__, cls, op, w, rw_layout("wrprotect", w),
        (lambda cls, op: lambda v: cls(op, 512, data=bytearray(b"\xa5" * 16), **{**v, "tl": min(v["tl"], 64)}))(cls, op),
        extra="tlcap",
    )

add(
    "WriteSame10", WriteSame10, sbc.WRITE_SAME_10, 10,
    {"opcode": F(0xFF, 0), "wrprotect": F(0xE0, 1), "anchor": F(0x10, 1), "unmap": F(0x08, 1),
     "lba": F(0xFFFFFFFF, 2), "group": F(0x1F, 6), "nb": F(0xFFFF, 7)},
    lambda v: WriteSame10(sbc.WRITE_SAME_10, 512, data=bytearray(512), **v),
)
add(
    "WriteSame16", WriteSame16, sbc.WRITE_SAME_16, 16,
    {"opcode": F(0xFF, 0), "wrprotect": F(0xE0, 1), "anchor": F(0x10, 1), "unmap": F(0x08, 1),
     "ndob": F(0x01, 1), "lba": F(0xFFFFFFFFFFFFFFFF, 2), "group": F(0x1F, 14), "nb": F(0xFFFFFFFF, 10)},
    lambda v: WriteSame16(sbc.WRITE_SAME_16, 512, data=bytearray(512), **v),
)
add(
    "SynchronizeCache10", SynchronizeCache10, sbc.SYNCHRONIZE_CACHE_10, 10,
    {"opcode": F(0xFF, 0), "immed": F(0x02, 1), "lba": F(0xFFFFFFFF, 2), "group": F(0x1F, 6), "numblks": F(0xFFFF, 7)},
    lambda v: SynchronizeCache10(sbc.SYNCHRONIZE_CACHE_10, **v),
)
add(
    "SynchronizeCache16", SynchronizeCache16, sbc.SYNCHRONIZE_CACHE_16, 16,
    {"opcode": F(0xFF, 0), "immed": F(0x02, 1), "lba": F(0xFFFFFFFFFFFFFFFF, 2), "numblks": F(0xFFFFFFFF, 10), "group": F(0x1F, 14)},
    lambda v: SynchronizeCache16(sbc.SYNCHRONIZE_CACHE_16, **v),
)
add(
    "ExchangeMedium", ExchangeMedium, smc.EXCHANGE_MEDIUM, 12,
    {"opcode": F(0xFF, 0), "medium_transport_address": F(0xFFFF, 2), "source_address": F(0xFFFF, 4),
     "first_destination_address": F(0xFFFF, 6), "second_destination_address": F(0xFFFF, 8),
     "inv2": F(0x01, 10), "inv1": F(0x02, 10)},
    lambda v: ExchangeMedium(smc.EXCHANGE_MEDIUM, **kw(
        medium_transport_address="xfer", source_address="source",
        first_destination_address="dest1", second_destination_address="dest2")(v)),
)
add(
    "GetLBAStatus", GetLBAStatus, sbc.SBC_OPCODE_9E, 16,
    {"opcode": F(0xFF, 0), "service_action": F(0x1F, 1), "lba": F(0xFFFFFFFFFFFFFFFF, 2), "alloc_len": F(0xFFFFFFFF, 10)},
    lambda v: GetLBAStatus(sbc.SBC_OPCODE_9E, **kw(alloc_len="alloclen")({**v, "alloc_len": min(v["alloc_len"], 70000)})),
    fixed={"service_action": 0x12}, extra="alloccap",
)
add(
    "InitializeElementStatus", InitializeElementStatus, smc.INITIALIZE_ELEMENT_STATUS, 6,
    {"opcode": F(0xFF, 0)}, lambda v: InitializeElementStatus(smc.INITIALIZE_ELEMENT_STATUS),
)
add(
    "InitializeElementStatusWithRange", InitializeElementStatusWithRange,
    smc.INITIALIZE_ELEMENT_STATUS_WITH_RANGE, 10,
    {"opcode": F(0xFF, 0), "fast": F(0x02, 1), "range": F(0x01, 1),
     "starting_element_address": F(0xFFFF, 2), "number_of_elements": F(0xFFFF, 6)},
    lambda v: InitializeElementStatusWithRange(smc.INITIALIZE_ELEMENT_STATUS_WITH_RANGE, **kw(
        starting_element_address="xfer", number_of_elements="elements", range="rng")(v)),
)
add(
    "Inquiry", Inquiry, spc.INQUIRY, 6,
    {"opcode": F(0xFF, 0), "evpd": F(0x01, 1), "page_code": F(0xFF, 2), "alloc_len": F(0xFFFF, 3)},
    lambda v: Inquiry(spc.INQUIRY, **kw(alloc_len="alloclen")(v)),
)
add(
    "ModeSense6", ModeSense6, spc.MODE_SENSE_6, 6,
    {"opcode": F(0xFF, 0), "dbd": F(0x08, 1), "pc": F(0xC0, 2), "page_code": F(0x3F, 2),
     "sub_page_code": F(0xFF, 3), "alloc_len": F(0xFF, 4)},
    lambda v: ModeSense6(spc.MODE_SENSE_6, **kw(alloc_len="alloclen")(v)),
)
add(
    "ModeSense10", ModeSense10, spc.MODE_SENSE_10, 10,
    {"opcode": F(0xFF, 0), "dbd": F(0x08, 1), "pc": F(0xC0, 2), "page_code": F(0x3F, 2),
     "sub_page_code": F(0xFF, 3), "alloc_len": F(0xFFFF, 7), "llbaa": F(0x10, 1)},
    lambda v: ModeSense10(spc.MODE_SENSE_10, **kw(alloc_len="alloclen")(v)),
)
add(
    "MoveMedium", MoveMedium, smc.MOVE_MEDIUM, 12,
    {"opcode": F(0xFF, 0), "medium_transport_address": F(0xFFFF, 2), "source_address": F(0xFFFF, 4),
     "destination_address": F(0xFFFF, 6), "invert": F(0x01, 10)},
    lambda v: MoveMedium(smc.MOVE_MEDIUM, **kw(
        medium_transport_address="xfer", source_address="source", destination_address="dest")(v)),
)
add(
    "OpenCloseImportExportElement", OpenCloseImportExportElement,
    smc.OPEN_CLOSE_IMPORT_EXPORT_ELEMENT, 6,
    {"opcode": F(0xFF, 0), "element_address": F(0xFFFF, 2), "action_code": F(0x1F, 4)},
    lambda v: OpenCloseImportExportElement(smc.OPEN_CLOSE_IMPORT_EXPORT_ELEMENT, **kw(
        element_address="xfer", action_code="acode")(v)),
)
add(
    "PersistentReserveIn", PersistentReserveIn, spc.PERSISTENT_RESERVE_IN, 10,
    {"opcode": F(0xFF, 0), "service_action": F(0x1F, 1), "alloc_len": F(0xFFFF, 7)},
    lambda v: PersistentReserveIn(spc.PERSISTENT_RESERVE_IN, **kw(alloc_len="alloclen")(v)),
)
for _cls, _sa in (
    (PersistentReserveInReadKeys, 0), (PersistentReserveInReadReservation, 1),
    (PersistentReserveInReportCapabilities, 2), (PersistentReserveInReadFullStatus, 3),
):
    add(
        _cls.__name__, _cls, spc.PERSISTENT_RESERVE_IN, 10,
        {"opcode": F(0xFF, 0), "service_action": F(0x1F, 1), "alloc_len": F(0xFFFF, 7)},
        (lambda c: lambda v: c(spc.PERSISTENT_RESERVE_IN, **kw(alloc_len="alloclen")(v)))(_cls),
        fixed={"service_action": _sa},
    )
add(
    "PersistentReserveOut", PersistentReserveOut, spc.PERSISTENT_RESERVE_OUT, 10,
    {"opcode": F(0xFF, 0), "service_action": F(0x1F, 1), "scope": F(0xF0, 2), "pr_type": F(0x0F, 2),
     "parameter_list_length": F(0xFFFFFFFF, 5)},
    lambda v: PersistentReserveOut(spc.PERSISTENT_RESERVE_OUT, v["service_action"] % 7,
                                   scope=v["scope"], pr_type=v["pr_type"],
                                   reservation_key=0x1122334455667788),
    fixed={"parameter_list_length": 24}, extra="sa_mod7",
)
add(
    "PositionToElement", PositionToElement, smc.POSITION_TO_ELEMENT, 10,
    {"opcode": F(0xFF, 0), "medium_transport_address": F(0xFFFF, 2), "destination_address": F(0xFFFF, 4),
     "invert": F(0x01, 8)},
    lambda v: PositionToElement(smc.POSITION_TO_ELEMENT, **kw(
        medium_transport_address="xfer", destination_address="dest")(v)),
)
add(
    "PreventAllowMediumRemoval", PreventAllowMediumRemoval, spc.PREVENT_ALLOW_MEDIUM_REMOVAL, 6,
    {"opcode": F(0xFF, 0), "prevent": F(0x03, 4)},
    lambda v: PreventAllowMediumRemoval(spc.PREVENT_ALLOW_MEDIUM_REMOVAL, **v),
)
add(
    "ReadCapacity10", ReadCapacity10, sbc.READ_CAPACITY_10, 10,
    {"opcode": F(0xFF, 0)}, lambda v: ReadCapacity10(sbc.READ_CAPACITY_10),
)
add(
    "ReadCapacity16", ReadCapacity16, sbc.SBC_OPCODE_9E, 16,
    {"opcode": F(0xFF, 0), "service_action": F(0x1F, 1), "alloc_len": F(0xFFFFFFFF, 10)},
    lambda v: ReadCapacity16(sbc.SBC_OPCODE_9E, alloclen=min(v["alloc_len"], 70000)),
    fixed={"service_action": 0x10}, extra="alloccap",
)
add(
    "ReadCd", ReadCd, mmc.READ_CD, 12,
    {"opcode": F(0xFF, 0), "est": F(0x1C, 1), "dap": F(0x02, 1), "lba": F(0xFFFFFFFF, 2),
     "tl": F(0xFFFFFF, 6), "mcsb": F(0xF8, 9), "c2ei": F(0x06, 9), "scsb": F(0x07, 10)},
    lambda v: ReadCd(mmc.READ_CD, **{**v, "tl": min(v["tl"], 8)}), extra="tlcap8",
)
add(
    "ReadDiscInformation", ReadDiscInformation, mmc.READ_DISC_INFORMATION, 10,
    {"opcode": F(0xFF, 0), "data_type": F(0x07, 1), "alloc_len": F(0xFFFF, 7)},
    lambda v: ReadDiscInformation(mmc.READ_DISC_INFORMATION, **v),
)
add(
    "ReadElementStatus", ReadElementStatus, smc.READ_ELEMENT_STATUS, 12,
    {"opcode": F(0xFF, 0), "voltag": F(0x10, 1), "element_type": F(0x0F, 1),
     "starting_element_address": F(0xFFFF, 2), "num_elements": F(0xFFFF, 4),
     "curdata": F(0x02, 6), "dvcid": F(0x01, 6), "alloc_len": F(0xFFFFFF, 7)},
    lambda v: ReadElementStatus(smc.READ_ELEMENT_STATUS, **kw(
        starting_element_address="start", num_elements="num", alloc_len="alloclen")(
            {**v, "alloc_len": min(v["alloc_len"], 70000)})),
    extra="alloccap",
)
add(
    "ReportLuns", ReportLuns, spc.REPORT_LUNS, 12,
    {"opcode": F(0xFF, 0), "select_report": F(0xFF, 2), "alloc_len": F(0xFFFFFFFF, 6)},
    lambda v: ReportLuns(spc.REPORT_LUNS, report=v["select_report"], alloclen=min(v["alloc_len"], 70000)),
    extra="alloccap",
)
add(
    "ReportPriority", ReportPriority, spc.SPC_OPCODE_A3, 12,
    {"opcode": F(0xFF, 0), "service_action": F(0x1F, 1), "priority_reported": F(0xC0, 2),
     "alloc_len": F(0xFFFFFFFF, 6)},
    lambda v: ReportPriority(spc.SPC_OPCODE_A3, priority=v["priority_reported"], alloclen=min(v["alloc_len"], 70000)),
    fixed={"service_action": 0x0E}, extra="alloccap",
)
add(
    "ReportTargetPortGroups", ReportTargetPortGroups, spc.SPC_OPCODE_A3, 12,
    {"opcode": F(0xFF, 0), "service_action": F(0x1F, 1), "parameter_data_format": F(0xE0, 1),
     "alloc_len": F(0xFFFFFFFF, 6)},
    lambda v: ReportTargetPortGroups(spc.SPC_OPCODE_A3, data_format=v["parameter_data_format"],
                                     alloclen=min(v["alloc_len"], 70000)),
    fixed={"service_action": 0x0A}, extra="alloccap",
)
add(
    "TestUnitReady", TestUnitReady, spc.TEST_UNIT_READY, 6,
    {"opcode": F(0xFF, 0)}, lambda v: TestUnitReady(spc.TEST_UNIT_READY),
)


def ata_lba12(lba):
    b = [(lba >> (8 * i)) & 0xFF for i in range(6)]
    return (b[0] << 16) | (b[1] << 8) | b[2]


def ata_lba16(lba):
    b = [(lba >> (8 * i)) & 0xFF for i in range(6)]
    return (b[3] << 40) | (b[0] << 32) | (b[4] << 24) | (b[1] << 16) | (b[5] << 8) | b[2]


ATA12_LAYOUT = {
    "opcode": F(0xFF, 0), "protocol": F(0x1E, 1), "t_length": F(0x03, 2), "byte_block": F(0x04, 2),
    "t_dir": F(0x08, 2), "t_type": F(0x10, 2), "ck_cond": F(0x20, 2), "off_line": F(0xC0, 2),
    "fetures": F(0xFF, 3), "count": F(0xFF, 4), "lba": F(0xFFFFFF, 5), "device": F(0xFF, 8),
    "command": F(0xFF, 9), "control": F(0xFF, 11),
}
ATA16_LAYOUT = {
    "opcode": F(0xFF, 0), "extend": F(0x01, 1), "protocol": F(0x1E, 1), "t_length": F(0x03, 2),
    "byte_block": F(0x04, 2), "t_dir": F(0x08, 2), "t_type": F(0x10, 2), "ck_cond": F(0x20, 2),
    "off_line": F(0xC0, 2), "fetures": F(0xFFFF, 3), "count": F(0xFFFF, 5),
    "lba": F(0xFFFFFFFFFFFF, 7), "device": F(0xFF, 13), "command": F(0xFF, 14), "control": F(0xFF, 15),
}


def build_ata(cls, op):
    def b(v):
        v = dict(v)
        v["protocal"] = v.pop("protocol")
        return cls(op, blocksize=4, **v)

    return b


add("ATAPassThrough12", ATAPassThrough12, sbc.ATA_PASS_THROUGH_12, 12, ATA12_LAYOUT,
    build_ata(ATAPassThrough12, sbc.ATA_PASS_THROUGH_12), extra="ata12")
add("ATAPassThrough16", ATAPassThrough16, sbc.ATA_PASS_THROUGH_16, 16, ATA16_LAYOUT,
    build_ata(ATAPassThrough16, sbc.ATA_PASS_THROUGH_16), extra="ata16")


def expected_of(spec, values):
    """what decoding should give for constructor field values `values`"""
    exp = dict(values)
    if spec.extra == "tlcap":
        exp["tl"] = min(exp["tl"], 64)
    elif spec.extra == "tlcap8":
        exp["tl"] = min(exp["tl"], 8)
    elif spec.extra == "alloccap":
        exp["alloc_len"] = min(exp["alloc_len"], 70000)
    elif spec.extra == "sa_mod7":
        exp["service_action"] = exp["service_action"] % 7
    elif spec.extra == "ata12":
        exp["lba"] = ata_lba12(exp["lba"])
    elif spec.extra == "ata16":
        exp["lba"] = ata_lba16(exp["lba"])
    exp.update(spec.fixed)
    return exp


def candidates(mask, rng):
    m = maxval(mask)
    c = {0, 1, m, m >> 1, (m >> 1) + 1, m - 1 if m > 1 else m, 0x5A5A5A5A5A5A5A5A & m, 0xA5A5A5A5A5A5A5A5 & m}
    for _ in range(3):
        c.add(rng.randint(0, m))
    return sorted(c)


def run_spec(spec, rng):
    cls = spec.cls
    var = spec.variable_fields()
    if spec.name == "PersistentReserveOut":
        var = [k for k in var]  # service_action is variable (mod 7), pll fixed

    def one(values, tag):
        cmd = spec.build(values)
        cdb = cmd.cdb
        exp = expected_of(spec, values)
        check(isinstance(cdb, bytearray), "%s %s: cdb type %r" % (spec.name, tag, type(cdb)))
        check(len(cdb) == spec.size, "%s %s: cdb length %d" % (spec.name, tag, len(cdb)))
        model = model_encode(spec, exp)
        check(cdb == model, "%s %s: bytes %s != model %s for %r" % (spec.name, tag, cdb.hex(), model.hex(), exp))
        dec = cmd.unmarshall_cdb(cdb)
        check(type(dec) is dict, "%s %s: decoded type" % (spec.name, tag))
        check(dec == exp, "%s %s: decoded %r != built-from %r" % (spec.name, tag, dec, exp))
        check(list(dec.keys()) == list(spec.layout.keys()) or set(dec) == set(spec.layout),
              "%s %s: decoded keys %r" % (spec.name, tag, sorted(dec)))
        check(all(type(x) is int for x in dec.values()), "%s %s: decoded value types" % (spec.name, tag))
        dec2 = cls.unmarshall_cdb(cdb)
        check(dec2 == dec, "%s %s: class-level decode differs" % (spec.name, tag))
        dec3 = cls.unmarshall_cdb(bytes(cdb))
        check(dec3 == dec, "%s %s: decode of bytes differs" % (spec.name, tag))
        re1 = cls.marshall_cdb(dec)
        check(isinstance(re1, bytearray) and re1 == cdb,
              "%s %s: re-encode %s != %s" % (spec.name, tag, bytes(re1).hex(), cdb.hex()))
        re2 = cmd.marshall_cdb(dict(reversed(list(dec.items()))))
        check(re2 == cdb, "%s %s: re-encode (reversed key order) differs" % (spec.name, tag))
        check(cls.unmarshall_cdb(re1) == dec, "%s %s: decode(encode(decode)) differs" % (spec.name, tag))
        # decoding must not modify its input, encoding must not modify the dict
        check(cdb == model, "%s %s: cdb mutated by decode" % (spec.name, tag))
        check(dec == exp, "%s %s: dict mutated by encode" % (spec.name, tag))
        # build_cdb through the instance with the decoded dict
        re3 = cmd.build_cdb(**dec)
        check(re3 == cdb, "%s %s: build_cdb(**decoded) differs" % (spec.name, tag))
        check(cmd.cdb is cdb and cmd.cdb == model, "%s %s: cmd.cdb changed" % (spec.name, tag))
        record(spec.name, tag, bytes(cdb), sorted(dec.items()))
        return cmd, dec

    cands = {k: candidates(spec.layout[k][0], rng) for k in var}
    # base: all zero / all max / random vectors
    vectors = [
        ("zero", {k: 0 for k in var}),
        ("max", {k: maxval(spec.layout[k][0]) for k in var}),
        ("one", {k: 1 for k in var}),
    ]
    for i in range(12):
        vectors.append(("rnd%d" % i, {k: rng.choice(cands[k]) for k in var}))
    for tag, values in vectors:
        _, base_dec = one(values, tag)
        # single-field changes
        for k in var:
            for nv in cands[k][:: max(1, len(cands[k]) // 5)]:
                if nv == values[k]:
                    continue
                v2 = dict(values)
                v2[k] = nv
                e1, e2 = expected_of(spec, values), expected_of(spec, v2)
                _, d2 = one(v2, "%s/%s=%d" % (tag, k, nv))
                changed = sorted(f for f in d2 if d2[f] != base_dec[f])
                want = sorted(f for f in e2 if e2[f] != e1[f])
                check(changed == want, "%s %s: changing %s changed %r" % (spec.name, tag, k, changed))
                check(len(changed) <= 1, "%s %s: more than one field changed" % (spec.name, tag))


def run_all_specs():
    rng = random.Random(0xC02)
    for spec in SPECS:
        run_spec(spec, rng)


# --------------------------------------------------------------------------
# other things the property depends on
# --------------------------------------------------------------------------
def expect_raises(exc, fn, msg):
    try:
        fn()
    except exc:
        check(True, msg)
        return
    except BaseException as e:  # noqa
        check(False, "%s: raised %r instead" % (msg, e))
        return
    check(False, "%s: nothing raised" % msg)


def misc_checks():
    # CDB sizes per opcode group
    for value in range(0, 256):
        op = OpCode("X", value, {})
        if value <= 0x1F:
            want = 6
        elif 0x20 <= value <= 0x5F:
            want = 10
        elif 0x80 <= value <= 0x9F:
            want = 16
        elif 0xA0 <= value <= 0xBF:
            want = 12
        else:
            want = None
        if want is None:
            expect_raises(SCSICommand.OpcodeException, lambda: SCSICommand.init_cdb(op), "init_cdb(%#x)" % value)
            expect_raises(SCSICommand.OpcodeException, lambda: TestUnitReady(op), "TestUnitReady(%#x)" % value)
        else:
            cdb = SCSICommand.init_cdb(op)
            check(type(cdb) is bytearray and cdb == bytearray(want), "init_cdb(%#x) -> %r" % (value, cdb))
            t = TestUnitReady(op)
            check(t.cdb == bytearray([value]) + bytearray(want - 1), "TUR with opcode %#x" % value)
            check(t.unmarshall_cdb(t.cdb) == {"opcode": value}, "TUR decode %#x" % value)
    expect_raises(SCSICommand.OpcodeException, lambda: SCSICommand.init_cdb(OpCode("X", -1, {})), "init_cdb(-1)")
    expect_raises(SCSICommand.OpcodeException, lambda: SCSICommand.init_cdb(OpCode("X", 256, {})), "init_cdb(256)")

    # blocksize checks
    for cls, op in ((Read10, sbc.READ_10), (Read12, sbc.READ_12), (Read16, sbc.READ_16)):
        expect_raises(SCSICommand.MissingBlocksizeException, lambda: cls(op, 0, 1, 1), cls.__name__ + " blocksize 0")
        try:
            cls(op, 0, 1, 1)
        except Exception as e:
            check(type(e) is SCSICommand.MissingBlocksizeException, cls.__name__ + " exact exception class")
        c = cls(op, 512, 7, 3)
        check(len(c.datain) == 1536 and len(c.dataout) == 0, cls.__name__ + " buffer sizes")
        c = cls(op, 4096, lba=9, tl=2, group=3, rarc=1, fua=1, dpo=1, rdprotect=5)
        check(len(c.datain) == 8192, cls.__name__ + " buffer sizes kw")
        check(c.unmarshall_cdb(c.cdb)["rdprotect"] == 5, cls.__name__ + " kw")
        c = cls(op, 512, 7, 3, 1, 1, 0, 1, 9)
        d = c.unmarshall_cdb(c.cdb)
        check((d["rdprotect"], d["dpo"], d["fua"], d["rarc"], d["group"]) == (1, 1, 0, 1, 9), cls.__name__ + " positional")
        check(c.opcode is op and c.result == {} and c.pagecode is None, cls.__name__ + " attrs")
        check(isinstance(c, SCSICommand), cls.__name__ + " isinstance")
    for cls, op in ((Write10, sbc.WRITE_10), (Write12, sbc.WRITE_12), (Write16, sbc.WRITE_16)):
        expect_raises(SCSICommand.MissingBlocksizeException, lambda: cls(op, 0, 1, 1, bytearray(1)), cls.__name__ + " blocksize 0")
        data = bytearray(b"xyz")
        c = cls(op, 512, 7, 3, data)
        check(c.dataout is data and len(c.datain) == 0, cls.__name__ + " dataout identity")
        c = cls(op, 512, 7, 3, data, 3, 1, 1, 30)
        d = c.unmarshall_cdb(c.cdb)
        check((d["wrprotect"], d["dpo"], d["fua"], d["group"], d["lba"], d["tl"]) == (3, 1, 1, 30, 7, 3), cls.__name__ + " positional")
        check(isinstance(c, SCSICommand), cls.__name__ + " isinstance")
    expect_raises(SCSICommand.MissingBlocksizeException, lambda: WriteSame10(sbc.WRITE_SAME_10, 0, 1, 1, bytearray(1)), "WS10 blocksize")
    expect_raises(SCSICommand.MissingBlocksizeException, lambda: WriteSame16(sbc.WRITE_SAME_16, 0, 1, 1, bytearray(1)), "WS16 blocksize")
    c = WriteSame16(sbc.WRITE_SAME_16, 0, 1, 1, None, ndob=1)
    check(c.unmarshall_cdb(c.cdb)["ndob"] == 1 and len(c.dataout) == 0, "WS16 ndob")

    # signatures stay the same
    sigs = {
        Read10: "(self, opcode, blocksize, lba, tl, rdprotect=0, dpo=0, fua=0, rarc=0, group=0)",
        Read12: "(self, opcode, blocksize, lba, tl, rdprotect=0, dpo=0, fua=0, rarc=0, group=0)",
        Read16: "(self, opcode, blocksize, lba, tl, rdprotect=0, dpo=0, fua=0, rarc=0, group=0)",
        Write10: "(self, opcode, blocksize, lba, tl, data, wrprotect=0, dpo=0, fua=0, group=0)",
        Write12: "(self, opcode, blocksize, lba, tl, data, wrprotect=0, dpo=0, fua=0, group=0)",
        Write16: "(self, opcode, blocksize, lba, tl, data, wrprotect=0, dpo=0, fua=0, group=0)",
        SCSICommand: "(self, opcode, dataout_alloclen, datain_alloclen)",
        ATAPassThrough12: "(self, opcode, protocal, t_length, byte_block, t_dir, t_type, off_line, fetures, count, lba, command, blocksize=0, extra_tl=None, ck_cond=0, device=0, control=0, data=None)",
        ATAPassThrough16: "(self, opcode, protocal, t_length, byte_block, t_dir, t_type, off_line, fetures, count, lba, command, blocksize=0, extra_tl=None, ck_cond=0, device=0, control=0, data=None, extend=1)",
    }
    for cls, want in sigs.items():
        check(str(inspect.signature(cls.__init__)) == want, "%s signature %s" % (cls.__name__, inspect.signature(cls.__init__)))
    for fn, want in (
        (SCSICommand.marshall_cdb, "(cdb)"), (SCSICommand.unmarshall_cdb, "(cdb)"),
        (SCSICommand.init_cdb, "(opcode)"), (SCSICommand.build_cdb, "(self, **kwargs)"),
        (encode_dict, "(data_dict, check_dict, result)"), (decode_bits, "(data, check_dict, result_dict)"),
        (scsi_int_to_ba, "(to_convert=0, array_size=4)"), (scsi_ba_to_int, "(ba)"),
        (ATAPassThrough12.scsi_to_ata_lba_convert, "(lba)"), (ATAPassThrough16.scsi_to_ata_lba_convert, "(lba)"),
    ):
        check(str(inspect.signature(fn)) == want, "signature of %s: %s" % (fn.__name__, inspect.signature(fn)))

    # build_cdb ignores unknown keys
    c = Read10(sbc.READ_10, 512, 1, 1)
    check(c.build_cdb(opcode=0x28, lba=1, tl=1, bogus=99) == c.cdb, "build_cdb ignores unknown keys")
    check(c.build_cdb() == bytearray(10), "build_cdb() empty")
    check(Read10.marshall_cdb({}) == bytearray(10), "marshall_cdb({})")
    check(Read10.marshall_cdb({"nothing": 5}) == bytearray(10), "marshall_cdb unknown key")
    # short buffers decode without error (slices simply get shorter)
    d = Read10.unmarshall_cdb(bytearray(b"\x28\xff"))
    record("short", sorted(d.items()))
    check(d["opcode"] == 0x28 and d["rdprotect"] == 7 and d["lba"] == 0 and d["tl"] == 0, "short decode %r" % d)
    # long buffers: the extra bytes are ignored
    c = Read10(sbc.READ_10, 512, 0x01020304, 0x0506, group=7)
    check(Read10.unmarshall_cdb(c.cdb + bytearray(b"\xff" * 7)) == Read10.unmarshall_cdb(c.cdb), "long decode")
    # out-of-range values: encoded modulo the word, spill into neighbours by XOR
    c = Read10(sbc.READ_10, 512, 0x1FFFFFFFF, 0x10001)
    record("oversize", bytes(c.cdb), sorted(c.unmarshall_cdb(c.cdb).items()))
    check(c.cdb.hex() == "28 00 ff ff ff ff 00 00 01 00".replace(" ", ""), "oversize lba/tl: %s" % c.cdb.hex())
    c = Read10(sbc.READ_10, 512, 5, 1, rdprotect=9)
    record("oversize2", bytes(c.cdb))
    check(c.cdb[1] == 0x20, "oversize rdprotect %#x" % c.cdb[1])
    c = Read10(sbc.READ_10, 512, 5, 1, dpo=3)
    check(c.cdb[1] == 0x30, "oversize dpo %#x" % c.cdb[1])
    c = Read10(sbc.READ_10, 512, 5, 1, dpo=1, rdprotect=0, fua=2)
    check(c.cdb[1] == 0x00, "xor of dpo and fua=2: %#x" % c.cdb[1])
    c = Read10(sbc.READ_10, 512, -1, 0)
    check(c.cdb.hex() == "2800ffffffff00000000", "negative lba: %s" % c.cdb.hex())
    c = Read10(sbc.READ_10, 512, 5, 1, fua=True, dpo=False)
    check(c.cdb[1] == 0x08 and c.unmarshall_cdb(c.cdb)["fua"] == 1, "bool flags")

    # stale layout: the static (un)marshallers use the layout of the command
    # constructed last
    r = Read10(sbc.READ_10, 512, 0x01020304, 0x0506, group=7)
    i = Inquiry(spc.INQUIRY, 1, 0x83, 0x1234)
    d = Read10.unmarshall_cdb(r.cdb)
    record("stale", sorted(d.items()), bytes(Read10.marshall_cdb({"opcode": 1, "alloc_len": 0x1234, "lba": 9})))
    check(d == {"opcode": 0x28, "evpd": 0, "page_code": 1, "alloc_len": 0x0203}, "stale layout decode %r" % d)
    check(Read10.marshall_cdb({"opcode": 1, "alloc_len": 0x1234, "lba": 9}) == bytearray(b"\x01\x00\x00\x12\x34\x00"), "stale layout encode")
    r2 = Read16(sbc.READ_16, 512, 1, 1)
    check(len(Inquiry.marshall_cdb({})) == 16, "stale size")
    check(i.cdb == bytearray(b"\x12\x01\x83\x12\x34\x00"), "instance cdb unaffected")
    check(r.cdb.hex() == "28000102030407050600", "instance cdb unaffected 2")

    # ATA pass through: data lengths / lba conversion
    rng = random.Random(7)
    lbas = [0, 1, 0xFF, 0x100, 0x123456, 0xABCDEF, 0x123456789ABC, 0xFFFFFFFFFFFF, 0x1123456789ABC, -1, -2, 2 ** 64 + 5]
    lbas += [rng.getrandbits(48) for _ in range(40)]
    for lba in lbas:
        check(ATAPassThrough12.scsi_to_ata_lba_convert(lba) == ata_lba12(lba), "ata12 lba %#x" % lba)
        check(ATAPassThrough16.scsi_to_ata_lba_convert(lba) == ata_lba16(lba), "ata16 lba %#x" % lba)
        check(type(ATAPassThrough16.scsi_to_ata_lba_convert(lba)) is int, "ata16 lba type")
        record("lba", lba, ATAPassThrough12.scsi_to_ata_lba_convert(lba), ATAPassThrough16.scsi_to_ata_lba_convert(lba))
    check(ATAPassThrough16.scsi_to_ata_lba_convert(True) == 1 << 32, "ata16 lba True")
    for cls, op in ((ATAPassThrough12, sbc.ATA_PASS_THROUGH_12), (ATAPassThrough16, sbc.ATA_PASS_THROUGH_16)):
        for t_length in (0, 1, 2, 3):
            for byte_block in (0, 1):
                for t_type in (0, 1):
                    for t_dir in (0, 1):
                        for blocksize in (0, 8):
                            for extra_tl in (None, 0, 5):
                                for data in (None, bytearray(), bytearray(b"abc")):
                                    def mk():
                                        return cls(op, 4, t_length, byte_block, t_dir, t_type, 1, 3, 2, 0x010203040506, 0xEC,
                                                   blocksize=blocksize, extra_tl=extra_tl, data=data)
                                    tl = {0: 0, 1: 3, 2: 2, 3: extra_tl or 0}[t_length]
                                    if not t_length:
                                        bs = 0
                                    elif not byte_block:
                                        bs = 1
                                    elif not t_type:
                                        bs = 512
                                    else:
                                        bs = blocksize
                                        if bs == 0:
                                            expect_raises(SCSICommand.MissingBlocksizeException, mk, "ata missing blocksize")
                                            continue
                                    c = mk()
                                    n = tl * bs
                                    if t_dir == 0:
                                        want_out, want_in = (data if data else bytearray(n)), bytearray(0)
                                    else:
                                        want_out, want_in = bytearray(0), (data if data else bytearray(n))
                                    check(c.dataout == want_out and c.datain == want_in,
                                          "%s buffers t_length=%d bb=%d tt=%d dir=%d bs=%d xtl=%r data=%r" % (
                                              cls.__name__, t_length, byte_block, t_type, t_dir, blocksize, extra_tl, data))
                                    if data:
                                        check((c.dataout if t_dir == 0 else c.datain) is data, "ata data identity")
                                    d = c.unmarshall_cdb(c.cdb)
                                    check(d["t_length"] == t_length and d["byte_block"] == byte_block and d["t_type"] == t_type
                                          and d["t_dir"] == t_dir and d["protocol"] == 4 and d["command"] == 0xEC
                                          and d["off_line"] == 1 and d["fetures"] == 3 and d["count"] == 2, "ata fields %r" % d)
                                    record(cls.__name__, bytes(c.cdb), len(c.dataout), len(c.datain))
    c = ATAPassThrough16(sbc.ATA_PASS_THROUGH_16, 4, 2, 1, 1, 0, 0, 0, 1, 0, 0xEC)
    check(c.unmarshall_cdb(c.cdb)["extend"] == 1 and len(c.datain) == 512, "ata16 default extend")
    c = ATAPassThrough16(sbc.ATA_PASS_THROUGH_16, 4, 2, 1, 1, 0, 0, 0, 1, 0, 0xEC, extend=0, ck_cond=1, device=0x40, control=3)
    d = c.unmarshall_cdb(c.cdb)
    check((d["extend"], d["ck_cond"], d["device"], d["control"]) == (0, 1, 0x40, 3), "ata16 kw fields")
    c = ATAPassThrough12(sbc.ATA_PASS_THROUGH_12, 4, True, 0, 0, 0, 0, 6, 1, 0, 0xEC)
    check(len(c.dataout) == 6, "ata12 t_length True")

    # extended copy & mode select: CDB length fields follow the marshalled data
    for cls in (ExtendedCopy4, ExtendedCopy5):
        c = cls(spc.EXTENDED_COPY)
        d = c.unmarshall_cdb(c.cdb)
        check(d["opcode"] == 0x83 and d["parameter_list_length"] == len(c.dataout) and len(c.cdb) == 16, cls.__module__)
        check(cls.marshall_cdb(d) == c.cdb, cls.__module__ + " re-encode")
        record(cls.__module__, bytes(c.cdb), bytes(c.dataout))
    c = ExtendedCopy4(spc.EXTENDED_COPY, list_identifier=9, priority=2, nrcr=1, sequential_striped=1,
                      inline_data=bytearray(b"0123456789"))
    d = c.unmarshall_cdb(c.cdb)
    check(d == {"opcode": 0x83, "service_action": 0, "parameter_list_length": len(c.dataout)}, "xcopy4 %r" % d)
    record("xcopy4", bytes(c.cdb), bytes(c.dataout))
    c = ExtendedCopy5(spc.EXTENDED_COPY, list_identifier=9, priority=2, immed=1, g_sense=1, inline_data=bytearray(b"0123456789"))
    d = c.unmarshall_cdb(c.cdb)
    check(d == {"opcode": 0x83, "service_action": 1, "parameter_list_length": len(c.dataout)}, "xcopy5 %r" % d)
    record("xcopy5", bytes(c.cdb), bytes(c.dataout))

    ms_data = {"medium_type": 0, "device_specific_parameter": 0, "mode_pages": []}
    for cls, op, size in ((ModeSelect6, spc.MODE_SELECT_6, 6), (ModeSelect10, spc.MODE_SELECT_10, 10)):
        for pf in (0, 1):
            for sp in (0, 1):
                try:
                    c = cls(op, dict(ms_data), pf=pf, sp=sp)
                except Exception as e:  # data format issues are not part of this property
                    record(cls.__name__, "exc", type(e).__name__)
                    continue
                d = c.unmarshall_cdb(c.cdb)
                check(d == {"opcode": op.value, "pf": pf, "sp": sp, "parameter_list_length": len(c.dataout)},
                      "%s decoded %r" % (cls.__name__, d))
                check(cls.marshall_cdb(d) == c.cdb and len(c.cdb) == size, cls.__name__ + " re-encode")
                record(cls.__name__, bytes(c.cdb), bytes(c.dataout))


def converter_checks():
    rng = random.Random(99)
    for size in range(0, 10):
        for v in [0, 1, 0xFF, 0x100, 0x123456789ABCDEF0, -1, -256, 2 ** 80 + 3] + [rng.getrandbits(72) for _ in range(10)]:
            ba = scsi_int_to_ba(v, size)
            want = bytearray((v >> (8 * (size - 1 - i))) & 0xFF for i in range(size))
            check(type(ba) is bytearray and ba == want, "scsi_int_to_ba(%d,%d)" % (v, size))
            check(scsi_ba_to_int(ba) == (v & ((1 << (8 * size)) - 1)), "scsi_ba_to_int(int_to_ba(%d,%d))" % (v, size))
            check(scsi_ba_to_int(bytes(ba)) == scsi_ba_to_int(ba) == scsi_ba_to_int(list(ba)), "ba_to_int input kinds")
    check(scsi_int_to_ba() == bytearray(4) and scsi_int_to_ba(34) == bytearray(b'\x00\x00\x00"'), "int_to_ba defaults")
    check(scsi_int_to_ba(array_size=2, to_convert=0x1234) == bytearray(b"\x12\x34"), "int_to_ba kw")
    check(scsi_ba_to_int(bytearray()) == 0 and scsi_ba_to_int(b"") == 0, "ba_to_int empty")

    layout = {
        "a": [0xF0, 0],
        "b": [0x0F, 0],
        "c": (0x3FFC, 1),
        "d": [0xFFFFFF, 3],
        "blob": ("b", 6, 4),
        "words": ("w", 10, 2),
        "dwords": ("dw", 14, 2),
        "top": [0x80, 22],
        "wide": [0x0FFFFFFFFFFFFFFFFFF0, 23],
    }
    for n in range(40):
        vals = {
            "a": rng.randint(0, 15), "b": rng.randint(0, 15), "c": rng.randint(0, 0xFFF),
            "d": rng.getrandbits(24), "blob": bytearray(rng.getrandbits(8) for _ in range(4)),
            "words": bytes(rng.getrandbits(8) for _ in range(4)),
            "dwords": bytearray(rng.getrandbits(8) for _ in range(8)),
            "top": rng.randint(0, 1), "wide": rng.getrandbits(72),
        }
        buf = bytearray(33)
        ret = encode_dict(vals, layout, buf)
        check(ret is None, "encode_dict returns None")
        out = {"pre": 1}
        ret = decode_bits(buf, layout, out)
        check(ret is None, "decode_bits returns None")
        check(out.pop("pre") == 1, "decode_bits keeps existing keys")
        check(list(out) == list(layout), "decode_bits key order %r" % list(out))
        check(out == vals, "converter roundtrip %r != %r" % (out, vals))
        check(type(out["blob"]) is bytearray and len(out["words"]) == 4 and len(out["dwords"]) == 8, "blob kinds")
        buf2 = bytearray(33)
        encode_dict(out, layout, buf2)
        check(buf2 == buf, "converter re-encode")
        # decoding from bytes / memoryview-free inputs
        out2 = {}
        decode_bits(bytes(buf), layout, out2)
        check(out2 == vals and type(out2["blob"]) is bytes, "decode from bytes")
        # encoding into a dirty buffer XORs integer fields
        dirty = bytearray(b"\xff" * 33)
        encode_dict({"a": vals["a"], "d": vals["d"]}, layout, dirty)
        check(dirty[0] == 0xFF ^ (vals["a"] << 4) and scsi_ba_to_int(dirty[3:6]) == 0xFFFFFF ^ vals["d"], "xor semantics")
        record("conv", n, bytes(buf), bytes(dirty))
    # a subset of keys; unknown keys skipped; key order irrelevant
    buf = bytearray(8)
    encode_dict({"zzz": 1, "d": 0x010203, "a": 3}, layout, buf)
    check(buf == bytearray(b"\x30\x00\x00\x01\x02\x03\x00\x00"), "subset encode %s" % buf.hex())
    # blob shorter / longer than its slot resizes the buffer like slice assignment does
    buf = bytearray(12)
    encode_dict({"blob": b"xy"}, layout, buf)
    check(buf == bytearray(6) + b"xy" + bytearray(2) and len(buf) == 10, "short blob %r" % buf)
    # too small a buffer
    expect_raises(IndexError, lambda: encode_dict({"d": 1}, layout, bytearray(4)), "encode into short buffer")
    buf = bytearray(5)
    try:
        encode_dict({"d": 0xAABBCC}, layout, buf)
    except IndexError:
        pass
    check(buf == bytearray(b"\x00\x00\x00\xaa\xbb"), "partial write before IndexError %s" % buf.hex())
    # empty layouts / dicts
    out = {}
    decode_bits(bytearray(4), {}, out)
    check(out == {}, "empty layout")
    buf = bytearray(4)
    encode_dict({}, layout, buf)
    check(buf == bytearray(4), "empty dict")
    # short data
    out = {}
    decode_bits(bytearray(b"\xab\xcd"), {"x": [0xFFFFFF, 0], "y": [0xFF, 5], "z": ("b", 1, 4)}, out)
    check(out == {"x": 0xABCD, "y": 0, "z": bytearray(b"\xcd")}, "short data %r" % out)


def api_checks():
    class Dev:
        def __init__(self, opcodes):
            self.opcodes = opcodes
            self.seen = []

        def execute(self, cmd, en_raw_sense=False):
            self.seen.append(bytes(cmd.cdb))

        def close(self):
            pass

    class S(SCSI):
        def __init__(self, dev, blocksize=0):
            self.device = dev
            self._blocksize = blocksize

    s = S(Dev(sbc), 512)
    rng = random.Random(5)
    for _ in range(25):
        lba, tl = rng.getrandbits(32), rng.randint(0, 20)
        kwr = dict(rdprotect=rng.randint(0, 7), dpo=rng.randint(0, 1), fua=rng.randint(0, 1), rarc=rng.randint(0, 1), group=rng.randint(0, 31))
        kww = dict(wrprotect=rng.randint(0, 7), dpo=rng.randint(0, 1), fua=rng.randint(0, 1), group=rng.randint(0, 31))
        for name, kws, data in (("read10", kwr, None), ("read12", kwr, None), ("read16", kwr, None),
                                ("write10", kww, bytearray(8)), ("write12", kww, bytearray(8)), ("write16", kww, bytearray(8))):
            args = (lba, tl) if data is None else (lba, tl, data)
            c = getattr(s, name)(*args, **kws)
            d = c.unmarshall_cdb(c.cdb)
            want = dict(kws, lba=lba, tl=tl, opcode=c.opcode.value)
            check(d == want, "%s via SCSI: %r != %r" % (name, d, want))
            check(type(c).marshall_cdb(d) == c.cdb, "%s via SCSI re-encode" % name)
            check(s.device.seen[-1] == bytes(c.cdb), "%s executed cdb" % name)
            record(name, bytes(c.cdb))
        c = s.writesame16(lba, tl, bytearray(512), unmap=1)
        check(c.unmarshall_cdb(c.cdb) == dict(opcode=0x93, wrprotect=0, anchor=0, unmap=1, ndob=0, lba=lba, group=0, nb=tl), "ws16 via SCSI")
        c = s.synchronizecache10(lba, tl, immed=1)
        check(c.unmarshall_cdb(c.cdb) == dict(opcode=0x35, immed=1, lba=lba, group=0, numblks=tl), "sc10 via SCSI")
        c = s.atapassthrough16(4, 2, 1, 1, 0, 0, 0, tl, lba, 0x25)
        d = c.unmarshall_cdb(c.cdb)
        check(d["lba"] == ata_lba16(lba) and d["count"] == tl and len(c.datain) == 512 * tl, "ata16 via SCSI")
        c = s.atapassthrough12(4, 2, 1, 0, 0, 0, 0, tl, lba, 0x35, data=bytearray(b"q"))
        d = c.unmarshall_cdb(c.cdb)
        check(d["lba"] == ata_lba12(lba) and d["count"] == tl and c.dataout == b"q", "ata12 via SCSI")
    s0 = S(Dev(sbc), 0)
    expect_raises(SCSICommand.MissingBlocksizeException, lambda: s0.read10(0, 1), "SCSI.read10 without blocksize")
    expect_raises(SCSICommand.MissingBlocksizeException, lambda: s0.write16(0, 1, bytearray(1)), "SCSI.write16 without blocksize")


EXPECTED_DIGEST = "7f0708e188f936cf6844c9856e88b31273d1eee5e501dbc970006a1a5238f41f"


def main():
    run_all_specs()
    misc_checks()
    converter_checks()
    api_checks()
    digest = DIGEST.hexdigest()
    if "--digest" in sys.argv:
        print(digest)
    if len(EXPECTED_DIGEST) == 64:
        check(digest == EXPECTED_DIGEST, "behaviour digest %s != expected %s" % (digest, EXPECTED_DIGEST))
    if FAILURES:
        print("FAIL: %d of %d checks failed" % (len(FAILURES), CHECKS))
        return 1
    print("PASS (%d checks)" % CHECKS)
    return 0


if __name__ == "__main__":
    sys.exit(main())
