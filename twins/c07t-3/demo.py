#!/usr/bin/env python
# coding: utf-8
"""
Observable-behaviour check for property C07 (status -> exception mapping on all
transports and pass-through by the SCSI facade).

Run as:
    cd /tmp/seed/C07t && PYTHONPATH=/tmp/seed/C07t /venv/bin/python SEED/demo.py

Exits 0 and prints PASS when the property holds.
"""
import os
import sys
import tempfile
import types

# --------------------------------------------------------------------------
# fake external bindings (neither sgio nor iscsi is installed)
# --------------------------------------------------------------------------

# ---- sgio ----------------------------------------------------------------
sgio = types.ModuleType("sgio")


class _SgioCheckConditionError(Exception):
    def __init__(self, sense):
        Exception.__init__(self, "check condition")
        self.sense = sense


class _SgioUnspecifiedError(Exception):
    pass


sgio.CheckConditionError = _SgioCheckConditionError
sgio.UnspecifiedError = _SgioUnspecifiedError
sgio.calls = []
sgio.behaviour = None  # callable(file, cdb, dataout, datain) or None


def _sgio_execute(fid, cdb, data_out, data_in, *args, **kwargs):
    sgio.calls.append((fid, cdb, data_out, data_in, args, kwargs))
    if sgio.behaviour is not None:
        return sgio.behaviour(fid, cdb, data_out, data_in)
    return 0


sgio.execute = _sgio_execute
sys.modules["sgio"] = sgio

# ---- iscsi ---------------------------------------------------------------
iscsi = types.ModuleType("iscsi")
iscsi.SCSI_XFER_NONE = 0
iscsi.SCSI_XFER_WRITE = 1
iscsi.SCSI_XFER_READ = 2
iscsi.ISCSI_SESSION_NORMAL = 2
iscsi.ISCSI_HEADER_DIGEST_NONE_CRC32C = 1
iscsi.tasks = []
iscsi.contexts = []
iscsi.behaviour = None  # callable(ctx, lun, task, dataout, datain)


class _IscsiContext(object):
    def __init__(self, name):
        self.name = name
        self.log = []
        self.connected = False
        iscsi.contexts.append(self)

    def set_targetname(self, t):
        self.log.append(("targetname", t))

    def set_session_type(self, t):
        self.log.append(("session_type", t))

    def set_header_digest(self, d):
        self.log.append(("header_digest", d))

    def connect(self, portal, lun):
        self.log.append(("connect", portal, lun))
        self.connected = True

    def disconnect(self):
        self.log.append(("disconnect",))
        self.connected = False

    def command(self, lun, task, dataout, datain):
        self.log.append(("command", lun))
        task.lun = lun
        task.dataout = dataout
        task.datain = datain
        if iscsi.behaviour is not None:
            iscsi.behaviour(self, lun, task, dataout, datain)


class _IscsiURL(object):
    def __init__(self, ctx, url):
        self.ctx = ctx
        self.url = url
        self.target = "iqn.2000-01.test:target"
        self.portal = "127.0.0.1:3260"
        self.lun = 7


class _IscsiTask(object):
    def __init__(self, cdb, direction, xferlen):
        self.cdb = cdb
        self.direction = direction
        self.xferlen = xferlen
        self.status = 0
        iscsi.tasks.append(self)


class _IscsiTaskWithSense(_IscsiTask):
    raw_sense = None


iscsi.Context = _IscsiContext
iscsi.URL = _IscsiURL
iscsi.Task = _IscsiTask
sys.modules["iscsi"] = iscsi

# --------------------------------------------------------------------------
# the library
# --------------------------------------------------------------------------
from pyscsi.pyiscsi.iscsi_device import ISCSIDevice  # noqa: E402
from pyscsi.pyscsi import scsi_enum_command  # noqa: E402
from pyscsi.pyscsi.scsi import SCSI  # noqa: E402
from pyscsi.pyscsi.scsi_cdb_inquiry import Inquiry  # noqa: E402
from pyscsi.pyscsi.scsi_cdb_modesense6 import ModeSense6  # noqa: E402
from pyscsi.pyscsi.scsi_cdb_modesense10 import ModeSense10  # noqa: E402
from pyscsi.pyscsi.scsi_cdb_read10 import Read10  # noqa: E402
from pyscsi.pyscsi.scsi_cdb_testunitready import TestUnitReady  # noqa: E402
from pyscsi.pyscsi.scsi_cdb_write10 import Write10  # noqa: E402
from pyscsi.pyscsi.scsi_command import SCSICommand  # noqa: E402
from pyscsi.pyscsi.scsi_device import SCSIDevice  # noqa: E402
from pyscsi.pyscsi.scsi_enum_command import (  # noqa: E402
    SCSI_STATUS,
    mmc,
    sbc,
    smc,
    spc,
    ssc,
)
from pyscsi.pyscsi.scsi_exception import (  # noqa: E402
    SCSICommandExceptionMeta,
    SCSIDeviceCommandExceptionMeta,
    SCSIDeviceExceptionMeta,
)
from pyscsi.pyscsi.scsi_sense import (  # noqa: E402
    SCSICheckCondition,
    sense_ascq_dict,
    sense_key_dict,
)

CHECKS = [0]


def check(cond, msg):
    CHECKS[0] += 1
    if not cond:
        raise AssertionError(msg)


def raises(exc_type, fn, *args, **kwargs):
    """call fn; return the exception; fail unless it is exactly of exc_type"""
    try:
        result = fn(*args, **kwargs)
    except BaseException as e:  # noqa
        check(
            type(e) is exc_type,
            "expected %r, got %r (%s)" % (exc_type, type(e), e),
        )
        return e
    raise AssertionError(
        "expected %r but call returned normally: %r" % (exc_type, result)
    )


# --------------------------------------------------------------------------
# sense data helpers (independent model of what the target "sent")
# --------------------------------------------------------------------------
def fixed_sense(key, asc, ascq, response=0x70, valid=0):
    s = bytearray(18)
    s[0] = response | (0x80 if valid else 0)
    s[2] = key
    s[7] = 10
    s[12] = asc
    s[13] = ascq
    return s


def desc_sense(key, asc, ascq, response=0x72):
    s = bytearray(8)
    s[0] = response
    s[1] = key
    s[2] = asc
    s[3] = ascq
    return s


def expected_text(key, asc, ascq):
    if 0x80 <= asc <= 0xFF:
        d = "Vendor specific ASC"
    elif 0x80 <= ascq <= 0xFF:
        d = "Vendor specific ASCQ"
    else:
        d = sense_ascq_dict.get((asc << 8) + ascq, "Unknown ASC/ASCQ")
    return "Check Condition: %s(0x%02X) ASC+Q:%s(0x%04X)" % (
        sense_key_dict.get(key, "Reserved"),
        key,
        d,
        (asc << 8) + ascq,
    )


TRIPLES = [
    (0x05, 0x24, 0x00),
    (0x02, 0x04, 0x01),
    (0x06, 0x29, 0x00),
    (0x03, 0x11, 0x00),
    (0x00, 0x00, 0x00),
    (0x0F, 0x00, 0x1D),
    (0x0C, 0x00, 0x00),  # reserved sense key
    (0x01, 0x80, 0x12),  # vendor specific asc
    (0x04, 0x44, 0x90),  # vendor specific ascq
    (0x0B, 0xFF, 0xFF),
    (0x07, 0x27, 0x00),
    (0x05, 0x20, 0x00),
    (0x05, 0x7E, 0x7F),  # unknown asc/ascq
    (0x0E, 0x1D, 0x00),
]


def sense_cases():
    """yield (label, sense object, expected key, asc, ascq)"""
    for key, asc, ascq in TRIPLES:
        yield ("fixed70", fixed_sense(key, asc, ascq), key, asc, ascq)
        yield ("fixed71", fixed_sense(key, asc, ascq, 0x71), key, asc, ascq)
        yield ("fixed70v", fixed_sense(key, asc, ascq, 0x70, 1), key, asc, ascq)
        yield ("desc72", desc_sense(key, asc, ascq), key, asc, ascq)
        yield ("desc73", desc_sense(key, asc, ascq, 0x73), key, asc, ascq)
        yield ("fixed-bytes", bytes(fixed_sense(key, asc, ascq)), key, asc, ascq)
        yield ("desc-bytes", bytes(desc_sense(key, asc, ascq)), key, asc, ascq)
    # a transport that has no sense to pass on, or sense of an unknown format
    yield ("none", None, 0, 0, 0)
    yield ("empty-bytearray", bytearray(0), 0, 0, 0)
    yield ("empty-bytes", b"", 0, 0, 0)
    yield ("unknown-format", bytearray([0x00] * 18), 0, 0, 0)
    yield ("vendor-format", bytearray([0x7F] + [0x55] * 17), 0, 0, 0)


def check_check_condition(e, device_cls, sense, key, asc, ascq, where):
    check(type(e) is device_cls.CheckCondition, where + ": CheckCondition type")
    check(isinstance(e, SCSICheckCondition), where + ": SCSICheckCondition")
    check(isinstance(e, Exception), where + ": Exception")
    check(e.data.get("sense_key", 0) == key, where + ": sense key")
    check(e.asc == asc, where + ": asc %r != %r" % (e.asc, asc))
    check(e.ascq == ascq, where + ": ascq")
    check(str(e) == expected_text(key, asc, ascq), where + ": text " + str(e))
    check(e.args == (sense,), where + ": args carry the sense object")
    if sense:
        check(e.args[0] is sense, where + ": same sense object")
        check(e.response_code == sense[0] & 0x7F, where + ": response code")
        check(e.valid == sense[0] & 0x80, where + ": valid bit")
    else:
        check(e.response_code == 0 and e.valid == 0, where + ": no sense")
        check(e.data == {}, where + ": no sense data")


# --------------------------------------------------------------------------
# 1. the exception families
# --------------------------------------------------------------------------
STATUS_ERRORS = {
    "CONDITIONS_MET": "ConditionsMet",
    "BUSY": "BusyStatus",
    "RESERVATION_CONFLICT": "ReservationConflict",
    "TASK_SET_FULL": "TaskSetFull",
    "ACA_ACTIVE": "ACAActive",
    "TASK_ABORTED": "TaskAborted",
}
DEVICE_ERRORS = ["CheckCondition"] + sorted(STATUS_ERRORS.values())
COMMAND_ERRORS = ["CommandNotImplemented", "MissingBlocksizeException", "OpcodeException"]


def test_exception_families():
    check(
        scsi_enum_command.scsi_status
        == {
            "GOOD": 0x00,
            "CHECK_CONDITION": 0x02,
            "CONDITIONS_MET": 0x04,
            "BUSY": 0x08,
            "RESERVATION_CONFLICT": 0x18,
            "TASK_SET_FULL": 0x28,
            "ACA_ACTIVE": 0x30,
            "TASK_ABORTED": 0x40,
            "SGIO_ERROR": 0xFF,
        },
        "scsi_status dict",
    )
    for k, v in scsi_enum_command.scsi_status.items():
        check(getattr(SCSI_STATUS, k) == v, "SCSI_STATUS." + k)
        check(SCSI_STATUS[v] == k, "SCSI_STATUS reverse " + k)

    holders = [SCSIDevice, ISCSIDevice, SCSICommand, Inquiry]
    for cls in holders:
        check(type(cls) is SCSIDeviceCommandExceptionMeta, "metaclass of %r" % cls)
        for name in DEVICE_ERRORS + COMMAND_ERRORS:
            exc = getattr(cls, name)
            check(isinstance(exc, type), "%s.%s is a class" % (cls.__name__, name))
            check(exc.__name__ == name, "%s.%s name" % (cls.__name__, name))
            check(
                exc.__module__ == "pyscsi.pyscsi.scsi_exception",
                "%s.%s module" % (cls.__name__, name),
            )
            owner = (
                "SCSIDeviceExceptionMeta"
                if name in DEVICE_ERRORS
                else "SCSICommandExceptionMeta"
            )
            check(
                exc.__qualname__ == "%s.__new__.<locals>.%s" % (owner, name),
                "%s.%s qualname %s" % (cls.__name__, name, exc.__qualname__),
            )
            if name == "CheckCondition":
                check(exc.__bases__ == (SCSICheckCondition,), "CheckCondition base")
            else:
                check(exc.__bases__ == (Exception,), name + " base")
            check(getattr(cls("x") if False else cls, name) is exc, "stable")
    # each family member is private to its class
    for name in DEVICE_ERRORS + COMMAND_ERRORS:
        seen = [getattr(SCSIDevice, name), getattr(ISCSIDevice, name), getattr(SCSICommand, name)]
        check(len(set(seen)) == 3, name + " is per class")
    # errors named after distinct statuses are distinct, unrelated classes
    for cls in (SCSIDevice, ISCSIDevice):
        excs = [getattr(cls, n) for n in DEVICE_ERRORS]
        for a in excs:
            for b in excs:
                if a is not b:
                    check(not issubclass(a, b), "%r/%r unrelated" % (a, b))
    # shape of the classes produced by the combined meta class
    for cls in (SCSIDevice, ISCSIDevice, SCSICommand):
        mro = cls.mro()
        check(len(mro) == 3 and mro[0] is cls and mro[2] is object, "mro shape")
        check(mro[1].__name__ == cls.__name__, "inner layer name")
        check(type(mro[1]) is SCSIDeviceCommandExceptionMeta, "inner layer meta")
        inner = vars(mro[1])
        outer = vars(cls)
        for name in COMMAND_ERRORS:
            check(name in inner and name in outer, name + " in both layers")
            check(inner[name] is outer[name], name + " copied to outer layer")
        for name in DEVICE_ERRORS:
            check(name not in inner and name in outer, name + " only in outer layer")
        order = [k for k in outer if k in DEVICE_ERRORS + COMMAND_ERRORS]
        check(
            order
            == [
                "CommandNotImplemented",
                "MissingBlocksizeException",
                "OpcodeException",
                "CheckCondition",
                "ConditionsMet",
                "BusyStatus",
                "ReservationConflict",
                "TaskSetFull",
                "ACAActive",
                "TaskAborted",
            ],
            "attribute order %r" % order,
        )
    check(
        SCSIDeviceCommandExceptionMeta.__bases__
        == (SCSICommandExceptionMeta, SCSIDeviceExceptionMeta),
        "meta bases",
    )

    # the meta classes on their own
    ns = {"x": 1}
    A = SCSICommandExceptionMeta("A", (), ns)
    check(sorted(k for k in ns if not k.startswith("_")) == sorted(COMMAND_ERRORS + ["x"]), "ns updated in place")
    check(A.x == 1 and issubclass(A.OpcodeException, Exception), "A")
    check(not hasattr(A, "CheckCondition"), "A has no device errors")
    ns = {}
    B = SCSIDeviceExceptionMeta("B", (), ns)
    check(list(ns)[:7] == [
        "CheckCondition", "ConditionsMet", "BusyStatus", "ReservationConflict",
        "TaskSetFull", "ACAActive", "TaskAborted"], "B ns order")
    check(issubclass(B.CheckCondition, SCSICheckCondition), "B")
    check(not hasattr(B, "OpcodeException"), "B has no command errors")

    class C(metaclass=SCSIDeviceCommandExceptionMeta):
        marker = 5

        def hello(self):
            return "hi"

    class D(C):
        pass

    check(C.marker == 5 and C().hello() == "hi", "C body kept")
    for name in DEVICE_ERRORS + COMMAND_ERRORS:
        check(getattr(C, name) is not getattr(D, name), "subclass gets own " + name)
        check(getattr(D, name).__name__ == name, "D." + name)
    check(issubclass(D, C) and isinstance(D(), C), "D is a C")
    e = raises(C.BusyStatus, _raise, C.BusyStatus("x"))
    check(not isinstance(e, D.BusyStatus), "C.BusyStatus is not D.BusyStatus")

    # a meta class derived from the combined one still works
    class M2(SCSIDeviceCommandExceptionMeta):
        pass

    class E(metaclass=M2):
        z = 3

    check(type(E) is M2 and E.z == 3, "sub meta class")
    for name in DEVICE_ERRORS + COMMAND_ERRORS:
        check(getattr(E, name).__name__ == name, "E." + name)


def _raise(e):
    raise e


# --------------------------------------------------------------------------
# 2. iSCSI transport
# --------------------------------------------------------------------------
class StubCmd(object):
    """a minimal duck-typed command"""

    def __init__(self, cdb=b"\x00" * 6, dataout=b"", datain=b""):
        self.cdb = cdb
        self.dataout = dataout
        self.datain = datain


def make_iscsi(**kw):
    return ISCSIDevice("iscsi://127.0.0.1/iqn.2000-01.test:target/7", **kw)


def iscsi_set(status="__absent__", sense="__absent__", fill=None):
    def behaviour(ctx, lun, task, dataout, datain):
        if not (isinstance(status, str) and status == "__absent__"):
            task.status = status
        if not (isinstance(sense, str) and sense == "__absent__"):
            task.raw_sense = sense
        if fill is not None:
            datain[: len(fill)] = fill

    iscsi.behaviour = behaviour


def test_iscsi_transport():
    raises(NotImplementedError, ISCSIDevice, "/dev/sg0")
    raises(NotImplementedError, ISCSIDevice, "http://x")
    raises(NotImplementedError, ISCSIDevice, "")

    dev = make_iscsi()
    ctx = iscsi.contexts[-1]
    check(ctx.name == "iscsi://127.0.0.1/iqn.2000-01.test:target/7", "ctx name = url")
    check(ctx.connected, "connected")
    check(
        ctx.log
        == [
            ("targetname", "iqn.2000-01.test:target"),
            ("session_type", iscsi.ISCSI_SESSION_NORMAL),
            ("header_digest", iscsi.ISCSI_HEADER_DIGEST_NONE_CRC32C),
            ("connect", "127.0.0.1:3260", 7),
        ],
        "open sequence",
    )
    dev2 = make_iscsi(initiator_name="iqn.init")
    check(iscsi.contexts[-1].name == "iqn.init", "initiator name")
    dev2.close()
    check(not iscsi.contexts[-1].connected, "closed")
    check(dev.opcodes is spc, "default opcodes")

    # ---- transfer direction / length handed to the task -------------------
    for din, dout, exp in [
        (0, 0, (iscsi.SCSI_XFER_NONE, 0)),
        (96, 0, (iscsi.SCSI_XFER_READ, 96)),
        (0, 24, (iscsi.SCSI_XFER_WRITE, 24)),
        (5, 9, (iscsi.SCSI_XFER_WRITE, 9)),
        (1, 0, (iscsi.SCSI_XFER_READ, 1)),
        (0, 1, (iscsi.SCSI_XFER_WRITE, 1)),
        (70000, 0, (iscsi.SCSI_XFER_READ, 70000)),
    ]:
        for status_name in ("GOOD", "BUSY", "CHECK_CONDITION"):
            iscsi_set(status=getattr(SCSI_STATUS, status_name))
            cmd = StubCmd(b"\x12\0\0\0\x60\0", bytearray(dout), bytearray(din))
            try:
                dev.execute(cmd)
            except Exception:
                pass
            t = iscsi.tasks[-1]
            check((t.direction, t.xferlen) == exp, "xfer %r %r" % ((din, dout), exp))
            check(t.cdb is cmd.cdb, "cdb passed")
            check(t.dataout is cmd.dataout and t.datain is cmd.datain, "buffers passed")
            check(t.lun == 7, "lun")

    # ---- GOOD --------------------------------------------------------------
    for good in (0, 0.0, False, SCSI_STATUS.GOOD):
        for raw in (False, True):
            iscsi_set(status=good, fill=b"\x05\x80")
            cmd = TestUnitReady(spc.TEST_UNIT_READY)
            cmd.datain = bytearray(4)
            before = len(iscsi.tasks)
            check(dev.execute(cmd, en_raw_sense=raw) is None, "GOOD returns None")
            check(len(iscsi.tasks) == before + 1, "one task per execute")
            check(cmd.datain == bytearray(b"\x05\x80\0\0"), "data delivered")
            check(cmd.sense is None and cmd.raw_sense_data is None, "no sense on GOOD")
    # default task status of the fake is GOOD as well
    iscsi.behaviour = None
    check(dev.execute(StubCmd()) is None, "GOOD default")

    # ---- CHECK CONDITION ---------------------------------------------------
    n = 0
    for label, sense, key, asc, ascq in sense_cases():
        for raw in (False, True, 0, 1, None, "yes"):
            for cc in (0x02, 2.0):
                n += 1
                if cc == 2.0 and n % 5:
                    continue
                iscsi_set(status=cc, sense=sense)
                cmd = Read10(sbc.READ_10, 512, 0, 1)
                cmd.datain[:] = b"\xAA" * 512
                args = (cmd,) if raw is False and n % 2 else (cmd, raw)
                e = raises(dev.CheckCondition, dev.execute, *args)
                where = "iscsi CC %s raw=%r" % (label, raw)
                check_check_condition(e, ISCSIDevice, sense, key, asc, ascq, where)
                check(cmd.sense is sense, where + ": cmd.sense")
                if raw:
                    check(cmd.raw_sense_data is sense, where + ": raw sense attached")
                    if sense is not None:
                        check(
                            bytes(cmd.raw_sense_data) == bytes(sense),
                            where + ": raw sense unmodified",
                        )
                else:
                    check(cmd.raw_sense_data is None, where + ": raw sense not asked")
                check(cmd.datain == b"\xAA" * 512, where + ": buffer untouched")
                check(cmd.result == {}, where + ": nothing decoded")
    # keyword form
    iscsi_set(status=2, sense=fixed_sense(5, 0x24, 0))
    cmd = StubCmd()
    e = raises(dev.CheckCondition, dev.execute, cmd=cmd, en_raw_sense=True)
    check(e.asc == 0x24 and cmd.raw_sense_data is cmd.sense, "kw form")
    # the task has no raw_sense attribute at all
    for raw in (False, True):
        iscsi_set(status=2)
        cmd = StubCmd()
        cmd.sense = "stale"
        cmd.raw_sense_data = "stale"
        e = raises(dev.CheckCondition, dev.execute, cmd, raw)
        check_check_condition(e, ISCSIDevice, None, 0, 0, 0, "iscsi CC no attr")
        check(cmd.sense is None, "sense reset to None")
        check(cmd.raw_sense_data is (None if raw else "stale"), "raw sense w/o attr")
    # a task class that carries raw_sense = None at class level
    iscsi.Task = _IscsiTaskWithSense
    try:
        iscsi_set(status=2)
        cmd = StubCmd()
        e = raises(dev.CheckCondition, dev.execute, cmd, True)
        check_check_condition(e, ISCSIDevice, None, 0, 0, 0, "iscsi CC class attr")
        check(cmd.sense is None and cmd.raw_sense_data is None, "class attr None")
    finally:
        iscsi.Task = _IscsiTask
    # sense present but status GOOD: still success, sense ignored
    iscsi_set(status=0, sense=fixed_sense(5, 0x24, 0))
    cmd = StubCmd()
    check(dev.execute(cmd, True) is None, "GOOD with stray sense")
    check(not hasattr(cmd, "sense") and not hasattr(cmd, "raw_sense_data"), "sense ignored on GOOD")

    # ---- the other statuses -----------------------------------------------
    for status_name, err_name in STATUS_ERRORS.items():
        value = getattr(SCSI_STATUS, status_name)
        for status in (value, float(value)):
            for raw in (False, True):
                for sense in ("__absent__", fixed_sense(5, 0x24, 0)):
                    iscsi_set(status=status, sense=sense)
                    cmd = Inquiry(spc.INQUIRY)
                    snapshot = bytes(cmd.datain)
                    e = raises(getattr(ISCSIDevice, err_name), dev.execute, cmd, raw)
                    check(type(e).__name__ == err_name, "named after status")
                    check(e.args == (), err_name + " has no args")
                    check(not isinstance(e, SCSICheckCondition), err_name + " not CC")
                    check(getattr(dev, err_name) is type(e), err_name + " via instance")
                    check(cmd.sense is None and cmd.raw_sense_data is None, "no sense set")
                    check(bytes(cmd.datain) == snapshot and cmd.result == {}, "untouched")

    # ---- statuses without an error of their own ----------------------------
    class Weird(object):
        def __eq__(self, other):
            return False

        __hash__ = None

    for status in (0xFF, 0x01, 0x03, 0x10, 0x22, -1, 256, 0x0202, None, "2", "GOOD", b"\x00",
                   (0,), [2], {}, 2.5, float("nan"), Weird(), SCSI_STATUS):
        for raw in (False, True):
            iscsi_set(status=status, sense=fixed_sense(5, 0x24, 0))
            cmd = StubCmd()
            e = raises(RuntimeError, dev.execute, cmd, raw)
            check(e.args == (), "bare RuntimeError")
            check(not hasattr(cmd, "sense") and not hasattr(cmd, "raw_sense_data"), "no sense for unknown")

    # a status object that claims to equal everything is taken as the first
    # status that is examined: CHECK CONDITION
    class Anything(object):
        def __eq__(self, other):
            return True

        __hash__ = None

    iscsi_set(status=Anything(), sense=desc_sense(6, 0x29, 0))
    e = raises(dev.CheckCondition, dev.execute, StubCmd())
    check((e.data["sense_key"], e.asc, e.ascq) == (6, 0x29, 0), "Anything -> CC")

    # one that equals everything but CHECK CONDITION is GOOD
    class NotCC(object):
        def __eq__(self, other):
            return other != 2

        __hash__ = None

    iscsi_set(status=NotCC())
    check(dev.execute(StubCmd()) is None, "NotCC -> GOOD")

    # ---- errors of the binding itself propagate unchanged ------------------
    boom = OSError("link down")

    def broken(ctx, lun, task, dataout, datain):
        raise boom

    iscsi.behaviour = broken
    for raw in (False, True):
        cmd = StubCmd()
        try:
            dev.execute(cmd, raw)
        except OSError as e:
            check(e is boom, "transport error propagates")
        else:
            check(False, "transport error swallowed")
    # malformed command: no length
    iscsi.behaviour = None
    raises(TypeError, dev.execute, StubCmd(datain=None))
    raises(TypeError, dev.execute, StubCmd(dataout=None))
    raises(AttributeError, dev.execute, object())

    # ---- subclass of the device: its own error family is used --------------
    class MyISCSI(ISCSIDevice):
        pass

    sub = MyISCSI("iscsi://h/t/1")
    check(MyISCSI.BusyStatus is not ISCSIDevice.BusyStatus, "subclass family")
    iscsi_set(status=SCSI_STATUS.BUSY)
    e = raises(MyISCSI.BusyStatus, sub.execute, StubCmd())
    check(not isinstance(e, ISCSIDevice.BusyStatus), "not the parent's error")
    iscsi_set(status=2, sense=fixed_sense(2, 4, 1))
    e = raises(MyISCSI.CheckCondition, sub.execute, StubCmd())
    check(not isinstance(e, ISCSIDevice.CheckCondition), "not the parent's CC")

    # error classes replaced on the instance / class are honoured
    class Custom(Exception):
        pass

    class Patched(ISCSIDevice):
        pass

    Patched.TaskAborted = Custom
    p = Patched("iscsi://h/t/1")
    p.ACAActive = Custom
    iscsi_set(status=SCSI_STATUS.TASK_ABORTED)
    raises(Custom, p.execute, StubCmd())
    iscsi_set(status=SCSI_STATUS.ACA_ACTIVE)
    raises(Custom, p.execute, StubCmd())
    iscsi_set(status=SCSI_STATUS.BUSY)
    raises(Patched.BusyStatus, p.execute, StubCmd())

    # ---- context manager ---------------------------------------------------
    with make_iscsi() as d:
        c = iscsi.contexts[-1]
        iscsi_set(status=SCSI_STATUS.RESERVATION_CONFLICT)
        try:
            d.execute(StubCmd())
        except ISCSIDevice.ReservationConflict:
            pass
        else:
            check(False, "no ReservationConflict")
    check(not c.connected, "context exit disconnects")
    iscsi.behaviour = None
    dev.close()


# --------------------------------------------------------------------------
# 3. SG_IO transport
# --------------------------------------------------------------------------
def test_sgio_transport():
    raises(NotImplementedError, SCSIDevice, "iscsi://x")
    raises(NotImplementedError, SCSIDevice, "dev/null")
    raises(NotImplementedError, SCSIDevice, "")

    for kwargs in ({}, {"detect_replugged": False}, {"readwrite": True}, {"buffering": 0}):
        dev = SCSIDevice("/dev/null", **kwargs)
        check(dev.opcodes is spc, "default opcodes")
        check(repr(dev) == "SCSIDevice", "repr")

        # ---- GOOD ----------------------------------------------------------
        def good(fid, cdb, dout, din):
            din[:2] = b"\x05\x80"
            return 0

        sgio.behaviour = good
        for raw in (False, True):
            cmd = Inquiry(spc.INQUIRY)
            n = len(sgio.calls)
            check(dev.execute(cmd, en_raw_sense=raw) is None, "sgio GOOD returns None")
            check(len(sgio.calls) == n + 1, "one sgio call")
            fid, cdb, dout, din, a, k = sgio.calls[-1]
            check(cdb is cmd.cdb and dout is cmd.dataout and din is cmd.datain, "buffers")
            check(a == () and k == {}, "no extra sgio arguments")
            check(hasattr(fid, "fileno") and not fid.closed, "open file passed")
            check(fid.name == "/dev/null", "file name")
            check(fid.mode == ("rb+" if kwargs.get("readwrite") else "rb"), "mode " + fid.mode)
            check(cmd.datain[:2] == b"\x05\x80", "data delivered")
            check(cmd.sense is None and cmd.raw_sense_data is None, "no sense on GOOD")

        # ---- CHECK CONDITION -----------------------------------------------
        for label, sense, key, asc, ascq in sense_cases():
            err = sgio.CheckConditionError(sense)

            def cc(fid, cdb, dout, din, err=err):
                raise err

            sgio.behaviour = cc
            where = "sgio CC " + label
            for form in ("positional", "default", "kw", 0, None, ""):
                cmd = Read10(sbc.READ_10, 512, 0, 1)
                cmd.datain[:] = b"\x55" * 512
                if form == "default":
                    args, kw = (cmd,), {}
                elif form == "positional":
                    args, kw = (cmd, False), {}
                elif form == "kw":
                    args, kw = (), {"cmd": cmd, "en_raw_sense": False}
                else:
                    args, kw = (cmd, form), {}
                e = raises(dev.CheckCondition, dev.execute, *args, **kw)
                check_check_condition(e, SCSIDevice, sense, key, asc, ascq, where)
                check(e.__context__ is err, where + ": backend error is the context")
                check(e.__cause__ is None, where + ": no explicit cause")
                check(cmd.raw_sense_data is None, where + ": raw sense not asked")
                check(cmd.sense is None, where + ": cmd.sense untouched")
                check(cmd.datain == b"\x55" * 512 and cmd.result == {}, where + ": untouched")
            # raw sense requested: no error, the very sense object is attached
            for form in (True, 1, "raw", [0]):
                cmd = Read10(sbc.READ_10, 512, 0, 1)
                check(dev.execute(cmd, form) is None, where + ": raw -> returns")
                check(cmd.raw_sense_data is sense, where + ": raw sense attached")
                check(cmd.sense is None, where + ": cmd.sense untouched (raw)")
            cmd = Read10(sbc.READ_10, 512, 0, 1)
            check(dev.execute(cmd=cmd, en_raw_sense=True) is None, where + ": raw kw")
            check(cmd.raw_sense_data is sense, where + ": raw kw attached")
            # a later GOOD on a new command shows nothing of it
            sgio.behaviour = None
            cmd2 = Read10(sbc.READ_10, 512, 0, 1)
            check(dev.execute(cmd2, True) is None, "GOOD after CC")
            check(cmd2.raw_sense_data is None, "no stale sense")

        # ---- any other failure of the backend propagates unchanged ---------
        for boom in (
            sgio.UnspecifiedError("host status 7"),
            OSError(5, "Input/output error"),
            ValueError("bad cdb"),
            RuntimeError("x"),
            StopIteration("odd"),
            KeyboardInterrupt(),
            GeneratorExit(),
        ):

            def fail(fid, cdb, dout, din, boom=boom):
                raise boom

            sgio.behaviour = fail
            for raw in (False, True):
                cmd = Inquiry(spc.INQUIRY)
                try:
                    dev.execute(cmd, raw)
                except BaseException as e:  # noqa
                    check(e is boom, "backend error %r propagates as is" % boom)
                else:
                    check(False, "backend error %r swallowed" % boom)
                check(cmd.raw_sense_data is None and cmd.result == {}, "nothing attached")

        # a subclass of the backend error counts as CHECK CONDITION too
        class SubCC(sgio.CheckConditionError):
            pass

        def subcc(fid, cdb, dout, din):
            raise SubCC(desc_sense(3, 0x11, 0))

        sgio.behaviour = subcc
        e = raises(dev.CheckCondition, dev.execute, Inquiry(spc.INQUIRY))
        check((e.data["sense_key"], e.asc, e.ascq) == (3, 0x11, 0), "SubCC")
        sgio.behaviour = None
        f = sgio.calls[-1][0]
        dev.close()
        check(f.closed, "close closes the file")

    # ---- per class families -------------------------------------------------
    class MySCSI(SCSIDevice):
        pass

    sub = MySCSI("/dev/null")

    def cc2(fid, cdb, dout, din):
        raise sgio.CheckConditionError(fixed_sense(2, 0x3A, 0))

    sgio.behaviour = cc2
    e = raises(MySCSI.CheckCondition, sub.execute, Inquiry(spc.INQUIRY))
    check(not isinstance(e, SCSIDevice.CheckCondition), "subclass CC family")
    check((e.data["sense_key"], e.asc, e.ascq) == (2, 0x3A, 0), "subclass CC data")
    sgio.behaviour = None
    sub.close()

    # ---- context manager ----------------------------------------------------
    with SCSIDevice("/dev/null") as d:
        sgio.behaviour = cc2
        try:
            d.execute(Inquiry(spc.INQUIRY))
        except SCSIDevice.CheckCondition as e:
            check(e.asc == 0x3A, "with: asc")
        else:
            check(False, "with: no CC")
        sgio.behaviour = None
        d.execute(Inquiry(spc.INQUIRY))
        f = sgio.calls[-1][0]
    check(f.closed, "with closes")

    # ---- replug detection (a device node that gets replaced) ---------------
    shm = "/dev/shm"
    if os.path.isdir(shm) and os.access(shm, os.W_OK):
        d = tempfile.mkdtemp(prefix="c07demo", dir=shm)
        node = os.path.join(d, "sgX")
        keep = os.path.join(d, "keep")
        try:
            open(node, "wb").close()
            for detect in (True, False):
                dev = SCSIDevice(node, detect_replugged=detect)
                dev.execute(Inquiry(spc.INQUIRY))
                f1 = sgio.calls[-1][0]
                dev.execute(Inquiry(spc.INQUIRY))
                check(sgio.calls[-1][0] is f1, "same handle while not replugged")
                # replace the node by a new inode (keep the old one alive so
                # that the inode number cannot be recycled)
                os.rename(node, keep)
                open(node, "wb").close()
                for behaviour, raw in ((None, False), (cc2, False), (cc2, True)):
                    sgio.behaviour = behaviour
                    cmd = Inquiry(spc.INQUIRY)
                    if behaviour is cc2 and not raw:
                        e = raises(dev.CheckCondition, dev.execute, cmd, raw)
                        check(e.asc == 0x3A, "replug: CC")
                    else:
                        check(dev.execute(cmd, raw) is None, "replug: returns")
                    f2 = sgio.calls[-1][0]
                    if detect:
                        check(f2 is not f1 and f1.closed and not f2.closed, "reopened")
                        check(os.fstat(f2.fileno()).st_ino == os.stat(node).st_ino, "new inode")
                    else:
                        check(f2 is f1 and not f1.closed, "no detection: same handle")
                sgio.behaviour = None
                dev.close()
                os.unlink(keep)
        finally:
            for p in (node, keep):
                if os.path.exists(p):
                    os.unlink(p)
            os.rmdir(d)


# --------------------------------------------------------------------------
# 4. the facade
# --------------------------------------------------------------------------
class ScriptedDevice(object):
    """
    A duck-typed device for the facade.  It records what it is asked to do and
    either fills datain (success) or raises the prepared error.  When it fails
    it booby-traps the command so that any decoding after the failure is seen.
    """

    def __init__(self, opcodes=spc):
        self.opcodes = opcodes
        self.devicetype = None
        self.error = None
        self.calls = []
        self.closed = 0
        self.decodes = []
        self.payload = None

    def execute(self, *args, **kwargs):
        self.calls.append((args, kwargs))
        cmd = args[0] if args else kwargs["cmd"]
        self.cmd = cmd
        decodes = self.decodes

        if self.error is not None:

            def trap(*a, **k):
                decodes.append(("AFTER-FAILURE", a, k))
                raise AssertionError("buffer decoded although the command failed")

            cmd.unmarshall = trap
            raise self.error
        original = cmd.unmarshall

        def counting(*a, **k):
            decodes.append((a, k))
            return original(*a, **k)

        cmd.unmarshall = counting
        if self.payload is not None:
            cmd.datain[: len(self.payload)] = self.payload

    def close(self):
        self.closed += 1


MS6_CONTROL = bytearray.fromhex("0f0000000a0a0000000000000000000000")  # placeholder, replaced below


def facade_calls():
    """(name, callable(s), opcodes, decode kwargs or None, raw flag, command class name)"""
    data512 = bytearray(27 * 512)
    ms6 = ModeSense6.unmarshall_datain(
        bytearray.fromhex("0f000000" + "0a0a" + "00" * 10)
    )
    ms10 = ModeSense10.unmarshall_datain(
        bytearray.fromhex("001100000000" + "0000" + "0a0a" + "00" * 10)
    )
    ata = (4, 2, 1, 1, 0, 0, 0xD0, 1, 0xC24F00, 0xB0)
    return [
        ("exchangemedium", lambda s: s.exchangemedium(15, 32, 64, 32, inv1=1), smc, None, False),
        ("getlbastatus", lambda s: s.getlbastatus(19938722, alloclen=64), sbc, {}, False),
        ("inquiry", lambda s: s.inquiry(), spc, {"evpd": 0}, False),
        ("inquiry", lambda s: s.inquiry(alloclen=128), spc, {"evpd": 0}, False),
        ("inquiry", lambda s: s.inquiry(1, 0x80, 64), spc, {"evpd": 1}, False),
        ("inquiry", lambda s: s.inquiry(evpd=1, page_code=0xB2), sbc, {"evpd": 1}, False),
        ("initializeelementstatus", lambda s: s.initializeelementstatus(), smc, None, False),
        ("initializeelementstatuswithrange", lambda s: s.initializeelementstatuswithrange(15, 3, rng=1, fast=1), smc, None, False),
        ("modeselect6", lambda s: s.modeselect6(ms6), spc, {}, False),
        ("modesense6", lambda s: s.modesense6(page_code=0x0A), spc, {}, False),
        ("modesense6", lambda s: s.modesense6(0x0A, sub_page_code=0, dbd=1, alloclen=32), sbc, {}, False),
        ("modesense10", lambda s: s.modesense10(page_code=0x0A), spc, {}, False),
        ("modeselect10", lambda s: s.modeselect10(ms10), spc, {}, False),
        ("opencloseimportexportelement", lambda s: s.opencloseimportexportelement(32, 1), smc, None, False),
        ("positiontoelement", lambda s: s.positiontoelement(15, 32, invert=1), smc, None, False),
        ("preventallowmediumremoval", lambda s: s.preventallowmediumremoval(prevent=3), spc, None, False),
        ("read10", lambda s: s.read10(1024, 27), sbc, None, False),
        ("read10", lambda s: s.read10(1024, 27, rdprotect=2, dpo=1, fua=1, rarc=1, group=19), sbc, None, False),
        ("read12", lambda s: s.read12(1024, 27), sbc, None, False),
        ("read16", lambda s: s.read16(1024, 27), sbc, None, False),
        ("readcapacity10", lambda s: s.readcapacity10(), sbc, {}, False),
        ("readcapacity16", lambda s: s.readcapacity16(alloclen=37), sbc, {}, False),
        ("readcd", lambda s: s.readcd(lba=640, tl=2, est=1, dap=1, mcsb=0x10, c2ei=2, scsb=5), mmc,
         {"lba": 640, "tl": 2, "est": 1, "dap": 1, "mcsb": 0x10, "c2ei": 2, "scsb": 5}, False),
        ("readcd", lambda s: s.readcd(16, 1), mmc, {"lba": 16, "tl": 1}, False),
        ("readdiscinformation", lambda s: s.readdiscinformation(0, alloc_len=64), mmc, {}, False),
        ("readelementstatus", lambda s: s.readelementstatus(300, 700, element_type=1, voltag=1, curdata=1, dvcid=1, alloclen=64), smc, {}, False),
        ("movemedium", lambda s: s.movemedium(15, 32, 64, invert=1), smc, None, False),
        ("synchronizecache10", lambda s: s.synchronizecache10(1024, 25), sbc, None, False),
        ("synchronizecache16", lambda s: s.synchronizecache16(65536, 27, immed=1, group=19), sbc, None, False),
        ("testunitready", lambda s: s.testunitready(), spc, None, False),
        ("write10", lambda s: s.write10(1024, 27, data512), sbc, None, False),
        ("write12", lambda s: s.write12(1024, 27, data512), sbc, None, False),
        ("write16", lambda s: s.write16(65536, 27, data512, wrprotect=2, dpo=1, fua=1, group=19), sbc, None, False),
        ("writesame16", lambda s: s.writesame16(1024, 27, data512[:512]), sbc, None, False),
        ("writesame10", lambda s: s.writesame10(1024, 27, data512[:512]), sbc, None, False),
        ("reportluns", lambda s: s.reportluns(), spc, {}, False),
        ("reportluns", lambda s: s.reportluns(report=2, alloclen=64), spc, {}, False),
        ("reportpriority", lambda s: s.reportpriority(priority=0, alloclen=64), spc, {}, False),
        ("reporttargetportgroups", lambda s: s.reporttargetportgroups(data_format=0, alloclen=64), spc, {}, False),
        ("atapassthrough12", lambda s: s.atapassthrough12(*ata), sbc, None, True),
        ("atapassthrough16", lambda s: s.atapassthrough16(*ata), sbc, None, True),
        ("persistentreservein", lambda s: s.persistentreservein(service_action=0, alloclen=256), spc, {}, False),
        ("persistentreservein", lambda s: s.persistentreservein(1, alloclen=255), spc, {}, False),
        ("persistentreservein", lambda s: s.persistentreservein(2, alloclen=2048), spc, {}, False),
        ("persistentreservein", lambda s: s.persistentreservein(3, alloclen=512), spc, {}, False),
        ("persistentreserveout", lambda s: s.persistentreserveout(service_action=0, scope=1, pr_type=4), spc, None, False),
        ("extendedcopy4", lambda s: s.extendedcopy4(), spc, None, False),
        ("extendedcopy4", lambda s: s.extendedcopy4(list_identifier=9, sequential_striped=1, priority=5), spc, None, False),
        ("extendedcopy5", lambda s: s.extendedcopy5(), spc, None, False),
        ("extendedcopy5", lambda s: s.extendedcopy5(list_id_usage=2, priority=7), spc, None, False),
    ]


class BareSCSI(SCSI):
    """the facade without the inquiry done by the constructor"""

    def __init__(self, dev, blocksize=512):
        self.device = dev
        self._blocksize = blocksize


def facade_errors():
    errs = []
    for holder in (SCSIDevice, ISCSIDevice):
        errs.append(holder.CheckCondition(fixed_sense(5, 0x24, 0)))
        errs.append(holder.CheckCondition(None))
        for name in STATUS_ERRORS.values():
            errs.append(getattr(holder, name)())
    errs += [RuntimeError(), OSError(5, "io"), sgio.UnspecifiedError("u"), ValueError("v"),
             KeyError("k"), Exception("plain"), StopIteration()]
    return errs


def test_facade():
    calls = facade_calls()
    names = set(c[0] for c in calls)
    public = set(
        n for n in vars(SCSI)
        if not n.startswith("_") and callable(vars(SCSI)[n]) and n != "execute"
    )
    check(public <= names, "facade methods not exercised: %r" % sorted(public - names))

    errors = facade_errors()
    base_errors = [KeyboardInterrupt(), SystemExit(3), GeneratorExit()]
    for idx, (name, call, opcodes, decode, raw) in enumerate(calls):
        # -------- success ---------------------------------------------------
        dev = ScriptedDevice(opcodes)
        s = BareSCSI(dev)
        cmd = call(s)
        check(len(dev.calls) == 1, name + ": executed once")
        args, kwargs = dev.calls[0]
        check(args == (cmd,), name + ": the returned command is the executed one")
        check(kwargs == {"en_raw_sense": raw}, name + ": en_raw_sense %r" % (kwargs,))
        check(isinstance(cmd, SCSICommand), name + ": a SCSICommand")
        if decode is None:
            check(dev.decodes == [], name + ": nothing to decode")
        else:
            check(dev.decodes == [((), decode)], name + ": decoded once %r" % (dev.decodes,))
            if not name.startswith("modeselect"):
                check(isinstance(cmd.result, dict), name + ": result decoded")
                if name in ("inquiry", "readcapacity10", "readcapacity16", "modesense6",
                            "modesense10", "getlbastatus", "reportluns"):
                    check(cmd.result != {}, name + ": result not empty")
        # -------- failure ---------------------------------------------------
        for err in errors + base_errors:
            dev = ScriptedDevice(opcodes)
            dev.error = err
            s = BareSCSI(dev)
            try:
                r = call(s)
            except BaseException as e:  # noqa
                check(e is err, "%s: %r came out as %r" % (name, err, e))
            else:
                check(False, "%s: failure %r looked like success (%r)" % (name, err, r))
            check(len(dev.calls) == 1, name + ": executed once (failure)")
            check(dev.decodes == [], name + ": decoded after failure")
            check(dev.cmd.result == {}, name + ": result stays empty")
            check(dev.cmd.raw_sense_data is None and dev.cmd.sense is None, name + ": no sense invented")
            if idx % 7:
                # the full error list is only run for every seventh call to
                # keep the runtime low; the others get a short one
                if err is errors[2]:
                    break

    # persistentreservein with an unknown service action never reaches the device
    dev = ScriptedDevice(spc)
    e = raises(ValueError, BareSCSI(dev).persistentreservein, 0x1F)
    check(dev.calls == [], "invalid service action not executed")

    # -------- SCSI.execute itself -----------------------------------------
    dev = ScriptedDevice(spc)
    s = BareSCSI(dev)
    cmd = TestUnitReady(spc.TEST_UNIT_READY)
    check(s.execute(cmd) is None, "execute returns None")
    check(dev.calls[-1] == ((cmd,), {"en_raw_sense": False}), "execute default")
    for raw in (True, False, 0, 1, None, "x"):
        check(s.execute(cmd, raw) is None, "execute raw positional")
        check(dev.calls[-1] == ((cmd,), {"en_raw_sense": raw}), "execute passes raw on")
        check(s.execute(cmd=cmd, en_raw_sense=raw) is None, "execute raw kw")
        check(dev.calls[-1] == ((cmd,), {"en_raw_sense": raw}), "execute passes raw kw on")
    for err in errors:
        dev.error = err
        for raw in (False, True):
            try:
                s.execute(TestUnitReady(spc.TEST_UNIT_READY), raw)
            except BaseException as e:  # noqa
                check(e is err, "execute: same error object")
                check(e.__cause__ is None, "execute: no cause added")
            else:
                check(False, "execute swallowed %r" % err)

    # a subclass that overrides execute is what the facade methods go through
    class Counting(BareSCSI):
        seen = None

        def execute(self, cmd, en_raw_sense=False):
            self.seen = (cmd, en_raw_sense)
            return SCSI.execute(self, cmd, en_raw_sense)

    dev = ScriptedDevice(sbc)
    c = Counting(dev)
    r = c.readcapacity10()
    check(c.seen == (r, False), "override used")
    r = c.atapassthrough16(4, 2, 1, 1, 0, 0, 0xD0, 1, 0xC24F00, 0xB0)
    check(c.seen == (r, True), "override used, raw")
    dev.error = SCSIDevice.BusyStatus()
    raises(SCSIDevice.BusyStatus, c.read10, 0, 1)

    class PlainExecute(BareSCSI):
        def execute(self, cmd):
            self.device.execute(cmd)

    dev = ScriptedDevice(sbc)
    r = PlainExecute(dev).readcapacity16()
    check(dev.calls == [((r,), {})] and dev.decodes == [((), {})], "one-argument execute override")

    # -------- the constructor probes the device with INQUIRY ----------------
    for dtype, table in ((0x00, sbc), (0x04, sbc), (0x07, sbc), (0x01, ssc), (0x02, ssc),
                         (0x09, ssc), (0x03, spc), (0x08, smc), (0x05, mmc), (0x0C, spc), (0x1F, spc)):
        dev = ScriptedDevice(spc)
        dev.payload = bytearray([dtype, 0, 5, 2, 91])
        s = SCSI(dev, 4096)
        check(dev.devicetype == dtype, "device type %x" % dtype)
        check(dev.opcodes is table, "opcodes for type %x" % dtype)
        check(s.blocksize == 4096 and s.device is dev, "ctor state")
        check(len(dev.calls) == 1, "one inquiry")
    for err in errors:
        dev = ScriptedDevice(spc)
        dev.error = err
        try:
            SCSI(dev)
        except BaseException as e:  # noqa
            check(e is err, "ctor: error from the probe comes out")
        else:
            check(False, "ctor: failed probe looked like success")
        check(dev.devicetype is None and dev.opcodes is spc, "ctor: device left alone")
        check(dev.decodes == [], "ctor: nothing decoded")
    # re-targeting an existing facade
    dev = ScriptedDevice(spc)
    dev.payload = bytearray([0x05, 0, 5, 2, 91])
    s = SCSI(None)
    check(s.device is None, "no device")
    s(dev)
    check(s.device is dev and dev.opcodes is mmc, "__call__ probes")
    dev2 = ScriptedDevice(spc)
    dev2.error = ISCSIDevice.TaskSetFull()
    raises(ISCSIDevice.TaskSetFull, s, dev2)
    with SCSI(dev) as s2:
        pass
    check(dev.closed == 1, "with closes the device")


# --------------------------------------------------------------------------
# 5. end to end: facade on top of the real device classes
# --------------------------------------------------------------------------
STD_INQUIRY = bytearray(96)
STD_INQUIRY[0:8] = bytearray([0x00, 0x00, 0x05, 0x02, 91, 0, 0, 0])
STD_INQUIRY[8:16] = b"DEMO    "
STD_INQUIRY[16:32] = b"VIRTUAL DISK    "
STD_INQUIRY[32:36] = b"1.0 "


def test_end_to_end():
    # ---------------- iSCSI ------------------------------------------------
    state = {"status": 0, "sense": "__absent__"}

    def target(ctx, lun, task, dataout, datain):
        task.status = state["status"]
        if state["sense"] != "__absent__":
            task.raw_sense = state["sense"]
        if task.status != 0:
            return
        op = task.cdb[0]
        if op == 0x12:
            datain[: len(STD_INQUIRY)] = STD_INQUIRY[: len(datain)]
        elif op == 0x25:
            datain[:8] = bytearray([0, 0, 0xFF, 0xFF, 0, 0, 2, 0])
        elif op == 0x28:
            datain[:] = b"\xC3" * len(datain)

    iscsi.behaviour = target
    dev = make_iscsi()
    s = SCSI(dev, 512)
    check(dev.devicetype == 0 and dev.opcodes is sbc, "iscsi e2e: probed")
    r = s.inquiry()
    check(r.result["t10_vendor_identification"] == b"DEMO    ", "iscsi e2e: inquiry decoded")
    r = s.readcapacity10()
    check(r.result == {"returned_lba": 0xFFFF, "block_length": 512}, "iscsi e2e: readcapacity %r" % r.result)
    r = s.read10(0, 2)
    check(r.datain == b"\xC3" * 1024, "iscsi e2e: read")
    check(s.testunitready().result == {}, "iscsi e2e: tur")

    for key, asc, ascq in TRIPLES:
        for sense in (fixed_sense(key, asc, ascq), desc_sense(key, asc, ascq)):
            state.update(status=2, sense=sense)
            for fn in (s.inquiry, s.readcapacity10, s.testunitready, lambda: s.read10(0, 1),
                       lambda: s.write10(0, 1, bytearray(512)), s.reportluns,
                       lambda: s.modesense6(0x0A)):
                e = raises(ISCSIDevice.CheckCondition, fn)
                check_check_condition(e, ISCSIDevice, sense, key, asc, ascq, "iscsi e2e CC")
            n = len(iscsi.tasks)
            e = raises(ISCSIDevice.CheckCondition, s.atapassthrough16, 4, 2, 1, 1, 0, 0, 0xD0, 1, 0xC24F00, 0xB0)
            check_check_condition(e, ISCSIDevice, sense, key, asc, ascq, "iscsi e2e CC ata")
            check(len(iscsi.tasks) == n + 1, "one task")
    for status_name, err_name in STATUS_ERRORS.items():
        state.update(status=getattr(SCSI_STATUS, status_name), sense="__absent__")
        for fn in (s.inquiry, s.readcapacity16, s.testunitready, lambda: s.read16(0, 1),
                   lambda: s.synchronizecache10(0, 1), lambda: s.persistentreservein(0)):
            e = raises(getattr(ISCSIDevice, err_name), fn)
            check(e.args == (), "iscsi e2e: bare " + err_name)
        raises(getattr(ISCSIDevice, err_name), SCSI, dev)
    state.update(status=0xFF)
    raises(RuntimeError, s.inquiry)
    raises(RuntimeError, SCSI, dev)
    state.update(status=0)
    check(s.readcapacity10().result["block_length"] == 512, "iscsi e2e: recovers")
    # a CHECK CONDITION while constructing the facade
    state.update(status=2, sense=fixed_sense(6, 0x29, 0))
    dev3 = make_iscsi()
    e = raises(ISCSIDevice.CheckCondition, SCSI, dev3)
    check((e.data["sense_key"], e.asc, e.ascq) == (6, 0x29, 0), "iscsi e2e: UA at probe")
    check(dev3.opcodes is spc and not hasattr(dev3, "_devicetype"), "iscsi e2e: not configured")
    iscsi.behaviour = None

    # ---------------- SG_IO -------------------------------------------------
    st = {"error": None}

    def sg(fid, cdb, dout, din):
        if st["error"] is not None:
            raise st["error"]
        op = cdb[0]
        if op == 0x12:
            din[: len(STD_INQUIRY)] = STD_INQUIRY[: len(din)]
        elif op == 0x25:
            din[:8] = bytearray([0, 0, 0xFF, 0xFF, 0, 0, 2, 0])
        return 0

    sgio.behaviour = sg
    dev = SCSIDevice("/dev/null")
    s = SCSI(dev, 512)
    check(dev.devicetype == 0 and dev.opcodes is sbc, "sgio e2e: probed")
    check(s.readcapacity10().result == {"returned_lba": 0xFFFF, "block_length": 512}, "sgio e2e: rc10")
    ata = (4, 2, 1, 1, 0, 0, 0xD0, 1, 0xC24F00, 0xB0)
    for key, asc, ascq in TRIPLES:
        for sense in (fixed_sense(key, asc, ascq), desc_sense(key, asc, ascq)):
            st["error"] = sgio.CheckConditionError(sense)
            for fn in (s.inquiry, s.readcapacity10, s.testunitready, lambda: s.read10(0, 1),
                       lambda: s.write10(0, 1, bytearray(512)), s.reportluns,
                       lambda: s.getlbastatus(0)):
                e = raises(SCSIDevice.CheckCondition, fn)
                check_check_condition(e, SCSIDevice, sense, key, asc, ascq, "sgio e2e CC")
            raises(SCSIDevice.CheckCondition, SCSI, dev)
            # ATA pass-through asks for the raw sense: returned, sense attached
            for fn in (s.atapassthrough12, s.atapassthrough16):
                r = fn(*ata)
                check(r.raw_sense_data is sense, "sgio e2e: ata raw sense attached")
                check(bytes(r.raw_sense_data) == bytes(sense), "sgio e2e: ata raw sense unmodified")
                check(r.result == {}, "sgio e2e: ata nothing decoded")
            # and the caller can ask for it on any command through the facade
            cmd = Inquiry(sbc.INQUIRY)
            check(s.execute(cmd, en_raw_sense=True) is None, "sgio e2e: execute raw")
            check(cmd.raw_sense_data is sense and cmd.result == {}, "sgio e2e: execute raw sense")
            cmd = Inquiry(sbc.INQUIRY)
            e = raises(SCSIDevice.CheckCondition, s.execute, cmd)
            check(cmd.raw_sense_data is None, "sgio e2e: not asked, not attached")
    boom = sgio.UnspecifiedError("driver status")
    st["error"] = boom
    for fn in (s.inquiry, s.testunitready, lambda: s.atapassthrough12(*ata)):
        try:
            fn()
        except sgio.UnspecifiedError as e:
            check(e is boom, "sgio e2e: other backend error propagates")
        else:
            check(False, "sgio e2e: other backend error swallowed")
    st["error"] = None
    r = s.atapassthrough16(*ata)
    check(r.raw_sense_data is None, "sgio e2e: ata GOOD has no sense")
    check(s.inquiry().result["product_identification"] == b"VIRTUAL DISK    ", "sgio e2e: recovers")
    sgio.behaviour = None
    s.device.close()


def main():
    test_exception_families()
    test_iscsi_transport()
    test_sgio_transport()
    test_facade()
    test_end_to_end()
    print("PASS (%d checks)" % CHECKS[0])
    return 0


if __name__ == "__main__":
    sys.exit(main())
