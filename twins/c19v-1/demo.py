#!/usr/bin/env python
# Demo / check script for property C19:
#
#   With neither, either or both of the external SG_IO and iSCSI bindings
#   installed, every module of the library imports, every command can be built,
#   encoded and decoded, and the facade works over any device object.  Asking
#   for a transport whose binding is missing, or for a device path the transport
#   does not handle, is refused with NotImplementedError before any file or
#   connection is opened; with the binding present the matching device class is
#   returned, opened on exactly the requested path or URL.
#
# Run as:  cd /tmp/seed/C19v && PYTHONPATH=/tmp/seed/C19v /venv/bin/python SEED/demo.py
#
# The bindings `sgio` and `iscsi` are not installed; small fake modules are put
# into sys.modules (or the names are blocked with a None entry) before the
# library is (re-)imported, once per configuration.

import builtins
import configparser
import importlib
import inspect
import io
import os
import pkgutil
import socket
import sys
import types

FAILURES = []
CHECKS = [0]
CONFIG = ["?"]


def check(cond, what):
    CHECKS[0] += 1
    if not cond:
        FAILURES.append("[%s] %s" % (CONFIG[0], what))


def raises(exc_type, fn, *args, **kwargs):
    """call fn; return the exception instance if it is exactly of exc_type's
    family, else None (and record nothing - the caller checks)"""
    try:
        fn(*args, **kwargs)
    except exc_type as e:
        return e
    except BaseException as e:  # wrong kind
        return ("WRONG", e)
    return None


def refused(fn, *args, **kwargs):
    """True when fn(*args) raises exactly NotImplementedError"""
    r = raises(NotImplementedError, fn, *args, **kwargs)
    return isinstance(r, NotImplementedError) and type(r) is NotImplementedError


# ---------------------------------------------------------------------------
# fake bindings
# ---------------------------------------------------------------------------
class Recorder:
    def __init__(self):
        self.events = []

    def add(self, *ev):
        self.events.append(ev)

    def clear(self):
        del self.events[:]

    def kinds(self):
        return [e[0] for e in self.events]


REC = Recorder()

INQ_DEVTYPE = [0x00]  # peripheral device type answered by the fake transports
SGIO_FAIL = [None]  # sense bytes to fail with
ISCSI_STATUS = [0x00]
ISCSI_RAW_SENSE = [True]

FIXED_SENSE = bytearray(
    [0x70, 0, 0x05, 0, 0, 0, 0, 10, 0, 0, 0, 0, 0x24, 0x00, 0, 0, 0, 0]
)


def make_fake_sgio():
    m = types.ModuleType("sgio")

    class CheckConditionError(Exception):
        def __init__(self, sense):
            Exception.__init__(self, "check condition")
            self.sense = sense

    def execute(fobj, cdb, dataout, datain, *rest, **kw):
        REC.add("sgio.execute", fobj, bytes(cdb), bytes(dataout), len(datain))
        if SGIO_FAIL[0] is not None:
            raise CheckConditionError(SGIO_FAIL[0])
        if cdb[0] == 0x12 and len(datain):
            datain[0] = INQ_DEVTYPE[0]
        return 0

    m.execute = execute
    m.CheckConditionError = CheckConditionError
    return m


def make_fake_iscsi():
    m = types.ModuleType("iscsi")
    m.SCSI_XFER_NONE = 0
    m.SCSI_XFER_READ = 1
    m.SCSI_XFER_WRITE = 2
    m.ISCSI_SESSION_NORMAL = 2
    m.ISCSI_HEADER_DIGEST_NONE_CRC32C = 1

    class Context:
        def __init__(self, initiator):
            self.initiator = initiator
            REC.add("iscsi.Context", initiator)

        def set_targetname(self, t):
            REC.add("iscsi.set_targetname", t)

        def set_session_type(self, t):
            REC.add("iscsi.set_session_type", t)

        def set_header_digest(self, t):
            REC.add("iscsi.set_header_digest", t)

        def connect(self, portal, lun):
            REC.add("iscsi.connect", portal, lun)

        def disconnect(self):
            REC.add("iscsi.disconnect")

        def command(self, lun, task, dataout, datain):
            REC.add(
                "iscsi.command", lun, bytes(task.cdb), task.dir, task.xferlen
            )
            task.status = ISCSI_STATUS[0]
            if ISCSI_RAW_SENSE[0]:
                task.raw_sense = FIXED_SENSE
            if task.cdb[0] == 0x12 and len(datain):
                datain[0] = INQ_DEVTYPE[0]

    class URL:
        def __init__(self, ctx, url):
            REC.add("iscsi.URL", ctx.initiator, url)
            rest = url[len("iscsi://") :]
            parts = rest.split("/")
            self.portal = parts[0]
            self.target = parts[1] if len(parts) > 1 else ""
            try:
                self.lun = int(parts[2])
            except (IndexError, ValueError):
                self.lun = 0

    class Task:
        def __init__(self, cdb, dir, xferlen):
            self.cdb = cdb
            self.dir = dir
            self.xferlen = xferlen
            self.status = 0

    m.Context = Context
    m.URL = URL
    m.Task = Task
    return m


# ---------------------------------------------------------------------------
# file system interception: record every open()/os.stat() on /dev/ paths and
# never touch the real devices
# ---------------------------------------------------------------------------
REAL_OPEN = builtins.open
REAL_STAT = os.stat
INODES = {}


class FakeFile(io.BytesIO):
    def __init__(self, name, mode, buffering):
        io.BytesIO.__init__(self)
        self.fake_name = name
        self.fake_mode = mode
        self.fake_buffering = buffering

    def close(self):
        REC.add("close", self.fake_name)
        io.BytesIO.close(self)


def fake_open(file, mode="r", buffering=-1, *args, **kwargs):
    if isinstance(file, str) and (file.startswith("/dev/") or "iscsi" in file):
        REC.add("open", file, mode, buffering, args, tuple(sorted(kwargs.items())))
        return FakeFile(file, mode, buffering)
    if not isinstance(file, (str, bytes, int)) and not hasattr(file, "__fspath__"):
        REC.add("open", file, mode, buffering, args, tuple(sorted(kwargs.items())))
    return REAL_OPEN(file, mode, buffering, *args, **kwargs)


def fake_stat(path, *args, **kwargs):
    if isinstance(path, str) and path.startswith("/dev/"):
        REC.add("stat", path)
        return types.SimpleNamespace(st_ino=INODES.setdefault(path, 4242))
    return REAL_STAT(path, *args, **kwargs)


def install_fs_hooks():
    builtins.open = fake_open
    os.stat = fake_stat


def remove_fs_hooks():
    builtins.open = REAL_OPEN
    os.stat = REAL_STAT


def io_events():
    return [
        e
        for e in REC.events
        if e[0] in ("open", "stat", "iscsi.Context", "iscsi.URL", "iscsi.connect")
    ]


# ---------------------------------------------------------------------------
# (re)import of the library under a binding configuration
# ---------------------------------------------------------------------------
def purge():
    for name in list(sys.modules):
        if name == "pyscsi" or name.startswith("pyscsi."):
            del sys.modules[name]
    for name in ("sgio", "iscsi"):
        sys.modules.pop(name, None)


def configure(have_sgio, have_iscsi):
    purge()
    # a None entry makes "import x" raise ImportError even if x were installed
    sys.modules["sgio"] = make_fake_sgio() if have_sgio else None
    sys.modules["iscsi"] = make_fake_iscsi() if have_iscsi else None


EXPECTED_ALL = [
    "scsi",
    "scsi_cdb_exchangemedium",
    "scsi_cdb_getlbastatus",
    "scsi_cdb_initelementstatus",
    "scsi_cdb_initelementstatuswithrange",
    "scsi_cdb_inquiry",
    "scsi_cdb_modesense6",
    "scsi_cdb_modesense10",
    "scsi_cdb_movemedium",
    "scsi_cdb_openclose_exportimport_element",
    "scsi_cdb_positiontoelement",
    "scsi_cdb_preventallow_mediumremoval",
    "scsi_cdb_read10",
    "scsi_cdb_read12",
    "scsi_cdb_read16",
    "scsi_cdb_readcapacity16",
    "scsi_cdb_readcapacity10",
    "scsi_cdb_readcd",
    "scsi_cdb_readelementstatus",
    "scsi_cdb_readdiscinformation",
    "scsi_cdb_report_luns",
    "scsi_cdb_report_priority",
    "scsi_cdb_synchronize_cache10",
    "scsi_cdb_synchronize_cache16",
    "scsi_cdb_testunitready",
    "scsi_cdb_write10",
    "scsi_cdb_write12",
    "scsi_cdb_write16",
    "scsi_cdb_writesame10",
    "scsi_cdb_writesame16",
    "scsi_command",
    "scsi_device",
    "scsi_exception",
    "scsi_sense",
]


def check_imports():
    """every module of the library imports; the package level re-exports work"""
    import pyscsi

    names = []
    for info in pkgutil.walk_packages(pyscsi.__path__, "pyscsi."):
        names.append(info.name)
        try:
            importlib.import_module(info.name)
        except BaseException as e:  # noqa
            check(False, "import of %s failed: %r" % (info.name, e))
        else:
            check(True, "")
    check(len(names) >= 55, "too few modules walked: %d" % len(names))
    for must in (
        "pyscsi.pyscsi.scsi_device",
        "pyscsi.pyiscsi.iscsi_device",
        "pyscsi.pyscsi.scsi",
        "pyscsi.utils.converter",
    ):
        check(must in names, "module %s not found" % must)

    import pyscsi.pyscsi as inner
    import pyscsi.pyiscsi as pyiscsi
    import pyscsi.utils as utils

    check(list(inner.__all__) == EXPECTED_ALL, "pyscsi.pyscsi.__all__ changed")
    check(list(pyiscsi.__all__) == ["iscsi_device"], "pyscsi.pyiscsi.__all__ changed")
    for n in EXPECTED_ALL:
        sub = sys.modules.get("pyscsi.pyscsi." + n)
        check(isinstance(sub, types.ModuleType), "submodule %s not loaded" % n)
        check(getattr(pyscsi, n, None) is sub, "pyscsi.%s is not the submodule" % n)
        check(getattr(inner, n, None) is sub, "pyscsi.pyscsi.%s missing" % n)
    # names coming from "from .utils import *"
    check(pyscsi.init_device is utils.init_device, "pyscsi.init_device missing")
    from pyscsi.utils import converter, enum

    check(pyscsi.scsi_int_to_ba is converter.scsi_int_to_ba, "scsi_int_to_ba export")
    check(pyscsi.scsi_ba_to_int is converter.scsi_ba_to_int, "scsi_ba_to_int export")
    check(pyscsi.Enum is enum.Enum, "Enum export")
    check(utils.Enum is enum.Enum and utils.decode_bits is converter.decode_bits,
          "pyscsi.utils star exports")
    check(pyscsi.pyscsi is inner and pyscsi.utils is utils, "subpackages as attributes")

    ns = {}
    exec("from pyscsi import *", ns)
    check("init_device" in ns and "scsi" in ns and "scsi_device" in ns,
          "from pyscsi import * lost names")
    ns = {}
    exec("from pyscsi.pyscsi import *", ns)
    check(sorted(k for k in ns if k != "__builtins__") == sorted(EXPECTED_ALL),
          "from pyscsi.pyscsi import * gives other names")
    ns = {}
    exec("from pyscsi.utils import *", ns)
    check(ns.get("init_device") is utils.init_device, "from pyscsi.utils import *")

    # signature of the public entry points
    sig = inspect.signature(utils.init_device)
    check(list(sig.parameters) == ["dev", "read_write", "initiator_name"],
          "init_device parameters: %s" % sig)
    check(sig.parameters["read_write"].default is False, "read_write default")
    check(
        sig.parameters["initiator_name"].default
        == "iqn.2018-01.org.pyscsi:" + socket.gethostname(),
        "initiator_name default",
    )
    check(
        all(p.kind is p.POSITIONAL_OR_KEYWORD for p in sig.parameters.values()),
        "init_device parameter kinds",
    )
    from pyscsi.pyiscsi.iscsi_device import ISCSIDevice
    from pyscsi.pyscsi.scsi_device import SCSIDevice

    sig = inspect.signature(SCSIDevice.__init__)
    check(
        [(p.name, p.default) for p in sig.parameters.values()][1:]
        == [
            ("device", inspect.Parameter.empty),
            ("readwrite", False),
            ("detect_replugged", True),
            ("buffering", -1),
        ],
        "SCSIDevice.__init__ signature: %s" % sig,
    )
    sig = inspect.signature(ISCSIDevice.__init__)
    check(
        [(p.name, p.default) for p in sig.parameters.values()][1:]
        == [("device", inspect.Parameter.empty), ("initiator_name", "")],
        "ISCSIDevice.__init__ signature: %s" % sig,
    )
    for cls in (SCSIDevice, ISCSIDevice):
        for exc in (
            "CheckCondition",
            "ConditionsMet",
            "BusyStatus",
            "ReservationConflict",
            "TaskSetFull",
            "ACAActive",
            "TaskAborted",
            "CommandNotImplemented",
            "MissingBlocksizeException",
            "OpcodeException",
        ):
            check(
                isinstance(getattr(cls, exc, None), type)
                and issubclass(getattr(cls, exc), Exception),
                "%s.%s missing" % (cls.__name__, exc),
            )
        for meth in ("open", "close", "execute", "__enter__", "__exit__"):
            check(callable(getattr(cls, meth, None)), "%s.%s" % (cls.__name__, meth))
        for prop in ("opcodes", "devicetype"):
            check(hasattr(cls, prop), "%s.%s" % (cls.__name__, prop))


# ---------------------------------------------------------------------------
# commands: build, encode, decode through the facade over plain device objects
# ---------------------------------------------------------------------------
class PlainDevice(object):
    """a device object that has nothing to do with the library's classes"""

    def __init__(self, opcodes, devtype=None):
        self.opcodes = opcodes
        self.devtype = devtype
        self.executed = []
        self.closed = 0

    def execute(self, cmd, en_raw_sense=False):
        self.executed.append((cmd, en_raw_sense))
        if self.devtype is not None and cmd.cdb[0] == 0x12 and len(cmd.datain):
            cmd.datain[0] = self.devtype

    def close(self):
        self.closed += 1


class SlotDevice(object):
    __slots__ = ("opcodes", "devicetype", "log")

    def __init__(self):
        self.log = []

    def execute(self, cmd, en_raw_sense=False):
        self.log.append(bytes(cmd.cdb))
        if cmd.cdb[0] == 0x12:
            cmd.datain[0] = 0x08

    def close(self):
        self.log.append("close")


def check_commands():
    from pyscsi.pyscsi import scsi_enum_command as ec
    from pyscsi.pyscsi.scsi import SCSI
    from pyscsi.pyscsi.scsi_cdb_inquiry import Inquiry
    from pyscsi.pyscsi.scsi_cdb_read10 import Read10
    from pyscsi.pyscsi.scsi_cdb_read16 import Read16
    from pyscsi.pyscsi.scsi_cdb_readcapacity10 import ReadCapacity10
    from pyscsi.pyscsi.scsi_cdb_readcapacity16 import ReadCapacity16
    from pyscsi.pyscsi.scsi_cdb_write16 import Write16

    # the facade picks the opcode table from the inquiry answer of ANY device
    for devtype, table in (
        (0x00, ec.sbc),
        (0x04, ec.sbc),
        (0x07, ec.sbc),
        (0x01, ec.ssc),
        (0x02, ec.ssc),
        (0x09, ec.ssc),
        (0x03, ec.spc),
        (0x08, ec.smc),
        (0x05, ec.mmc),
    ):
        dev = PlainDevice(ec.spc, devtype)
        s = SCSI(dev)
        check(dev.devicetype == devtype, "devicetype stored for %#x" % devtype)
        check(dev.opcodes is table, "opcode table for device type %#x" % devtype)
        check(len(dev.executed) == 1 and dev.executed[0][0].cdb[0] == 0x12,
              "facade sends one INQUIRY")
        check(s.device is dev, "facade keeps the device")
    dev = PlainDevice(ec.spc, 0x0D)  # type without own table: stays as is
    SCSI(dev)
    check(dev.opcodes is ec.spc and dev.devicetype == 0x0D, "unknown device type")
    s = SCSI(None)
    check(s.device is None, "facade without device")
    sd = SlotDevice()
    sd.opcodes = ec.spc
    with SCSI(sd) as s:
        check(sd.opcodes is ec.smc and sd.devicetype == 0x08, "slot device")
        s.testunitready()
    check(sd.log[-1] == "close" and sd.log[-2] == bytes(6), "slot device log")

    dev = PlainDevice(ec.sbc, 0x00)
    s = SCSI(dev, blocksize=512)
    check(s.blocksize == 512, "blocksize")

    # hand computed CDBs
    c = s.read10(0x01020304, 0x0506, rdprotect=1, dpo=1, fua=1, rarc=1, group=3)
    check(
        bytes(c.cdb) == bytes([0x28, 0x3C, 1, 2, 3, 4, 3, 5, 6, 0]), "read10 cdb"
    )
    check(len(c.datain) == 0x0506 * 512 and len(c.dataout) == 0, "read10 buffers")
    d = Read10.unmarshall_cdb(c.cdb)
    check(d["lba"] == 0x01020304 and d["tl"] == 0x0506 and d["group"] == 3, "read10 decode")
    check(bytes(Read10.marshall_cdb(d)) == bytes(c.cdb), "read10 re-encode")

    c = s.read16(0x0102030405060708, 0x0B0C)
    check(
        bytes(c.cdb)
        == bytes([0x88, 0, 1, 2, 3, 4, 5, 6, 7, 8, 0, 0, 11, 12, 0, 0]),
        "read16 cdb",
    )
    d = Read16.unmarshall_cdb(c.cdb)
    check(d["lba"] == 0x0102030405060708 and d["tl"] == 0x0B0C, "read16 decode")
    check(bytes(Read16.marshall_cdb(d)) == bytes(c.cdb), "read16 re-encode")

    data = bytearray(range(256)) * 4
    c = s.write16(5, 2, data, wrprotect=2, fua=1)
    check(
        bytes(c.cdb)
        == bytes([0x8A, 0x48, 0, 0, 0, 0, 0, 0, 0, 5, 0, 0, 0, 2, 0, 0]),
        "write16 cdb",
    )
    check(c.dataout == data, "write16 dataout")
    d = Write16.unmarshall_cdb(c.cdb)
    check(d["lba"] == 5 and d["tl"] == 2 and d["wrprotect"] == 2, "write16 decode")

    c = s.inquiry(evpd=1, page_code=0x83, alloclen=0x1234)
    check(bytes(c.cdb) == bytes([0x12, 1, 0x83, 0x12, 0x34, 0]), "inquiry cdb")
    d = Inquiry.unmarshall_cdb(c.cdb)
    check(d == {"opcode": 0x12, "evpd": 1, "page_code": 0x83, "alloc_len": 0x1234},
          "inquiry decode %r" % (d,))
    check(bytes(Inquiry.marshall_cdb(d)) == bytes(c.cdb), "inquiry re-encode")

    c = s.testunitready()
    check(bytes(c.cdb) == bytes(6), "testunitready cdb")

    c = s.readcapacity10()
    check(bytes(c.cdb) == bytes([0x25]) + bytes(9), "readcapacity10 cdb")
    r = ReadCapacity10.unmarshall_datain(bytearray([0, 0, 0x10, 0, 0, 0, 2, 0]))
    check(r == {"returned_lba": 0x1000, "block_length": 512}, "readcapacity10 decode")
    check(
        bytes(ReadCapacity10.marshall_datain(r)) == bytes([0, 0, 0x10, 0, 0, 0, 2, 0]),
        "readcapacity10 encode",
    )
    c = s.readcapacity16(alloclen=32)
    check(
        bytes(c.cdb) == bytes([0x9E, 0x10]) + bytes(8) + bytes([0, 0, 0, 32, 0, 0]),
        "readcapacity16 cdb",
    )
    raw = bytearray(32)
    raw[7] = 0xFF
    raw[10] = 0x10
    raw[12] = 0x09
    r = ReadCapacity16.unmarshall_datain(raw)
    check(r["returned_lba"] == 0xFF and r["block_length"] == 0x1000, "readcapacity16 decode")
    check(r["p_type"] == 4 and r["prot_en"] == 1, "readcapacity16 decode bits")
    check(bytes(ReadCapacity16.marshall_datain(r)) == bytes(raw), "readcapacity16 encode")

    # standard inquiry data decode
    raw = bytearray(96)
    raw[0] = 0x05
    raw[1] = 0x80
    raw[2] = 0x06
    raw[3] = 0x02
    raw[4] = 91
    raw[8:16] = b"VENDOR  "
    raw[16:32] = b"PRODUCT ID      "
    raw[32:36] = b"1.00"
    i = s.inquiry()
    r = i.unmarshall_datain(raw)
    check(r["peripheral_device_type"] == 5 and r["rmb"] == 1 and r["version"] == 6,
          "inquiry data decode")
    check(r["t10_vendor_identification"] == b"VENDOR  ", "inquiry vendor")
    check(r["product_revision_level"] == b"1.00", "inquiry revision")

    # every command constructor of the facade builds, and every cdb re-encodes
    builders = [
        ("exchangemedium", lambda: s2.exchangemedium(1, 2, 3, 4, inv1=1)),
        ("getlbastatus", lambda: s.getlbastatus(77, alloclen=24)),
        ("initializeelementstatus", lambda: s2.initializeelementstatus()),
        ("initializeelementstatuswithrange",
         lambda: s2.initializeelementstatuswithrange(10, 20, rng=1, fast=1)),
        ("modesense6", lambda: s.modesense6(0x1C, sub_page_code=3, dbd=1)),
        ("modesense10", lambda: s.modesense10(0x1D, llbaa=1, alloclen=100)),
        ("movemedium", lambda: s2.movemedium(1, 2, 3, invert=1)),
        ("opencloseimportexportelement",
         lambda: s2.opencloseimportexportelement(32, 1)),
        ("positiontoelement", lambda: s2.positiontoelement(3, 4, invert=1)),
        ("preventallowmediumremoval", lambda: s2.preventallowmediumremoval(prevent=3)),
        ("read12", lambda: s.read12(1024, 27, rdprotect=2, group=19)),
        ("readelementstatus",
         lambda: s2.readelementstatus(300, 700, element_type=2, voltag=1, alloclen=999)),
        ("synchronizecache10", lambda: s.synchronizecache10(10, 20, immed=1)),
        ("synchronizecache16", lambda: s.synchronizecache16(2 ** 40, 20, group=5)),
        ("write10", lambda: s.write10(65536, 1, bytearray(512), dpo=1)),
        ("write12", lambda: s.write12(65536, 1, bytearray(512), fua=1)),
        ("writesame10", lambda: s.writesame10(11, 22, bytearray(512), unmap=1)),
        ("writesame16", lambda: s.writesame16(2 ** 33, 22, bytearray(512), ndob=0)),
        ("reportluns", lambda: s.reportluns(report=2, alloclen=112)),
        ("reportpriority", lambda: s.reportpriority(priority=1, alloclen=64)),
        ("readcd", lambda: s3.readcd(640, 2, est=1, c2ei=1)),
        ("readdiscinformation", lambda: s3.readdiscinformation(0, alloc_len=34)),
        ("persistentreservein", lambda: s.persistentreservein(0, alloclen=100)),
        ("reporttargetportgroups", lambda: s.reporttargetportgroups(data_format=1)),
    ]
    s2 = SCSI(PlainDevice(ec.spc, 0x08))
    s3 = SCSI(PlainDevice(ec.spc, 0x05))
    for name, build in builders:
        try:
            c = build()
        except BaseException as e:  # noqa
            check(False, "building %s failed: %r" % (name, e))
            continue
        check(len(c.cdb) in (6, 10, 12, 16), "%s cdb length" % name)
        check(c.cdb[0] == c.opcode.value, "%s opcode byte" % name)
        if hasattr(c, "unmarshall_cdb") and hasattr(c, "marshall_cdb"):
            try:
                d = c.unmarshall_cdb(c.cdb)
                again = type(c).marshall_cdb(d)
                check(bytes(again) == bytes(c.cdb), "%s cdb round trip" % name)
                check(d["opcode"] == c.cdb[0], "%s decoded opcode" % name)
            except BaseException as e:  # noqa
                check(False, "%s cdb round trip raised %r" % (name, e))
    # a command the device type does not know
    try:
        SCSI(PlainDevice(ec.spc, 0x03)).read16(0, 1)
    except Exception as e:  # noqa
        check(type(e).__name__ in ("CommandNotImplemented", "AttributeError",
                                    "MissingBlocksizeException"),
              "read16 on spc device raised %r" % e)


# ---------------------------------------------------------------------------
# transports
# ---------------------------------------------------------------------------
MSG = "No backend implemented for %s"

BAD_SG_PATHS = [
    "",
    "/",
    "/dev",
    "dev/sg0",
    " /dev/sg0",
    "/DEV/sg0",
    "/Dev/sg0",
    "//dev/sg0",
    "./dev/sg0",
    "/dev\\sg0",
    "\\dev\\sg0",
    "/devs/sg0",
    "/de/v/sg0",
    "file:///dev/sg0",
    "iscsi://10.0.0.1/iqn.x/0",
    "iscsi:///dev/sg0",
    "/tmp/dev/sg0",
    "\u2215dev\u2215sg0",
    "/dev",
    "/dev\x00/",
]
GOOD_SG_PATHS = [
    "/dev/sg0",
    "/dev/sda",
    "/dev/",
    "/dev//sg0",
    "/dev/bsg/0:0:0:0",
    "/dev/../etc/passwd",
    "/dev/iscsi://x",
    "/dev/sg0 ",
    "/dev/\u00fcml\u00e4ut",
    "/dev/" + "x" * 300,
    "/dev/SG0",
    "/dev/sg0\n",
    "/dev/./sg0",
]
BAD_ISCSI_URLS = [
    "",
    "iscsi:",
    "iscsi:/",
    "iscsi:/host/t/0",
    "iscsi//host/t/0",
    "ISCSI://host/t/0",
    "Iscsi://host/t/0",
    " iscsi://host/t/0",
    "iscsi ://host/t/0",
    "iser://host/t/0",
    "http://host/t/0",
    "scsi://host/t/0",
    "/dev/sg0",
    "/dev/iscsi://host/t/0",
    "iscsi:\\\\host\\t\\0",
    "iscsi:/ /host",
]
GOOD_ISCSI_URLS = [
    "iscsi://10.0.0.1/iqn.2001-04.com.example:disk1/0",
    "iscsi://user%pw@host:3260/iqn.t/12",
    "iscsi://",
    "iscsi:///dev/sg0",
    "iscsi://[fe80::1]:3260/iqn.t/1",
    "iscsi://host/iqn.\u00fc/3",
    "iscsi://Host.Example.COM/IQN.2001-04.com.Example:Disk1/0",
    "iscsi://host/iqn.t/1 ",
    "iscsi://host/iqn.t/1?x=%2Fdev%2Fsg0#frag",
]
NEITHER = [
    "",
    "x",
    "sg0",
    "dev/sg0",
    "/DEV/sg0",
    "ISCSI://h/t/0",
    "iscsi:/h/t/0",
    "http://h/t/0",
    "c:\\dev\\sg0",
    " /dev/sg0",
    "\t/dev/sg0",
    "/dev",
    "iscsi:/",
    "/dev\u2215",
]


def expect_refusal(fn, arg, label, *more, **kw):
    REC.clear()
    r = raises(NotImplementedError, fn, arg, *more, **kw)
    ok = type(r) is NotImplementedError
    check(ok, "%s(%r): expected NotImplementedError, got %r" % (label, arg, r))
    if ok:
        # the library formats with "%", so a 1-tuple is unpacked by the operator
        expected = MSG % (arg if isinstance(arg, tuple) else (arg,))
        check(r.args == (expected,),
              "%s(%r): message %r" % (label, arg, r.args))
    check(io_events() == [], "%s(%r): touched %r before refusing" % (label, arg, io_events()))


def check_transports(have_sgio, have_iscsi):
    from pyscsi.pyiscsi import iscsi_device as imod
    from pyscsi.pyscsi import scsi_device as smod
    from pyscsi.pyscsi import scsi_enum_command as ec
    from pyscsi.pyscsi.scsi import SCSI
    from pyscsi.utils import init_device
    import pyscsi

    SCSIDevice = smod.SCSIDevice
    ISCSIDevice = imod.ISCSIDevice
    check(pyscsi.scsi_device is smod, "pyscsi.scsi_device")
    check(SCSIDevice.__name__ == "SCSIDevice" and ISCSIDevice.__name__ == "ISCSIDevice",
          "class names")
    hostname_iqn = "iqn.2018-01.org.pyscsi:" + socket.gethostname()

    # -- paths no transport handles: always refused through init_device ------
    for p in NEITHER:
        expect_refusal(init_device, p, "init_device")
        expect_refusal(init_device, p, "init_device rw", True)
        expect_refusal(init_device, p, "init_device kw", read_write=True,
                       initiator_name="iqn.a")
    # str-like things that are sliceable but never equal to a prefix
    for p in (b"/dev/sg0", b"iscsi://h/t/0", bytearray(b"/dev/sg0"),
              ["/", "d", "e", "v", "/"], ("/dev/",), ["/dev/"]):
        expect_refusal(init_device, p, "init_device")
        expect_refusal(SCSIDevice, p, "SCSIDevice")
        expect_refusal(ISCSIDevice, p, "ISCSIDevice")
    # not sliceable at all: init_device cannot even look at it
    for p in (None, 5, 1.5, object()):
        REC.clear()
        r = raises(TypeError, init_device, p)
        check(isinstance(r, TypeError), "init_device(%r) -> %r" % (p, r))
        check(io_events() == [], "init_device(%r) touched something" % (p,))

    # -- SG_IO ----------------------------------------------------------------
    for p in BAD_SG_PATHS:
        expect_refusal(SCSIDevice, p, "SCSIDevice")
        expect_refusal(SCSIDevice, p, "SCSIDevice rw", True)
        expect_refusal(SCSIDevice, p, "SCSIDevice kw", readwrite=True,
                       detect_replugged=False, buffering=0)
    if not have_sgio:
        for p in GOOD_SG_PATHS:
            expect_refusal(SCSIDevice, p, "SCSIDevice")
            expect_refusal(SCSIDevice, p, "SCSIDevice rw", True, False, 0)
            expect_refusal(init_device, p, "init_device")
            expect_refusal(init_device, p, "init_device rw", True)
        for p in (None, 5, object):
            expect_refusal(SCSIDevice, p, "SCSIDevice")
    else:
        for p in (None, 5):
            REC.clear()
            r = raises(TypeError, SCSIDevice, p)
            check(isinstance(r, TypeError), "SCSIDevice(%r) -> %r" % (p, r))
            check(io_events() == [], "SCSIDevice(%r) touched something" % (p,))
        for p in GOOD_SG_PATHS:
            for how in ("class", "class-rw", "class-kw", "init", "init-rw", "init-kw"):
                REC.clear()
                INODES.clear()
                try:
                    if how == "class":
                        d = SCSIDevice(p)
                        mode, buf = "rb", -1
                    elif how == "class-rw":
                        d = SCSIDevice(p, True)
                        mode, buf = "w+b", -1
                    elif how == "class-kw":
                        d = SCSIDevice(device=p, readwrite=0, detect_replugged=False,
                                       buffering=0)
                        mode, buf = "rb", 0
                    elif how == "init":
                        d = init_device(p)
                        mode, buf = "rb", -1
                    elif how == "init-rw":
                        d = init_device(p, True)
                        mode, buf = "w+b", -1
                    else:
                        d = init_device(dev=p, read_write="yes", initiator_name="unused")
                        mode, buf = "w+b", -1
                except BaseException as e:  # noqa
                    check(False, "%s open of %r raised %r" % (how, p, e))
                    continue
                check(type(d) is SCSIDevice, "%s(%r) returned %r" % (how, p, type(d)))
                opens = [e for e in REC.events if e[0] == "open"]
                check(len(opens) == 1, "%s(%r): %d opens" % (how, p, len(opens)))
                if opens:
                    o = opens[0]
                    check(o[1] == p, "%s: opened %r instead of %r" % (how, o[1], p))
                    check(o[2] == mode, "%s(%r): mode %r" % (how, p, o[2]))
                    bufarg = dict(o[5]).get("buffering", o[3])
                    check(bufarg == buf, "%s(%r): buffering %r" % (how, p, bufarg))
                stats = [e for e in REC.events if e[0] == "stat"]
                check(all(e[1] == p for e in stats), "%s(%r): stat of other path" % (how, p))
                check(not any(k.startswith("iscsi.") for k in REC.kinds()),
                      "%s(%r): iscsi touched" % (how, p))
                check(isinstance(d._file, FakeFile) and d._file.fake_name == p,
                      "%s(%r): file object" % (how, p))
                check(d.opcodes is ec.spc, "%s: default opcode table" % how)
                check(repr(d) == "SCSIDevice", "repr")
                check(isinstance(raises(AttributeError, lambda: d.devicetype),
                                 AttributeError), "devicetype before inquiry")
                d.opcodes = ec.smc
                d.devicetype = 8
                check(d.opcodes is ec.smc and d.devicetype == 8, "attribute setters")
                check(not d._file.closed, "file still open")
                f = d._file
                d.close()
                check(f.closed, "close() closes the file")

        # the facade over the real device class, with replug detection
        REC.clear()
        INODES.clear()
        for devtype, table in ((0x00, ec.sbc), (0x01, ec.ssc), (0x08, ec.smc), (0x05, ec.mmc)):
            INQ_DEVTYPE[0] = devtype
            with SCSI(init_device("/dev/sg3"), 512) as s:
                check(s.device.devicetype == devtype and s.device.opcodes is table,
                      "facade over SCSIDevice, type %#x" % devtype)
                f = s.device._file
            check(f.closed, "facade closes the SCSIDevice")
        INQ_DEVTYPE[0] = 0
        REC.clear()
        with SCSIDevice("/dev/sg4", readwrite=True) as d:
            f1 = d._file
            s = SCSI(d, 512)
            r = s.read10(1, 1)
            ex = [e for e in REC.events if e[0] == "sgio.execute"]
            check(len(ex) == 2 and ex[-1][1] is f1, "sgio.execute gets the open file")
            check(ex[-1][2] == bytes(r.cdb) and ex[-1][4] == 512, "sgio.execute arguments")
            # replug: inode changes -> reopen same path, same mode
            INODES["/dev/sg4"] = 777
            REC.clear()
            s.testunitready()
            kinds = REC.kinds()
            check(kinds.count("open") == 1 and kinds.count("close") == 1,
                  "replug reopen: %r" % kinds)
            o = [e for e in REC.events if e[0] == "open"][0]
            check(o[1] == "/dev/sg4" and o[2] == "w+b", "replug reopen path/mode %r" % (o,))
            check(f1.closed and d._file is not f1 and not d._file.closed, "replug file swap")
            check(kinds.index("close") < kinds.index("open") < kinds.index("sgio.execute"),
                  "replug order %r" % kinds)
            # check condition
            SGIO_FAIL[0] = FIXED_SENSE
            try:
                e = raises(SCSIDevice.CheckCondition, s.testunitready)
                check(isinstance(e, SCSIDevice.CheckCondition), "CheckCondition raised: %r" % (e,))
                if isinstance(e, SCSIDevice.CheckCondition):
                    check(e.asc == 0x24 and e.ascq == 0, "sense decoded")
                from pyscsi.pyscsi.scsi_cdb_testunitready import TestUnitReady

                cmd = TestUnitReady(d.opcodes.TEST_UNIT_READY)
                check(d.execute(cmd, en_raw_sense=True) is None, "raw sense mode returns")
                check(cmd.raw_sense_data == FIXED_SENSE, "raw sense stored")
            finally:
                SGIO_FAIL[0] = None
            f2 = d._file
        check(f2.closed, "with-block closes the device")
        # no replug detection: never stats again
        REC.clear()
        d = SCSIDevice("/dev/sg5", False, False)
        INODES["/dev/sg5"] = 31337
        REC.clear()
        SCSI(d).testunitready()
        check("open" not in REC.kinds() and "stat" not in REC.kinds(),
              "detect_replugged=False: %r" % REC.kinds())
        d.close()

    # -- iSCSI ----------------------------------------------------------------
    for p in BAD_ISCSI_URLS:
        expect_refusal(ISCSIDevice, p, "ISCSIDevice")
        expect_refusal(ISCSIDevice, p, "ISCSIDevice iqn", "iqn.a")
        expect_refusal(ISCSIDevice, p, "ISCSIDevice kw", initiator_name="iqn.a")
    if not have_iscsi:
        for p in GOOD_ISCSI_URLS:
            expect_refusal(ISCSIDevice, p, "ISCSIDevice")
            expect_refusal(ISCSIDevice, p, "ISCSIDevice iqn", "iqn.a")
            expect_refusal(init_device, p, "init_device")
            expect_refusal(init_device, p, "init_device kw", initiator_name="iqn.b")
        for p in (None, 5, object):
            expect_refusal(ISCSIDevice, p, "ISCSIDevice")
    else:
        for p in (None, 5):
            REC.clear()
            r = raises(TypeError, ISCSIDevice, p)
            check(isinstance(r, TypeError), "ISCSIDevice(%r) -> %r" % (p, r))
            check(io_events() == [], "ISCSIDevice(%r) touched something" % (p,))
        for p in GOOD_ISCSI_URLS:
            for how in ("class", "class-iqn", "class-kw", "init", "init-pos", "init-kw",
                        "init-empty"):
                REC.clear()
                try:
                    if how == "class":
                        d = ISCSIDevice(p)
                        iqn = p
                    elif how == "class-iqn":
                        d = ISCSIDevice(p, "iqn.2020-01.x:me")
                        iqn = "iqn.2020-01.x:me"
                    elif how == "class-kw":
                        d = ISCSIDevice(device=p, initiator_name="")
                        iqn = p
                    elif how == "init":
                        d = init_device(p)
                        iqn = hostname_iqn
                    elif how == "init-pos":
                        d = init_device(p, True, "iqn.pos")
                        iqn = "iqn.pos"
                    elif how == "init-kw":
                        d = init_device(dev=p, initiator_name="iqn.kw")
                        iqn = "iqn.kw"
                    else:
                        d = init_device(p, initiator_name="")
                        iqn = p
                except BaseException as e:  # noqa
                    check(False, "%s connect to %r raised %r" % (how, p, e))
                    continue
                check(type(d) is ISCSIDevice, "%s(%r) returned %r" % (how, p, type(d)))
                ev = REC.events
                check("open" not in REC.kinds() and "stat" not in REC.kinds(),
                      "%s(%r): file opened" % (how, p))
                check(REC.kinds() == ["iscsi.Context", "iscsi.URL", "iscsi.set_targetname",
                                      "iscsi.set_session_type", "iscsi.set_header_digest",
                                      "iscsi.connect"],
                      "%s(%r): call sequence %r" % (how, p, REC.kinds()))
                if len(ev) == 6:
                    check(ev[0][1] == iqn, "%s(%r): initiator %r" % (how, p, ev[0][1]))
                    check(ev[1][1] == iqn and ev[1][2] == p,
                          "%s: URL built from %r instead of %r" % (how, ev[1][2], p))
                    url = d._iscsi_url
                    check(ev[2][1] == url.target, "targetname")
                    check(ev[3][1] == 2 and ev[4][1] == 1, "session settings")
                    check(ev[5][1:] == (url.portal, url.lun), "connect arguments")
                check(d.opcodes is ec.spc, "iscsi default opcode table")
                check(isinstance(raises(AttributeError, lambda: d.devicetype),
                                 AttributeError), "iscsi devicetype before inquiry")
                d.opcodes = ec.mmc
                d.devicetype = 5
                check(d.opcodes is ec.mmc and d.devicetype == 5, "iscsi attribute setters")
                REC.clear()
                d.close()
                check(REC.kinds() == ["iscsi.disconnect"], "iscsi close")

        url = "iscsi://10.0.0.9/iqn.t/7"
        for devtype, table in ((0x00, ec.sbc), (0x02, ec.ssc), (0x08, ec.smc), (0x05, ec.mmc)):
            INQ_DEVTYPE[0] = devtype
            REC.clear()
            with SCSI(init_device(url), 512) as s:
                check(s.device.devicetype == devtype and s.device.opcodes is table,
                      "facade over ISCSIDevice, type %#x" % devtype)
            check(REC.kinds()[-1] == "iscsi.disconnect", "facade disconnects")
        INQ_DEVTYPE[0] = 0
        with ISCSIDevice(url, "iqn.me") as d:
            s = SCSI(d, 512)
            REC.clear()
            r = s.read10(9, 2)
            c = [e for e in REC.events if e[0] == "iscsi.command"]
            check(len(c) == 1 and c[0][1:] == (7, bytes(r.cdb), 1, 1024), "iscsi read task %r" % c)
            REC.clear()
            w = s.write10(9, 1, bytearray(512))
            c = [e for e in REC.events if e[0] == "iscsi.command"]
            check(len(c) == 1 and c[0][1:] == (7, bytes(w.cdb), 2, 512), "iscsi write task %r" % c)
            REC.clear()
            s.testunitready()
            c = [e for e in REC.events if e[0] == "iscsi.command"]
            check(len(c) == 1 and c[0][1:] == (7, bytes(6), 0, 0), "iscsi no-data task %r" % c)
            S = ec.SCSI_STATUS
            for status, exc in (
                (S.CHECK_CONDITION, ISCSIDevice.CheckCondition),
                (S.RESERVATION_CONFLICT, ISCSIDevice.ReservationConflict),
                (S.TASK_ABORTED, ISCSIDevice.TaskAborted),
                (S.BUSY, ISCSIDevice.BusyStatus),
                (S.TASK_SET_FULL, ISCSIDevice.TaskSetFull),
                (S.ACA_ACTIVE, ISCSIDevice.ACAActive),
                (S.CONDITIONS_MET, ISCSIDevice.ConditionsMet),
                (0x7F, RuntimeError),
            ):
                ISCSI_STATUS[0] = status
                try:
                    e = raises(exc, s.testunitready)
                    check(isinstance(e, exc), "status %#x -> %r" % (status, e))
                finally:
                    ISCSI_STATUS[0] = 0
            # sense data handed over by the binding, or not
            from pyscsi.pyscsi.scsi_cdb_testunitready import TestUnitReady

            for has_sense in (True, False):
                for raw in (False, True):
                    ISCSI_STATUS[0] = S.CHECK_CONDITION
                    ISCSI_RAW_SENSE[0] = has_sense
                    try:
                        cmd = TestUnitReady(d.opcodes.TEST_UNIT_READY)
                        e = raises(ISCSIDevice.CheckCondition, d.execute, cmd, raw)
                        check(isinstance(e, ISCSIDevice.CheckCondition),
                              "iscsi check condition sense=%s raw=%s -> %r" % (has_sense, raw, e))
                        want = FIXED_SENSE if has_sense else None
                        check(cmd.sense == want, "iscsi cmd.sense %r" % (cmd.sense,))
                        check(cmd.raw_sense_data == (want if raw else None),
                              "iscsi cmd.raw_sense_data %r" % (cmd.raw_sense_data,))
                    finally:
                        ISCSI_STATUS[0] = 0
                        ISCSI_RAW_SENSE[0] = True
            REC.clear()
        check(REC.kinds() == ["iscsi.disconnect"], "with-block disconnects")

    # -- cross checks: each class refuses the other transport's addresses -----
    for p in GOOD_ISCSI_URLS:
        if not p.startswith("/dev/"):
            expect_refusal(SCSIDevice, p, "SCSIDevice")
    for p in GOOD_SG_PATHS:
        expect_refusal(ISCSIDevice, p, "ISCSIDevice")

    # flags as seen by the modules
    check(bool(smod._has_sgio) == have_sgio, "_has_sgio flag")
    check(bool(imod._has_iscsi) == have_iscsi, "_has_iscsi flag")


def check_setup_cfg():
    here = os.path.dirname(os.path.dirname(os.path.abspath(__file__)))
    path = os.path.join(here, "setup.cfg")
    cp = configparser.ConfigParser()
    with REAL_OPEN(path) as f:
        cp.read_file(f)
    check(cp.has_section("options.extras_require"), "extras_require section")
    extras = dict(cp.items("options.extras_require")) if cp.has_section(
        "options.extras_require") else {}
    check(extras.get("iscsi", "").split() == ["cython-iscsi"], "iscsi extra")
    check(extras.get("sgio", "").split() == ["cython-sgio>=1.1.2"], "sgio extra")
    hard = ""
    if cp.has_option("options", "install_requires"):
        hard = cp.get("options", "install_requires")
    check("sgio" not in hard and "iscsi" not in hard, "bindings are hard requirements")
    check(cp.get("options", "packages").strip() == "find:", "packages = find:")
    check(cp.get("metadata", "name") == "PYSCSI", "dist name")


def main():
    CONFIG[0] = "setup.cfg"
    check_setup_cfg()
    install_fs_hooks()
    try:
        for have_sgio, have_iscsi in ((False, False), (True, False), (False, True),
                                      (True, True), (False, False)):
            CONFIG[0] = "sgio=%d iscsi=%d" % (have_sgio, have_iscsi)
            configure(have_sgio, have_iscsi)
            try:
                check_imports()
                check_commands()
                check_transports(have_sgio, have_iscsi)
            except BaseException as e:  # noqa
                import traceback

                traceback.print_exc()
                check(False, "unexpected exception: %r" % (e,))
    finally:
        remove_fs_hooks()
        purge()
    if FAILURES:
        for f in FAILURES[:60]:
            print("FAIL:", f)
        print("%d of %d checks failed" % (len(FAILURES), CHECKS[0]))
        return 1
    print("PASS (%d checks)" % CHECKS[0])
    return 0


if __name__ == "__main__":
    sys.exit(main())
