#!/usr/bin/env python
# coding: utf-8
"""
Demo / oracle for property C04: every response format the library parses is
decoded, without error, into exactly the values the device encoded, and the
length fields are honoured (every descriptor inside the reported length is
returned whole and in order, nothing beyond it is reported).

Run as:
    cd /tmp/seed/C04u && PYTHONPATH=/tmp/seed/C04u /venv/bin/python SEED/demo.py
"""
import hashlib
import random
import sys
import types

# the external bindings are not needed by the code under test, but make sure an
# import of them can never fail
for _name in ("sgio", "iscsi"):
    if _name not in sys.modules:
        try:
            __import__(_name)
        except Exception:
            sys.modules[_name] = types.ModuleType(_name)

from pyscsi.pyscsi import scsi_enum_inquiry as INQ
from pyscsi.pyscsi import scsi_enum_modesense as MS
from pyscsi.pyscsi import scsi_enum_readelementstatus as RES
from pyscsi.pyscsi.scsi import SCSI
from pyscsi.pyscsi.scsi_cdb_getlbastatus import GetLBAStatus
from pyscsi.pyscsi.scsi_cdb_inquiry import Inquiry
from pyscsi.pyscsi.scsi_cdb_modesense6 import ModeSelect6, ModeSense6
from pyscsi.pyscsi.scsi_cdb_modesense10 import ModeSelect10, ModeSense10
from pyscsi.pyscsi.scsi_cdb_persistentreservein import (
    PersistentReserveIn,
    PersistentReserveInReadFullStatus,
    PersistentReserveInReadKeys,
    PersistentReserveInReadReservation,
    PersistentReserveInReportCapabilities,
)
from pyscsi.pyscsi.scsi_cdb_readcapacity10 import ReadCapacity10
from pyscsi.pyscsi.scsi_cdb_readcapacity16 import ReadCapacity16
from pyscsi.pyscsi.scsi_cdb_readcd import ReadCd
from pyscsi.pyscsi.scsi_cdb_readdiscinformation import ReadDiscInformation
from pyscsi.pyscsi.scsi_cdb_readelementstatus import ReadElementStatus
from pyscsi.pyscsi.scsi_cdb_report_luns import ReportLuns
from pyscsi.pyscsi.scsi_cdb_report_priority import ReportPriority
from pyscsi.pyscsi.scsi_cdb_report_target_port_groups import ReportTargetPortGroups
from pyscsi.pyscsi.scsi_command import SCSICommand
from pyscsi.pyscsi.scsi_enum_command import mmc, sbc, smc, spc
from pyscsi.pyscsi.scsi_enum_persistentreserve import PROTOCOL_ID
from pyscsi.pyscsi.scsi_enum_readcd import EXPECTED_SECTOR_TYPE as EST
from pyscsi.utils import converter
from pyscsi.utils.converter import (
    decode_bits,
    encode_dict,
    scsi_ba_to_int,
    scsi_int_to_ba,
)

FAILURES = []
CHECKS = [0]


def check(cond, what):
    CHECKS[0] += 1
    if not cond:
        FAILURES.append(what)
        print("FAIL:", what)


def canon(obj):
    """a deterministic, type-strict rendering of a decoded value"""
    if isinstance(obj, dict):
        return "{" + ",".join("%r:%s" % (k, canon(v)) for k, v in obj.items()) + "}"
    if isinstance(obj, (list, tuple)):
        return type(obj).__name__ + "[" + ",".join(canon(v) for v in obj) + "]"
    if isinstance(obj, (bytes, bytearray, memoryview)):
        return type(obj).__name__ + ":" + bytes(obj).hex()
    return type(obj).__name__ + ":" + repr(obj)


def eq(got, want, what):
    CHECKS[0] += 1
    if canon(got) != canon(want):
        FAILURES.append(what)
        print("FAIL: %s\n   got  %.600r\n   want %.600r" % (what, got, want))


def be(value, size):
    return bytearray(value.to_bytes(size, "big"))


def ba(*args):
    return bytearray(args)


class Dev(object):
    """a fake device that answers every command with a canned response"""

    def __init__(self, opcodes, response=b""):
        self.opcodes = opcodes
        self.response = bytearray(response)
        self.devicetype = None

    def execute(self, cmd, en_raw_sense=False):
        n = min(len(self.response), len(cmd.datain))
        cmd.datain[:n] = self.response[:n]

    def open(self):
        pass

    def close(self):
        pass


class MockSCSI(SCSI):
    def __init__(self, dev):
        self.device = dev
        self._blocksize = 0


def via_device(opcodes, response, call):
    with MockSCSI(Dev(opcodes, response)) as s:
        return call(s)


# --------------------------------------------------------------------------
# converter primitives
# --------------------------------------------------------------------------
def test_converter():
    rnd = random.Random(4)
    for size in range(0, 10):
        for _ in range(30):
            v = rnd.getrandbits(8 * size) if size else 0
            raw = scsi_int_to_ba(v, size)
            eq(raw, be(v, size), "scsi_int_to_ba(%d,%d)" % (v, size))
            eq(scsi_ba_to_int(raw), v, "scsi_ba_to_int roundtrip %d" % v)
            eq(scsi_ba_to_int(bytes(raw)), v, "scsi_ba_to_int(bytes) %d" % v)
    eq(scsi_int_to_ba(), bytearray(4), "scsi_int_to_ba defaults")
    eq(scsi_int_to_ba(0x1234567890, 2), ba(0x78, 0x90), "scsi_int_to_ba truncates")
    eq(scsi_int_to_ba(-2, 2), ba(0xFF, 0xFE), "scsi_int_to_ba negative")
    eq(scsi_int_to_ba(True, 1), ba(1), "scsi_int_to_ba bool")
    eq(scsi_int_to_ba(to_convert=34, array_size=4), ba(0, 0, 0, 34), "keywords")
    eq(scsi_ba_to_int(bytearray()), 0, "scsi_ba_to_int empty")
    eq(scsi_ba_to_int(ba(0, 0, 1, 0)), 256, "scsi_ba_to_int leading zeros")
    eq(scsi_ba_to_int([1, 2]), 258, "scsi_ba_to_int list")
    eq(scsi_ba_to_int(memoryview(b"\x01\x00")), 256, "scsi_ba_to_int memoryview")

    table = {
        "hi": [0xF0, 0],
        "lo": [0x0F, 0],
        "mid": [0x3C, 1],
        "word": [0xFFFF, 2],
        "w14": [0x3FFF, 4],
        "top2": [0xC0, 4],
        "odd": [0x0FFFFFF0, 6],
        "q": [0xFFFFFFFFFFFFFFFF, 10],
        "blob": ("b", 18, 3),
        "words": ("w", 21, 2),
        "dwords": ("dw", 25, 1),
        "lst": ["b", 29, 1],
        "tup": (0x80, 30),
    }
    data = bytearray(range(0x11, 0x11 + 31))
    data[30] = 0x80
    out = {}
    check(decode_bits(data, table, out) is None, "decode_bits returns None")
    want = {
        "hi": 1,
        "lo": 1,
        "mid": (0x12 & 0x3C) >> 2,
        "word": 0x1314,
        "w14": 0x1516 & 0x3FFF,
        "top2": 0,
        "odd": (0x1718191A & 0x0FFFFFF0) >> 4,
        "q": int.from_bytes(bytes(data[10:18]), "big"),
        "blob": data[18:21],
        "words": data[21:25],
        "dwords": data[25:29],
        "lst": data[29:30],
        "tup": 1,
    }
    eq(out, want, "decode_bits mixed table")
    eq(list(out), list(table), "decode_bits key order")
    back = bytearray(31)
    encode_dict(out, table, back)
    again = {}
    decode_bits(back, table, again)
    eq(again, want, "encode_dict/decode_bits roundtrip")
    # short buffer: missing bytes simply contribute nothing
    short = {}
    decode_bits(ba(0xAB), {"a": [0xFF, 0], "b": [0xFFFF, 0], "c": [0xFF, 5]}, short)
    eq(short, {"a": 0xAB, "b": 0xAB, "c": 0}, "decode_bits short buffer")
    # bytes input gives bytes blobs
    o = {}
    decode_bits(bytes(data), {"blob": ("b", 1, 2), "v": [0xFF, 0]}, o)
    eq(o, {"blob": bytes(data[1:3]), "v": 0x11}, "decode_bits on bytes")
    # the result dict is updated, not replaced
    o = {"keep": 1, "v": 2}
    decode_bits(data, {"v": [0xFF, 0]}, o)
    eq(o, {"keep": 1, "v": 0x11}, "decode_bits updates result")


# --------------------------------------------------------------------------
# INQUIRY
# --------------------------------------------------------------------------
def std_inquiry_bytes():
    d = bytearray(96)
    d[0] = (0x01 << 5) | 0x08  # qualifier 1, media changer
    d[1] = 0x80  # rmb
    d[2] = 0x06  # version
    d[3] = 0x20 | 0x10 | 0x02  # normaca hisup rdf=2
    d[4] = 91
    d[5] = 0x80 | 0x40 | 0x20 | 0x08 | 0x01  # sccs acc tpgs=2 3pc protect
    d[6] = 0x40 | 0x20 | 0x10 | 0x01
    d[7] = 0x20 | 0x10 | 0x02 | 0x01
    d[8:16] = b"VENDOR  "
    d[16:32] = b"PRODUCT-0123456 "
    d[32:36] = b"r1.0"
    d[56] = 0x08 | 0x02 | 0x01
    return d


STD_INQUIRY_WANT = {
    "peripheral_qualifier": 1,
    "peripheral_device_type": 8,
    "rmb": 1,
    "version": 6,
    "normaca": 1,
    "hisup": 1,
    "response_data_format": 2,
    "additional_length": 91,
    "sccs": 1,
    "acc": 1,
    "tpgs": 2,
    "3pc": 1,
    "protect": 1,
    "encserv": 1,
    "vs": 1,
    "multip": 1,
    "addr16": 1,
    "wbus16": 1,
    "sync": 1,
    "cmdque": 1,
    "vs2": 1,
    "t10_vendor_identification": bytearray(b"VENDOR  "),
    "product_identification": bytearray(b"PRODUCT-0123456 "),
    "product_revision_level": bytearray(b"r1.0"),
    "clocking": 2,
    "qas": 1,
    "ius": 1,
}


def vpd(page, payload, devtype=0, qualifier=0, trailer=b""):
    d = bytearray(4)
    d[0] = (qualifier << 5) | devtype
    d[1] = page
    d[2:4] = be(len(payload), 2)
    return d + bytearray(payload) + bytearray(trailer)


def designator(code_set, piv, assoc, dtype, payload, proto=0):
    d = bytearray(4)
    d[0] = (proto << 4) | code_set
    d[1] = (piv << 7) | (assoc << 4) | dtype
    d[3] = len(payload)
    return d + bytearray(payload)


def test_inquiry():
    d = std_inquiry_bytes()
    eq(Inquiry.unmarshall_datain(d), STD_INQUIRY_WANT, "standard inquiry")
    eq(Inquiry.unmarshall_datain(d, 0), STD_INQUIRY_WANT, "standard inquiry evpd=0")
    eq(Inquiry.unmarshall_datain(d, evpd=0), STD_INQUIRY_WANT, "standard inquiry kw")
    r = via_device(sbc, d, lambda s: s.inquiry())
    eq(r.result, STD_INQUIRY_WANT, "standard inquiry through device")
    eq(list(r.result), list(STD_INQUIRY_WANT), "standard inquiry key order")
    # all zero / all one
    z = Inquiry.unmarshall_datain(bytearray(96))
    check(all(v == 0 or v == bytearray(len(v)) for v in z.values()), "zero inquiry")
    o = Inquiry.unmarshall_datain(bytearray([0xFF] * 96))
    eq(o["peripheral_qualifier"], 7, "ones qualifier")
    eq(o["peripheral_device_type"], 0x1F, "ones devtype")
    eq(o["clocking"], 3, "ones clocking")
    eq(o["tpgs"], 3, "ones tpgs")
    # marshall -> unmarshall
    eq(
        Inquiry.unmarshall_datain(Inquiry.marshall_datain(STD_INQUIRY_WANT)),
        STD_INQUIRY_WANT,
        "standard inquiry roundtrip",
    )

    base = {"peripheral_qualifier": 3, "peripheral_device_type": 5}

    # supported vpd pages
    pages = [0x00, 0x80, 0x83, 0xB0, 0xB1, 0xB2, 0xFF]
    d = vpd(0x00, pages, 5, 3, trailer=b"\xaa\xbb\xcc")
    want = dict(base, page_code=0, vpd_pages=pages)
    eq(Inquiry.unmarshall_datain(d, 1), want, "vpd supported pages")
    eq(Inquiry.unmarshall_datain(d, evpd=1), want, "vpd supported pages kw")
    r = via_device(sbc, d, lambda s: s.inquiry(evpd=1, page_code=0))
    eq(r.result, want, "vpd supported pages through device")
    eq(
        Inquiry.unmarshall_datain(vpd(0x00, [], 5, 3, trailer=b"\x01\x02"), 1),
        dict(base, page_code=0, vpd_pages=[]),
        "vpd supported pages empty",
    )
    big = [i & 0xFF for i in range(300)]
    eq(
        Inquiry.unmarshall_datain(vpd(0x00, big, 5, 3, trailer=b"\x09" * 7), 1),
        dict(base, page_code=0, vpd_pages=big),
        "vpd supported pages 300 entries",
    )

    # unit serial number
    d = vpd(0x80, b"SN-0042 ", 5, 3, trailer=b"JUNK")
    want = dict(base, page_code=0x80, unit_serial_number=bytearray(b"SN-0042 "))
    eq(Inquiry.unmarshall_datain(d, 1), want, "vpd unit serial")
    eq(Inquiry.unmarshall_datain(Inquiry.marshall_datain(want), 1), want, "usn roundtrip")

    # block limits
    p = bytearray(60)
    p[0] = 0x01
    p[1] = 0x20
    p[2:4] = be(0x1234, 2)
    p[4:8] = be(0x01020304, 4)
    p[8:12] = be(0x05060708, 4)
    p[12:16] = be(0x090A0B0C, 4)
    p[16:20] = be(0xFFFFFFFF, 4)
    p[20:24] = be(0x00000100, 4)
    p[24:28] = be(0x00000008, 4)
    p[28:32] = be(0x80000003, 4)
    p[32:40] = be(0x1122334455667788, 8)
    want = dict(
        base,
        page_code=0xB0,
        wsnz=1,
        ugavalid=1,
        max_caw_len=0x20,
        opt_xfer_len_gran=0x1234,
        max_xfer_len=0x01020304,
        opt_xfer_len=0x05060708,
        max_pfetch_len=0x090A0B0C,
        max_unmap_lba_count=0xFFFFFFFF,
        max_unmap_bd_count=0x100,
        opt_unmap_gran=8,
        unmap_gran_alignment=3,
        max_ws_len=0x1122334455667788,
    )
    eq(Inquiry.unmarshall_datain(vpd(0xB0, p, 5, 3), 1), want, "vpd block limits")
    r = via_device(sbc, vpd(0xB0, p, 5, 3), lambda s: s.inquiry(1, 0xB0, 96))
    eq(r.result, want, "vpd block limits through device")

    # block device characteristics
    p = bytearray(60)
    p[0:2] = be(7200, 2)
    p[2] = 0x04
    p[3] = 0x80 | 0x10 | 0x03
    p[4] = 0x03
    want = dict(
        base,
        page_code=0xB1,
        medium_rotation_rate=7200,
        product_type=4,
        wabereq=2,
        wacereq=1,
        nominal_form_factor=3,
        fuab=1,
        vbuls=1,
    )
    eq(Inquiry.unmarshall_datain(vpd(0xB1, p, 5, 3), 1), want, "vpd block dev char")

    # logical block provisioning
    p = bytearray(4)
    p[0] = 9
    p[1] = 0x80 | 0x20 | 0x04 | 0x01
    p[2] = 0x02
    want = dict(
        base,
        page_code=0xB2,
        threshold_exponent=9,
        lbpu=1,
        lpbws=0,
        lbpws10=1,
        lbprz=1,
        anc_sup=0,
        dp=1,
        provisioning_type=2,
    )
    eq(Inquiry.unmarshall_datain(vpd(0xB2, p, 5, 3), 1), want, "vpd lbp")
    eq(Inquiry.unmarshall_datain(Inquiry.marshall_datain(want), 1), want, "lbp roundtrip")

    # referrals
    p = bytearray(12)
    p[4:8] = be(0xDEADBEEF, 4)
    p[8:12] = be(0x00C0FFEE, 4)
    want = dict(
        base,
        page_code=0xB3,
        user_data_segment_size=0xDEADBEEF,
        user_data_segment_multiplier=0x00C0FFEE,
    )
    eq(Inquiry.unmarshall_datain(vpd(0xB3, p, 5, 3), 1), want, "vpd referrals")
    eq(Inquiry.unmarshall_datain(Inquiry.marshall_datain(want), 1), want, "ref roundtrip")

    # extended inquiry data
    p = bytearray(60)
    p[0] = 0x80 | 0x28 | 0x04 | 0x01
    p[1] = 0x20 | 0x08 | 0x02
    p[2] = 0x08 | 0x02
    p[3] = 0x10 | 0x01
    p[4] = 0x10
    p[5] = 0x0A
    p[6:8] = be(0x0203, 2)
    p[8] = 0x80 | 0x20
    p[9] = 0xFC
    want = dict(
        base,
        page_code=0x86,
        activate_microcode=2,
        spt=5,
        grd_chk=1,
        app_chk=0,
        ref_chk=1,
        uask_sup=1,
        group_sup=0,
        prior_sup=1,
        headsup=0,
        ordsup=1,
        simpsup=0,
        wu_sup=1,
        crd_sup=0,
        nv_sup=1,
        v_sup=0,
        p_i_i_sup=1,
        luiclr=1,
        r_sup=1,
        cbcs=0,
        multi_it_nexus_microcode_download=0x0A,
        extended_self_test_completion_minutes=0x0203,
        poa_sup=1,
        hra_sup=0,
        vsa_sup=1,
        maximum_supported_sense_data_length=0xFC,
    )
    eq(Inquiry.unmarshall_datain(vpd(0x86, p, 5, 3), 1), want, "vpd extended")
    eq(Inquiry.unmarshall_datain(Inquiry.marshall_datain(want), 1), want, "ext roundtrip")

    # ata information
    p = bytearray(568)
    p[4:12] = b"SATVEND "
    p[12:28] = b"SAT PRODUCT 0001"
    p[28:32] = b"0009"
    sig = bytearray(20)
    sig[12] = 0x01
    sig[4], sig[5], sig[6], sig[7] = 0x11, 0x22, 0x33, 0x44
    p[32:52] = sig
    ident = bytearray(512)
    ident[0:4] = be(0x848A0001, 4)
    ident[4:8] = be(0x0000C837, 4)
    ident[20:40] = b"SERIAL-NUMBER-0001  "
    ident[46:54] = b"FW-1.2.3"
    ident[54:94] = b"MODEL NUMBER FORTY CHARACTERS LONG 01234"
    p[56:568] = ident
    d = vpd(0x89, p, 5, 3, trailer=b"\xee" * 9)
    got = Inquiry.unmarshall_datain(d, 1)
    want = dict(
        base,
        page_code=0x89,
        sat_vendor_identification=bytearray(b"SATVEND "),
        sat_product_identification=bytearray(b"SAT PRODUCT 0001"),
        sat_product_rev_lvl=bytearray(b"0009"),
        signature={
            "sector_count": 1,
            "lba_low": 0x11,
            "lba_mid": 0x22,
            "lba_high": 0x33,
            "device": 0x44,
        },
        identify={
            "general_config": {"ata_device": 1, "respose_incomplete": 1},
            "specific_config": 0xC837,
            "serial_number": bytearray(b"SERIAL-NUMBER-0001  "),
            "firmware_rev": bytearray(b"FW-1.2.3"),
            "model_number": bytearray(b"MODEL NUMBER FORTY CHARACTERS LONG 01234"),
        },
    )
    eq(got, want, "vpd ata information")
    eq(Inquiry.unmarshall_ata_information(d[:572]), {k: v for k, v in want.items() if k not in base and k != "page_code"}, "unmarshall_ata_information")

    # device identification: every designator kind, length honoured
    descs = [
        (designator(1, 0, 0, 0, b"vendor-specific"), {"vendor_specific": bytearray(b"vendor-specific")}),
        (designator(2, 0, 0, 1, b"T10VENDR" + b"id-123"), {"t10_vendor_id": bytearray(b"T10VENDR"), "vendor_specific_id": bytearray(b"id-123")}),
        (designator(1, 0, 0, 2, be(0xABCDEF, 3) + b"\x01\x02\x03\x04\x05"), {"ieee_company_id": 0xABCDEF, "vendor_specific_extension_id": ba(1, 2, 3, 4, 5)}),
        (designator(1, 0, 0, 2, be(0x123456, 3) + b"\x01\x02\x03\x04\x05" + b"\x0a\x0b\x0c\x0d"), {"ieee_company_id": 0x123456, "vendor_specific_extension_id": ba(1, 2, 3, 4, 5), "directory_id": ba(10, 11, 12, 13)}),
        (designator(1, 0, 0, 2, b"EXTENSN8" + be(0x0055AA, 3) + b"\x09\x08\x07\x06\x05"), {"identifier_extension": bytearray(b"EXTENSN8"), "ieee_company_id": 0x55AA, "vendor_specific_extension_id": ba(9, 8, 7, 6, 5)}),
        (designator(1, 0, 0, 3, be(0x2ABC112233445566, 8)), {"naa": 2, "vendor_specific_identifier_a": 0xABC, "ieee_company_id": 0x112233, "vendor_specific_identifier_b": 0x445566}),
        (designator(1, 0, 0, 3, be(0x3123456789ABCDEF, 8)), {"naa": 3, "locally_administered_value": 0x123456789ABCDEF}),
        (designator(1, 1, 1, 3, be(0x5000C50012345678, 8), proto=6), {"naa": 5, "ieee_company_id": 0x000C50, "vendor_specific_identifier": 0x012345678}),
        (designator(1, 0, 0, 3, be(0x6000C50012345678, 8) + be(0x0102030405060708, 8)), {"naa": 6, "ieee_company_id": 0x000C50, "vendor_specific_identifier": 0x012345678, "vendor_specific_identifier_extension": 0x0102030405060708}),
        (designator(1, 1, 1, 4, be(0, 2) + be(0x1234, 2), proto=6), {"relative_port": 0x1234}),
        (designator(1, 1, 2, 5, be(0, 2) + be(0x4321, 2), proto=5), {"target_portal_group": 0x4321}),
        (designator(1, 0, 0, 6, be(0, 2) + be(0x00FF, 2)), {"logical_unit_group": 0xFF}),
        (designator(1, 0, 0, 7, bytes(range(16))), {"md5_logical_identifier": bytearray(range(16))}),
        (designator(3, 0, 0, 8, b"iqn.2001-04.com.example:storage\0"), {"scsi_name_string": bytearray(b"iqn.2001-04.com.example:storage\0")}),
        (designator(1, 0, 0, 9, be(0xBEEF, 2) + bytes(6)), {"pci_express_routing_id": 0xBEEF}),
        (designator(1, 0, 0, 0, b""), {"vendor_specific": bytearray()}),
        (designator(1, 0, 0, 0xE, b"\x01\x02"), {}),
    ]
    payload = bytearray()
    want_dd = []
    for raw, dec in descs:
        payload += raw
        w = {}
        if raw[1] & 0x80 and ((raw[1] >> 4) & 3) in (1, 2):
            w["protocol_identifier"] = raw[0] >> 4
        w["code_set"] = raw[0] & 0x0F
        w["piv"] = raw[1] >> 7
        w["association"] = (raw[1] >> 4) & 3
        w["designator_type"] = raw[1] & 0x0F
        w["designator_length"] = raw[3]
        w["designator"] = dec
        want_dd.append(w)
    for n in (0, 1, 5, len(descs)):
        pl = bytearray()
        for raw, _ in descs[:n]:
            pl += raw
        # whatever follows the page length must be ignored, even if it looks
        # like one more well formed designator
        d = vpd(0x83, pl, 5, 3, trailer=designator(1, 0, 0, 0, b"beyond"))
        want = dict(base, page_code=0x83, designator_descriptors=want_dd[:n])
        eq(Inquiry.unmarshall_datain(d, 1), want, "vpd device identification n=%d" % n)
    r = via_device(sbc, vpd(0x83, payload, 5, 3), lambda s: s.inquiry(evpd=1, page_code=0x83, alloclen=1024))
    eq(r.result, dict(base, page_code=0x83, designator_descriptors=want_dd), "vpd device identification through device")
    # roundtrip for the kinds the marshaller supports
    rt = dict(base, page_code=0x83, designator_descriptors=[w for w in want_dd[:15] if "protocol_identifier" not in w])
    eq(Inquiry.unmarshall_datain(Inquiry.marshall_datain(rt), 1), rt, "device identification roundtrip")
    for (raw, dec) in descs:
        eq(Inquiry.unmarshall_designator(raw[1] & 0x0F, raw[4:]), dec, "unmarshall_designator type %d" % (raw[1] & 0x0F))

    # unknown vpd page -> None, as today
    eq(Inquiry.unmarshall_datain(vpd(0xC7, b"abc", 5, 3), 1), None, "unknown vpd page")
    # enums hang off the command class
    check(Inquiry.VPD.DEVICE_IDENTIFICATION == 0x83 and SCSICommand.NAA.IEEE_REGISTERED == 5, "inquiry enums on class")
    check(INQ.DESIGNATOR.SCSI_NAME_STRING == 8, "designator enum")


# --------------------------------------------------------------------------
# MODE SENSE 6 / 10
# --------------------------------------------------------------------------
def mode_page(page_code, body, ps=0, sub_page=None):
    if sub_page is None:
        return ba((ps << 7) | page_code, len(body)) + bytearray(body)
    return ba((ps << 7) | 0x40 | page_code, sub_page) + be(len(body), 2) + bytearray(body)


def ms6(medium_type, dsp, block_descriptors, page):
    d = ba(0, medium_type, dsp, len(block_descriptors)) + bytearray(block_descriptors) + bytearray(page)
    d[0] = len(d) - 1
    return d


def ms10(medium_type, dsp, longlba, block_descriptors, page):
    d = ba(0, 0, medium_type, dsp, longlba, 0) + be(len(block_descriptors), 2)
    d += bytearray(block_descriptors) + bytearray(page)
    d[0:2] = be(len(d) - 2, 2)
    return d


CONTROL_BODY = ba(0x40 | 0x10 | 0x04 | 0x01, 0x10 | 0x08 | 0x02, 0x80 | 0x20 | 0x08, 0x40 | 0x10 | 0x05, 0, 0, 0x12, 0x34, 0x56, 0x78)
CONTROL_WANT = {
    "tst": 2,
    "tmf_only": 1,
    "dpicz": 0,
    "d_sense": 1,
    "gltsd": 0,
    "rlec": 1,
    "queue_algorithm_modifier": 1,
    "nuar": 1,
    "qerr": 1,
    "vs": 1,
    "rac": 0,
    "ua_intlck_ctrl": 2,
    "swp": 1,
    "ato": 0,
    "tas": 1,
    "atmpe": 0,
    "rwwp": 1,
    "autoload_mode": 5,
    "busy_timeout_period": 0x1234,
    "extended_self_test_completion_time": 0x5678,
}
CTRL_EXT_BODY = ba(0x04 | 0x01, 0x0B, 0xFC) + bytearray(25)
CTRL_EXT_WANT = {"tcmos": 1, "scsip": 0, "ialuae": 1, "initial_command_priority": 0x0B, "maximum_sense_data_length": 0xFC}
DISC_BODY = ba(0x11, 0x22) + be(0x3344, 2) + be(0x5566, 2) + be(0x7788, 2) + be(0x99AA, 2) + ba(0x80 | 0x30 | 0x08 | 0x05, 0) + be(0xBBCC, 2)
DISC_WANT = {
    "buffer_full_ratio": 0x11,
    "buffer_empty_ratio": 0x22,
    "bus_inactivity_limit": 0x3344,
    "disconnect_time_limit": 0x5566,
    "connect_time_limit": 0x7788,
    "maximum_burst_size": 0x99AA,
    "emdp": 1,
    "fair_arbitration": 3,
    "dimm": 1,
    "dtdc": 5,
    "first_burst_size": 0xBBCC,
}
ELEM_BODY = b"".join(bytes(be(v, 2)) for v in (1, 2, 0x100, 0x200, 0x300, 4, 0x400, 8)) + bytes(2)
ELEM_WANT = {
    "first_medium_transport_element_address": 1,
    "num_medium_transport_elements": 2,
    "first_storage_element_address": 0x100,
    "num_storage_elements": 0x200,
    "first_import_element_address": 0x300,
    "num_import_elements": 4,
    "first_data_transfer_element_address": 0x400,
    "num_data_transfer_elements": 8,
}


def test_modesense():
    cases = [
        ("control", mode_page(0x0A, CONTROL_BODY, ps=1), dict({"ps": 1, "spf": 0, "page_code": 0x0A}, **CONTROL_WANT)),
        ("control ext", mode_page(0x0A, CTRL_EXT_BODY, sub_page=1), dict({"ps": 0, "spf": 1, "page_code": 0x0A, "sub_page_code": 1}, **CTRL_EXT_WANT)),
        ("control other subpage", mode_page(0x0A, CTRL_EXT_BODY, sub_page=2), {"ps": 0, "spf": 1, "page_code": 0x0A, "sub_page_code": 2}),
        ("disconnect", mode_page(0x02, DISC_BODY), dict({"ps": 0, "spf": 0, "page_code": 2}, **DISC_WANT)),
        ("disconnect subpage", mode_page(0x02, DISC_BODY, sub_page=3), {"ps": 0, "spf": 1, "page_code": 2, "sub_page_code": 3}),
        ("element address", mode_page(0x1D, ELEM_BODY, ps=1), dict({"ps": 1, "spf": 0, "page_code": 0x1D}, **ELEM_WANT)),
        ("element address subpage", mode_page(0x1D, ELEM_BODY, sub_page=0), dict({"ps": 0, "spf": 1, "page_code": 0x1D, "sub_page_code": 0}, **ELEM_WANT)),
        ("unknown page", mode_page(0x08, bytes(18)), {"ps": 0, "spf": 0, "page_code": 8}),
    ]
    for bd in (b"", bytes(range(1, 9)), bytes(range(1, 17))):
        for name, page, want in cases:
            d = ms6(0x77, 0x90, bd, page)
            w = {"medium_type": 0x77, "device_specific_parameter": 0x90, "mode_pages": [want]}
            eq(ModeSense6.unmarshall_datain(d), w, "modesense6 %s bd=%d" % (name, len(bd)))
            r = via_device(sbc, d, lambda s: s.modesense6(page_code=page[0] & 0x3F, alloclen=255))
            eq(r.result, w, "modesense6 %s through device bd=%d" % (name, len(bd)))
            d = ms10(0x66, 0x10, 1, bd, page)
            w = {"medium_type": 0x66, "device_specific_parameter": 0x10, "longlba": 1, "mode_pages": [want]}
            eq(ModeSense10.unmarshall_datain(d), w, "modesense10 %s bd=%d" % (name, len(bd)))
            r = via_device(sbc, d, lambda s: s.modesense10(page_code=page[0] & 0x3F, alloclen=255))
            eq(r.result, w, "modesense10 %s through device bd=%d" % (name, len(bd)))
        # header (and block descriptors) only
        eq(ModeSense6.unmarshall_datain(ms6(1, 2, bd, b"")), {"medium_type": 1, "device_specific_parameter": 2, "mode_pages": []}, "modesense6 header only bd=%d" % len(bd))
        eq(ModeSense10.unmarshall_datain(ms10(1, 2, 0, bd, b"")), {"medium_type": 1, "device_specific_parameter": 2, "longlba": 0, "mode_pages": []}, "modesense10 header only bd=%d" % len(bd))
    # marshall -> unmarshall
    for name, page, want in cases:
        if name in ("control", "control ext", "disconnect", "element address", "element address subpage"):
            w = {"medium_type": 3, "device_specific_parameter": 0x80, "mode_pages": [want]}
            eq(ModeSense6.unmarshall_datain(ModeSense6.marshall_datain(w)), w, "modesense6 roundtrip " + name)
            eq(ModeSense6.unmarshall_datain(ModeSelect6.marshall_dataout(w)), w, "modeselect6 dataout " + name)
            w = dict(w, longlba=0)
            w = {"medium_type": 3, "device_specific_parameter": 0x80, "longlba": 1, "mode_pages": [want]}
            eq(ModeSense10.unmarshall_datain(ModeSense10.marshall_datain(w)), w, "modesense10 roundtrip " + name)
            eq(ModeSense10.unmarshall_datain(ModeSelect10.marshall_dataout(w)), w, "modeselect10 dataout " + name)
    check(ModeSelect6.unmarshall_datain(bytearray(4)) is None, "modeselect6 unmarshall")
    check(ModeSense6.PAGE_CODE.CONTROL == 0x0A and MS.MODESENSE10.control_bits["swp"][1] == 2, "modesense enums")


# --------------------------------------------------------------------------
# READ CAPACITY 10 / 16
# --------------------------------------------------------------------------
def test_readcapacity():
    rnd = random.Random(10)
    for lba, bl in [(0, 0), (0xFFFFFFFF, 512), (0x01020304, 0x00001000), (1, 0xFFFFFFFF)] + [(rnd.getrandbits(32), rnd.getrandbits(32)) for _ in range(20)]:
        d = be(lba, 4) + be(bl, 4)
        w = {"returned_lba": lba, "block_length": bl}
        eq(ReadCapacity10.unmarshall_datain(d), w, "readcapacity10 %x" % lba)
        eq(ReadCapacity10.unmarshall_datain(d + b"extra"), w, "readcapacity10 extra %x" % lba)
        eq(via_device(sbc, d, lambda s: s.readcapacity10()).result, w, "readcapacity10 device %x" % lba)
        eq(ReadCapacity10.marshall_datain(w), d, "readcapacity10 marshall %x" % lba)
    for _ in range(40):
        lba = rnd.getrandbits(64)
        bl = rnd.getrandbits(32)
        b12, b13 = rnd.getrandbits(4), rnd.getrandbits(8)
        w14 = rnd.getrandbits(16)
        d = be(lba, 8) + be(bl, 4) + ba(b12, b13) + be(w14, 2) + bytearray(16)
        w = {
            "returned_lba": lba,
            "block_length": bl,
            "p_type": (b12 >> 1) & 7,
            "prot_en": b12 & 1,
            "p_i_exponent": b13 >> 4,
            "lbppbe": b13 & 0x0F,
            "lbpme": w14 >> 15,
            "lbprz": (w14 >> 14) & 1,
            "lowest_aligned_lba": w14 & 0x3FFF,
        }
        eq(ReadCapacity16.unmarshall_datain(d), w, "readcapacity16 %x" % lba)
        eq(via_device(sbc, d, lambda s: s.readcapacity16()).result, w, "readcapacity16 device %x" % lba)
        eq(ReadCapacity16.marshall_datain(w), d, "readcapacity16 marshall %x" % lba)
        eq(list(ReadCapacity16.unmarshall_datain(d)), list(w), "readcapacity16 key order")


# --------------------------------------------------------------------------
# GET LBA STATUS / REPORT LUNS / REPORT TARGET PORT GROUPS / REPORT PRIORITY
# --------------------------------------------------------------------------
def test_lists():
    rnd = random.Random(11)
    for n in (0, 1, 2, 7, 64, 1000):
        descs = [(rnd.getrandbits(64), rnd.getrandbits(32), rnd.getrandbits(4)) for _ in range(n)]
        body = bytearray()
        for lba, nb, st in descs:
            body += be(lba, 8) + be(nb, 4) + ba(st, 0, 0, 0)
        d = be(len(body) + 4, 4) + bytearray(4) + body
        w = {"lbas": [{"lba": a, "num_blocks": b, "p_status": c} for a, b, c in descs]}
        junk = be(0x1111, 8) + be(3, 4) + ba(1, 0, 0, 0)
        eq(GetLBAStatus.unmarshall_datain(d), w, "getlbastatus n=%d" % n)
        eq(GetLBAStatus.unmarshall_datain(d + junk), w, "getlbastatus trailing n=%d" % n)
        eq(GetLBAStatus.unmarshall_datain(GetLBAStatus.marshall_datain(w)), w, "getlbastatus roundtrip n=%d" % n)
        if n <= 64:
            eq(via_device(sbc, d + junk, lambda s: s.getlbastatus(0, alloclen=2048)).result, w, "getlbastatus device n=%d" % n)
        # a smaller length field reports fewer descriptors
        if n >= 2:
            d2 = bytearray(d)
            d2[0:4] = be(16 * (n - 1) + 4, 4)
            eq(GetLBAStatus.unmarshall_datain(d2), {"lbas": w["lbas"][:-1]}, "getlbastatus shorter n=%d" % n)

        luns = [rnd.getrandbits(64) for _ in range(n)]
        body = bytearray()
        for l in luns:
            body += be(l, 8)
        d = be(len(body), 4) + bytearray(4) + body
        w = {"luns": [{"lun%d" % i: l} for i, l in enumerate(luns)]}
        eq(ReportLuns.unmarshall_datain(d), w, "reportluns n=%d" % n)
        eq(ReportLuns.unmarshall_datain(d + be(0x4242, 8)), w, "reportluns trailing n=%d" % n)
        eq(ReportLuns.unmarshall_datain(ReportLuns.marshall_datain(w)), w, "reportluns roundtrip n=%d" % n)
        if n <= 64:
            eq(via_device(spc, d + be(0x4242, 8), lambda s: s.reportluns(alloclen=1024)).result, w, "reportluns device n=%d" % n)
        if n >= 2:
            d2 = bytearray(d)
            d2[0:4] = be(8 * (n - 1), 4)
            eq(ReportLuns.unmarshall_datain(d2), {"luns": w["luns"][:-1]}, "reportluns shorter n=%d" % n)
    eq(GetLBAStatus.marshall_datain({}), be(4, 4) + bytearray(4), "getlbastatus marshall empty")
    eq(ReportLuns.marshall_datain({}), bytearray(8), "reportluns marshall empty")

    # REPORT TARGET PORT GROUPS
    for ext in (False, True):
        for shape in ([], [0], [1], [3, 0, 2], [1] * 20, [255]):
            body = bytearray()
            groups = []
            for gi, nports in enumerate(shape):
                aas = rnd.choice([0, 1, 2, 3, 0xE, 0xF])
                pref = rnd.getrandbits(1)
                sup = rnd.getrandbits(8) & 0xCF
                tpg = rnd.getrandbits(16)
                status, vendor = rnd.getrandbits(8), rnd.getrandbits(8)
                body += ba((pref << 7) | aas, sup) + be(tpg, 2) + ba(0, status, vendor, nports)
                ports = []
                for _ in range(nports):
                    p = rnd.getrandbits(16)
                    body += bytearray(2) + be(p, 2)
                    ports.append({"relative_target_port_id": p})
                groups.append(
                    {
                        "asymmetric_access_state": aas,
                        "pref": pref,
                        "ao_sup": sup & 1,
                        "an_sup": (sup >> 1) & 1,
                        "s_sup": (sup >> 2) & 1,
                        "u_sup": (sup >> 3) & 1,
                        "o_sup": (sup >> 6) & 1,
                        "t_sup": (sup >> 7) & 1,
                        "target_port_group": tpg,
                        "status_code": status,
                        "vendor": vendor,
                        "target_port_count": nports,
                        "target_ports": ports,
                    }
                )
            if ext:
                body = ba(0x10, 0x2A, 0, 0) + body
                w = {"format_type": 1, "implicit_transition_time": 0x2A, "target_port_group_descriptors": groups}
            else:
                w = {"format_type": 0, "target_port_group_descriptors": groups}
            d = be(len(body), 4) + body
            trailer = ba(0x01, 0x0F, 0, 9, 0, 0, 0, 1, 0, 0, 0, 5)
            name = "tpg ext=%s shape=%s" % (ext, shape[:4])
            eq(ReportTargetPortGroups.unmarshall_datain(d), w, name)
            eq(ReportTargetPortGroups.unmarshall_datain(d + trailer), w, name + " trailing")
            eq(ReportTargetPortGroups.unmarshall_datain(ReportTargetPortGroups.marshall_datain(w)), w, name + " roundtrip")
            eq(ReportTargetPortGroups.marshall_datain(w), d, name + " marshall")
            eq(via_device(spc, d + trailer, lambda s: s.reporttargetportgroups(alloclen=2048)).result, w, name + " device")

    # REPORT PRIORITY: an empty list is what the library decodes today
    for d in (bytearray(4), be(4, 4), be(4, 4) + bytes(12), be(2, 4) + bytes(12)):
        eq(ReportPriority.unmarshall_datain(d), {"priority_descriptors": []}, "reportpriority empty")
    eq(via_device(spc, bytearray(4), lambda s: s.reportpriority()).result, {"priority_descriptors": []}, "reportpriority device")
    eq(ReportPriority.marshall_datain({}), be(4, 4), "reportpriority marshall empty")


# --------------------------------------------------------------------------
# READ ELEMENT STATUS
# --------------------------------------------------------------------------
def build_res(pages, first=0x10, count=None, pad=4):
    """pages: list of (element_type, pvoltag, avoltag, [descriptor dicts])"""
    body = bytearray()
    want_pages = []
    total = 0
    for etype, pv, av, elems in pages:
        edl = 12 + (36 if pv else 0) + (36 if av else 0) + pad
        pg = ba(etype, (pv << 7) | (av << 6)) + be(edl, 2) + ba(0) + be(edl * len(elems), 3)
        want_elems = []
        for e in elems:
            ed = bytearray(12)
            ed[0:2] = be(e["element_address"], 2)
            ed[2] = e["flags"]
            ed[4], ed[5] = e["asc"], e["ascq"]
            ed[9] = e["b9"]
            ed[10:12] = be(e["src"], 2)
            w = {
                "element_address": e["element_address"],
                "except": (e["flags"] >> 2) & 1,
                "full": e["flags"] & 1,
                "additional_sense_code": e["asc"],
                "additional_sense_code_qualifier": e["ascq"],
                "svalid": e["b9"] >> 7,
                "invert": (e["b9"] >> 6) & 1,
                "ed": (e["b9"] >> 3) & 1,
                "medium_type": e["b9"] & 7,
                "source_storage_element_address": e["src"],
            }
            if pv:
                ed += bytearray(e["pvt"])
                w["primary_volume_tag"] = bytearray(e["pvt"])
            if av:
                ed += bytearray(e["avt"])
                w["alternate_volume_tag"] = bytearray(e["avt"])
            ed += bytearray(pad)
            if etype in (RES.ELEMENT_TYPE.DATA_TRANSFER, RES.ELEMENT_TYPE.STORAGE):
                w["access"] = (e["flags"] >> 3) & 1
            if etype == RES.ELEMENT_TYPE.IMPORT_EXPORT:
                w["oir"] = e["flags"] >> 7
                w["cmc"] = (e["flags"] >> 6) & 1
                w["inenab"] = (e["flags"] >> 5) & 1
                w["exenab"] = (e["flags"] >> 4) & 1
                w["access"] = (e["flags"] >> 3) & 1
                w["impexp"] = (e["flags"] >> 1) & 1
            pg += ed
            want_elems.append(w)
        total += len(elems)
        body += pg
        want_pages.append({"element_type": etype, "pvoltag": pv, "avoltag": av, "element_descriptors": want_elems})
    n = total if count is None else count
    d = be(first, 2) + be(n, 2) + ba(0) + be(len(body), 3) + body
    return d, {"first_element_address": first, "num_elements": n, "element_status_pages": want_pages}


def test_readelementstatus():
    rnd = random.Random(12)

    def elem(addr):
        return {
            "element_address": addr,
            "flags": rnd.getrandbits(8),
            "asc": rnd.getrandbits(8),
            "ascq": rnd.getrandbits(8),
            "b9": rnd.getrandbits(8) & 0xCF,
            "src": rnd.getrandbits(16),
            "pvt": bytes(rnd.getrandbits(8) for _ in range(36)),
            "avt": bytes(rnd.getrandbits(8) for _ in range(36)),
        }

    T = RES.ELEMENT_TYPE
    layouts = [
        [],
        [(T.STORAGE, 0, 0, [elem(1)])],
        [(T.STORAGE, 0, 0, [])],
        [(T.MEDIUM_TRANSPORT, 0, 0, [elem(0)]), (T.STORAGE, 1, 0, [elem(i) for i in range(5)]), (T.IMPORT_EXPORT, 0, 1, [elem(9), elem(10)]), (T.DATA_TRANSFER, 1, 1, [elem(20), elem(21), elem(22)])],
        [(T.DATA_TRANSFER, 1, 1, [elem(i) for i in range(40)])],
        [(T.IMPORT_EXPORT, 0, 0, [elem(i) for i in range(3)]), (T.IMPORT_EXPORT, 1, 1, [elem(7)])],
    ]
    for i, pages in enumerate(layouts):
        for pad in (4, 0, 20):
            d, w = build_res(pages, pad=pad)
            name = "readelementstatus layout %d pad %d" % (i, pad)
            eq(ReadElementStatus.unmarshall_datain(d), w, name)
            junk, _ = build_res([(T.STORAGE, 0, 0, [elem(99)])])
            eq(ReadElementStatus.unmarshall_datain(d + junk[8:]), w, name + " trailing")
            eq(via_device(smc, d + junk[8:], lambda s: s.readelementstatus(0, 100, alloclen=8192)).result, w, name + " device")
            if pad == 4:
                eq(ReadElementStatus.unmarshall_datain(ReadElementStatus.marshall_datain(w)), w, name + " roundtrip")
    # byte count of the report shorter than the data: later pages not reported
    d, w = build_res(layouts[3])
    first_page_len = 8 + scsi_ba_to_int(d[13:16])
    d2 = bytearray(d)
    d2[5:8] = be(first_page_len, 3)
    eq(ReadElementStatus.unmarshall_datain(d2), dict(w, element_status_pages=w["element_status_pages"][:1]), "readelementstatus shorter report")


# --------------------------------------------------------------------------
# PERSISTENT RESERVE IN
# --------------------------------------------------------------------------
def transport_id(kind, **kw):
    if kind == "fc":
        t = bytearray(24)
        t[0] = 0x00
        t[8:16] = kw["name"]
        return t, {"tpid_format": 0, "protocol_id": 0, "n_port_name": bytearray(kw["name"])}
    if kind == "1394":
        t = bytearray(24)
        t[0] = 0x03
        t[8:16] = kw["name"]
        return t, {"tpid_format": 0, "protocol_id": 3, "eui64_name": bytearray(kw["name"])}
    if kind == "rdma":
        t = bytearray(24)
        t[0] = 0x04
        t[8:24] = kw["name"]
        return t, {"tpid_format": 0, "protocol_id": 4, "initiator_port_identifier": bytearray(kw["name"])}
    if kind == "sas":
        t = bytearray(24)
        t[0] = 0x06
        t[4:12] = kw["name"]
        return t, {"tpid_format": 0, "protocol_id": 6, "sas_address": bytearray(kw["name"])}
    if kind == "sop":
        t = bytearray(24)
        t[0] = 0x0A
        t[4:12] = kw["name"]
        return t, {"tpid_format": 0, "protocol_id": 0x0A, "routing_id": bytearray(kw["name"])}
    if kind == "iscsi0":
        s = kw["name"].encode("utf-8") + b"\0"
        s += bytes(-len(s) % 4)
        t = ba(0x05, 0) + be(len(s), 2) + s
        return t, {"tpid_format": 0, "protocol_id": 5, "iscsi_name": kw["name"]}
    if kind == "iscsi1":
        s = (kw["name"] + ",i,0x" + kw["isid"]).encode("utf-8") + b"\0"
        s += bytes(-len(s) % 4)
        t = ba(0x45, 0) + be(len(s), 2) + s
        return t, {"tpid_format": 1, "protocol_id": 5, "iscsi_name": kw["name"], "iscsi_initiator_session_id": kw["isid"]}
    raise AssertionError(kind)


def test_persistentreservein():
    rnd = random.Random(13)
    pri = spc.PERSISTENT_RESERVE_IN.serviceaction
    for n in (0, 1, 2, 9, 200):
        keys = [rnd.getrandbits(64) for _ in range(n)]
        gen = rnd.getrandbits(32)
        body = bytearray()
        for k in keys:
            body += be(k, 8)
        d = be(gen, 4) + be(len(body), 4) + body
        w = {"pr_generation": gen, "reservation_keys": keys}
        eq(PersistentReserveInReadKeys.unmarshall_datain(d), w, "pr read keys n=%d" % n)
        eq(PersistentReserveInReadKeys.unmarshall_datain(d + be(0xDEAD, 8)), w, "pr read keys trailing n=%d" % n)
        if n < 100:
            r = via_device(spc, d + be(0xDEAD, 8), lambda s: s.persistentreservein(pri.READ_KEYS))
            eq(r.result, w, "pr read keys device n=%d" % n)
            check(isinstance(r, PersistentReserveInReadKeys) and isinstance(r, PersistentReserveIn), "pr read keys class")
        if n >= 2:
            d2 = bytearray(d)
            d2[4:8] = be(8 * (n - 1), 4)
            eq(PersistentReserveInReadKeys.unmarshall_datain(d2), {"pr_generation": gen, "reservation_keys": keys[:-1]}, "pr read keys shorter n=%d" % n)

    # READ RESERVATION
    eq(PersistentReserveInReadReservation.unmarshall_datain(be(7, 4) + be(0, 4) + bytes(16)), {"pr_generation": 7}, "pr read reservation none")
    for _ in range(20):
        gen, key = rnd.getrandbits(32), rnd.getrandbits(64)
        scope, typ = rnd.getrandbits(4), rnd.getrandbits(4)
        d = be(gen, 4) + be(16, 4) + be(key, 8) + bytes(5) + ba((scope << 4) | typ) + bytes(2)
        w = {"pr_generation": gen, "reservation_key": key, "scope": scope, "type": typ}
        eq(PersistentReserveInReadReservation.unmarshall_datain(d), w, "pr read reservation")
        eq(via_device(spc, d, lambda s: s.persistentreservein(pri.READ_RESERVATION, alloclen=64)).result, w, "pr read reservation device")
    try:
        PersistentReserveInReadReservation.unmarshall_datain(be(1, 4) + be(12, 4) + bytes(16))
        check(False, "pr read reservation bad length must raise")
    except ValueError:
        check(True, "")

    # REPORT CAPABILITIES
    eq(PersistentReserveInReportCapabilities.unmarshall_datain(bytearray(8)), {}, "pr report capabilities empty")
    for _ in range(30):
        b2 = rnd.getrandbits(8) & 0x9D
        b3 = rnd.getrandbits(8) & 0xF1
        b4 = rnd.getrandbits(8) & 0xEA
        b5 = rnd.getrandbits(1)
        d = be(8, 2) + ba(b2, b3, b4, b5, 0, 0)
        w = {
            "ptpl_c": b2 & 1,
            "atp_c": (b2 >> 2) & 1,
            "sip_c": (b2 >> 3) & 1,
            "crh": (b2 >> 4) & 1,
            "rlr_c": b2 >> 7,
            "ptpl_a": b3 & 1,
            "allow_commands": (b3 >> 4) & 7,
            "tmv": b3 >> 7,
            "pr_type_mask": {
                "wr_ex": (b4 >> 1) & 1,
                "ex_ac": (b4 >> 3) & 1,
                "wr_ex_ro": (b4 >> 5) & 1,
                "ex_ac_ro": (b4 >> 6) & 1,
                "wr_ex_ar": b4 >> 7,
                "ex_ac_ar": b5,
            },
        }
        eq(PersistentReserveInReportCapabilities.unmarshall_datain(d), w, "pr report capabilities")
        eq(via_device(spc, d, lambda s: s.persistentreservein(pri.REPORT_CAPABILITIES)).result, w, "pr report capabilities device")
    try:
        PersistentReserveInReportCapabilities.unmarshall_datain(be(6, 2) + bytes(6))
        check(False, "pr report capabilities bad length must raise")
    except ValueError:
        check(True, "")

    # READ FULL STATUS
    tids = [
        transport_id("fc", name=b"FCPORT01"),
        transport_id("1394", name=b"EUI64NAM"),
        transport_id("rdma", name=b"RDMA-INITIATOR16"),
        transport_id("sas", name=bytes(be(0x5000C50012345678, 8))),
        transport_id("sop", name=b"\x00\x01\x02\x03\x04\x05\x06\x07"),
        transport_id("iscsi0", name="iqn.1993-08.org.debian:01:abcdef"),
        transport_id("iscsi0", name="iqn.a"),
        transport_id("iscsi1", name="iqn.2005-10.org.freenas.ctl:x", isid="00023d000001"),
    ]
    for count in (0, 1, 3, len(tids), 3 * len(tids)):
        gen = rnd.getrandbits(32)
        body = bytearray()
        want = []
        for i in range(count):
            t, tw = tids[i % len(tids)]
            key = rnd.getrandbits(64)
            fl = rnd.getrandbits(2)
            scope, typ = rnd.getrandbits(4), rnd.getrandbits(4)
            rtpi = rnd.getrandbits(16)
            body += be(key, 8) + bytes(4) + ba(fl, (scope << 4) | typ) + bytes(4) + be(rtpi, 2) + be(len(t), 4) + t
            want.append(
                {
                    "reservation_key": key,
                    "r_holder": fl & 1,
                    "all_tg_pt": fl >> 1,
                    "scope": scope,
                    "type": typ,
                    "relative_target_port_id": rtpi,
                    "transport_id": dict(tw),
                }
            )
        d = be(gen, 4) + be(len(body), 4) + body
        w = {"pr_generation": gen, "full_status": want}
        t, _ = tids[0]
        junk = be(1, 8) + bytes(4) + ba(1, 0x13) + bytes(4) + be(1, 2) + be(len(t), 4) + t
        eq(PersistentReserveInReadFullStatus.unmarshall_datain(d), w, "pr full status n=%d" % count)
        eq(PersistentReserveInReadFullStatus.unmarshall_datain(d + junk), w, "pr full status trailing n=%d" % count)
        if len(d) + len(junk) < 1024:
            eq(via_device(spc, d + junk, lambda s: s.persistentreservein(pri.READ_FULL_STATUS)).result, w, "pr full status device n=%d" % count)
    for t, tw in tids:
        eq(PersistentReserveInReadFullStatus.unmarshall_transport_id(t), tw, "transport id %r" % tw)
        eq(PersistentReserveInReadFullStatus.marshall_transport_id(tw), t, "transport id marshall %r" % tw)
    try:
        via_device(spc, b"", lambda s: s.persistentreservein(0x1F))
        check(False, "invalid pr service action must raise")
    except ValueError:
        check(True, "")


# --------------------------------------------------------------------------
# READ DISC INFORMATION
# --------------------------------------------------------------------------
def test_readdiscinformation():
    rnd = random.Random(14)
    for _ in range(25):
        b2 = rnd.getrandbits(5)
        b7 = rnd.getrandbits(8) & 0xF7
        vals = [rnd.getrandbits(8) for _ in range(9)]
        ident = rnd.getrandbits(32)
        li, lo, bc = (bytes(rnd.getrandbits(8) for _ in range(n)) for n in (4, 4, 8))
        app, opc = rnd.getrandbits(8), 0
        d = be(32, 2) + ba(b2, vals[0], vals[1], vals[2], vals[3], b7, vals[4], vals[5], vals[6], vals[7]) + be(ident, 4) + li + lo + bc + ba(app, opc)
        w = {
            "disc_information_length": 32,
            "disc_information_data_type": 0,
            "erasable": (b2 >> 4) & 1,
            "state_of_last_session": (b2 >> 2) & 3,
            "disc_status": b2 & 3,
            "number_of_first_track_on_disc": vals[0],
            "did_v": b7 >> 7,
            "dbc_v": (b7 >> 6) & 1,
            "uru": (b7 >> 5) & 1,
            "dac_v": (b7 >> 4) & 1,
            "legacy": (b7 >> 2) & 1,
            "bg_format_status": b7 & 3,
            "disc_type": vals[4],
            "disc_identification": ident,
            "last_session_lead_in_start_address": bytearray(li),
            "last_possible_lead_out_start_address": bytearray(lo),
            "disc_bar_code": bytearray(bc),
            "disc_application_code": app,
            "number_of_opc_tables": opc,
            "number_of_sessions": vals[5] * 256 + vals[1],
            "first_track_number_in_last_session": vals[6] * 256 + vals[2],
            "last_track_number_in_last_session": vals[7] * 256 + vals[3],
        }
        eq(ReadDiscInformation.unmarshall_datain(d), w, "readdiscinformation standard")
        eq(via_device(mmc, d, lambda s: s.readdiscinformation(0, alloc_len=64)).result, w, "readdiscinformation standard device")
        t = [rnd.getrandbits(16) for _ in range(4)]
        d = be(10, 2) + ba(0x20, 0) + b"".join(bytes(be(v, 2)) for v in t)
        w = {
            "disc_information_length": 10,
            "disc_information_data_type": 1,
            "maximum_possible_number_of_the_tracks": t[0],
            "number_of_the_assigned_tracks": t[1],
            "maximum_possible_number_of_appendable_tracks": t[2],
            "current_number_of_appendable_tracks": t[3],
        }
        eq(ReadDiscInformation.unmarshall_datain(d), w, "readdiscinformation track resources")
        eq(via_device(mmc, d, lambda s: s.readdiscinformation(1)).result, w, "readdiscinformation track resources device")
        t = [rnd.getrandbits(32) for _ in range(3)]
        d = be(14, 2) + ba(0x40, 0) + b"".join(bytes(be(v, 4)) for v in t)
        w = {
            "disc_information_length": 14,
            "disc_information_data_type": 2,
            "remaining_pow_replacements": t[0],
            "remaining_pow_reallocation_map_entries": t[1],
            "number_of_remaining_pow_updates": t[2],
        }
        eq(ReadDiscInformation.unmarshall_datain(d), w, "readdiscinformation pow")
        eq(via_device(mmc, d, lambda s: s.readdiscinformation(2)).result, w, "readdiscinformation pow device")
    for t in (3, 7):
        try:
            ReadDiscInformation.unmarshall_datain(be(2, 2) + ba(t << 5, 0))
            check(False, "readdiscinformation unknown type must raise")
        except NotImplementedError as e:
            eq(str(e), "Unknown disc information data type %d" % t, "readdiscinformation error text")


# --------------------------------------------------------------------------
# READ CD
# --------------------------------------------------------------------------
def test_readcd():
    rnd = random.Random(15)

    def blob(n):
        return bytearray(rnd.getrandbits(8) for _ in range(n))

    user_len = {EST.CDDA: 2352, EST.MODE_1: 2048, EST.MODE_2_FORMLESS: 2336, EST.MODE_2_FORM_1: 2048, EST.MODE_2_FORM_2: 2324}
    # (est, mcsb as sent, effective mcsb)
    combos = [
        (EST.MODE_1, 0x1F, 0x17),
        (EST.MODE_1, 0x02, 0x02),
        (EST.MODE_1, 0x14, 0x14),
        (EST.MODE_1, 0x0B, 0x03),
        (EST.MODE_2_FORM_1, 0x1F, 0x1F),
        (EST.MODE_2_FORM_1, 0x01, 0x02),
        (EST.MODE_2_FORM_2, 0x1F, 0x1F),
        (EST.MODE_2_FORM_2, 0x0A, 0x0A),
        (EST.MODE_2_FORMLESS, 0x0B, 0x02),
        (EST.MODE_2_FORMLESS, 0x1E, 0x16),
        (EST.CDDA, 0x1F, 0x02),
        (EST.CDDA, 0x00, 0x02),
        (EST.MODE_1, 0x00, 0x00),
    ]
    for est, mcsb, eff in combos:
        for c2ei, scsb in ((0, 0), (1, 2), (2, 4), (0, 2)):
            for lba, tl in ((0, 1), (16, 3), (5, 0)):
                raw = bytearray()
                want = {}
                for l in range(lba, lba + tl):
                    r = {}
                    if eff & 0x10:
                        r["sync"] = blob(12)
                        raw += r["sync"]
                    if eff & 0x04:
                        h = blob(4)
                        raw += h
                        r["sector-header"] = {"minute": h[0], "second": h[1], "frame": h[2], "mode": h[3]}
                    if eff & 0x08:
                        r["sector-subheader"] = []
                        for _ in range(2):
                            h = blob(4)
                            raw += h
                            r["sector-subheader"].append({"file-number": h[0], "channel-number": h[1], "sub-mode": h[2], "data": h})
                    if eff & 0x02:
                        r["data"] = blob(user_len[est])
                        raw += r["data"]
                    if eff & 0x01 and est != EST.CDDA:
                        r["edc"] = blob(4)
                        raw += r["edc"]
                        if est == EST.MODE_1:
                            raw += blob(8)
                        if est in (EST.MODE_1, EST.MODE_2_FORM_1):
                            r["p-parity"] = blob(172)
                            r["q-parity"] = blob(104)
                            raw += r["p-parity"] + r["q-parity"]
                    if c2ei == 1:
                        r["c2ei-data"] = blob(294)
                        raw += r["c2ei-data"]
                    if c2ei == 2:
                        r["c2ei"] = {"data": blob(296)}
                        raw += r["c2ei"]["data"]
                    if scsb == 2:
                        q = blob(16)
                        raw += q
                        r["subchannel"] = {
                            "c": q[0] >> 4,
                            "adr": q[0] & 0x0F,
                            "track-number": q[1],
                            "index-number": q[2],
                            "min": q[3],
                            "sec": q[4],
                            "frame": q[5],
                            "zero": q[6],
                            "amin": q[7],
                            "asec": q[8],
                            "aframe": q[9],
                            "crc": q[10] * 256 + q[11],
                            "p": q[15] >> 7,
                            "data": q,
                        }
                    if scsb == 4:
                        r["subchannel"] = {"data": blob(96)}
                        raw += r["subchannel"]["data"]
                    want[l] = r
                name = "readcd est=%d mcsb=%#x c2ei=%d scsb=%d lba=%d tl=%d" % (est, mcsb, c2ei, scsb, lba, tl)
                got = ReadCd.unmarshall_datain(raw + blob(7), lba, tl, est=est, mcsb=mcsb, c2ei=c2ei, scsb=scsb)
                eq(got, want, name)
                got = ReadCd.unmarshall_datain(raw, lba=lba, tl=tl, est=est, mcsb=mcsb, c2ei=c2ei, scsb=scsb, dap=0)
                eq(got, want, name + " kw")
                r = via_device(mmc, raw, lambda s: s.readcd(lba, tl, est=est, mcsb=mcsb, c2ei=c2ei, scsb=scsb))
                eq(r.result, want, name + " device")
    eq(ReadCd.unmarshall_datain(bytearray(10)), {}, "readcd defaults")
    for est, mcsb, exc in ((EST.MODE_1, 0x05, ValueError), (EST.MODE_2_FORM_1, 0x06, ValueError), (EST.MODE_2_FORMLESS, 0x01, ValueError), (0, 0x01, NotImplementedError)):
        try:
            ReadCd.unmarshall_datain(bytearray(4096), 0, 1, est=est, mcsb=mcsb)
            check(False, "readcd est=%d mcsb=%#x must raise" % (est, mcsb))
        except exc:
            check(True, "")


# --------------------------------------------------------------------------
# A corpus of well formed and damaged responses whose decoded form (or the
# type of the exception) is compared against a digest recorded from the
# reference implementation.
# --------------------------------------------------------------------------
def outcome(fn, *args, **kwargs):
    try:
        return canon(fn(*args, **kwargs))
    except RecursionError:
        raise
    except Exception as e:  # noqa
        return "EXC:" + type(e).__name__


def corpus():
    rnd = random.Random(2024)
    T = RES.ELEMENT_TYPE
    seeds = []

    def blob(n):
        return bytearray(rnd.getrandbits(8) for _ in range(n))

    seeds.append(("inq0", lambda d: Inquiry.unmarshall_datain(d), std_inquiry_bytes()))
    for page, n in ((0x00, 9), (0x80, 12), (0xB0, 60), (0xB1, 60), (0xB2, 4), (0xB3, 12), (0x86, 60), (0x89, 568)):
        seeds.append(("vpd%02x" % page, lambda d: Inquiry.unmarshall_datain(d, 1), vpd(page, blob(n), 0, 0)))
    pl = bytearray()
    for dtype in range(0, 10):
        for ln in (0, 4, 8, 12, 16, 20):
            body = blob(ln)
            if dtype == 3 and ln:
                body[0] = (rnd.choice([2, 3, 5, 6, 7]) << 4) | (body[0] & 0x0F)
            pl += designator(rnd.getrandbits(4), rnd.getrandbits(1), rnd.getrandbits(2), dtype, body, proto=rnd.getrandbits(4))
    seeds.append(("vpd83", lambda d: Inquiry.unmarshall_datain(d, 1), vpd(0x83, pl)))
    for name, page in (("ctl", mode_page(0x0A, CONTROL_BODY)), ("ext", mode_page(0x0A, CTRL_EXT_BODY, sub_page=1)), ("dis", mode_page(0x02, DISC_BODY)), ("ele", mode_page(0x1D, ELEM_BODY))):
        seeds.append(("ms6" + name, ModeSense6.unmarshall_datain, ms6(1, 2, blob(8), page)))
        seeds.append(("ms10" + name, ModeSense10.unmarshall_datain, ms10(1, 2, 1, blob(8), page)))
    seeds.append(("rc10", ReadCapacity10.unmarshall_datain, blob(8)))
    seeds.append(("rc16", ReadCapacity16.unmarshall_datain, blob(32)))
    seeds.append(("glbas", GetLBAStatus.unmarshall_datain, be(16 * 5 + 4, 4) + blob(4 + 16 * 5)))
    seeds.append(("luns", ReportLuns.unmarshall_datain, be(8 * 6, 4) + blob(4 + 8 * 6)))
    body = bytearray()
    for n in (2, 0, 3):
        body += ba(0x81, 0xCF) + blob(5) + ba(n) + blob(4 * n)
    seeds.append(("tpg", ReportTargetPortGroups.unmarshall_datain, be(len(body), 4) + body))
    seeds.append(("tpgx", ReportTargetPortGroups.unmarshall_datain, be(len(body) + 4, 4) + ba(0x10, 7, 0, 0) + body))
    seeds.append(("prio", ReportPriority.unmarshall_datain, bytearray(16)))

    def elem(a):
        return {"element_address": a, "flags": rnd.getrandbits(8), "asc": 1, "ascq": 2, "b9": 0xC9, "src": 7, "pvt": bytes(blob(36)), "avt": bytes(blob(36))}

    d, _ = build_res([(T.STORAGE, 1, 0, [elem(1), elem(2)]), (T.IMPORT_EXPORT, 0, 1, [elem(3)]), (T.DATA_TRANSFER, 1, 1, [elem(4), elem(5)]), (T.MEDIUM_TRANSPORT, 0, 0, [elem(6)])])
    seeds.append(("res", ReadElementStatus.unmarshall_datain, d))
    seeds.append(("prk", PersistentReserveInReadKeys.unmarshall_datain, blob(4) + be(40, 4) + blob(40)))
    seeds.append(("prr", PersistentReserveInReadReservation.unmarshall_datain, blob(4) + be(16, 4) + blob(16)))
    seeds.append(("prc", PersistentReserveInReportCapabilities.unmarshall_datain, be(8, 2) + blob(6)))
    body = bytearray()
    for kind, kw in (("fc", {"name": b"12345678"}), ("iscsi0", {"name": "iqn.x:y"}), ("sas", {"name": b"abcdefgh"}), ("iscsi1", {"name": "iqn.q", "isid": "0001"}), ("rdma", {"name": b"0123456789abcdef"})):
        t, _ = transport_id(kind, **kw)
        body += blob(8) + bytes(4) + ba(3, 0x15) + bytes(4) + blob(2) + be(len(t), 4) + t
    seeds.append(("prf", PersistentReserveInReadFullStatus.unmarshall_datain, blob(4) + be(len(body), 4) + body))
    seeds.append(("rdi0", ReadDiscInformation.unmarshall_datain, be(32, 2) + ba(0x1F) + blob(31)))
    seeds.append(("rdi1", ReadDiscInformation.unmarshall_datain, be(10, 2) + ba(0x20) + blob(9)))
    seeds.append(("rdi2", ReadDiscInformation.unmarshall_datain, be(14, 2) + ba(0x40) + blob(13)))
    for est in range(0, 7):
        for mcsb in range(0, 32):
            seeds.append(("cd%d.%d" % (est, mcsb), (lambda e, m: lambda d: ReadCd.unmarshall_datain(d, 3, 2, est=e, mcsb=m, c2ei=m % 3, scsb=(m % 5)))(est, mcsb), blob(2 * 3100)))

    for name, fn, data in seeds:
        yield name, fn, data
        if name.startswith("cd"):
            yield name + "/short", fn, data[:2500]
            continue
        # truncations
        cuts = sorted(set([0, 1, 2, 3, 4, 5, 7, 8, 9, 12, 16, 24, len(data) // 2, len(data) - 1] + [rnd.randrange(len(data) + 1) for _ in range(6)]))
        for c in cuts:
            if 0 <= c < len(data):
                yield "%s/cut%d" % (name, c), fn, data[:c]
        # single byte damage in the first 32 bytes and a few further on
        for _ in range(40):
            m = bytearray(data)
            pos = rnd.randrange(min(len(m), 32)) if rnd.random() < 0.7 else rnd.randrange(len(m))
            m[pos] = rnd.choice([0, 1, 2, 4, 8, 0x10, 0x7F, 0x80, 0xFF, rnd.getrandbits(8)])
            yield "%s/mut%d" % (name, pos), fn, m
        yield name + "/bytes", fn, bytes(data)


GOLDEN = "e095eb51d7521041922319650dae9b60330d79d4b102a3240a4bed6f7543c3cf"


def corpus_digest():
    h = hashlib.sha256()
    n = 0
    for name, fn, data in corpus():
        keep = bytes(data)
        res = outcome(fn, data)
        # the parsers must not modify the buffer handed to them
        check(bytes(data) == keep, "input modified by " + name)
        h.update(("%s=%s\n" % (name, res)).encode("utf-8"))
        n += 1
    return n, h.hexdigest()


def test_corpus():
    n, digest = corpus_digest()
    if "--record" in sys.argv:
        print("corpus entries: %d digest: %s" % (n, digest))
        return
    check(n > 2000, "corpus size %d" % n)
    eq(digest, GOLDEN, "reference digest over %d corpus responses" % n)


def main():
    for t in (
        test_converter,
        test_inquiry,
        test_modesense,
        test_readcapacity,
        test_lists,
        test_readelementstatus,
        test_persistentreservein,
        test_readdiscinformation,
        test_readcd,
        test_corpus,
    ):
        try:
            t()
        except Exception as e:  # an unexpected error is a failure of the property
            import traceback

            traceback.print_exc()
            FAILURES.append("%s raised %r" % (t.__name__, e))
    if FAILURES:
        print("FAIL: %d of %d checks failed" % (len(FAILURES), CHECKS[0]))
        return 1
    print("PASS (%d checks)" % CHECKS[0])
    return 0


if __name__ == "__main__":
    sys.exit(main())
