# coding: utf-8
"""
Property C09 demo.

  What a command object encodes or decodes depends only on that command's
  class and its own arguments: creating, using or discarding any other command
  never changes a command's CDB, its buffers, or the result of decoding /
  encoding a CDB with its class.  Repeating a marshalling call with equal
  inputs yields equal bytes.

Run as
    cd /tmp/seed/C09u && PYTHONPATH=/tmp/seed/C09u /venv/bin/python SEED/demo.py

Everything goes through the public API only (the SCSI facade, the command
classes, their cdb / dataout / datain properties and their documented
marshall_* / unmarshall_* helpers).  Exit status 0 and "PASS" when all checks
hold.  `demo.py --dump` prints the golden table (used once to record it).
"""
import copy
import hashlib
import sys
import threading
import types

# --------------------------------------------------------------------------
# the optional external bindings are not installed: provide inert fakes
# --------------------------------------------------------------------------
for _name in ("sgio", "iscsi"):
    try:
        __import__(_name)
    except Exception:  # pragma: no cover - depends on the environment
        sys.modules[_name] = types.ModuleType(_name)

from pyscsi.pyscsi.scsi import SCSI
from pyscsi.pyscsi.scsi_cdb_extended_copy_spc4 import ExtendedCopy as ExtendedCopy4
from pyscsi.pyscsi.scsi_cdb_extended_copy_spc5 import ExtendedCopy as ExtendedCopy5
from pyscsi.pyscsi.scsi_cdb_getlbastatus import GetLBAStatus
from pyscsi.pyscsi.scsi_cdb_inquiry import Inquiry
from pyscsi.pyscsi.scsi_cdb_modesense6 import ModeSense6
from pyscsi.pyscsi.scsi_cdb_modesense10 import ModeSense10
from pyscsi.pyscsi.scsi_cdb_read10 import Read10
from pyscsi.pyscsi.scsi_cdb_read16 import Read16
from pyscsi.pyscsi.scsi_cdb_readcapacity10 import ReadCapacity10
from pyscsi.pyscsi.scsi_cdb_readcapacity16 import ReadCapacity16
from pyscsi.pyscsi.scsi_cdb_report_luns import ReportLuns
from pyscsi.pyscsi.scsi_cdb_testunitready import TestUnitReady
from pyscsi.pyscsi.scsi_cdb_write10 import Write10
from pyscsi.pyscsi.scsi_command import SCSICommand
from pyscsi.pyscsi.scsi_enum_command import mmc, sbc, smc, spc, ssc
from pyscsi.pyscsi.scsi_enum_inquiry import ASSOCIATION, CODE_SET, DESIGNATOR, NAA
from pyscsi.pyscsi.scsi_opcode import OpCode

FAILURES = []
CHECKS = [0]


def check(cond, what):
    CHECKS[0] += 1
    if not cond:
        FAILURES.append(what)
        if len(FAILURES) <= 40:
            print("FAIL:", what)


def digest(buf):
    return hashlib.sha1(bytes(buf)).hexdigest()[:16]


# --------------------------------------------------------------------------
# a do-nothing device and a SCSI facade on top of it
# --------------------------------------------------------------------------
class FakeDevice:
    def __init__(self, opcodes):
        self.opcodes = opcodes
        self.devicetype = None
        self.executed = 0

    def execute(self, cmd, en_raw_sense=False):
        self.executed += 1

    def open(self):
        pass

    def close(self):
        pass


class FakeSCSI(SCSI):
    """SCSI facade which does not probe the device type with an INQUIRY."""

    def __init__(self, dev, blocksize=0):
        self.device = dev
        self._blocksize = blocksize


S_SBC = FakeSCSI(FakeDevice(sbc), 512)
S_SBC4K = FakeSCSI(FakeDevice(sbc), 4096)
S_SMC = FakeSCSI(FakeDevice(smc))
S_SPC = FakeSCSI(FakeDevice(spc))
S_SSC = FakeSCSI(FakeDevice(ssc), 512)
S_MMC = FakeSCSI(FakeDevice(mmc), 2048)


# --------------------------------------------------------------------------
# ExtendedCopy argument material (fresh copies each time: marshall_segment
# writes the resolved type code and length back into the caller's dicts)
# --------------------------------------------------------------------------
def targets4():
    return [
        {
            "descriptor_type_code": "Identification descriptor target descriptor",
            "device_type_specific_parameters": {"disk_block_length": 512},
            "peripheral_device_type": 0,
            "target_descriptor_parameters": {
                "association": 0,
                "code_set": 1,
                "designator": {
                    "ieee_company_id": 5807356,
                    "naa": 6,
                    "vendor_specific_identifier": 3140,
                    "vendor_specific_identifier_extension": 14160104652988484981,
                },
                "designator_length": 16,
                "designator_type": 3,
            },
        },
        {
            "descriptor_type_code": 0xE4,
            "peripheral_device_type": "Stream or Tape",
            "relative_initiator_port_identifier": 0x1234,
            "target_descriptor_parameters": {
                "association": ASSOCIATION.ASSOCIATED_WITH_LUN,
                "code_set": CODE_SET.ASCII,
                "designator_type": DESIGNATOR.T10_VENDOR_ID,
                "designator": {
                    "t10_vendor_id": b"TrueNAS ",
                    "vendor_specific_id": b"test123",
                },
            },
            "device_type_specific_parameters": {
                "pad": 1,
                "fixed": 1,
                "stream_block_length": 1024,
            },
        },
        {
            "descriptor_type_code": 0xE4,
            "peripheral_device_type": "Processor device",
            "target_descriptor_parameters": {
                "designator_type": DESIGNATOR.VENDOR_SPECIFIC,
                "designator": {"vendor_specific": bytearray.fromhex("deadbeef")},
            },
            "device_type_specific_parameters": {"pad": 1},
        },
    ]


def segments4():
    return [
        {
            "block_device_number_of_blocks": 4,
            "dc": 1,
            "descriptor_type_code": "Copy from block device to block device",
            "destination_block_device_logical_block_address": 10,
            "destination_target_descriptor_id": 1,
            "source_block_device_logical_block_address": 1,
            "source_target_descriptor_id": 0,
        },
        {
            "descriptor_type_code": 0x00,
            "cat": 1,
            "source_target_descriptor_id": 2,
            "destination_target_descriptor_id": 3,
            "stream_device_transfer_length": 0x010203,
            "block_device_number_of_blocks": 0x0405,
            "block_device_logical_block_address": 0x1122334455667788,
        },
        {
            "descriptor_type_code": "stream -> block&application client",
            "source_target_descriptor_id": 1,
            "destination_target_descriptor_id": 0,
            "stream_device_transfer_length": 7,
        },
    ]


def cscds5():
    return [
        {
            "descriptor_type_code": "Identification Descriptor CSCD descriptor",
            "peripheral_device_type": 0x05,
            "cscd_descriptor_parameters": {
                "association": ASSOCIATION.ASSOCIATED_WITH_LUN,
                "code_set": CODE_SET.BINARY,
                "designator_type": DESIGNATOR.NAA,
                "designator": {
                    "naa": NAA.IEEE_REGISTERED_EXTENDED,
                    "ieee_company_id": 0x589CFC,
                    "vendor_specific_identifier": 0x00000C44,
                    "vendor_specific_identifier_extension": 0xC482CC288FBC0D75,
                },
            },
            "device_type_specific_parameters": {"disk_block_length": 512},
        },
        {
            "descriptor_type_code": 0xE4,
            "peripheral_device_type": "Stream or Tape",
            "relative_initiator_port_identifier": 42,
            "cscd_descriptor_parameters": {
                "association": ASSOCIATION.ASSOCIATED_WITH_LUN,
                "code_set": CODE_SET.ASCII,
                "designator_type": DESIGNATOR.T10_VENDOR_ID,
                "designator": {
                    "t10_vendor_id": b"TrueNAS ",
                    "vendor_specific_id": b"test123",
                },
            },
            "device_type_specific_parameters": {
                "pad": 1,
                "fixed": 1,
                "stream_block_length": 1024,
            },
        },
        {
            "descriptor_type_code": 0xE4,
            "peripheral_device_type": 0x03,
            "cscd_descriptor_parameters": {
                "designator_type": DESIGNATOR.VENDOR_SPECIFIC,
                "designator": {"vendor_specific": bytearray.fromhex("deadbeef")},
            },
            "device_type_specific_parameters": {"pad": 1},
        },
    ]


def segments5():
    return [
        {
            "descriptor_type_code": "Copy from block device to block device",
            "dc": 1,
            "fco": 1,
            "source_cscd_descriptor_id": 1,
            "destination_cscd_descriptor_id": 2,
            "block_device_number_of_blocks": 1024,
            "source_block_device_logical_block_address": 2048,
            "destination_block_device_logical_block_address": 4096,
        },
        {
            "descriptor_type_code": "block -> stream&application client",
            "cat": 1,
            "source_cscd_descriptor_id": 0,
            "destination_cscd_descriptor_id": 1,
            "stream_device_transfer_length": 0xABCDEF,
            "block_device_number_of_blocks": 9,
            "block_device_logical_block_address": 0xFFFFFFFFFFFFFFFF,
        },
        {
            "descriptor_type_code": 0x01,
            "source_cscd_descriptor_id": 2,
            "destination_cscd_descriptor_id": 0,
        },
    ]


MODE_PAGE_EAA = {
    "medium_type": 97,
    "device_specific_parameter": 98,
    "mode_pages": [
        {
            "ps": 1,
            "spf": 0,
            "page_code": 0x1D,
            "first_medium_transport_element_address": 0x0101,
            "num_medium_transport_elements": 0x0102,
            "first_storage_element_address": 0x0103,
            "num_storage_elements": 0x0104,
            "first_import_element_address": 0x0105,
            "num_import_elements": 0x0106,
            "first_data_transfer_element_address": 0x0107,
            "num_data_transfer_elements": 0x0108,
        }
    ],
}


def mode_page(longlba=None):
    d = copy.deepcopy(MODE_PAGE_EAA)
    if longlba is not None:
        d["longlba"] = longlba
    return d


# --------------------------------------------------------------------------
# recipes: label -> zero-argument callable that builds a brand-new command
# --------------------------------------------------------------------------
def build_recipes():
    r = {}
    s = S_SBC
    r["read10"] = lambda: s.read10(1, 2)
    r["read10/flags"] = lambda: s.read10(
        0xDEADBEEF, 0x11, rdprotect=5, dpo=1, fua=1, rarc=1, group=0x1F
    )
    r["read10/bool"] = lambda: s.read10(True, True, dpo=True, fua=False)
    r["read10/zero-tl"] = lambda: s.read10(0, 0)
    r["read10/overflow"] = lambda: s.read10(2**40 + 3, 1)
    r["read10/4k"] = lambda: S_SBC4K.read10(7, 3)
    r["read12"] = lambda: s.read12(0x01020304, 5, rdprotect=1, group=3)
    r["read16"] = lambda: s.read16(0x0102030405060708, 2, fua=1)
    r["read16/direct"] = lambda: Read16(sbc.READ_16, 512, 2**63, 1, rarc=1)
    r["write10"] = lambda: s.write10(9, 1, bytearray(range(256)) * 2, wrprotect=3)
    r["write10/bytes"] = lambda: s.write10(9, 1, bytes(512), fua=1, dpo=1)
    r["write12"] = lambda: s.write12(0xFFFFFFFF, 2, bytearray(b"\xa5" * 1024), group=1)
    r["write16"] = lambda: s.write16(5, 1, bytearray(512), fua=1)
    r["writesame10"] = lambda: s.writesame10(1, 2, bytearray(512), unmap=1, anchor=1)
    r["writesame16"] = lambda: s.writesame16(
        2**33, 0x01020304, bytearray(b"\x5a" * 512), wrprotect=2, ndob=1, group=9
    )
    r["sync10"] = lambda: s.synchronizecache10(0x11223344, 0x5566, immed=1, group=2)
    r["sync16"] = lambda: s.synchronizecache16(0x1122334455667788, 0x99AABBCC, immed=1)
    r["tur"] = lambda: s.testunitready()
    r["tur/direct"] = lambda: TestUnitReady(sbc.TEST_UNIT_READY)
    r["inquiry"] = lambda: s.inquiry()
    r["inquiry/vpd83"] = lambda: s.inquiry(evpd=1, page_code=0x83, alloclen=255)
    r["inquiry/big"] = lambda: Inquiry(spc.INQUIRY, evpd=0, page_code=0, alloclen=0xFFFF)
    r["readcap10"] = lambda: s.readcapacity10()
    r["readcap10/alloc"] = lambda: s.readcapacity10(alloclen=16)
    r["readcap16"] = lambda: s.readcapacity16()
    r["readcap16/alloc"] = lambda: s.readcapacity16(alloclen=0x0102)
    r["getlbastatus"] = lambda: s.getlbastatus(0x0807060504030201, alloclen=24)
    r["reportluns"] = lambda: s.reportluns(report=2, alloclen=1024)
    r["reportprio"] = lambda: s.reportpriority(priority=1, alloclen=64)
    r["rtpg"] = lambda: s.reporttargetportgroups(data_format=1, alloclen=128)
    r["pr_in/keys"] = lambda: s.persistentreservein(0, alloclen=32)
    r["pr_in/resv"] = lambda: s.persistentreservein(1)
    r["pr_in/caps"] = lambda: s.persistentreservein(2, alloclen=8)
    r["pr_in/full"] = lambda: s.persistentreservein(3, alloclen=2048)
    r["pr_out/register"] = lambda: s.persistentreserveout(
        0, scope=1, pr_type=4, service_action_reservation_key=0xABCDEFAABBCCDDEE, aptpl=1
    )
    r["pr_out/move"] = lambda: s.persistentreserveout(
        7,
        reservation_key=0xABCDEFAABBCCDDEE,
        service_action_reservation_key=0x0102030405060708,
        unreg=1,
        aptpl=1,
        relative_target_port_id=0xAABB,
        transport_id={
            "protocol_id": 5,
            "tpid_format": 0,
            "iscsi_name": "iqn.1993-08.org.debian:01:90c27cf89279",
        },
    )
    r["ata12/nodata"] = lambda: s.atapassthrough12(3, 0, 0, 1, 0, 0, 0xDA, 0, 0xC24F00, 0xB0)
    r["ata12/in"] = lambda: s.atapassthrough12(
        4, 2, 1, 1, 0, 0, 0, 1, 0, 0xEC, ck_cond=1, device=0xA0, control=4
    )
    r["ata12/out"] = lambda: s.atapassthrough12(
        5, 2, 1, 0, 0, 0, 0, 1, 0x123456, 0x30, data=bytearray(b"\x11" * 512)
    )
    r["ata16/in"] = lambda: s.atapassthrough16(
        4, 2, 1, 1, 0, 0, 0, 1, 0, 0xEC, extend=1, ck_cond=1
    )
    r["ata16/blocksize"] = lambda: s.atapassthrough16(
        4, 2, 1, 1, 1, 0, 0x0102, 2, 0x0102030405, 0x25, blocksize=4096
    )
    r["ata16/extra_tl"] = lambda: s.atapassthrough16(
        6, 3, 0, 1, 0, 2, 1, 2, 3, 0x60, extra_tl=17
    )

    m = S_SMC
    r["exchange"] = lambda: m.exchangemedium(0x0102, 0x0304, 0x0506, 0x0708, inv1=1)
    r["exchange/inv2"] = lambda: m.exchangemedium(1, 2, 3, 4, inv2=1)
    r["move"] = lambda: m.movemedium(0x1011, 0x1213, 0x1415, invert=1)
    r["res"] = lambda: m.readelementstatus(300, 700, element_type=2, voltag=1, dvcid=1)
    r["res/alloc"] = lambda: m.readelementstatus(0, 0xFFFF, curdata=0, alloclen=0x010203)
    r["ies"] = lambda: m.initializeelementstatus()
    r["iesr"] = lambda: m.initializeelementstatuswithrange(0x0A0B, 0x0C0D, rng=1, fast=1)
    r["openclose"] = lambda: m.opencloseimportexportelement(0x2021, 1)
    r["position"] = lambda: m.positiontoelement(0x3031, 0x3233, invert=1)
    r["prevent"] = lambda: m.preventallowmediumremoval(prevent=3)
    r["modesense6"] = lambda: m.modesense6(0x1D)
    r["modesense6/args"] = lambda: m.modesense6(0, sub_page_code=3, dbd=1, pc=2, alloclen=90)
    r["modesense10"] = lambda: m.modesense10(0x1D, llbaa=1)
    r["modesense10/args"] = lambda: m.modesense10(
        0x0A, sub_page_code=1, dbd=1, pc=3, alloclen=0x1234
    )
    r["modeselect6"] = lambda: m.modeselect6(mode_page(), pf=1, sp=1)
    r["modeselect10"] = lambda: m.modeselect10(mode_page(longlba=0), pf=0, sp=0)

    t = S_SSC
    r["ssc/read16"] = lambda: t.read16(1, 1)
    r["ssc/inquiry"] = lambda: t.inquiry(alloclen=36)

    c = S_MMC
    r["readcd"] = lambda: c.readcd(0x01020304, 3, est=5, dap=1, mcsb=0x1F, c2ei=2, scsb=4)
    r["readcd/default"] = lambda: c.readcd(0, 0)
    r["rdi"] = lambda: c.readdiscinformation(2, alloc_len=34)

    p = S_SPC
    r["xcopy4/empty"] = lambda: p.extendedcopy4()
    r["xcopy4/header"] = lambda: p.extendedcopy4(
        list_identifier=0x34, sequential_striped=1, nrcr=1, priority=5
    )
    r["xcopy4/inline"] = lambda: p.extendedcopy4(inline_data=bytearray.fromhex("deadbeef"))
    r["xcopy4/inline-bytes"] = lambda: p.extendedcopy4(inline_data=b"\x00\x01\x02")
    r["xcopy4/targets"] = lambda: p.extendedcopy4(priority=1, target_descriptor_list=targets4())
    r["xcopy4/segments"] = lambda: p.extendedcopy4(segment_descriptor_list=segments4())
    r["xcopy4/full"] = lambda: p.extendedcopy4(
        list_identifier=0xFF,
        priority=7,
        target_descriptor_list=targets4(),
        segment_descriptor_list=segments4(),
        inline_data=bytearray(range(64)),
    )
    r["xcopy4/direct"] = lambda: ExtendedCopy4(
        spc.EXTENDED_COPY, 1, 0, 1, 2, targets4()[:1], segments4()[:1], bytearray(b"xy")
    )
    r["xcopy4/tuples"] = lambda: ExtendedCopy4(
        spc.EXTENDED_COPY,
        target_descriptor_list=tuple(targets4()[1:]),
        segment_descriptor_list=(d for d in segments4()[1:]),
    )
    r["xcopy5/empty"] = lambda: p.extendedcopy5()
    r["xcopy5/header"] = lambda: p.extendedcopy5(
        sequential_striped=1,
        list_id_usage=2,
        priority=5,
        g_sense=1,
        immed=1,
        list_identifier=0x01020304,
    )
    r["xcopy5/inline"] = lambda: p.extendedcopy5(inline_data=bytearray.fromhex("deadbeef"))
    r["xcopy5/cscd"] = lambda: p.extendedcopy5(cscd_descriptor_list=cscds5())
    r["xcopy5/segments"] = lambda: p.extendedcopy5(segment_descriptor_list=segments5())
    r["xcopy5/full"] = lambda: p.extendedcopy5(
        list_id_usage=3,
        list_identifier=257,
        cscd_descriptor_list=cscds5(),
        segment_descriptor_list=segments5(),
        inline_data=bytearray(range(200, 232)),
    )
    r["xcopy5/direct"] = lambda: ExtendedCopy5(
        spc.EXTENDED_COPY, 0, 1, 2, 1, 0, 77, cscds5()[:2], segments5()[:1], bytearray(b"z")
    )
    r["xcopy5/generator"] = lambda: ExtendedCopy5(
        spc.EXTENDED_COPY,
        cscd_descriptor_list=iter(cscds5()[2:]),
        segment_descriptor_list=tuple(segments5()[2:]),
    )

    # the base class itself, with opcodes from every CDB size group
    r["base/6"] = lambda: SCSICommand(OpCode("X6", 0x1F, {}), 3, 4)
    r["base/10"] = lambda: SCSICommand(OpCode("X10", 0x20, {}), 0, 0)
    r["base/10b"] = lambda: SCSICommand(OpCode("X10b", 0x5F, {}), 1, 0)
    r["base/16"] = lambda: SCSICommand(OpCode("X16", 0x80, {}), 0, 2)
    r["base/12"] = lambda: SCSICommand(OpCode("X12", 0xBF, {}), 5, 5)
    return r


RECIPES = build_recipes()


def snapshot(cmd):
    """everything the property talks about, as immutable data"""
    return (
        type(cmd).__name__,
        bytes(cmd.cdb).hex(),
        len(cmd.dataout),
        digest(cmd.dataout),
        len(cmd.datain),
        digest(cmd.datain),
    )


# golden values recorded from the reference implementation:
#   label: (class name, cdb hex, len(dataout), sha1(dataout)[:16], len(datain), sha1(datain)[:16])
GOLDEN = {
    'read10': ('Read10', '28000000000100000200', 0, 'da39a3ee5e6b4b0d', 1024, '60cacbf3d72e1e78'),
    'read10/flags': ('Read10', '28bcdeadbeef1f001100', 0, 'da39a3ee5e6b4b0d', 8704, '87149ca9fc689d0d'),
    'read10/bool': ('Read10', '28100000000100000100', 0, 'da39a3ee5e6b4b0d', 512, '5c3eb80066420002'),
    'read10/zero-tl': ('Read10', '28000000000000000000', 0, 'da39a3ee5e6b4b0d', 0, 'da39a3ee5e6b4b0d'),
    'read10/overflow': ('Read10', '28000000000300000100', 0, 'da39a3ee5e6b4b0d', 512, '5c3eb80066420002'),
    'read10/4k': ('Read10', '28000000000700000300', 0, 'da39a3ee5e6b4b0d', 12288, '7cb41fea50720b48'),
    'read12': ('Read12', 'a82001020304000000050300', 0, 'da39a3ee5e6b4b0d', 2560, '4358194749214d73'),
    'read16': ('Read16', '88080102030405060708000000020000', 0, 'da39a3ee5e6b4b0d', 1024, '60cacbf3d72e1e78'),
    'read16/direct': ('Read16', '88048000000000000000000000010000', 0, 'da39a3ee5e6b4b0d', 512, '5c3eb80066420002'),
    'write10': ('Write10', '2a600000000900000100', 512, 'dbe649daba340bce', 0, 'da39a3ee5e6b4b0d'),
    'write10/bytes': ('Write10', '2a180000000900000100', 512, '5c3eb80066420002', 0, 'da39a3ee5e6b4b0d'),
    'write12': ('Write12', 'aa00ffffffff000000020100', 1024, '6369c6eee6cb5329', 0, 'da39a3ee5e6b4b0d'),
    'write16': ('Write16', '8a080000000000000005000000010000', 512, '5c3eb80066420002', 0, 'da39a3ee5e6b4b0d'),
    'writesame10': ('WriteSame10', '41180000000100000200', 512, '5c3eb80066420002', 0, 'da39a3ee5e6b4b0d'),
    'writesame16': ('WriteSame16', '93410000000200000000010203040900', 0, 'da39a3ee5e6b4b0d', 0, 'da39a3ee5e6b4b0d'),
    'sync10': ('SynchronizeCache10', '35021122334402556600', 0, 'da39a3ee5e6b4b0d', 0, 'da39a3ee5e6b4b0d'),
    'sync16': ('SynchronizeCache16', '9102112233445566778899aabbcc0000', 0, 'da39a3ee5e6b4b0d', 0, 'da39a3ee5e6b4b0d'),
    'tur': ('TestUnitReady', '000000000000', 0, 'da39a3ee5e6b4b0d', 0, 'da39a3ee5e6b4b0d'),
    'tur/direct': ('TestUnitReady', '000000000000', 0, 'da39a3ee5e6b4b0d', 0, 'da39a3ee5e6b4b0d'),
    'inquiry': ('Inquiry', '120000006000', 0, 'da39a3ee5e6b4b0d', 96, 'c49a9785b2243f2f'),
    'inquiry/vpd83': ('Inquiry', '12018300ff00', 0, 'da39a3ee5e6b4b0d', 255, '6d7aaa7d2bcca4a8'),
    'inquiry/big': ('Inquiry', '120000ffff00', 0, 'da39a3ee5e6b4b0d', 65535, '391edab7225a1de6'),
    'readcap10': ('ReadCapacity10', '25000000000000000000', 0, 'da39a3ee5e6b4b0d', 8, '05fe405753166f12'),
    'readcap10/alloc': ('ReadCapacity10', '25000000000000000000', 0, 'da39a3ee5e6b4b0d', 16, 'e129f27c5103bc5c'),
    'readcap16': ('ReadCapacity16', '9e100000000000000000000000200000', 0, 'da39a3ee5e6b4b0d', 32, 'de8a847bff8c343d'),
    'readcap16/alloc': ('ReadCapacity16', '9e100000000000000000000001020000', 0, 'da39a3ee5e6b4b0d', 258, '9fb276ce7989bf9a'),
    'getlbastatus': ('GetLBAStatus', '9e120807060504030201000000180000', 0, 'da39a3ee5e6b4b0d', 24, 'd3399b7262fb56cb'),
    'reportluns': ('ReportLuns', 'a00002000000000004000000', 0, 'da39a3ee5e6b4b0d', 1024, '60cacbf3d72e1e78'),
    'reportprio': ('ReportPriority', 'a30e40000000000000400000', 0, 'da39a3ee5e6b4b0d', 64, 'c8d7d0ef0eedfa82'),
    'rtpg': ('ReportTargetPortGroups', 'a32a00000000000000800000', 0, 'da39a3ee5e6b4b0d', 128, '0ae4f711ef5d6e9d'),
    'pr_in/keys': ('PersistentReserveInReadKeys', '5e000000000000002000', 0, 'da39a3ee5e6b4b0d', 32, 'de8a847bff8c343d'),
    'pr_in/resv': ('PersistentReserveInReadReservation', '5e010000000000040000', 0, 'da39a3ee5e6b4b0d', 1024, '60cacbf3d72e1e78'),
    'pr_in/caps': ('PersistentReserveInReportCapabilities', '5e020000000000000800', 0, 'da39a3ee5e6b4b0d', 8, '05fe405753166f12'),
    'pr_in/full': ('PersistentReserveInReadFullStatus', '5e030000000000080000', 0, 'da39a3ee5e6b4b0d', 2048, '605db3fdbaff4ba1'),
    'pr_out/register': ('PersistentReserveOut', '5f001400000000001800', 24, '0cdde784003aa31c', 0, 'da39a3ee5e6b4b0d'),
    'pr_out/move': ('PersistentReserveOut', '5f070000000000004400', 68, '97946a305e27f47d', 0, 'da39a3ee5e6b4b0d'),
    'ata12/nodata': ('ATAPassThrough12', 'a10608da00004fc200b00000', 0, 'da39a3ee5e6b4b0d', 0, 'da39a3ee5e6b4b0d'),
    'ata12/in': ('ATAPassThrough12', 'a1082e0001000000a0ec0004', 0, 'da39a3ee5e6b4b0d', 512, '5c3eb80066420002'),
    'ata12/out': ('ATAPassThrough12', 'a10a06000156341200300000', 512, '0da62ef596147e4c', 0, 'da39a3ee5e6b4b0d'),
    'ata16/in': ('ATAPassThrough16', '85092e0000000100000000000000ec00', 0, 'da39a3ee5e6b4b0d', 512, '5c3eb80066420002'),
    'ata16/blocksize': ('ATAPassThrough16', '85091e01020002020501040003002500', 0, 'da39a3ee5e6b4b0d', 8192, '0631457264ff7f8d'),
    'ata16/extra_tl': ('ATAPassThrough16', '850d8b00010002000300000000006000', 0, 'da39a3ee5e6b4b0d', 17, 'ed24e12820f2f900'),
    'exchange': ('ExchangeMedium', 'a60001020304050607080200', 0, 'da39a3ee5e6b4b0d', 0, 'da39a3ee5e6b4b0d'),
    'exchange/inv2': ('ExchangeMedium', 'a60000010002000300040100', 0, 'da39a3ee5e6b4b0d', 0, 'da39a3ee5e6b4b0d'),
    'move': ('MoveMedium', 'a50010111213141500000100', 0, 'da39a3ee5e6b4b0d', 0, 'da39a3ee5e6b4b0d'),
    'res': ('ReadElementStatus', 'b812012c02bc030040000000', 0, 'da39a3ee5e6b4b0d', 16384, '897256b6709e1a4d'),
    'res/alloc': ('ReadElementStatus', 'b8000000ffff000102030000', 0, 'da39a3ee5e6b4b0d', 66051, 'c20caf36a9cf9460'),
    'ies': ('InitializeElementStatus', '070000000000', 0, 'da39a3ee5e6b4b0d', 0, 'da39a3ee5e6b4b0d'),
    'iesr': ('InitializeElementStatusWithRange', '37030a0b00000c0d0000', 0, 'da39a3ee5e6b4b0d', 0, 'da39a3ee5e6b4b0d'),
    'openclose': ('OpenCloseImportExportElement', '1b0020210100', 0, 'da39a3ee5e6b4b0d', 0, 'da39a3ee5e6b4b0d'),
    'position': ('PositionToElement', '2b003031323300000100', 0, 'da39a3ee5e6b4b0d', 0, 'da39a3ee5e6b4b0d'),
    'prevent': ('PreventAllowMediumRemoval', '1e0000000300', 0, 'da39a3ee5e6b4b0d', 0, 'da39a3ee5e6b4b0d'),
    'modesense6': ('ModeSense6', '1a001d006000', 0, 'da39a3ee5e6b4b0d', 96, 'c49a9785b2243f2f'),
    'modesense6/args': ('ModeSense6', '1a0880035a00', 0, 'da39a3ee5e6b4b0d', 90, 'bc243136d6d9e400'),
    'modesense10': ('ModeSense10', '5a101d00000000006000', 0, 'da39a3ee5e6b4b0d', 96, 'c49a9785b2243f2f'),
    'modesense10/args': ('ModeSense10', '5a08ca01000000123400', 0, 'da39a3ee5e6b4b0d', 4660, '17b548bf5032e2ad'),
    'modeselect6': ('ModeSelect6', '151100001800', 24, '0050cb09b2b44fe6', 0, 'da39a3ee5e6b4b0d'),
    'modeselect10': ('ModeSelect10', '55000000000000001c00', 28, '9be5c1b08b20183e', 0, 'da39a3ee5e6b4b0d'),
    'ssc/read16': ('Read16', '88000000000000000001000000010000', 0, 'da39a3ee5e6b4b0d', 512, '5c3eb80066420002'),
    'ssc/inquiry': ('Inquiry', '120000002400', 0, 'da39a3ee5e6b4b0d', 36, '8696cf0f4655636c'),
    'readcd': ('ReadCd', 'be1601020304000003fc0400', 0, 'da39a3ee5e6b4b0d', 9216, 'bc4466467455454f'),
    'readcd/default': ('ReadCd', 'be0000000000000000000000', 0, 'da39a3ee5e6b4b0d', 0, 'da39a3ee5e6b4b0d'),
    'rdi': ('ReadDiscInformation', '51020000000000002200', 0, 'da39a3ee5e6b4b0d', 34, '3173532552077d0d'),
    'xcopy4/empty': ('ExtendedCopy', '83000000000000000000000000100000', 16, 'e129f27c5103bc5c', 0, 'da39a3ee5e6b4b0d'),
    'xcopy4/header': ('ExtendedCopy', '83000000000000000000000000100000', 16, '715f29f63b565033', 0, 'da39a3ee5e6b4b0d'),
    'xcopy4/inline': ('ExtendedCopy', '83000000000000000000000000140000', 20, '8323b3d1406ebd64', 0, 'da39a3ee5e6b4b0d'),
    'xcopy4/inline-bytes': ('ExtendedCopy', '83000000000000000000000000130000', 19, '83bb7aebd406c4eb', 0, 'da39a3ee5e6b4b0d'),
    'xcopy4/targets': ('ExtendedCopy', '83000000000000000000000000700000', 112, '088cffda3db042ec', 0, 'da39a3ee5e6b4b0d'),
    'xcopy4/segments': ('ExtendedCopy', '830000000000000000000000005c0000', 92, 'ca580d1a317f5ab3', 0, 'da39a3ee5e6b4b0d'),
    'xcopy4/full': ('ExtendedCopy', '83000000000000000000000000fc0000', 252, '33b16529c2fc978c', 0, 'da39a3ee5e6b4b0d'),
    'xcopy4/direct': ('ExtendedCopy', '830000000000000000000000004e0000', 78, '7b5e91cec917e649', 0, 'da39a3ee5e6b4b0d'),
    'xcopy4/tuples': ('ExtendedCopy', '83000000000000000000000000800000', 128, 'b3ec47c96eef51de', 0, 'da39a3ee5e6b4b0d'),
    'xcopy5/empty': ('ExtendedCopy', '83010000000000000000000000300000', 48, 'e8b2546eab6c20d1', 0, 'da39a3ee5e6b4b0d'),
    'xcopy5/header': ('ExtendedCopy', '83010000000000000000000000300000', 48, 'b1419b34550c34b9', 0, 'da39a3ee5e6b4b0d'),
    'xcopy5/inline': ('ExtendedCopy', '83010000000000000000000000340000', 52, 'c711930f3ffb8855', 0, 'da39a3ee5e6b4b0d'),
    'xcopy5/cscd': ('ExtendedCopy', '83010000000000000000000000900000', 144, 'f1833c8ca3be9d56', 0, 'da39a3ee5e6b4b0d'),
    'xcopy5/segments': ('ExtendedCopy', '830100000000000000000000007c0000', 124, '5989d2ae51c6bdbb', 0, 'da39a3ee5e6b4b0d'),
    'xcopy5/full': ('ExtendedCopy', '83010000000000000000000000fc0000', 252, '21c134ee3aa24862', 0, 'da39a3ee5e6b4b0d'),
    'xcopy5/direct': ('ExtendedCopy', '830100000000000000000000008d0000', 141, 'bb6071c0bfcff116', 0, 'da39a3ee5e6b4b0d'),
    'xcopy5/generator': ('ExtendedCopy', '83010000000000000000000000680000', 104, '7f0f6515005b7956', 0, 'da39a3ee5e6b4b0d'),
    'base/6': ('SCSICommand', '000000000000', 3, '29e2dcfbb16f63bb', 4, '9069ca78e7450a28'),
    'base/10': ('SCSICommand', '00000000000000000000', 0, 'da39a3ee5e6b4b0d', 0, 'da39a3ee5e6b4b0d'),
    'base/10b': ('SCSICommand', '00000000000000000000', 1, '5ba93c9db0cff93f', 0, 'da39a3ee5e6b4b0d'),
    'base/16': ('SCSICommand', '00000000000000000000000000000000', 0, 'da39a3ee5e6b4b0d', 2, '1489f923c4dca729'),
    'base/12': ('SCSICommand', '000000000000000000000000', 5, 'a10909c2cdcaf5ad', 5, 'a10909c2cdcaf5ad'),
}

# the base-class recipes share one CDB template by design of the public
# `cdb` property; they are only used as *interference*, not as subjects.
SUBJECTS = [k for k in RECIPES if not k.startswith("base/")]


# --------------------------------------------------------------------------
# failing constructions used as interference
# --------------------------------------------------------------------------
def failing_constructions():
    out = []

    def bad_opcode():
        SCSICommand(OpCode("BAD", 0x60, {}), 0, 0)

    def bad_opcode2():
        TestUnitReady(OpCode("BAD", 0xC0, {}))

    def bad_opcode3():
        Read10(OpCode("BAD", 0x7F, {}), 512, 0, 1)

    def no_blocksize():
        Read10(sbc.READ_10, 0, 0, 1)

    def no_blocksize_w():
        Write10(sbc.WRITE_10, 0, 0, 1, bytearray(4))

    def xc4_bad_key():
        ExtendedCopy4(spc.EXTENDED_COPY, target_descriptor_list=[{"bogus": 1}])

    def xc4_bad_type():
        ExtendedCopy4(
            spc.EXTENDED_COPY,
            target_descriptor_list=[
                {"descriptor_type_code": 0x42, "peripheral_device_type": 0}
            ],
        )

    def xc4_not_implemented():
        ExtendedCopy4(
            spc.EXTENDED_COPY,
            target_descriptor_list=[
                {"descriptor_type_code": 0xE0, "peripheral_device_type": 0}
            ],
        )

    def xc4_bad_segment():
        ExtendedCopy4(
            spc.EXTENDED_COPY, segment_descriptor_list=[{"descriptor_type_code": 0x07}]
        )

    def xc5_bad_lu():
        ExtendedCopy5(
            spc.EXTENDED_COPY,
            cscd_descriptor_list=[
                {
                    "descriptor_type_code": 0xE4,
                    "peripheral_device_type": 0,
                    "lu_id_type": 1,
                }
            ],
        )

    def xc5_bad_segment_key():
        ExtendedCopy5(
            spc.EXTENDED_COPY,
            segment_descriptor_list=[{"descriptor_type_code": 2, "nonsense": 1}],
        )

    def xc5_bad_device():
        ExtendedCopy5(
            spc.EXTENDED_COPY,
            cscd_descriptor_list=[
                {"descriptor_type_code": 0xE4, "peripheral_device_type": 0x04}
            ],
        )

    out.append((bad_opcode, SCSICommand.OpcodeException))
    out.append((bad_opcode2, SCSICommand.OpcodeException))
    out.append((bad_opcode3, SCSICommand.OpcodeException))
    out.append((no_blocksize, SCSICommand.MissingBlocksizeException))
    out.append((no_blocksize_w, SCSICommand.MissingBlocksizeException))
    out.append((xc4_bad_key, ValueError))
    out.append((xc4_bad_type, ValueError))
    out.append((xc4_not_implemented, NotImplementedError))
    out.append((xc4_bad_segment, NotImplementedError))
    out.append((xc5_bad_lu, ValueError))
    out.append((xc5_bad_segment_key, ValueError))
    out.append((xc5_bad_device, ValueError))
    return out


FAILING = failing_constructions()


def run_failing():
    for fn, exc in FAILING:
        try:
            fn()
        except exc:
            check(True, "")
        except Exception as e:  # wrong exception type
            check(False, "%s raised %r, expected %s" % (fn.__name__, e, exc.__name__))
        else:
            check(False, "%s did not raise %s" % (fn.__name__, exc.__name__))


# --------------------------------------------------------------------------
# 1. determinism + golden values
# --------------------------------------------------------------------------
def test_determinism_and_golden():
    for label in RECIPES:
        a = RECIPES[label]()
        b = RECIPES[label]()
        sa, sb = snapshot(a), snapshot(b)
        check(sa == sb, "recipe %s: two identical constructions differ" % label)
        check(isinstance(a.cdb, bytearray), "recipe %s: cdb is not a bytearray" % label)
        check(a.cdb is not b.cdb or label.startswith("base/"),
              "recipe %s: two commands share one cdb buffer" % label)
        check(a.dataout is not b.dataout or len(a.dataout) == 0 or "ata" in label,
              "recipe %s: two commands share one dataout buffer" % label)
        check(a.datain is not b.datain, "recipe %s: two commands share one datain" % label)
        check(a.result == {} or a.result is None or isinstance(a.result, dict),
              "recipe %s: odd result" % label)
        if label in GOLDEN:
            check(sa == GOLDEN[label],
                  "recipe %s: %r differs from recorded %r" % (label, sa, GOLDEN[label]))
        else:
            check(False, "recipe %s has no golden value" % label)
    check(set(GOLDEN) == set(RECIPES), "golden table and recipe table differ")


# --------------------------------------------------------------------------
# 2. decode / encode with the command's class right after building it
# --------------------------------------------------------------------------
def decode_with_class(label):
    """build the command, then decode and re-encode its CDB with its class"""
    cmd = RECIPES[label]()
    cls = type(cmd)
    decoded = cls.unmarshall_cdb(cmd.cdb)
    decoded2 = cmd.unmarshall_cdb(bytes(cmd.cdb))
    encoded = cls.marshall_cdb(decoded)
    encoded2 = cmd.marshall_cdb(dict(decoded))
    return cmd, decoded, decoded2, encoded, encoded2


def test_decode_encode():
    for label in SUBJECTS:
        cmd, d1, d2, e1, e2 = decode_with_class(label)
        check(d1 == d2, "%s: decoding the same CDB twice differs" % label)
        check(e1 == e2, "%s: encoding the same dict twice differs" % label)
        check(isinstance(e1, bytearray) and len(e1) == len(cmd.cdb),
              "%s: re-encoded CDB has the wrong size/type" % label)
        check(d1.get("opcode") == cmd.cdb[0] == cmd.opcode.value,
              "%s: decoded opcode %r" % (label, d1.get("opcode")))
        # decoding what was encoded is a fixpoint
        cls = type(cmd)
        check(cls.unmarshall_cdb(e1) == d1, "%s: decode(encode(decode)) differs" % label)
        # the field names are the ones of this class, not of another one
        again = RECIPES[label]()
        check(set(type(again).unmarshall_cdb(again.cdb)) == set(d1),
              "%s: field names changed between two decodes" % label)
        # build_cdb on the instance gives the same bytes as marshall_cdb
        check(again.build_cdb(**d1) == e1, "%s: build_cdb != marshall_cdb" % label)
        check(again.build_cdb(**d1) == again.build_cdb(**dict(reversed(list(d1.items())))),
              "%s: build_cdb depends on keyword order" % label)


# --------------------------------------------------------------------------
# 3. interference: other commands never change an existing command
# --------------------------------------------------------------------------
def test_interference():
    labels = list(RECIPES)
    # a long-lived population: one command per subject recipe
    population = {label: RECIPES[label]() for label in SUBJECTS}
    frozen = {label: snapshot(cmd) for label, cmd in population.items()}
    raw = {
        label: (bytes(cmd.cdb), bytes(cmd.dataout), bytes(cmd.datain))
        for label, cmd in population.items()
    }

    def verify(where):
        for label, cmd in population.items():
            check(snapshot(cmd) == frozen[label],
                  "%s changed after %s" % (label, where))
            check((bytes(cmd.cdb), bytes(cmd.dataout), bytes(cmd.datain)) == raw[label],
                  "%s bytes changed after %s" % (label, where))

    verify("building the population")
    # create, use and discard every recipe
    for other in labels:
        o = RECIPES[other]()
        o.unmarshall_cdb(o.cdb)
        o.marshall_cdb({"opcode": 1})
        o.cdb[0] ^= 0xFF  # scribble over the other command's buffers
        for buf in (o.dataout, o.datain):
            if isinstance(buf, bytearray) and len(buf):
                buf[0] ^= 0xFF
        del o
    verify("creating and discarding every other command")
    run_failing()
    verify("failed constructions")

    # pairwise: A, then B, then a fresh A is still identical to the first A
    for i, la in enumerate(SUBJECTS):
        a1 = RECIPES[la]()
        sa = snapshot(a1)
        for lb in (labels[(i * 7 + k * 13) % len(labels)] for k in range(6)):
            b = RECIPES[lb]()
            sb = snapshot(b)
            check(snapshot(a1) == sa, "%s changed by building %s" % (la, lb))
            a2 = RECIPES[la]()
            check(snapshot(a2) == sa, "%s built after %s differs" % (la, lb))
            if not lb.startswith("base/"):
                check(snapshot(b) == sb, "%s changed by building %s" % (lb, la))
            if lb in GOLDEN:
                check(sb == GOLDEN[lb], "%s built after %s is off" % (lb, la))
        # decoding with the class right after building is unaffected by history
        cmd, d1, _d2, e1, _e2 = decode_with_class(la)
        check(bytes(cmd.cdb).hex() == sa[1], "%s: cdb differs on rebuild" % la)
        check(d1 == type(a1).unmarshall_cdb(bytes.fromhex(sa[1])),
              "%s: decode differs on rebuild" % la)
    verify("the pairwise round")

    # facade objects are independent too
    other = FakeSCSI(FakeDevice(sbc), 1024)
    x = S_SBC.read10(1, 2)
    y = other.read10(1, 2)
    check(x.cdb == y.cdb and len(y.datain) == 2 * len(x.datain), "blocksize per facade")
    check(snapshot(S_SBC.read10(1, 2)) == GOLDEN.get("read10"), "read10 after other facade")

    # a real SCSI() object probes the device with INQUIRY on creation
    dev = FakeDevice(spc)
    real = SCSI(dev, 512)
    check(dev.executed == 1 and dev.devicetype == 0 and dev.opcodes is sbc, "SCSI() probe")
    real(FakeDevice(smc))
    verify("SCSI() probing a device")
    check(snapshot(real.inquiry()) == GOLDEN.get("inquiry"), "inquiry through SCSI()")


# --------------------------------------------------------------------------
# 4. ExtendedCopy class-level marshalling helpers
# --------------------------------------------------------------------------
XC_GOLDEN = {
    't4/0': ('bytes', 'bytearray', 'e4000000010300106589cfc000000c44c482cc288fbc0d750000000000000200'),
    't4/1': ('bytes', 'bytearray', 'e40112340201000f547275654e41532074657374313233000000000005000400'),
    't4/2': ('bytes', 'bytearray', 'e403000000000004deadbeef0000000000000000000000000000000004000000'),
    'c5/0': ('bytes', 'bytearray', 'e4050000010300106589cfc000000c44c482cc288fbc0d750000000000000200'),
    'c5/1': ('bytes', 'bytearray', 'e401002a0201000f547275654e41532074657374313233000000000005000400'),
    'c5/2': ('bytes', 'bytearray', 'e403000000000004deadbeef0000000000000000000000000000000004000000'),
    's4/0': ('bytes', 'bytearray', '0202001800000001000000040000000000000001000000000000000a'),
    's4/1': ('bytes', 'bytearray', '000100140002000300010203000004051122334455667788'),
    's4/2': ('bytes', 'bytearray', '0c0000140001000000000007000000000000000000000000'),
    's5/0': ('bytes', 'bytearray', '02060018000100020000040000000000000008000000000000001000'),
    's5/1': ('bytes', 'bytearray', '0b0100140000000100abcdef00000009ffffffffffffffff'),
    's5/2': ('bytes', 'bytearray', '010000140002000000000000000000000000000000000000'),
    's4/code00': ('bytes', 'bytearray', '000000140000000000000000000000000000000000000000'),
    's5/code00': ('bytes', 'bytearray', '000100140000000000000000000000000000000000000000'),
    's4/code01': ('bytes', 'bytearray', '010000140000000000000000000000000000000000000000'),
    's5/code01': ('bytes', 'bytearray', '010100140000000000000000000000000000000000000000'),
    's4/code02': ('bytes', 'bytearray', '02000018000000000000000000000000000000000000000000000000'),
    's5/code02': ('bytes', 'bytearray', '02010018000000000000000000000000000000000000000000000000'),
    's4/code0b': ('bytes', 'bytearray', '0b0000140000000000000000000000000000000000000000'),
    's5/code0b': ('bytes', 'bytearray', '0b0100140000000000000000000000000000000000000000'),
    's4/code0c': ('bytes', 'bytearray', '0c0000140000000000000000000000000000000000000000'),
    's5/code0c': ('bytes', 'bytearray', '0c0100140000000000000000000000000000000000000000'),
    's4/code0d': ('bytes', 'bytearray', '0d000018000000000000000000000000000000000000000000000000'),
    's5/code0d': ('bytes', 'bytearray', '0d010018000000000000000000000000000000000000000000000000'),
    's4/bad3': ('exc', 'NotImplementedError', 'segment descriptor parameter not yet implemented for 0x3 (stream -> stream)'),
    's5/bad3': ('exc', 'NotImplementedError', 'segment descriptor parameter not yet implemented for 0x3 (stream -> stream)'),
    's4/bad7': ('exc', 'NotImplementedError', 'segment descriptor parameter not yet implemented for 0x7 (Verify)'),
    's5/bad7': ('exc', 'NotImplementedError', 'segment descriptor parameter not yet implemented for 0x7 (Verify CSCD)'),
    's4/bad17': ('exc', 'NotImplementedError', 'segment descriptor parameter not yet implemented for 0x11 (space -> tape)'),
    's5/bad17': ('exc', 'ValueError', 'Invalid descriptor_type_code provided: 17'),
    's4/bad21': ('exc', 'NotImplementedError', 'segment descriptor parameter not yet implemented for 0x15 (Third party persistent reservations source I_T nexus)'),
    's5/bad21': ('exc', 'NotImplementedError', 'segment descriptor parameter not yet implemented for 0x15 (Third party persistent reservations source I_T nexus)'),
    's4/bad22': ('exc', 'ValueError', 'Invalid descriptor_type_code provided: 22'),
    's5/bad22': ('exc', 'NotImplementedError', 'segment descriptor parameter not yet implemented for 0x16 (<i>block -> <i>block)'),
    's4/bad190': ('exc', 'ValueError', 'Invalid descriptor_type_code provided: 190'),
    's5/bad190': ('exc', 'NotImplementedError', 'segment descriptor parameter not yet implemented for 0xbe (ROD <- block ranges<n>)'),
    's4/bad153': ('exc', 'ValueError', 'Invalid descriptor_type_code provided: 153'),
    's5/bad153': ('exc', 'ValueError', 'Invalid descriptor_type_code provided: 153'),
    's4/badNone': ('exc', 'ValueError', 'Invalid descriptor_type_code provided: None'),
    's5/badNone': ('exc', 'ValueError', 'Invalid descriptor_type_code provided: None'),
    "s4/bad'nope'": ('exc', 'ValueError', 'Invalid descriptor_type_code provided: nope'),
    "s5/bad'nope'": ('exc', 'ValueError', 'Invalid descriptor_type_code provided: nope'),
    's4/bad-1': ('exc', 'ValueError', 'Invalid descriptor_type_code provided: -1'),
    's5/bad-1': ('exc', 'ValueError', 'Invalid descriptor_type_code provided: -1'),
    't4/typee0': ('exc', 'NotImplementedError', 'CSCD descriptor parameter not yet implemented for 0xe0 (Fibre Channel N_Port_Name target descriptor)'),
    'c5/typee0': ('exc', 'NotImplementedError', 'CSCD descriptor parameter not yet implemented for 0xe0 (Fibre Channel N_Port_Name CSCD descriptor)'),
    't4/typee1': ('exc', 'NotImplementedError', 'CSCD descriptor parameter not yet implemented for 0xe1 (Fibre Channel N_Port_ID target descriptor)'),
    'c5/typee1': ('exc', 'NotImplementedError', 'CSCD descriptor parameter not yet implemented for 0xe1 (Fibre Channel N_Port_ID CSCD descriptor)'),
    't4/typee2': ('exc', 'NotImplementedError', 'CSCD descriptor parameter not yet implemented for 0xe2 (Fibre Channel N_Port_ID With N_Port_Name Checking target descriptor)'),
    'c5/typee2': ('exc', 'NotImplementedError', 'CSCD descriptor parameter not yet implemented for 0xe2 (Fibre Channel N_Port_ID With N_Port_Name Checking CSCD descriptor)'),
    't4/typee3': ('exc', 'ValueError', 'Invalid descriptor type code: 227'),
    'c5/typee3': ('exc', 'ValueError', 'Invalid descriptor_type_code provided: 227'),
    't4/typee5': ('exc', 'NotImplementedError', 'CSCD descriptor parameter not yet implemented for 0xe5 (IPv4 target descriptor)'),
    'c5/typee5': ('exc', 'NotImplementedError', 'CSCD descriptor parameter not yet implemented for 0xe5 (IPv4 CSCD descriptor)'),
    't4/typee6': ('exc', 'NotImplementedError', 'CSCD descriptor parameter not yet implemented for 0xe6 (Alias target descriptor)'),
    'c5/typee6': ('exc', 'NotImplementedError', 'CSCD descriptor parameter not yet implemented for 0xe6 (Alias CSCD descriptor)'),
    't4/typee7': ('exc', 'NotImplementedError', 'CSCD descriptor parameter not yet implemented for 0xe7 (RDMA target descriptor)'),
    'c5/typee7': ('exc', 'NotImplementedError', 'CSCD descriptor parameter not yet implemented for 0xe7 (RDMA CSCD descriptor)'),
    't4/typee8': ('exc', 'NotImplementedError', 'CSCD descriptor parameter not yet implemented for 0xe8 (IEEE 1394 EUI-64 target descriptor)'),
    'c5/typee8': ('exc', 'NotImplementedError', 'CSCD descriptor parameter not yet implemented for 0xe8 (IEEE 1394 EUI-64 CSCD descriptor)'),
    't4/typee9': ('exc', 'NotImplementedError', 'CSCD descriptor parameter not yet implemented for 0xe9 (SAS Serial SCSI Protocol target descriptor)'),
    'c5/typee9': ('exc', 'NotImplementedError', 'CSCD descriptor parameter not yet implemented for 0xe9 (SAS Serial SCSI Protocol CSCD descriptor)'),
    't4/typeea': ('exc', 'NotImplementedError', 'CSCD descriptor parameter not yet implemented for 0xea (IPv6 target descriptor)'),
    'c5/typeea': ('exc', 'NotImplementedError', 'CSCD descriptor parameter not yet implemented for 0xea (IPv6 CSCD descriptor)'),
    't4/typeeb': ('exc', 'ValueError', 'Invalid descriptor_type_code provided: 235'),
    'c5/typeeb': ('exc', 'NotImplementedError', 'CSCD descriptor parameter not yet implemented for 0xeb (IP Copy Service CSCD descriptor)'),
    't4/typeec': ('exc', 'ValueError', 'Invalid descriptor_type_code provided: 236'),
    'c5/typeec': ('exc', 'NotImplementedError', 'CSCD descriptor parameter not yet implemented for 0xec (Multiple Device CSCD descriptor)'),
    't4/typefe': ('exc', 'ValueError', 'Invalid descriptor_type_code provided: 254'),
    'c5/typefe': ('exc', 'NotImplementedError', 'CSCD descriptor parameter not yet implemented for 0xfe (ROD CSCD descriptor)'),
    't4/type10': ('exc', 'ValueError', 'Invalid descriptor_type_code provided: 16'),
    'c5/type10': ('exc', 'ValueError', 'Invalid descriptor_type_code provided: 16'),
    't4/dev0': ('bytes', 'bytearray', 'e400000000000004deadbeef0000000000000000000000000000000004010203'),
    'c5/dev0': ('bytes', 'bytearray', 'e400000000000004deadbeef0000000000000000000000000000000004010203'),
    't4/dev1': ('bytes', 'bytearray', 'e401000000000004deadbeef0000000000000000000000000000000005040506'),
    'c5/dev1': ('bytes', 'bytearray', 'e401000000000004deadbeef0000000000000000000000000000000005040506'),
    't4/dev3': ('bytes', 'bytearray', 'e403000000000004deadbeef0000000000000000000000000000000004000000'),
    'c5/dev3': ('bytes', 'bytearray', 'e403000000000004deadbeef0000000000000000000000000000000004000000'),
    't4/dev4': ('bytes', 'bytearray', 'e404000000000004deadbeef0000000000000000000000000000000004010203'),
    'c5/dev4': ('exc', 'ValueError', 'Invalid peripheral_device_type provided: 4'),
    't4/dev5': ('bytes', 'bytearray', 'e405000000000004deadbeef0000000000000000000000000000000004010203'),
    'c5/dev5': ('bytes', 'bytearray', 'e405000000000004deadbeef0000000000000000000000000000000004010203'),
    't4/dev7': ('bytes', 'bytearray', 'e407000000000004deadbeef0000000000000000000000000000000004010203'),
    'c5/dev7': ('exc', 'ValueError', 'Invalid peripheral_device_type provided: 7'),
    't4/dev14': ('bytes', 'bytearray', 'e40e000000000004deadbeef0000000000000000000000000000000004010203'),
    'c5/dev14': ('bytes', 'bytearray', 'e40e000000000004deadbeef0000000000000000000000000000000004010203'),
    't4/dev2': ('exc', 'ValueError', 'Invalid peripheral_device_type provided: 2'),
    'c5/dev2': ('exc', 'ValueError', 'Invalid peripheral_device_type provided: 2'),
    "t4/dev'Block'": ('bytes', 'bytearray', 'e400000000000004deadbeef0000000000000000000000000000000004010203'),
    "c5/dev'Block'": ('bytes', 'bytearray', 'e400000000000004deadbeef0000000000000000000000000000000004010203'),
    "t4/dev'Stream'": ('bytes', 'bytearray', 'e403000000000004deadbeef0000000000000000000000000000000004000000'),
    "c5/dev'Stream'": ('bytes', 'bytearray', 'e403000000000004deadbeef0000000000000000000000000000000004000000'),
    "t4/dev'CD/DVD device'": ('bytes', 'bytearray', 'e405000000000004deadbeef0000000000000000000000000000000004010203'),
    "c5/dev'CD/DVD device'": ('bytes', 'bytearray', 'e405000000000004deadbeef0000000000000000000000000000000004010203'),
    "t4/dev'zz'": ('exc', 'ValueError', 'Invalid peripheral_device_type provided: zz'),
    "c5/dev'zz'": ('exc', 'ValueError', 'Invalid peripheral_device_type provided: zz'),
    't4/devNone': ('exc', 'ValueError', 'Invalid peripheral_device_type provided: None'),
    'c5/devNone': ('exc', 'ValueError', 'Invalid peripheral_device_type provided: None'),
    't4/missing-type': ('exc', 'ValueError', 'Invalid descriptor_type_code provided: None'),
    'c5/missing-dev': ('exc', 'ValueError', 'Invalid peripheral_device_type provided: None'),
    't4/lu': ('exc', 'ValueError', 'Invalid lu_id_type provided: 2'),
    't4/badkey': ('exc', 'ValueError', 'Invalid key supplied'),
    'c5/badkey': ('exc', 'ValueError', 'Invalid key supplied'),
    't4/noparams': ('exc', 'KeyError', "'designator_type'"),
    'd4/naa5': ('bytes', 'bytearray', '012300085123456789abcdef'),
    'd5/naa5': ('bytes', 'bytearray', '012300085123456789abcdef'),
    'd4/empty': ('exc', 'KeyError', "'designator_type'"),
    'p4/e4': ('bytes', 'bytearray', '00000000012300085123456789abcdef00000000000000000000000000000000'),
    'p5/e4': ('bytes', 'bytearray', '00000000012300085123456789abcdef00000000000000000000000000000000'),
    'p4/e9': ('exc', 'NotImplementedError', 'CSCD descriptor parameter not yet implemented for 0xe9 (SAS Serial SCSI Protocol target descriptor)'),
    'p5/fe': ('exc', 'NotImplementedError', 'CSCD descriptor parameter not yet implemented for 0xfe (ROD CSCD descriptor)'),
    'p4/fe': ('exc', 'KeyError', '254'),
    'p5/00': ('exc', 'ValueError', 'Invalid descriptor type code: 0'),
    'l4/empty': ('bytes', 'bytearray', '00000000000000000000000000000000'),
    'l4/full': ('bytes', 'bytearray', '09330060000000000000004c00000002e4000000010300106589cfc000000c44c482cc288fbc0d750000000000000200e40112340201000f547275654e41532074657374313233000000000005000400e403000000000004deadbeef00000000000000000000000000000000040000000202001800000001000000040000000000000001000000000000000a0001001400020003000102030000040511223344556677880c00001400010000000000070000000000000000000000000102'),
    'l5/empty': ('bytes', 'bytearray', '01000020000000000000000000000000ff00000000000000000000000000000000000000000000000000000000000000'),
    'l5/full': ('bytes', 'bytearray', '013f0020000000000000000000000003ff000000a1b2c3d40000000000000000000000000000000000000060004c0002e4050000010300106589cfc000000c44c482cc288fbc0d750000000000000200e401002a0201000f547275654e41532074657374313233000000000005000400e403000000000004deadbeef0000000000000000000000000000000004000000020600180001000200000400000000000000080000000000000010000b0100140000000100abcdef00000009ffffffffffffffff0100001400020000000000000000000000000000000000000102'),
    'l5/kw': ('bytes', 'bytearray', '01010020000000000000000000000000ff00000000000005000000000000000000000000000000000000002000000003e4050000010300106589cfc000000c44c482cc288fbc0d750000000000000200000000'),
    'l4/str-inline': ('exc', 'TypeError', "can't concat str to bytearray"),
    'l4/badseg': ('exc', 'ValueError', 'Invalid key supplied'),
    'e4/custom': ('bytes', 'bytearray', '0000000401020000'),
    'e5/custom-bad': ('exc', 'ValueError', 'Invalid key supplied'),
    'g/0': ('value', '0'),
    'g5/0': ('value', '0'),
    'g/1': ('value', '1'),
    'g5/1': ('value', '1'),
    'g/7': ('value', '7'),
    'g5/7': ('value', '7'),
    "g/'one'": ('value', '1'),
    "g5/'one'": ('value', '1'),
    "g/'first'": ('value', '1'),
    "g5/'first'": ('value', '1'),
    "g/'zero'": ('value', '0'),
    "g5/'zero'": ('value', '0'),
    "g/'seven'": ('value', '7'),
    "g5/'seven'": ('value', '7'),
    "g/'eight'": ('exc', 'ValueError', 'Invalid k provided: eight'),
    "g5/'eight'": ('exc', 'ValueError', 'Invalid k provided: eight'),
    'g/None': ('exc', 'ValueError', 'Invalid k provided: None'),
    'g5/None': ('exc', 'ValueError', 'Invalid k provided: None'),
    'g/2': ('exc', 'ValueError', 'Invalid k provided: 2'),
    'g5/2': ('exc', 'ValueError', 'Invalid k provided: 2'),
    'g/True': ('value', 'True'),
    'g5/True': ('value', 'True'),
    'g/1.0': ('value', '1.0'),
    'g5/1.0': ('value', '1.0'),
    'g/missing': ('exc', 'ValueError', 'Invalid k provided: None'),
}


def describe(fn):
    """run fn; return ('ok', hex/value) or ('exc', type name)"""
    try:
        v = fn()
    except Exception as e:
        msg = str(e)
        if msg.startswith("Invalid key supplied"):
            # the rest of this message shows a set of strings (hash order)
            msg = "Invalid key supplied"
        return ("exc", type(e).__name__, msg)
    if isinstance(v, (bytes, bytearray)):
        return ("bytes", type(v).__name__, bytes(v).hex())
    return ("value", repr(v))


def xc_cases():
    c = {}
    E4, E5 = ExtendedCopy4, ExtendedCopy5
    for i, t in enumerate(targets4()):
        c["t4/%d" % i] = lambda i=i: E4.marshall_target(targets4()[i])
    for i, t in enumerate(cscds5()):
        c["c5/%d" % i] = lambda i=i: E5.marshall_cscd(cscds5()[i])
    for i, t in enumerate(segments4()):
        c["s4/%d" % i] = lambda i=i: E4.marshall_segment(segments4()[i])
    for i, t in enumerate(segments5()):
        c["s5/%d" % i] = lambda i=i: E5.marshall_segment(segments5()[i])
    for code in (0x00, 0x01, 0x02, 0x0B, 0x0C, 0x0D):
        c["s4/code%02x" % code] = lambda code=code: E4.marshall_segment(
            {"descriptor_type_code": code}
        )
        c["s5/code%02x" % code] = lambda code=code: E5.marshall_segment(
            {"descriptor_type_code": code, "cat": 1}
        )
    for code in (0x03, 0x07, 0x11, 0x15, 0x16, 0xBE, 0x99, None, "nope", -1):
        c["s4/bad%r" % (code,)] = lambda code=code: E4.marshall_segment(
            {"descriptor_type_code": code}
        )
        c["s5/bad%r" % (code,)] = lambda code=code: E5.marshall_segment(
            {"descriptor_type_code": code}
        )
    for code in (0xE0, 0xE1, 0xE2, 0xE3, 0xE5, 0xE6, 0xE7, 0xE8, 0xE9, 0xEA, 0xEB, 0xEC, 0xFE, 0x10):
        c["t4/type%02x" % code] = lambda code=code: E4.marshall_target(
            {"descriptor_type_code": code, "peripheral_device_type": 0}
        )
        c["c5/type%02x" % code] = lambda code=code: E5.marshall_cscd(
            {"descriptor_type_code": code, "peripheral_device_type": 0}
        )
    for dev in (0, 1, 3, 4, 5, 7, 0x0E, 2, "Block", "Stream", "CD/DVD device", "zz", None):
        def t4(dev=dev):
            d = targets4()[2]
            d["peripheral_device_type"] = dev
            d["device_type_specific_parameters"] = {
                "pad": 1, "fixed": 1, "disk_block_length": 0x010203,
                "stream_block_length": 0x040506,
            }
            return E4.marshall_target(d)

        def c5(dev=dev):
            d = cscds5()[2]
            d["peripheral_device_type"] = dev
            d["device_type_specific_parameters"] = {
                "pad": 1, "fixed": 1, "disk_block_length": 0x010203,
                "stream_block_length": 0x040506,
            }
            return E5.marshall_cscd(d)

        c["t4/dev%r" % (dev,)] = t4
        c["c5/dev%r" % (dev,)] = c5
    c["t4/missing-type"] = lambda: E4.marshall_target({"peripheral_device_type": 0})
    c["c5/missing-dev"] = lambda: E5.marshall_cscd({"descriptor_type_code": 0xE4})
    c["t4/lu"] = lambda: E4.marshall_target(
        {"descriptor_type_code": 0xE4, "peripheral_device_type": 0, "lu_id_type": 2}
    )
    c["t4/badkey"] = lambda: E4.marshall_target(
        {"descriptor_type_code": 0xE4, "peripheral_device_type": 0, "cscd_descriptor_parameters": {}}
    )
    c["c5/badkey"] = lambda: E5.marshall_cscd(
        {"descriptor_type_code": 0xE4, "peripheral_device_type": 0, "target_descriptor_parameters": {}}
    )
    c["t4/noparams"] = lambda: E4.marshall_target(
        {"descriptor_type_code": 0xE4, "peripheral_device_type": 0}
    )
    dd = {
        "association": 2, "code_set": 1, "designator_type": DESIGNATOR.NAA,
        "designator": {
            "naa": NAA.IEEE_REGISTERED, "ieee_company_id": 0x123456,
            "vendor_specific_identifier": 0x789ABCDEF,
        },
    }
    c["d4/naa5"] = lambda: E4.marshall_designator_descriptor(copy.deepcopy(dd))
    c["d5/naa5"] = lambda: E5.marshall_designator_descriptor(copy.deepcopy(dd))
    c["d4/empty"] = lambda: E4.marshall_designator_descriptor({})
    c["p4/e4"] = lambda: (lambda b: (E4.marshall_target_descriptor_parameters(0xE4, b, copy.deepcopy(dd)), b)[1])(bytearray(32))
    c["p5/e4"] = lambda: (lambda b: (E5.marshall_cscd_descriptor_parameters(0xE4, b, copy.deepcopy(dd)), b)[1])(bytearray(32))
    c["p4/e9"] = lambda: E4.marshall_target_descriptor_parameters(0xE9, bytearray(32), {})
    c["p5/fe"] = lambda: E5.marshall_cscd_descriptor_parameters(0xFE, bytearray(32), {})
    c["p4/fe"] = lambda: E4.marshall_target_descriptor_parameters(0xFE, bytearray(32), {})
    c["p5/00"] = lambda: E5.marshall_cscd_descriptor_parameters(0x00, bytearray(32), {})
    c["l4/empty"] = lambda: E4.marshall_parameter_list(0, 0, 0, 0, [], [], b"")
    c["l4/full"] = lambda: E4.marshall_parameter_list(
        9, 1, 1, 3, targets4(), segments4(), bytearray(b"\x01\x02")
    )
    c["l5/empty"] = lambda: E5.marshall_parameter_list(0, 0, 0, 0, 0, 0, [], [], b"")
    c["l5/full"] = lambda: E5.marshall_parameter_list(
        1, 3, 7, 1, 1, 0xA1B2C3D4, cscds5(), segments5(), bytearray(b"\x01\x02")
    )
    c["l5/kw"] = lambda: E5.marshall_parameter_list(
        sequential_striped=0, list_id_usage=0, priority=1, g_sense=0, immed=0,
        list_identifier=5, cscd_descriptor_list=cscds5()[:1],
        segment_descriptor_list=[], inline_data=bytearray(3),
    )
    c["l4/str-inline"] = lambda: E4.marshall_parameter_list(0, 0, 0, 0, [], [], "text")
    c["l4/badseg"] = lambda: E4.marshall_parameter_list(
        0, 0, 0, 0, [{"bogus": 1}], [{"descriptor_type_code": 0x42}], b""
    )
    c["e4/custom"] = lambda: E4.encode_segment_dict(
        {"a": 0x0102, "descriptor_length": 99}, {"a": [0xFFFF, 4], "descriptor_length": [0xFFFF, 2]}, 8
    )
    c["e5/custom-bad"] = lambda: E5.encode_segment_dict({"a": 1, "b": 2}, {"a": [0xFF, 0]}, 8)
    table = {1: {"name": "one", "description": "first"}, 0: {"name": "zero"}, 7: {"description": "seven"}}
    for v in (0, 1, 7, "one", "first", "zero", "seven", "eight", None, 2, True, 1.0):
        c["g/%r" % (v,)] = lambda v=v: E4.get_code_int("k", {"k": v}, table)
        c["g5/%r" % (v,)] = lambda v=v: E5.get_code_int("k", {"k": v, "other": 1}, table)
    c["g/missing"] = lambda: E4.get_code_int("k", {}, table)
    return c


XC_CASES = xc_cases()


def test_extended_copy_helpers():
    for label, fn in XC_CASES.items():
        first = describe(fn)
        second = describe(fn)
        check(first == second, "xcopy helper %s: two equal calls differ" % label)
        if label in XC_GOLDEN:
            check(first == XC_GOLDEN[label],
                  "xcopy helper %s: %r differs from recorded %r" % (label, first, XC_GOLDEN[label]))
        else:
            check(False, "xcopy helper %s has no golden value" % label)
    check(set(XC_GOLDEN) == set(XC_CASES), "xcopy golden table and case table differ")

    # marshall_segment resolves names in the caller's dict (documented side effect)
    for cls, segs in ((ExtendedCopy4, segments4()), (ExtendedCopy5, segments5())):
        for seg in segs:
            before = dict(seg)
            out1 = cls.marshall_segment(seg)
            check(isinstance(seg["descriptor_type_code"], int), "segment code not resolved")
            check(seg["descriptor_length"] == len(out1) - 4, "segment length not stored")
            out2 = cls.marshall_segment(seg)  # now with ints: same bytes
            check(out1 == out2, "segment marshalled differently the second time")
            out3 = cls.marshall_segment(dict(before))
            check(out1 == out3, "segment marshalled differently from an equal dict")

    # the two ExtendedCopy flavours do not bleed into each other
    a4 = S_SPC.extendedcopy4(target_descriptor_list=targets4(), segment_descriptor_list=segments4())
    s4 = snapshot(a4)
    a5 = S_SPC.extendedcopy5(cscd_descriptor_list=cscds5(), segment_descriptor_list=segments5())
    s5 = snapshot(a5)
    b4 = S_SPC.extendedcopy4(target_descriptor_list=targets4(), segment_descriptor_list=segments4())
    check(snapshot(a4) == s4 == snapshot(b4), "xcopy4 disturbed by xcopy5")
    b5 = S_SPC.extendedcopy5(cscd_descriptor_list=cscds5(), segment_descriptor_list=segments5())
    check(snapshot(a5) == s5 == snapshot(b5), "xcopy5 disturbed by xcopy4")
    check(a4.cdb[1] & 0x1F == 0 and a5.cdb[1] & 0x1F == 1, "service actions")
    check(ExtendedCopy5.unmarshall_cdb(b5.cdb)["service_action"] == 1, "xcopy5 decode")
    check(ExtendedCopy4.unmarshall_cdb(S_SPC.extendedcopy4().cdb)["parameter_list_length"] == 16,
          "xcopy4 decode")
    # default arguments are not polluted by earlier calls
    check(snapshot(S_SPC.extendedcopy4()) == GOLDEN.get("xcopy4/empty"), "xcopy4 defaults")
    check(snapshot(S_SPC.extendedcopy5()) == GOLDEN.get("xcopy5/empty"), "xcopy5 defaults")


# --------------------------------------------------------------------------
# 5. data-in marshalling of other commands: repeatable, and unaffected by
#    the commands created in between
# --------------------------------------------------------------------------
def test_datain_helpers():
    def churn():
        for label in ("read10", "xcopy5/full", "modeselect6", "ata16/in", "base/12"):
            RECIPES[label]()

    samples = []
    rc10 = {"returned_lba": 0x01020304, "block_length": 512}
    samples.append((ReadCapacity10, rc10))
    rc16 = ReadCapacity16.unmarshall_datain(bytearray(range(32)))
    samples.append((ReadCapacity16, rc16))
    lbas = {"lbas": [{"lba": 1023, "num_blocks": 27, "p_status": 1}, {"lba": 2**40, "num_blocks": 1, "p_status": 2}]}
    samples.append((GetLBAStatus, lbas))
    luns = {"luns": [{"lun0": 0}, {"lun1": 1}, {"lun2": 0x0102}]}
    samples.append((ReportLuns, luns))
    for cls, data in samples:
        b1 = cls.marshall_datain(copy.deepcopy(data))
        churn()
        b2 = cls.marshall_datain(copy.deepcopy(data))
        check(bytes(b1) == bytes(b2), "%s.marshall_datain not repeatable" % cls.__name__)
        d1 = cls.unmarshall_datain(b1)
        churn()
        d2 = cls.unmarshall_datain(bytes(b1) if cls is not ReportLuns else b1)
        check(d1 == d2, "%s.unmarshall_datain not repeatable" % cls.__name__)
        check(bytes(cls.marshall_datain(d1)) == bytes(b1), "%s datain round trip" % cls.__name__)

    ms6 = ModeSense6.marshall_datain(mode_page())
    churn()
    check(ms6 == ModeSense6.marshall_datain(mode_page()), "ModeSense6.marshall_datain repeat")
    check(ModeSense6.unmarshall_datain(ms6) == ModeSense6.unmarshall_datain(bytearray(ms6)),
          "ModeSense6.unmarshall_datain repeat")
    ms10 = ModeSense10.marshall_datain(mode_page(longlba=0))
    churn()
    check(ms10 == ModeSense10.marshall_datain(mode_page(longlba=0)), "ModeSense10 repeat")

    # unmarshall() stores the decoded data-in on that command only
    a = S_SBC.readcapacity10()
    b = S_SBC.readcapacity10()
    a.datain[:] = ReadCapacity10.marshall_datain(rc10)
    a.unmarshall()
    b.unmarshall()
    check(a.result == rc10, "readcapacity10 result %r" % (a.result,))
    check(b.result == {"returned_lba": 0, "block_length": 0}, "other command's result changed")
    check(a.result is not b.result, "results shared")
    t = S_SBC.testunitready()
    try:
        t.unmarshall()
    except NotImplementedError as e:
        check("TestUnitReady" in str(e), "unmarshall message %r" % str(e))
    else:
        check(False, "TestUnitReady.unmarshall() did not raise")
    check(a.result == rc10, "result changed by a failing unmarshall elsewhere")

    # per-command attributes
    a.sense, a.raw_sense_data, a.pagecode = b"\x70", b"\x01", 0x83
    check((b.sense, b.raw_sense_data, b.pagecode) == (None, None, None), "sense shared")
    check(a.opcode is sbc.READ_CAPACITY_10 and repr(a) == "ReadCapacity10", "opcode/repr")


# --------------------------------------------------------------------------
# 6. init_cdb
# --------------------------------------------------------------------------
def test_init_cdb():
    sizes = {}
    for value in list(range(-2, 0x102)) + [0x1000, 2**40]:
        op = OpCode("OP", value, {})
        try:
            size = len(SCSICommand.init_cdb(op))
        except SCSICommand.OpcodeException:
            size = None
        sizes[value] = size
        if 0x00 <= value <= 0x1F:
            exp = 6
        elif 0x20 <= value <= 0x5F:
            exp = 10
        elif 0x80 <= value <= 0x9F:
            exp = 16
        elif 0xA0 <= value <= 0xBF:
            exp = 12
        else:
            exp = None
        check(size == exp, "init_cdb(0x%x) -> %r, expected %r" % (value, size, exp))
    a = SCSICommand.init_cdb(sbc.READ_10)
    b = Read10.init_cdb(sbc.READ_10)
    check(a == bytearray(10) and a is not b, "init_cdb returns fresh zeroed buffers")
    a[0] = 0xFF
    check(SCSICommand.init_cdb(sbc.READ_10) == bytearray(10), "init_cdb buffer reused")
    check(snapshot(S_SBC.read10(1, 2)) == GOLDEN.get("read10"), "read10 after init_cdb calls")


# --------------------------------------------------------------------------
# 7. threads: commands built by one thread stay intact while other threads
#    build, use and drop commands.  (Building a command and decoding with its
#    class is done as one step under a lock: the property is about results,
#    not about the internal atomicity of a constructor.)
# --------------------------------------------------------------------------
def test_threads():
    build_lock = threading.Lock()
    errors = []
    labels = list(SUBJECTS)
    start = threading.Barrier(6)

    def worker(n):
        try:
            start.wait()
            mine = {}
            for round_ in range(4):
                for k, label in enumerate(labels):
                    if (k + n) % 3 == 0:
                        continue
                    with build_lock:
                        cmd = RECIPES[label]()
                        decoded = type(cmd).unmarshall_cdb(cmd.cdb)
                        recoded = type(cmd).marshall_cdb(decoded)
                    snap = snapshot(cmd)
                    if snap != GOLDEN[label]:
                        errors.append("thread %d: %s built as %r" % (n, label, snap))
                    if decoded.get("opcode") != cmd.cdb[0]:
                        errors.append("thread %d: %s decoded opcode" % (n, label))
                    if len(recoded) != len(cmd.cdb):
                        errors.append("thread %d: %s recoded size" % (n, label))
                    mine[label] = cmd
                    # everything this thread still holds is unchanged
                    if k % 5 == 0:
                        for l2, c2 in mine.items():
                            if snapshot(c2) != GOLDEN[l2]:
                                errors.append("thread %d: %s changed" % (n, l2))
                if round_ % 2:
                    mine.clear()
        except Exception as e:  # pragma: no cover
            errors.append("thread %d crashed: %r" % (n, e))

    threads = [threading.Thread(target=worker, args=(n,)) for n in range(6)]
    old = sys.getswitchinterval()
    sys.setswitchinterval(1e-5)
    try:
        for t in threads:
            t.start()
        for t in threads:
            t.join()
    finally:
        sys.setswitchinterval(old)
    for e in errors[:20]:
        check(False, e)
    check(not errors, "thread errors: %d" % len(errors))


def dump():
    print("GOLDEN = {")
    for label in RECIPES:
        print("    %r: %r," % (label, snapshot(RECIPES[label]())))
    print("}")
    print("XC_GOLDEN = {")
    for label, fn in XC_CASES.items():
        print("    %r: %r," % (label, describe(fn)))
    print("}")


def main():
    if "--dump" in sys.argv:
        dump()
        return 0
    test_determinism_and_golden()
    test_decode_encode()
    test_interference()
    test_extended_copy_helpers()
    test_datain_helpers()
    test_init_cdb()
    test_threads()
    # and once more after everything else has run
    test_determinism_and_golden()
    test_extended_copy_helpers()
    if FAILURES:
        print("FAILED: %d of %d checks" % (len(FAILURES), CHECKS[0]))
        return 1
    print("PASS (%d checks)" % CHECKS[0])
    return 0


if __name__ == "__main__":
    sys.exit(main())
