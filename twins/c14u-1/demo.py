#!/usr/bin/env python
# coding: utf-8
"""
Demo / behaviour check for property C14:

  Every operation code, service action and status code the library exposes
  under a standard command name has the value T10 assigns to that name, and
  the same name has the same value in every device-type command set that
  lists it.  The CDB length derived from an operation code is the one its
  group prescribes (6, 10, 12 or 16 bytes), and codes in variable-length,
  reserved or vendor groups are refused.

Run as:
    cd /tmp/seed/C14u && PYTHONPATH=/tmp/seed/C14u /venv/bin/python SEED/demo.py
"""
import sys
import types
from collections import OrderedDict
from fractions import Fraction
from types import SimpleNamespace

# --- fake external bindings (not installed) ---------------------------------
for _name in ("sgio", "iscsi"):
    if _name not in sys.modules:
        try:
            __import__(_name)
        except Exception:
            _m = types.ModuleType(_name)
            _m.__dict__.setdefault("__all__", [])
            sys.modules[_name] = _m

import pyscsi.pyscsi.scsi_enum_command as ec
from pyscsi.pyscsi import scsi_enum_command as ec2
from pyscsi.pyscsi.scsi_command import SCSICommand
from pyscsi.pyscsi.scsi_enum_command import (
    OPCODE,
    SCSI_STATUS,
    SERVICE_ACTION_IN,
    mmc,
    sbc,
    smc,
    spc,
    ssc,
)
from pyscsi.pyscsi.scsi_opcode import OpCode
from pyscsi.utils.converter import get_opcode
from pyscsi.utils.enum import Enum
from pyscsi.utils.exception import NotSupportedArgumentError

FAILURES = []
CHECKS = [0]


def check(cond, msg):
    CHECKS[0] += 1
    if not cond:
        FAILURES.append(msg)


def raises(exc, fn, *a, **kw):
    """return the exception instance when fn raises exactly-typed exc (or subclass)"""
    try:
        fn(*a, **kw)
    except exc as e:  # noqa
        return e
    except BaseException as e:  # noqa
        return ("WRONG", e)
    return None


# --- expected values (T10 assignments, as exposed by the library) ------------
DICTS = {
    'service_actions': (
        ('REPORT_DEVICE_IDENTIFIER', 0x05),
        ('REPORT_ALIASES', 0x0B),
        ('REPORT_PRIORITY', 0x0E),
        ('REPORT_SUPPORTED_OPERATION_CODES', 0x0C),
        ('REPORT_SUPPORTED_TASK_MANAGEMENT_FUNCTIONS', 0x0D),
        ('REPORT_TARGET_PORT_GROUPS', 0x0A),
        ('REPORT_TIMESTAMP', 0x0F),
        ('REPORT_IDENTIFYING_INFORMATION', 0x05),
        ('REQUEST_DATA_TRANSFER_ELEMENT_INQUIRY', 0x06),
        ('CHANGE_ALIASES', 0x0B),
        ('SET_DEVICE_IDENTIFIER', 0x06),
        ('SET_PRIORITY', 0x0E),
        ('SET_TARGET_PORT_GROUPS', 0x0A),
        ('SET_TIMESTAMP', 0x0F),
        ('SET_IDENTIFYING_INFORMATION', 0x06),
        ('ORWRITE_32', 0x0E),
        ('READ_32', 0x09),
        ('VERIFY_32', 0x0A),
        ('WRITE_32', 0x0B),
        ('WRITE_AND_VERIFY_32', 0x0C),
        ('WRITE_SAME_32', 0x0D),
        ('XDREAD_32', 0x03),
        ('XDWRITE_32', 0x04),
        ('XDWRITEREAD_32', 0x07),
        ('XPWRITE_32', 0x06),
        ('GET_LBA_STATUS', 0x12),
        ('READ_CAPACITY_16', 0x10),
        ('REPORT_REFERRALS', 0x13),
        ('OPEN_IMPORTEXPORT_ELEMENT', 0x00),
        ('CLOSE_IMPORTEXPORT_ELEMENT', 0x01),
    ),
    'sa_maintenance_in': (
        ('REPORT_ASSIGNED_UNASSIGNED_P_EXTENT', 0x00),
        ('REPORT_COMPONENT_DEVICE', 0x01),
        ('REPORT_COMPONENT_DEVICE_ATTACHMENTS', 0x02),
        ('REPORT_DEVICE_IDENTIFICATION', 0x07),
        ('REPORT_PERIPHERAL_DEVICE', 0x03),
        ('REPORT_PERIPHERAL_DEVICE_ASSOCIATIONS', 0x04),
        ('REPORT_PERIPHERAL_DEVICE_COMPONENT_DEVICE_IDENTIFIER', 0x05),
        ('REPORT_STATES', 0x06),
        ('REPORT_SUPPORTED_CONFIGURATION_METHOD', 0x09),
        ('REPORT_UNCONFIGURED_CAPACITY', 0x08),
    ),
    'sa_maintenance_out': (
        ('ADD_PERIPHERAL_DEVICE_COMPONENT_DEVICE', 0x00),
        ('ATTACH_TO_COMPONENT_DEVICE', 0x01),
        ('BREAK_PERIPHERAL_DEVICE_COMPONENT_DEVICE', 0x07),
        ('EXCHANGE_P_EXTENT', 0x02),
        ('EXCHANGE_PERIPHERAL_DEVICE_COMPONENT_DEVICE', 0x03),
        ('INSTRUCT_COMPONENT_DEVICE', 0x04),
        ('REMOVE_PERIPHERAL_DEVICE_COMPONENT_DEVICE', 0x05),
        ('SET_PERIPHERAL_DEVICE_COMPONENT_DEVICE_IDENTIFIER', 0x06),
    ),
    'sa_persistent_reserve_in': (
        ('READ_KEYS', 0x00),
        ('READ_RESERVATION', 0x01),
        ('REPORT_CAPABILITIES', 0x02),
        ('READ_FULL_STATUS', 0x03),
    ),
    'sa_persistent_reserve_out': (
        ('REGISTER', 0x00),
        ('RESERVE', 0x01),
        ('RELEASE', 0x02),
        ('CLEAR', 0x03),
        ('PREEMPT', 0x04),
        ('PREEMPT_AND_ABORT', 0x05),
        ('REGISTER_AND_IGNORE_EXISTING_KEY', 0x06),
        ('REGISTER_AND_MOVE', 0x07),
        ('REPLACE_LOST_REGISTRATION', 0x08),
    ),
    'scsi_status': (
        ('GOOD', 0x00),
        ('CHECK_CONDITION', 0x02),
        ('CONDITIONS_MET', 0x04),
        ('BUSY', 0x08),
        ('RESERVATION_CONFLICT', 0x18),
        ('TASK_SET_FULL', 0x28),
        ('ACA_ACTIVE', 0x30),
        ('TASK_ABORTED', 0x40),
        ('SGIO_ERROR', 0xFF),
    ),
    'opcodes': (
        ('INQUIRY', 0x12),
        ('MODE_SENSE_6', 0x1A),
        ('MOVE_MEDIUM', 0xA5),
        ('READ_10', 0x28),
        ('READ_12', 0xA8),
        ('READ_16', 0x88),
        ('READ_CAPACITY_10', 0x25),
        ('READ_ELEMENT_STATUS', 0xB8),
        ('SERVICE_ACTION_IN', 0x9E),
        ('TEST_UNIT_READY', 0x00),
        ('WRITE_10', 0x2A),
        ('WRITE_12', 0xAA),
        ('WRITE_16', 0x8A),
        ('WRITE_SAME_10', 0x41),
        ('WRITE_SAME_16', 0x93),
    ),
    'service_action_ins': (
        ('READ_CAPACITY_16', 0x10),
        ('GET_LBA_STATUS', 0x12),
    ),
}

SETS = {
    'spc': (
        ('SPC_OPCODE_A4', 'SPC_OPCODE_A4', 0xA4, 'service_actions'),
        ('SPC_OPCODE_A3', 'SPC_OPCODE_A3', 0xA3, 'service_actions'),
        ('ACCESS_CONTROL_IN', 'ACCESS_CONTROL_IN', 0x86, ()),
        ('ACCESS_CONTROL_OUT', 'ACCESS_CONTROL_OUT', 0x87, ()),
        ('EXTENDED_COPY', 'EXTENDED_COPY', 0x83, ()),
        ('INQUIRY', 'INQUIRY', 0x12, ()),
        ('LOG_SELECT', 'LOG_SELECT', 0x4C, ()),
        ('LOG_SENSE', 'LOG_SENSE', 0x4D, ()),
        ('MODE_SELECT_6', 'MODE_SELECT_6', 0x15, ()),
        ('MODE_SELECT_10', 'MODE_SELECT_10', 0x55, ()),
        ('MODE_SENSE_6', 'MODE_SENSE_6', 0x1A, ()),
        ('MODE_SENSE_10', 'MODE_SENSE_10', 0x5A, ()),
        ('PERSISTENT_RESERVE_IN', 'PERSISTENT_RESERVE_IN', 0x5E, 'sa_persistent_reserve_in'),
        ('PERSISTENT_RESERVE_OUT', 'PERSISTENT_RESERVE_OUT', 0x5F, 'sa_persistent_reserve_out'),
        ('PREVENT_ALLOW_MEDIUM_REMOVAL', 'PREVENT_ALLOW_MEDIUM_REMOVAL', 0x1E, ()),
        ('READ_ATTRIBUTE', 'READ_ATTRIBUTE', 0x8C, ()),
        ('READ_BUFFER_10', 'READ_BUFFER_10', 0x3C, ()),
        ('READ_BUFFER_16', 'READ_BUFFER_16', 0x9B, ()),
        ('READ_MEDIA_SERIAL_NUMBER', 'READ_MEDIA_SERIAL_NUMBER', 0xAB, (('READ_MEDIA_SERIAL_NUMBER', 1),)),
        ('RECEIVE_COPY_RESULTS', 'RECEIVE_COPY_RESULTS', 0x84, ()),
        ('RECEIVE_DIAGNOSTIC_RESULTS', 'RECEIVE_DIAGNOSTIC_RESULTS', 0x1C, ()),
        ('REPORT_LUNS', 'REPORT_LUNS', 0xA0, ()),
        ('REQUEST_SENSE', 'REQUEST_SENSE', 0x03, ()),
        ('SEND_DIAGNOSTIC', 'SEND_DIAGNOSTIC', 0x1D, ()),
        ('TEST_UNIT_READY', 'TEST_UNIT_READY', 0x00, ()),
        ('WRITE_ATTRIBUTE', 'WRITE_ATTRIBUTE', 0x8D, ()),
        ('WRITE_BUFFER', 'WRITE_BUFFER', 0x3B, ()),
    ),
    'sbc': (
        ('SBC_OPCODE_7F', 'SBC_OPCODE_7F', 0x7F, 'service_actions'),
        ('SBC_OPCODE_A4', 'SBC_OPCODE_A4', 0xA4, 'service_actions'),
        ('SBC_OPCODE_A3', 'SBC_OPCODE_A3', 0xA3, 'service_actions'),
        ('SBC_OPCODE_9E', 'SBC_OPCODE_9E', 0x9E, 'service_actions'),
        ('ACCESS_CONTROL_IN', 'ACCESS_CONTROL_IN', 0x86, ()),
        ('ACCESS_CONTROL_OUT', 'ACCESS_CONTROL_OUT', 0x87, ()),
        ('ATA_PASS_THROUGH_12', 'ATA_PASS_THROUGH_12', 0xA1, ()),
        ('ATA_PASS_THROUGH_16', 'ATA_PASS_THROUGH_16', 0x85, ()),
        ('COMPARE_AND_WRITE', 'COMPARE_AND_WRITE', 0x89, ()),
        ('EXTENDED_COPY', 'EXTENDED_COPY', 0x83, ()),
        ('FORMAT_UNIT', 'FORMAT_UNIT', 0x04, ()),
        ('INQUIRY', 'INQUIRY', 0x12, ()),
        ('LOG_SELECT', 'LOG_SELECT', 0x4C, ()),
        ('LOG_SENSE', 'LOG_SENSE', 0x4D, ()),
        ('MAINTENANCE_IN', 'MAINTENANCE_IN', 0xA3, 'sa_maintenance_in'),
        ('MAINTENANCE_OUT', 'MAINTENANCE_OUT', 0xA4, 'sa_maintenance_out'),
        ('MODE_SELECT_6', 'MODE_SELECT_6', 0x15, ()),
        ('MODE_SELECT_10', 'MODE_SELECT_10', 0x55, ()),
        ('MODE_SENSE_6', 'MODE_SENSE_6', 0x1A, ()),
        ('MODE_SENSE_10', 'MODE_SENSE_10', 0x5A, ()),
        ('ORWRITE_16', 'ORWRITE_16', 0x8B, ()),
        ('PERSISTENT_RESERVE_IN', 'PERSISTENT_RESERVE_IN', 0x5E, 'sa_persistent_reserve_in'),
        ('PERSISTENT_RESERVE_OUT', 'PERSISTENT_RESERVE_OUT', 0x5F, 'sa_persistent_reserve_out'),
        ('PRE_FETCH_10', 'PRE_FETCH_10', 0x34, ()),
        ('PRE_FETCH_16', 'PRE_FETCH_16', 0x90, ()),
        ('PREVENT_ALLOW_MEDIUM_REMOVAL', 'PREVENT_ALLOW_MEDIUM_REMOVAL', 0x1E, ()),
        ('READ_6', 'READ_6', 0x08, ()),
        ('READ_10', 'READ_10', 0x28, ()),
        ('READ_12', 'READ_12', 0xA8, ()),
        ('READ_16', 'READ_16', 0x88, ()),
        ('READ_ATTRIBUTE', 'READ_ATTRIBUTE', 0x8C, ()),
        ('READ_BUFFER_10', 'READ_BUFFER_10', 0x3C, ()),
        ('READ_BUFFER_16', 'READ_BUFFER_16', 0x9B, ()),
        ('READ_CAPACITY_10', 'READ_CAPACITY_10', 0x25, ()),
        ('READ_DEFECT_DATA_10', 'READ_DEFECT_DATA_10', 0x37, ()),
        ('READ_DEFECT_DATA_12', 'READ_DEFECT_DATA_12', 0xB7, ()),
        ('READ_LONG_10', 'READ_LONG_10', 0x3E, ()),
        ('READ_LONG_16', 'READ_LONG_16', 0x9E, (('READ_LONG_16', 17),)),
        ('REASSIGN_BLOCKS', 'REASSIGN_BLOCKS', 0x07, ()),
        ('RECEIVE_COPY_RESULTS', 'RECEIVE_COPY_RESULTS', 0x84, ()),
        ('RECEIVE_DIAGNOSTIC_RESULTS', 'RECEIVE_DIAGNOSTIC_RESULTS', 0x1C, ()),
        ('REDUNDANCY_GROUP_IN', 'REDUNDANCY_GROUP_IN', 0xBA, ()),
        ('REDUNDANCY_GROUP_OUT', 'REDUNDANCY_GROUP_OT', 0xBB, ()),
        ('REPORT_LUNS', 'REPORT_LUNS', 0xA0, ()),
        ('REQUEST_SENSE', 'REQUEST_SENSE', 0x03, ()),
        ('SECURITY_PROTOCOL_IN', 'SECURITY_PROTOCOL_IN', 0xA2, ()),
        ('SECURITY_PROTOCOL_OUT', 'SECURITY_PROTOCOL_OUT', 0xB5, ()),
        ('SEND_DIAGNOSTIC', 'SEND_DIAGNOSTIC', 0x1D, ()),
        ('SPARE_IN', 'SPARE_IN', 0xBC, ()),
        ('SPARE_OUT', 'SPARE_OUT', 0xBD, ()),
        ('START_STOP_UNIT', 'START_STOP_UNIT', 0x1B, ()),
        ('SYNCHRONIZE_CACHE_10', 'SYNCHRONIZE_CACHE_10', 0x35, ()),
        ('SYNCHRONIZE_CACHE_16', 'SYNCHRONIZE_CACHE_16', 0x91, ()),
        ('TEST_UNIT_READY', 'TEST_UNIT_READY', 0x00, ()),
        ('UNMAP', 'UNMAP', 0x42, ()),
        ('VERIFY_10', 'VERIFY_10', 0x2F, ()),
        ('VERIFY_12', 'VERIFY_12', 0xAF, ()),
        ('VERIFY_16', 'VERIFY_16', 0x8F, ()),
        ('VOLUME_SET_IN', 'VOLUME_SET_IN', 0xBE, ()),
        ('VOLUME_SET_OUT', 'VOLUME_SET_OUT', 0xBF, ()),
        ('WRITE_6', 'WRITE_6', 0x0A, ()),
        ('WRITE_10', 'WRITE_10', 0x2A, ()),
        ('WRITE_12', 'WRITE_12', 0xAA, ()),
        ('WRITE_16', 'WRITE_16', 0x8A, ()),
        ('WRITE_AND_VERIFY_10', 'WRITE_AND_VERIFY_10', 0x2E, ()),
        ('WRITE_AND_VERIFY_12', 'WRITE_AND_VERIFY_12', 0xAE, ()),
        ('WRITE_AND_VERIFY_16', 'WRITE_AND_VERIFY_16', 0x8E, ()),
        ('WRITE_ATTRIBUTE', 'WRITE_ATTRIBUTE', 0x8D, ()),
        ('WRITE_BUFFER', 'WRITE_BUFFER', 0x3B, ()),
        ('WRITE_LONG_10', 'WRITE_LONG_10', 0x3F, ()),
        ('WRITE_LONG_16', 'WRITE_LONG_16', 0x9F, (('WRITE_LONG_16', 17),)),
        ('WRITE_SAME_10', 'WRITE_SAME_10', 0x41, ()),
        ('WRITE_SAME_16', 'WRITE_SAME_16', 0x93, ()),
        ('XDREAD_10', 'XDREAD_10', 0x52, ()),
        ('XDWRITE_10', 'XDWRITE_10', 0x50, ()),
        ('XDWRITEREAD_10', 'XDWRITEREAD_10', 0x53, ()),
        ('XPWRITE_10', 'XPWRITE_10', 0x51, ()),
    ),
    'ssc': (
        ('SSC_OPCODE_A4', 'SSC_OPCODE_A4', 0xA4, 'service_actions'),
        ('SSC_OPCODE_A3', 'SSC_OPCODE_A3', 0xA3, 'service_actions'),
        ('ACCESS_CONTROL_IN', 'ACCESS_CONTROL_IN', 0x86, ()),
        ('ACCESS_CONTROL_OUT', 'ACCESS_CONTROL_OUT', 0x87, ()),
        ('ERASE_16', 'ERASE_16', 0x93, ()),
        ('EXTENDED_COPY', 'EXTENDED_COPY', 0x83, ()),
        ('FORMAT_MEDIUM', 'FORMAT_MEDIUM', 0x04, ()),
        ('INQUIRY', 'INQUIRY', 0x12, ()),
        ('LOAD_UNLOAD', 'LOAD_UNLOAD', 0x1B, ()),
        ('LOCATE_16', 'LOCATE_16', 0x92, ()),
        ('LOG_SELECT', 'LOG_SELECT', 0x4C, ()),
        ('LOG_SENSE', 'LOG_SENSE', 0x4D, ()),
        ('MODE_SELECT_6', 'MODE_SELECT_6', 0x15, ()),
        ('MODE_SELECT_10', 'MODE_SELECT_10', 0x55, ()),
        ('MODE_SENSE_6', 'MODE_SENSE_6', 0x1A, ()),
        ('MODE_SENSE_10', 'MODE_SENSE_10', 0x5A, ()),
        ('MOVE_MEDIUM_ATTACHED', 'MOVE_MEDIUM_ATTACHED', 0xA7, ()),
        ('PERSISTENT_RESERVE_IN', 'PERSISTENT_RESERVE_IN', 0x5E, 'sa_persistent_reserve_in'),
        ('PERSISTENT_RESERVE_OUT', 'PERSISTENT_RESERVE_OUT', 0x5F, 'sa_persistent_reserve_out'),
        ('PREVENT_ALLOW_MEDIUM_REMOVAL', 'PREVENT_ALLOW_MEDIUM_REMOVAL', 0x1E, ()),
        ('READ_6', 'READ_6', 0x08, ()),
        ('READ_16', 'READ_16', 0x88, ()),
        ('READ_ATTRIBUTE', 'READ_ATTRIBUTE', 0x8C, ()),
        ('READ_BLOCK_LIMITS', 'READ_BLOCK_LIMITS', 0x05, ()),
        ('READ_BUFFER_10', 'READ_BUFFER_10', 0x3C, ()),
        ('READ_BUFFER_16', 'READ_BUFFER_16', 0x9B, ()),
        ('READ_ELEMENT_STATUS_ATTACHED', 'READ_ELEMENT_STATUS_ATTACHED', 0xB4, ()),
        ('READ_POSITION', 'READ_POSITION', 0x34, ()),
        ('READ_REVERSE_6', 'READ_REVERSE_6', 0x0F, ()),
        ('READ_REVERSE_16', 'READ_REVERSE_16', 0x81, ()),
        ('RECEIVE_COPY_RESULTS', 'RECEIVE_COPY_RESULTS', 0x84, ()),
        ('RECEIVE_DIAGNOSTIC_RESULTS', 'RECEIVE_DIAGNOSTIC_RESULTS', 0x1C, ()),
        ('RECOVER_BUFFERED_DATA', 'RECOVER_BUFFERED_DATA', 0x14, ()),
        ('REPORT_ALIAS', 'REPORT_ALIAS', 0xA3, (('REPORT_ALIAS', 11),)),
        ('REPORT_DENSITY_SUPPORT', 'REPORT_DENSITY_SUPPORT', 0x44, ()),
        ('REPORT_LUNS', 'REPORT_LUNS', 0xA0, ()),
        ('REQUEST_SENSE', 'REQUEST_SENSE', 0x03, ()),
        ('REWIND', 'REWIND', 0x01, ()),
        ('SEND_DIAGNOSTIC', 'SEND_DIAGNOSTIC', 0x1D, ()),
        ('SET_CAPACITY', 'SET_CAPACITY', 0x0B, ()),
        ('SPACE_6', 'SPACE_6', 0x11, ()),
        ('SPACE_16', 'SPACE_16', 0x91, ()),
        ('TEST_UNIT_READY', 'TEST_UNIT_READY', 0x00, ()),
        ('VERIFY_6', 'VERIFY_6', 0x13, ()),
        ('VERIFY_16', 'VERIFY_16', 0x8F, ()),
        ('WRITE_6', 'WRITE_6', 0x0A, ()),
        ('WRITE_16', 'WRITE_16', 0x8A, ()),
        ('WRITE_ATTRIBUTE', 'WRITE_ATTRIBUTE', 0x8D, ()),
        ('WRITE_BUFFER', 'WRITE_BUFFER', 0x3B, ()),
        ('WRITE_FILEMARKS_6', 'WRITE_FILEMARKS_6', 0x10, ()),
        ('WRITE_FILEMARKS_16', 'WRITE_FILEMARKS_16', 0x80, ()),
    ),
    'smc': (
        ('SMC_OPCODE_A4', 'SMC_OPCODE_A4', 0xA4, 'service_actions'),
        ('SMC_OPCODE_A3', 'SMC_OPCODE_A3', 0xA3, 'service_actions'),
        ('ACCESS_CONTROL_IN', 'ACCESS_CONTROL_IN', 0x86, ()),
        ('ACCESS_CONTROL_OUT', 'ACCESS_CONTROL_OUT', 0x87, ()),
        ('EXCHANGE_MEDIUM', 'EXCHANGE_MEDIUM', 0xA6, ()),
        ('INITIALIZE_ELEMENT_STATUS', 'INITIALIZE_ELEMENT_STATUS', 0x07, ()),
        ('INITIALIZE_ELEMENT_STATUS_WITH_RANGE', 'INITIALIZE_ELEMENT_STATUS_WITH_RANGE', 0x37, ()),
        ('INQUIRY', 'INQUIRY', 0x12, ()),
        ('LOG_SELECT', 'LOG_SELECT', 0x4C, ()),
        ('LOG_SENSE', 'LOG_SENSE', 0x4D, ()),
        ('MAINTENANCE_IN', 'MAINTENANCE_IN', 0xA3, 'sa_maintenance_in'),
        ('MAINTENANCE_OUT', 'MAINTENANCE_OUT', 0xA4, 'sa_maintenance_out'),
        ('MODE_SELECT_6', 'MODE_SELECT_6', 0x15, ()),
        ('MODE_SELECT_10', 'MODE_SELECT_10', 0x55, ()),
        ('MODE_SENSE_6', 'MODE_SENSE_6', 0x1A, ()),
        ('MODE_SENSE_10', 'MODE_SENSE_10', 0x5A, ()),
        ('MOVE_MEDIUM', 'MOVE_MEDIUM', 0xA5, ()),
        ('OPEN_CLOSE_IMPORT_EXPORT_ELEMENT', 'SMC_OPCODE_1B', 0x1B, 'service_actions'),
        ('PERSISTENT_RESERVE_IN', 'PERSISTENT_RESERVE_IN', 0x5E, 'sa_persistent_reserve_in'),
        ('PERSISTENT_RESERVE_OUT', 'PERSISTENT_RESERVE_OUT', 0x5F, 'sa_persistent_reserve_out'),
        ('PREVENT_ALLOW_MEDIUM_REMOVAL', 'PREVENT_ALLOW_MEDIUM_REMOVAL', 0x1E, ()),
        ('POSITION_TO_ELEMENT', 'POSITION_TO_ELEMENT', 0x2B, ()),
        ('READ_ATTRIBUTE', 'READ_ATTRIBUTE', 0x8C, ()),
        ('READ_BUFFER_10', 'READ_BUFFER_10', 0x3C, ()),
        ('READ_BUFFER_16', 'READ_BUFFER_16', 0x9B, ()),
        ('READ_ELEMENT_STATUS', 'READ_ELEMENT_STATUS', 0xB8, ()),
        ('RECEIVE_DIAGNOSTIC_RESULTS', 'RECEIVE_DIAGNOSTIC_RESULTS', 0x1C, ()),
        ('REDUNDANCY_GROUP_IN', 'REDUNDANCY_GROUP_IN', 0xBA, ()),
        ('REDUNDANCY_GROUP_OUT', 'REDUNDANCY_GROUP_OUT', 0xBB, ()),
        ('RELEASE_6', 'RELEASE_6', 0x17, ()),
        ('RELEASE_10', 'RELEASE_10', 0x57, ()),
        ('REPORT_LUNS', 'REPORT_LUNS', 0xA0, ()),
        ('REPORT_VOLUME_TYPES_SUPPORTED', 'REPORT_VOLUME_TYPES_SUPPORTED', 0x44, ()),
        ('REQUEST_VOLUME_ELEMENT_ADDRESS', 'REQUEST_VOLUME_ELEMENT_ADDRESS', 0xB5, ()),
        ('REQUEST_SENSE', 'REQUEST_SENSE', 0x03, ()),
        ('RESERVE_6', 'RESERVE_6', 0x16, ()),
        ('RESERVE_10', 'RESERVE_10', 0x56, ()),
        ('SEND_DIAGNOSTIC', 'SEND_DIAGNOSTIC', 0x1D, ()),
        ('SEND_VOLUME_TAG', 'SEND_VOLUME_TAG', 0xB6, ()),
        ('SPARE_IN', 'SPARE_IN', 0xBC, ()),
        ('SPARE_OUT', 'SPARE_OUT', 0xBD, ()),
        ('TEST_UNIT_READY', 'TEST_UNIT_READY', 0x00, ()),
        ('VOLUME_SET_IN', 'VOLUME_SET_IN', 0xBE, ()),
        ('VOLUME_SET_OUT', 'VOLUME_SET_OUT', 0xBF, ()),
        ('WRITE_ATTRIBUTE', 'WRITE_ATTRIBUTE', 0x8D, ()),
        ('WRITE_BUFFER', 'WRITE_BUFFER', 0x3B, ()),
    ),
    'mmc': (
        ('BLANK', 'BLANK', 0xA1, ()),
        ('CLOSE_TRACK_SESSION', 'CLOSE_TRACK_SESSION', 0x5B, ()),
        ('FORMAT_UNIT', 'FORMAT_UNIT', 0x04, ()),
        ('GET_CONFIGURATION', 'GET_CONFIGURATION', 0x46, ()),
        ('GET_EVENT_STATUS_NOTIFICATION', 'GET_EVENT_STATUS_NOTIFICATION', 0x4A, ()),
        ('GET_PERFORMANCE', 'GET_PERFORMANCE', 0xAC, ()),
        ('INQUIRY', 'INQUIRY', 0x12, ()),
        ('LOAD_UNLOAD_MEDIUM', 'LOAD_UNLOAD_MEDIUM', 0xA6, ()),
        ('MECHANISM_STATUS', 'MECHANISM_STATUS', 0xBD, ()),
        ('MODE_SELECT_10', 'MODE_SELECT_10', 0x55, ()),
        ('MODE_SENSE_10', 'MODE_SENSE_10', 0x5A, ()),
        ('PREVENT_ALLOW_MEDIUM_REMOVAL', 'PREVENT_ALLOW_MEDIUM_REMOVAL', 0x1E, ()),
        ('READ_10', 'READ_10', 0x28, ()),
        ('READ_12', 'READ_12', 0xA8, ()),
        ('READ_BUFFER_10', 'READ_BUFFER_10', 0x3C, ()),
        ('READ_BUFFER_16', 'READ_BUFFER_16', 0x9B, ()),
        ('READ_BUFFER_CAPACITY', 'READ_BUFFER_CAPACITY', 0x5C, ()),
        ('READ_CAPACITY', 'READ_CAPACITY', 0x25, ()),
        ('READ_CD', 'READ_CD', 0xBE, ()),
        ('READ_CD_MSF', 'READ_CD_MSF', 0xB9, ()),
        ('READ_DISC_INFORMATION', 'READ_DISC_INFORMATION', 0x51, ()),
        ('READ_DISC_STRUCTURE', 'READ_DISC_STRUCTURE', 0xAD, ()),
        ('READ_FORMAT_CAPACITIES', 'READ_FORMAT_CAPACITIES', 0x23, ()),
        ('READ_TOC_PMA_ATIP', 'READ_TOC_PMA_ATIP', 0x43, ()),
        ('READ_TRACK_INFORMATION', 'READ_TRACK_INFORMATION', 0x52, ()),
        ('REPAIR_TRACK', 'REPAIR_TRACK', 0x58, ()),
        ('REPORT_KEY', 'REPORT_KEY', 0xA4, ()),
        ('REPORT_LUNS', 'REPORT_LUNS', 0xA0, ()),
        ('REQUEST_SENSE', 'REQUEST_SENSE', 0x03, ()),
        ('RESERVE_TRACK', 'RESERVE_TRACK', 0x53, ()),
        ('SECURITY_PROTOCOL_IN', 'SECURITY_PROTOCOL_IN', 0xA2, ()),
        ('SECURITY_PROTOCOL_OUT', 'SECURITY_PROTOCOL_OUT', 0xB5, ()),
        ('SEEK_10', 'SEEK_10', 0x2B, ()),
        ('SEND_CUE_SHEET', 'SEND_CUE_SHEET', 0x5D, ()),
        ('SEND_DISC_STRUCTURE', 'SEND_DISC_STRUCTURE', 0xBF, ()),
        ('SEND_KEY', 'SEND_KEY', 0xA3, ()),
        ('SEND_OPC_INFORMATION', 'SEND_OPC_INFORMATION', 0x54, ()),
        ('SET_CD_SPEED', 'SET_CD_SPEED', 0xBB, ()),
        ('SET_READ_AHEAD', 'SET_READ_AHEAD', 0xA7, ()),
        ('SET_STREAMING', 'SET_STREAMING', 0xB6, ()),
        ('START_STOP_UNIT', 'START_STOP_UNIT', 0x1B, ()),
        ('SYNCHRONIZE_CACHE', 'SYNCHRONIZE_CACHE', 0x35, ()),
        ('TEST_UNIT_READY', 'TEST_UNIT_READY', 0x00, ()),
        ('VERIFY_10', 'VERIFY_10', 0x2F, ()),
        ('WRITE_10', 'WRITE_10', 0x2A, ()),
        ('WRITE_12', 'WRITE_12', 0xAA, ()),
        ('WRITE_AND_VERIFY_10', 'WRITE_AND_VERIFY_10', 0x2E, ()),
        ('WRITE_BUFFER', 'WRITE_BUFFER', 0x3B, ()),
    ),
}

# a small hand written T10 reference (SPC/SBC/SSC/SMC/MMC op code annex),
# independent of the big tables above
T10_REFERENCE = {
    "TEST_UNIT_READY": 0x00, "REWIND": 0x01, "REQUEST_SENSE": 0x03,
    "FORMAT_UNIT": 0x04, "FORMAT_MEDIUM": 0x04, "READ_BLOCK_LIMITS": 0x05,
    "REASSIGN_BLOCKS": 0x07, "INITIALIZE_ELEMENT_STATUS": 0x07,
    "READ_6": 0x08, "WRITE_6": 0x0A, "SET_CAPACITY": 0x0B,
    "READ_REVERSE_6": 0x0F, "WRITE_FILEMARKS_6": 0x10, "SPACE_6": 0x11,
    "INQUIRY": 0x12, "VERIFY_6": 0x13, "RECOVER_BUFFERED_DATA": 0x14,
    "MODE_SELECT_6": 0x15, "RESERVE_6": 0x16, "RELEASE_6": 0x17,
    "MODE_SENSE_6": 0x1A, "START_STOP_UNIT": 0x1B, "LOAD_UNLOAD": 0x1B,
    "RECEIVE_DIAGNOSTIC_RESULTS": 0x1C, "SEND_DIAGNOSTIC": 0x1D,
    "PREVENT_ALLOW_MEDIUM_REMOVAL": 0x1E, "READ_FORMAT_CAPACITIES": 0x23,
    "READ_CAPACITY_10": 0x25, "READ_CAPACITY": 0x25, "READ_10": 0x28,
    "WRITE_10": 0x2A, "SEEK_10": 0x2B, "POSITION_TO_ELEMENT": 0x2B,
    "WRITE_AND_VERIFY_10": 0x2E, "VERIFY_10": 0x2F, "PRE_FETCH_10": 0x34,
    "READ_POSITION": 0x34, "SYNCHRONIZE_CACHE_10": 0x35,
    "SYNCHRONIZE_CACHE": 0x35, "READ_DEFECT_DATA_10": 0x37,
    "INITIALIZE_ELEMENT_STATUS_WITH_RANGE": 0x37, "WRITE_BUFFER": 0x3B,
    "READ_BUFFER_10": 0x3C, "READ_LONG_10": 0x3E, "WRITE_LONG_10": 0x3F,
    "WRITE_SAME_10": 0x41, "UNMAP": 0x42, "READ_TOC_PMA_ATIP": 0x43,
    "REPORT_DENSITY_SUPPORT": 0x44, "GET_CONFIGURATION": 0x46,
    "GET_EVENT_STATUS_NOTIFICATION": 0x4A, "LOG_SELECT": 0x4C,
    "LOG_SENSE": 0x4D, "XDWRITE_10": 0x50, "XPWRITE_10": 0x51,
    "READ_DISC_INFORMATION": 0x51, "XDREAD_10": 0x52,
    "READ_TRACK_INFORMATION": 0x52, "XDWRITEREAD_10": 0x53,
    "RESERVE_TRACK": 0x53, "SEND_OPC_INFORMATION": 0x54,
    "MODE_SELECT_10": 0x55, "RESERVE_10": 0x56, "RELEASE_10": 0x57,
    "REPAIR_TRACK": 0x58, "MODE_SENSE_10": 0x5A, "CLOSE_TRACK_SESSION": 0x5B,
    "READ_BUFFER_CAPACITY": 0x5C, "SEND_CUE_SHEET": 0x5D,
    "PERSISTENT_RESERVE_IN": 0x5E, "PERSISTENT_RESERVE_OUT": 0x5F,
    "WRITE_FILEMARKS_16": 0x80, "READ_REVERSE_16": 0x81,
    "EXTENDED_COPY": 0x83, "RECEIVE_COPY_RESULTS": 0x84,
    "ATA_PASS_THROUGH_16": 0x85, "ACCESS_CONTROL_IN": 0x86,
    "ACCESS_CONTROL_OUT": 0x87, "READ_16": 0x88, "COMPARE_AND_WRITE": 0x89,
    "WRITE_16": 0x8A, "ORWRITE_16": 0x8B, "READ_ATTRIBUTE": 0x8C,
    "WRITE_ATTRIBUTE": 0x8D, "WRITE_AND_VERIFY_16": 0x8E, "VERIFY_16": 0x8F,
    "PRE_FETCH_16": 0x90, "SYNCHRONIZE_CACHE_16": 0x91, "SPACE_16": 0x91,
    "LOCATE_16": 0x92, "WRITE_SAME_16": 0x93, "ERASE_16": 0x93,
    "READ_BUFFER_16": 0x9B, "READ_LONG_16": 0x9E, "WRITE_LONG_16": 0x9F,
    "REPORT_LUNS": 0xA0, "ATA_PASS_THROUGH_12": 0xA1, "BLANK": 0xA1,
    "SECURITY_PROTOCOL_IN": 0xA2, "MAINTENANCE_IN": 0xA3, "SEND_KEY": 0xA3,
    "MAINTENANCE_OUT": 0xA4, "REPORT_KEY": 0xA4, "MOVE_MEDIUM": 0xA5,
    "EXCHANGE_MEDIUM": 0xA6, "LOAD_UNLOAD_MEDIUM": 0xA6,
    "MOVE_MEDIUM_ATTACHED": 0xA7, "SET_READ_AHEAD": 0xA7, "READ_12": 0xA8,
    "WRITE_12": 0xAA, "READ_MEDIA_SERIAL_NUMBER": 0xAB,
    "GET_PERFORMANCE": 0xAC, "READ_DISC_STRUCTURE": 0xAD,
    "WRITE_AND_VERIFY_12": 0xAE, "VERIFY_12": 0xAF,
    "READ_ELEMENT_STATUS_ATTACHED": 0xB4, "SECURITY_PROTOCOL_OUT": 0xB5,
    "REQUEST_VOLUME_ELEMENT_ADDRESS": 0xB5, "SEND_VOLUME_TAG": 0xB6,
    "SET_STREAMING": 0xB6, "READ_DEFECT_DATA_12": 0xB7,
    "READ_ELEMENT_STATUS": 0xB8, "READ_CD_MSF": 0xB9,
    "REDUNDANCY_GROUP_IN": 0xBA, "REDUNDANCY_GROUP_OUT": 0xBB,
    "SET_CD_SPEED": 0xBB, "SPARE_IN": 0xBC, "SPARE_OUT": 0xBD,
    "MECHANISM_STATUS": 0xBD, "VOLUME_SET_IN": 0xBE, "READ_CD": 0xBE,
    "VOLUME_SET_OUT": 0xBF, "SEND_DISC_STRUCTURE": 0xBF,
    "REPORT_ALIAS": 0xA3, "REPORT_VOLUME_TYPES_SUPPORTED": 0x44,
}
T10_STATUS = {
    "GOOD": 0x00, "CHECK_CONDITION": 0x02, "CONDITIONS_MET": 0x04,
    "BUSY": 0x08, "RESERVATION_CONFLICT": 0x18, "TASK_SET_FULL": 0x28,
    "ACA_ACTIVE": 0x30, "TASK_ABORTED": 0x40,
}
T10_SA = {
    # MAINTENANCE IN / OUT (SPC) and SERVICE ACTION IN(16) (SBC)
    "REPORT_IDENTIFYING_INFORMATION": 0x05, "REPORT_TARGET_PORT_GROUPS": 0x0A,
    "REPORT_ALIASES": 0x0B, "REPORT_SUPPORTED_OPERATION_CODES": 0x0C,
    "REPORT_SUPPORTED_TASK_MANAGEMENT_FUNCTIONS": 0x0D, "REPORT_PRIORITY": 0x0E,
    "REPORT_TIMESTAMP": 0x0F, "SET_IDENTIFYING_INFORMATION": 0x06,
    "SET_TARGET_PORT_GROUPS": 0x0A, "CHANGE_ALIASES": 0x0B,
    "SET_PRIORITY": 0x0E, "SET_TIMESTAMP": 0x0F, "READ_CAPACITY_16": 0x10,
    "GET_LBA_STATUS": 0x12, "REPORT_REFERRALS": 0x13,
    "READ_32": 0x09, "VERIFY_32": 0x0A, "WRITE_32": 0x0B,
    "WRITE_AND_VERIFY_32": 0x0C, "WRITE_SAME_32": 0x0D, "ORWRITE_32": 0x0E,
    "XDREAD_32": 0x03, "XDWRITE_32": 0x04, "XDWRITEREAD_32": 0x07,
    "XPWRITE_32": 0x06,
}
T10_PR_IN = {"READ_KEYS": 0, "READ_RESERVATION": 1, "REPORT_CAPABILITIES": 2,
             "READ_FULL_STATUS": 3}
T10_PR_OUT = {"REGISTER": 0, "RESERVE": 1, "RELEASE": 2, "CLEAR": 3,
              "PREEMPT": 4, "PREEMPT_AND_ABORT": 5,
              "REGISTER_AND_IGNORE_EXISTING_KEY": 6, "REGISTER_AND_MOVE": 7,
              "REPLACE_LOST_REGISTRATION": 8}

SET_OBJS = {"spc": spc, "sbc": sbc, "ssc": ssc, "smc": smc, "mmc": mmc}
SET_DICTS = {
    "spc": "spc_opcodes", "sbc": "sbc_opcodes", "ssc": "ssc_opcodes",
    "smc": "smc_opcodes", "mmc": "mmc_opcodes",
}


def is_plain_int(v):
    return type(v) is int


def expected_cdb_len(v):
    """group prescribed CDB length, None when refused"""
    if 0x00 <= v <= 0x1F:
        return 6
    if 0x20 <= v <= 0x5F:
        return 10
    if 0x80 <= v <= 0x9F:
        return 16
    if 0xA0 <= v <= 0xBF:
        return 12
    return None


def sa_expected(spec):
    if isinstance(spec, str):
        return DICTS[spec]
    return spec


# ---------------------------------------------------------------------------
# 1. module level dictionaries
# ---------------------------------------------------------------------------
def test_module_dicts():
    check(ec is ec2, "module identity")
    for name, pairs in DICTS.items():
        d = getattr(ec, name, None)
        check(type(d) is dict, "%s is not a plain dict" % name)
        if not isinstance(d, dict):
            continue
        check(tuple(d.items()) == pairs, "%s content/order differs" % name)
        check(all(type(k) is str for k in d), "%s keys are str" % name)
        check(all(is_plain_int(v) for v in d.values()), "%s values are int" % name)
    check(ec.action_codes == {""} and type(ec.action_codes) is set, "action_codes")
    for setname, dname in SET_DICTS.items():
        d = getattr(ec, dname, None)
        check(type(d) is dict, "%s is not a plain dict" % dname)
        check(
            tuple(d.keys()) == tuple(r[0] for r in SETS[setname]),
            "%s keys/order differ" % dname,
        )
        for key, opname, code, sa in SETS[setname]:
            op = d[key]
            check(type(op) is OpCode, "%s[%s] type" % (dname, key))
            check(op is getattr(SET_OBJS[setname], key), "%s[%s] identity" % (dname, key))


# ---------------------------------------------------------------------------
# 2. the opcode sets
# ---------------------------------------------------------------------------
def test_sets():
    seen = {}
    all_ops = []
    for setname, rows in SETS.items():
        e = SET_OBJS[setname]
        check(type(e) is Enum, "%s is an Enum" % setname)
        check(isinstance(e, type), "%s is a class" % setname)
        check(e.__name__ == "Enum", "%s __name__" % setname)
        check(e.__bases__ == (object,), "%s bases" % setname)
        keys = e.keys
        check(type(keys) is list, "%s.keys is list" % setname)
        check(keys == [r[0] for r in rows], "%s keys differ: %r" % (setname, keys))
        check(
            sorted(k for k in vars(e) if not k.startswith("__")) == sorted(keys),
            "%s vars" % setname,
        )
        for key, opname, code, sa in rows:
            op = getattr(e, key)
            all_ops.append(op)
            check(type(op) is OpCode, "%s.%s type" % (setname, key))
            check(is_plain_int(op.value), "%s.%s value type" % (setname, key))
            check(op.value == code, "%s.%s value %r != %r" % (setname, key, op.value, code))
            check(op.name == opname, "%s.%s name %r" % (setname, key, op.name))
            check(type(op.name) is str, "%s.%s name type" % (setname, key))
            check(str(op) == "%s - %x" % (opname, code), "%s.%s str" % (setname, key))
            check(repr(op) == "%s - %x" % (opname, code), "%s.%s repr" % (setname, key))
            check(e[op] == key, "%s reverse lookup of %s" % (setname, key))
            # T10 reference
            if key in T10_REFERENCE:
                check(op.value == T10_REFERENCE[key], "%s.%s not T10 value" % (setname, key))
            elif "_OPCODE_" in key:
                check(op.value == int(key.rsplit("_", 1)[1], 16), "%s.%s generic" % (setname, key))
            else:
                check(key == "OPEN_CLOSE_IMPORT_EXPORT_ELEMENT" and op.value == 0x1B,
                      "%s.%s has no reference value" % (setname, key))
            # cross set consistency
            if key in seen:
                check(seen[key][1] == op.value,
                      "%s differs between %s and %s" % (key, seen[key][0], setname))
            else:
                seen[key] = (setname, op.value)
            # service actions
            sae = op.serviceaction
            check(type(sae) is Enum, "%s.%s serviceaction type" % (setname, key))
            exp = sa_expected(sa)
            check(sae.keys == [k for k, _ in exp], "%s.%s sa keys" % (setname, key))
            for k, v in exp:
                got = getattr(sae, k, None)
                check(is_plain_int(got) and got == v, "%s.%s sa %s" % (setname, key, k))
                if k in T10_SA:
                    check(got == T10_SA[k], "%s.%s sa %s not T10" % (setname, key, k))
            check(sae[0x7E] == "", "%s.%s sa missing lookup" % (setname, key))
            # cdb length
            exp_len = expected_cdb_len(code)
            if exp_len is None:
                ex = raises(SCSICommand.OpcodeException, SCSICommand.init_cdb, op)
                check(type(ex) is SCSICommand.OpcodeException, "%s.%s not refused" % (setname, key))
            else:
                cdb = SCSICommand.init_cdb(op)
                check(type(cdb) is bytearray and len(cdb) == exp_len and not any(cdb),
                      "%s.%s cdb len" % (setname, key))
        # every T10 reference name must be correct wherever it is listed; names
        # not in a set must really be absent
        for name in ("NOT_A_COMMAND", "value", "name", "read_10", "Inquiry"):
            check(not hasattr(e, name) or name in ("mro",), "%s has %s" % (setname, name))
            check(raises(AttributeError, getattr, e, name).__class__ is AttributeError,
                  "%s.%s AttributeError" % (setname, name))
    # distinct OpCode objects, distinct service action enums
    check(len({id(o) for o in all_ops}) == len(all_ops), "OpCode objects are shared")
    check(len({id(o.serviceaction) for o in all_ops}) == len(all_ops), "sa enums shared")
    check(spc.INQUIRY is not sbc.INQUIRY, "spc/sbc INQUIRY distinct")
    # every reference name is used by at least one set
    for name in T10_REFERENCE:
        check(name in seen, "reference name %s unused" % name)
    # the service action enums are copies: mutating one leaves the tables alone
    sa = sbc.SBC_OPCODE_9E.serviceaction
    sa.add("DEMO_ONLY", 0x1F)
    check("DEMO_ONLY" not in ec.service_actions, "service_actions dict mutated")
    check(not hasattr(sbc.SBC_OPCODE_A3.serviceaction, "DEMO_ONLY"), "sa enum shared state")
    check(not hasattr(spc.SPC_OPCODE_A3.serviceaction, "DEMO_ONLY"), "sa enum shared state 2")
    sa.remove("DEMO_ONLY")
    check(sa.keys == [k for k, _ in DICTS["service_actions"]], "sa restored")
    # well known spot checks
    check(spc.INQUIRY.value == 0x12 and sbc.READ_16.value == 0x88, "spot 1")
    check(sbc.SBC_OPCODE_9E.serviceaction.READ_CAPACITY_16 == 0x10, "spot 2")
    check(sbc.SBC_OPCODE_9E.serviceaction.GET_LBA_STATUS == 0x12, "spot 3")
    check(spc.SPC_OPCODE_A3.serviceaction.REPORT_TARGET_PORT_GROUPS == 0x0A, "spot 4")
    check(spc.SPC_OPCODE_A3.serviceaction.REPORT_PRIORITY == 0x0E, "spot 5")
    check(smc.OPEN_CLOSE_IMPORT_EXPORT_ELEMENT.serviceaction.CLOSE_IMPORTEXPORT_ELEMENT == 1, "spot 6")
    check(smc.MAINTENANCE_IN.serviceaction.REPORT_DEVICE_IDENTIFICATION == 0x07, "spot 7")
    check(sbc.REDUNDANCY_GROUP_OUT.name == "REDUNDANCY_GROUP_OT", "quirk name kept")
    check(smc.REDUNDANCY_GROUP_OUT.name == "REDUNDANCY_GROUP_OUT", "smc name")
    check(smc.OPEN_CLOSE_IMPORT_EXPORT_ELEMENT.name == "SMC_OPCODE_1B", "quirk name 2")
    for e in (spc, sbc, ssc, smc):
        for k, v in T10_PR_IN.items():
            check(getattr(e.PERSISTENT_RESERVE_IN.serviceaction, k) == v, "PR IN %s" % k)
        for k, v in T10_PR_OUT.items():
            check(getattr(e.PERSISTENT_RESERVE_OUT.serviceaction, k) == v, "PR OUT %s" % k)
        check(e.PERSISTENT_RESERVE_OUT.serviceaction[5] == "PREEMPT_AND_ABORT", "PR OUT rev")
    check(not hasattr(mmc, "PERSISTENT_RESERVE_IN"), "mmc has no PR IN")


# ---------------------------------------------------------------------------
# 3. status codes and obsolete enums
# ---------------------------------------------------------------------------
def test_status():
    check(type(SCSI_STATUS) is Enum, "SCSI_STATUS type")
    check(SCSI_STATUS is ec.SCSI_STATUS, "SCSI_STATUS identity")
    check(SCSI_STATUS.keys == [k for k, _ in DICTS["scsi_status"]], "status keys")
    for k, v in DICTS["scsi_status"]:
        got = getattr(SCSI_STATUS, k)
        check(is_plain_int(got) and got == v, "status %s" % k)
        check(SCSI_STATUS[v] == k, "status reverse %s" % k)
    for k, v in T10_STATUS.items():
        check(getattr(SCSI_STATUS, k) == v, "status %s not T10" % k)
    check(SCSI_STATUS.SGIO_ERROR == 0xFF, "SGIO_ERROR")
    for v in (0x01, 0x10, 0x14, 0x22, 0x100, -1, None, "GOOD", 2.5):
        check(SCSI_STATUS[v] == "", "status reverse of %r" % (v,))
    check(SCSI_STATUS[0.0] == "GOOD" and SCSI_STATUS[False] == "GOOD", "status eq lookup")
    check(SCSI_STATUS[2.0] == "CHECK_CONDITION", "status float lookup")
    check(not hasattr(SCSI_STATUS, "INTERMEDIATE"), "no obsolete status")
    # obsolete enums
    check(OPCODE.keys == [k for k, _ in DICTS["opcodes"]], "OPCODE keys")
    for k, v in DICTS["opcodes"]:
        got = getattr(OPCODE, k)
        check(is_plain_int(got) and got == v, "OPCODE.%s" % k)
        check(OPCODE[v] == k, "OPCODE reverse %s" % k)
        if k in T10_REFERENCE:
            check(v == T10_REFERENCE[k], "OPCODE.%s not T10" % k)
        # legacy table agrees with the sets
        for e in SET_OBJS.values():
            if hasattr(e, k):
                check(getattr(e, k).value == v, "OPCODE.%s disagrees with set" % k)
    check(OPCODE.SERVICE_ACTION_IN == 0x9E == sbc.SBC_OPCODE_9E.value, "SERVICE_ACTION_IN op")
    check(SERVICE_ACTION_IN.keys == ["READ_CAPACITY_16", "GET_LBA_STATUS"], "SAI keys")
    check(SERVICE_ACTION_IN.READ_CAPACITY_16 == 0x10, "SAI 1")
    check(SERVICE_ACTION_IN.GET_LBA_STATUS == 0x12, "SAI 2")
    check(SERVICE_ACTION_IN[0x10] == "READ_CAPACITY_16", "SAI rev")
    for k in SERVICE_ACTION_IN.keys:
        check(getattr(SERVICE_ACTION_IN, k) == ec.service_actions[k], "SAI agrees %s" % k)


# ---------------------------------------------------------------------------
# 4. CDB length by group
# ---------------------------------------------------------------------------
class Val(object):
    """duck typed opcode with a counting value property"""

    def __init__(self, v):
        self._v = v

    @property
    def value(self):
        return self._v


def test_cdb_groups():
    OE = SCSICommand.OpcodeException
    check(isinstance(OE, type) and issubclass(OE, Exception), "OpcodeException class")
    check(OE.__name__ == "OpcodeException", "OpcodeException name")
    makers = (
        lambda v: OpCode("X", v, {}),
        lambda v: SimpleNamespace(value=v),
        Val,
    )
    for v in range(-300, 600):
        exp = expected_cdb_len(v)
        for mk in makers:
            op = mk(v)
            if exp is None:
                ex = raises(OE, SCSICommand.init_cdb, op)
                check(type(ex) is OE and ex.args == (), "0x%x not refused (%r)" % (v, ex))
            else:
                cdb = SCSICommand.init_cdb(op)
                check(type(cdb) is bytearray and len(cdb) == exp and bytes(cdb) == bytes(exp),
                      "0x%x -> %r" % (v, cdb))
    # group table: codes by their top three bits
    groups = {0: 6, 1: 10, 2: 10, 3: None, 4: 16, 5: 12, 6: None, 7: None}
    for v in range(256):
        check(expected_cdb_len(v) == groups[v >> 5], "self check group %x" % v)
    # each call gives a fresh buffer
    a = SCSICommand.init_cdb(spc.INQUIRY)
    b = SCSICommand.init_cdb(spc.INQUIRY)
    check(a is not b, "fresh buffers")
    a[0] = 0x12
    check(b[0] == 0, "buffers independent")
    # unusual numeric values
    unusual = [
        (True, 6), (False, 6), (0.0, 6), (31.0, 6), (31.5, None), (32.0, 10),
        (95.0, 10), (95.5, None), (96.0, None), (127.9, None), (128.0, 16),
        (159.0, 16), (159.5, None), (160.0, 12), (191.0, 12), (191.5, None),
        (192.0, None), (-0.5, None), (-0.0, 6), (1e300, None), (-1e300, None),
        (float("inf"), None), (float("-inf"), None), (float("nan"), None),
        (Fraction(63, 2), None), (Fraction(31, 1), 6), (Fraction(257, 2), 16),
        (2 ** 64, None), (-(2 ** 64), None), (0x7F, None), (0x7E, None),
        (0x60, None), (0xC0, None), (0xFF, None), (0x100, None), (0x112, None),
        (0x1F, 6), (0x20, 10), (0x5F, 10), (0x80, 16), (0x9F, 16), (0xA0, 12),
        (0xBF, 12),
    ]
    for v, exp in unusual:
        for mk in makers:
            op = mk(v)
            if exp is None:
                ex = raises(OE, SCSICommand.init_cdb, op)
                check(type(ex) is OE, "%r not refused (%r)" % (v, ex))
            else:
                r = raises(Exception, SCSICommand.init_cdb, op)
                check(r is None, "%r raised %r" % (v, r))
                if r is None:
                    check(len(SCSICommand.init_cdb(op)) == exp, "%r length" % (v,))
    # not comparable values: TypeError, never a buffer
    for v in (None, "12", "\x12", b"\x12", [0x12], (0x12,), {}, object(), 1j):
        for mk in makers[1:]:
            ex = raises(TypeError, SCSICommand.init_cdb, mk(v))
            check(type(ex) is TypeError, "%r gives %r" % (v, ex))
    # things without a value
    for bad in (0x12, None, "INQUIRY", object()):
        ex = raises(AttributeError, SCSICommand.init_cdb, bad)
        check(type(ex) is AttributeError, "no value attr: %r" % (ex,))
    # keyword call and call through instance / subclass
    check(len(SCSICommand.init_cdb(opcode=sbc.READ_16)) == 16, "keyword call")
    from pyscsi.pyscsi.scsi_cdb_inquiry import Inquiry

    check(len(Inquiry.init_cdb(sbc.READ_12)) == 12, "subclass static call")
    ex = raises(Exception, Inquiry.init_cdb, sbc.SBC_OPCODE_7F)
    check(type(ex) is OE, "subclass call raises base OpcodeException")
    check(Inquiry.OpcodeException is not OE, "per class exception classes")
    check(not isinstance(ex, Inquiry.OpcodeException), "not the subclass exception")


# ---------------------------------------------------------------------------
# 5. whole commands
# ---------------------------------------------------------------------------
def test_commands():
    from pyscsi.pyscsi.scsi_cdb_inquiry import Inquiry
    from pyscsi.pyscsi.scsi_cdb_movemedium import MoveMedium
    from pyscsi.pyscsi.scsi_cdb_read10 import Read10
    from pyscsi.pyscsi.scsi_cdb_read12 import Read12
    from pyscsi.pyscsi.scsi_cdb_read16 import Read16
    from pyscsi.pyscsi.scsi_cdb_readcapacity16 import ReadCapacity16
    from pyscsi.pyscsi.scsi_cdb_testunitready import TestUnitReady

    OE = SCSICommand.OpcodeException
    cases = [
        (lambda: TestUnitReady(spc.TEST_UNIT_READY), 6, 0x00),
        (lambda: Inquiry(spc.INQUIRY), 6, 0x12),
        (lambda: Inquiry(mmc.INQUIRY, 1, 0x80, 255), 6, 0x12),
        (lambda: Read10(sbc.READ_10, 512, 10, 2), 10, 0x28),
        (lambda: Read10(mmc.READ_10, 2048, 10, 2), 10, 0x28),
        (lambda: Read12(sbc.READ_12, 512, 10, 2), 12, 0xA8),
        (lambda: Read16(sbc.READ_16, 512, 10, 2), 16, 0x88),
        (lambda: ReadCapacity16(sbc.SBC_OPCODE_9E), 16, 0x9E),
        (lambda: MoveMedium(smc.MOVE_MEDIUM, 1, 2, 3), 12, 0xA5),
    ]
    for mk, ln, code in cases:
        cmd = mk()
        check(type(cmd.cdb) is bytearray and len(cmd.cdb) == ln, "%r cdb len" % cmd)
        check(cmd.cdb[0] == code, "%r cdb[0]" % cmd)
        check(cmd.opcode.value == code, "%r opcode" % cmd)
        check(type(cmd).unmarshall_cdb(cmd.cdb)["opcode"] == code, "%r unmarshall" % cmd)
    rc = ReadCapacity16(sbc.SBC_OPCODE_9E)
    check(rc.cdb[1] & 0x1F == 0x10, "READ CAPACITY(16) service action")
    # plain SCSICommand for every opcode of every set
    for setname, rows in SETS.items():
        e = SET_OBJS[setname]
        for key, _, code, _ in rows:
            op = getattr(e, key)
            exp = expected_cdb_len(code)
            if exp is None:
                ex = raises(Exception, SCSICommand, op, 0, 0)
                check(type(ex) is OE, "SCSICommand(%s.%s) not refused" % (setname, key))
            else:
                cmd = SCSICommand(op, 3, 5)
                check(len(cmd.cdb) == exp, "SCSICommand(%s.%s) cdb" % (setname, key))
                check(cmd.opcode is op, "SCSICommand(%s.%s) opcode" % (setname, key))
                check(cmd.dataout == bytearray(3) and cmd.datain == bytearray(5), "buffers")
                check(cmd.result == {} and cmd.pagecode is None, "result/pagecode")
                check(repr(cmd) == "SCSICommand", "repr")
    # a refused opcode must not build a command
    for bad in (0x60, 0x7F, 0xC0, 0xE0, 0xFF, 0x100, -1):
        ex = raises(Exception, TestUnitReady, OpCode("VENDOR", bad, {}))
        check(type(ex) is OE, "TestUnitReady with 0x%x: %r" % (bad, ex))
        ex = raises(Exception, SCSICommand, OpCode("VENDOR", bad, {}), 0, 0)
        check(type(ex) is OE, "SCSICommand with 0x%x: %r" % (bad, ex))
    ex = raises(Exception, Read16, sbc.SBC_OPCODE_7F, 512, 0, 1)
    check(type(ex) is OE, "variable length opcode refused")
    # public attributes of SCSICommand are still there
    for attr in ("init_cdb", "marshall_cdb", "unmarshall_cdb", "build_cdb", "unmarshall",
                 "print_cdb", "result", "cdb", "datain", "dataout", "sense",
                 "raw_sense_data", "pagecode", "opcode", "OpcodeException",
                 "CommandNotImplemented", "MissingBlocksizeException", "CheckCondition"):
        check(hasattr(SCSICommand, attr), "SCSICommand.%s missing" % attr)
    for attr in ("result", "cdb", "datain", "dataout", "sense", "raw_sense_data",
                 "pagecode", "opcode"):
        check(isinstance(getattr(SCSICommand, attr), property), "SCSICommand.%s property" % attr)
    cmd = SCSICommand(spc.INQUIRY, 0, 0)
    for attr in ("result", "cdb", "datain", "dataout", "sense", "raw_sense_data",
                 "pagecode", "opcode"):
        marker = object()
        setattr(cmd, attr, marker)
        check(getattr(cmd, attr) is marker, "SCSICommand.%s roundtrip" % attr)
    ex = raises(NotImplementedError, SCSICommand(spc.INQUIRY, 0, 0).unmarshall)
    check(type(ex) is NotImplementedError, "unmarshall without datain decoder")
    # get_opcode helper
    check(list(get_opcode(sbc, "10"))[0].value in (0x55, 0x5A, 0x34, 0x28), "get_opcode")
    check([o.value for o in get_opcode(sbc, "9E")] == [0x9E], "get_opcode 9E")
    check([o.value for o in get_opcode(spc, "A3")] == [0xA3], "get_opcode A3")
    check([o.name for o in get_opcode(sbc, "16")] ==
          [k for k in sbc.keys if k.endswith("16")], "get_opcode 16")


# ---------------------------------------------------------------------------
# 6. OpCode objects
# ---------------------------------------------------------------------------
def test_opcode_class():
    op = OpCode("NAME", 0x12, {"A": 1, "B": 2})
    check(op.name == "NAME" and op.value == 0x12, "OpCode ctor")
    check(type(op.serviceaction) is Enum, "OpCode sa type")
    check(op.serviceaction.A == 1 and op.serviceaction.B == 2, "OpCode sa values")
    check(op.serviceaction.keys == ["A", "B"], "OpCode sa keys")
    check(op.serviceaction[2] == "B" and op.serviceaction[3] == "", "OpCode sa reverse")
    op2 = OpCode(name="N2", code=0xA0, serviceaction={})
    check((op2.name, op2.value, op2.serviceaction.keys) == ("N2", 0xA0, []), "OpCode kw")
    check(str(op2) == "N2 - a0" and repr(op2) == "N2 - a0", "OpCode str")
    check("%s" % OpCode("Z", 0, {}) == "Z - 0", "OpCode str zero")
    op.name = "OTHER"
    op.value = 0x88
    sa = Enum(X=9)
    op.serviceaction = sa
    check(op.name == "OTHER" and op.value == 0x88 and op.serviceaction is sa, "OpCode setters")
    check(str(op) == "OTHER - 88", "OpCode str after set")
    check(len(SCSICommand.init_cdb(op)) == 16, "init_cdb follows value setter")
    src = {"K": 5}
    op3 = OpCode("N3", 1, src)
    src["L"] = 6
    check(op3.serviceaction.keys == ["K"], "OpCode copies service actions")
    for bad in (None, [("A", 1)], 5, "abc", OrderedDict(A=1)):
        ex = raises(NotSupportedArgumentError, OpCode, "N", 1, bad)
        check(type(ex) is NotSupportedArgumentError, "OpCode bad sa %r: %r" % (bad, ex))
    ex = raises(TypeError, OpCode, "N", 1)
    check(type(ex) is TypeError, "OpCode needs 3 args")
    for attr in ("name", "value", "serviceaction"):
        check(isinstance(getattr(OpCode, attr), property), "OpCode.%s property" % attr)
    check(OpCode("a", 1, {}) != OpCode("a", 1, {}), "OpCode identity equality")
    o = OpCode("h", 1, {})
    check({o: 1}[o] == 1, "OpCode hashable")


# ---------------------------------------------------------------------------
# 7. the Enum helper itself
# ---------------------------------------------------------------------------
def test_enum_class():
    check(isinstance(Enum, type) and issubclass(Enum, type), "Enum is a metaclass")
    e = Enum({"A": 1, "B": 2, "C": 3})
    check((e.A, e.B, e.C) == (1, 2, 3), "dict ctor")
    check(e.keys == ["A", "B", "C"], "dict ctor keys")
    check([e[1], e[2], e[3], e[4]] == ["A", "B", "C", ""], "reverse")
    k = Enum(A=1, B=2, C=3)
    check((k.A, k.B, k.C) == (1, 2, 3) and k.keys == ["A", "B", "C"], "kw ctor")
    check(k is not e and k.keys is not k.keys, "fresh objects")
    both = Enum({"A": 1}, B=2)
    check(both.keys == ["A"] and not hasattr(both, "B"), "dict wins over keywords")
    empty = Enum({})
    check(empty.keys == [] and empty[0] == "" and empty[None] == "", "empty enum")
    check(Enum({}, A=1).keys == [], "empty dict still wins")
    # first key wins on duplicate values, insertion order
    dup = Enum({"X": 5, "Y": 5, "Z": 6})
    check(dup[5] == "X" and dup[6] == "Z", "duplicate reverse lookup")
    sae = Enum(ec.service_actions)
    first = {}
    for name, v in DICTS["service_actions"]:
        first.setdefault(v, name)
    for v, name in first.items():
        check(sae[v] == name, "service_actions reverse 0x%x" % v)
    check(sae[0x05] == "REPORT_DEVICE_IDENTIFIER", "sa reverse 5")
    check(sae[0x0B] == "REPORT_ALIASES", "sa reverse b")
    check(sae[0x06] == "REQUEST_DATA_TRANSFER_ELEMENT_INQUIRY", "sa reverse 6")
    # values may be anything
    o = object()
    mixed = Enum({"N": None, "S": "s", "O": o, "L": [1], "Z": 0, "F": False})
    check(mixed[None] == "N" and mixed["s"] == "S" and mixed[o] == "O", "mixed reverse")
    check(mixed[[1]] == "L" and mixed[0] == "Z" and mixed[False] == "Z", "mixed reverse 2")
    check(mixed.keys == ["N", "S", "O", "L", "Z", "F"], "mixed keys")
    # dunder keys are hidden from keys, but single underscore ones are not
    d = Enum({"__hidden": 1, "_shown": 2, "__x__": 3, "ok": 4})
    check(d.keys == ["_shown", "ok"], "dunder keys hidden: %r" % d.keys)
    check(d[1] == "" and d[3] == "" and d[2] == "_shown", "dunder values hidden")
    # refused constructions
    bad_calls = [
        ((), {}), ((1, 2, 3), {}), (((1, 2, 3),), {}), (([("A", 1)],), {}),
        ((None,), {}), (("A",), {}), ((OrderedDict(A=1),), {}), (({"A": 1}, {"B": 2}), {}),
        ((5,), {}), ((set(),), {}),
    ]
    for a, kw in bad_calls:
        ex = raises(NotSupportedArgumentError, Enum, *a, **kw)
        check(type(ex) is NotSupportedArgumentError, "Enum%r: %r" % (a, ex))
        if type(ex) is NotSupportedArgumentError:
            check(ex.args == ("use either as dict or provide keyword arguments",), "message")
    # non dict positional + keywords: keywords are used
    kw = Enum(OrderedDict(A=1), B=2)
    check(kw.keys == ["B"], "keywords used when positional is not a dict")
    kw = Enum(1, 2, 3, Q=7)
    check(kw.keys == ["Q"] and kw.Q == 7, "keywords used with several positionals")

    class dict_sub(dict):
        pass

    ex = raises(NotSupportedArgumentError, Enum, dict_sub(A=1))
    check(type(ex) is NotSupportedArgumentError, "dict subclass refused")
    # add / remove
    e.add("D", 4)
    check(e.D == 4 and e.keys == ["A", "B", "C", "D"] and e[4] == "D", "add")
    ex = raises(KeyError, e.add, "A", 6)
    check(type(ex) is KeyError and ex.args == ("key A already exist",), "add existing: %r" % (ex,))
    check(e.A == 1, "value kept after refused add")
    e.remove("D")
    check(e.keys == ["A", "B", "C"] and e[4] == "" and not hasattr(e, "D"), "remove")
    ex = raises(KeyError, e.remove, "D")
    check(type(ex) is KeyError and isinstance(ex.__cause__, AttributeError), "remove missing: %r" % (ex,))
    if type(ex) is KeyError:
        check(str(ex.args[0]).startswith("Key ") and str(ex.args[0]).endswith(" not found"), "remove msg")
    e.add("__secret", 99)
    check(e.keys == ["A", "B", "C"] and e[99] == "", "dunder add hidden")
    e.add("__secret", 100)  # not in keys, so adding again is allowed
    check(getattr(e, "__secret") == 100, "dunder re-add")
    e.remove("__secret")
    e.add("A2", 1)
    check(e[1] == "A", "first key still wins after add")
    e.remove("A")
    check(e[1] == "A2", "next key after remove")
    # Enum objects are independent classes
    x = Enum(A=1)
    y = Enum(A=2)
    check(x.A == 1 and y.A == 2, "independent")
    check(x.__name__ == "Enum" and x.__bases__ == (object,) and type(x) is Enum, "shape")
    check(x.keys == ["A"], "keys simple")
    ex = raises(AttributeError, getattr, x, "B")
    check(type(ex) is AttributeError, "missing attr")
    # the source dict is copied
    src = {"A": 1}
    c = Enum(src)
    src["B"] = 2
    check(c.keys == ["A"], "source dict copied")
    c.add("C", 3)
    check(src == {"A": 1, "B": 2}, "source dict untouched")


def main():
    tests = [
        test_module_dicts, test_sets, test_status, test_cdb_groups, test_commands,
        test_opcode_class, test_enum_class,
    ]
    for t in tests:
        try:
            t()
        except BaseException as e:  # noqa
            import traceback

            traceback.print_exc()
            FAILURES.append("%s crashed: %r" % (t.__name__, e))
    if FAILURES:
        print("FAIL (%d of %d checks)" % (len(FAILURES), CHECKS[0]))
        for f in FAILURES[:40]:
            print("  -", f)
        return 1
    print("PASS (%d checks)" % CHECKS[0])
    return 0


if __name__ == "__main__":
    sys.exit(main())
