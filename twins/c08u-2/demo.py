#!/usr/bin/env python
# coding: utf-8
"""
Demo / check for property C08:

For every sense buffer a target can return (fixed or descriptor format,
current or deferred, any sense key, any ASC/ASCQ including unassigned and
vendor specific ones) the CheckCondition error can be constructed, converted
to text and printed without itself raising; the sense key / ASC / ASCQ it
reports are the values at the positions SPC defines for the format, and
assigned codes are described by their T10 text.

Run as:
    cd /tmp/seed/C08u && PYTHONPATH=/tmp/seed/C08u /venv/bin/python SEED/demo.py
"""
import contextlib
import io
import random
import sys
import types

# --------------------------------------------------------------------------
# fake external bindings (sgio / iscsi are not installed)
# --------------------------------------------------------------------------
_next_sense = {"value": None}


def _install_fakes():
    sgio = types.ModuleType("sgio")

    class CheckConditionError(Exception):
        def __init__(self, sense):
            Exception.__init__(self, "check condition")
            self.sense = sense

    def execute(fobj, cdb, dataout, datain, *args, **kwargs):
        if _next_sense["value"] is not _NO_ERROR:
            raise CheckConditionError(_next_sense["value"])
        return 0

    sgio.CheckConditionError = CheckConditionError
    sgio.execute = execute
    sys.modules["sgio"] = sgio

    iscsi = types.ModuleType("iscsi")
    iscsi.SCSI_XFER_NONE = 0
    iscsi.SCSI_XFER_READ = 1
    iscsi.SCSI_XFER_WRITE = 2
    iscsi.ISCSI_SESSION_NORMAL = 2
    iscsi.ISCSI_HEADER_DIGEST_NONE_CRC32C = 1

    class Context(object):
        def __init__(self, name):
            self.name = name

        def set_targetname(self, t):
            pass

        def set_session_type(self, t):
            pass

        def set_header_digest(self, d):
            pass

        def connect(self, portal, lun):
            pass

        def disconnect(self):
            pass

        def command(self, lun, task, dataout, datain):
            if _next_sense["value"] is _NO_ERROR:
                task.status = 0x00
                return
            task.status = 0x02  # CHECK CONDITION
            if _next_sense["value"] is _NO_RAW_SENSE:
                return
            task.raw_sense = _next_sense["value"]

    class URL(object):
        def __init__(self, ctx, url):
            self.target = "iqn.fake:target"
            self.portal = "127.0.0.1"
            self.lun = 0

    class Task(object):
        def __init__(self, cdb, direction, xferlen):
            self.cdb = cdb
            self.status = 0

    iscsi.Context = Context
    iscsi.URL = URL
    iscsi.Task = Task
    sys.modules["iscsi"] = iscsi


_NO_ERROR = object()
_NO_RAW_SENSE = object()
_install_fakes()

import pyscsi.pyscsi.scsi_sense as scsi_sense  # noqa: E402
import pyscsi.utils as utils_pkg  # noqa: E402
import pyscsi.utils.converter as converter  # noqa: E402
from pyscsi.pyiscsi.iscsi_device import ISCSIDevice  # noqa: E402
from pyscsi.pyscsi import scsi_exception  # noqa: E402
from pyscsi.pyscsi.scsi_cdb_testunitready import TestUnitReady  # noqa: E402
from pyscsi.pyscsi.scsi_command import SCSICommand  # noqa: E402
from pyscsi.pyscsi.scsi_device import SCSIDevice  # noqa: E402
from pyscsi.pyscsi.scsi_exception import (  # noqa: E402
    SCSICommandExceptionMeta,
    SCSIDeviceCommandExceptionMeta,
    SCSIDeviceExceptionMeta,
)
from pyscsi.pyscsi.scsi_sense import (  # noqa: E402
    SENSE_FORMAT_CURRENT_DESCRIPTOR,
    SENSE_FORMAT_CURRENT_FIXED,
    SENSE_FORMAT_DEFERRED_DESCRIPTOR,
    SENSE_FORMAT_DEFERRED_FIXED,
    SCSICheckCondition,
    sense_ascq_dict,
    sense_key_dict,
    vendor_specific_sense_asc,
    vendor_specific_sense_ascq,
)
from pyscsi.utils.converter import (  # noqa: E402
    decode_bits,
    encode_dict,
    print_data,
    scsi_ba_to_int,
    scsi_int_to_ba,
)

FAILURES = []
CHECKS = [0]


def check(cond, msg):
    CHECKS[0] += 1
    if not cond:
        FAILURES.append(msg)
        if len(FAILURES) > 25:
            finish()


def finish():
    if FAILURES:
        print("FAIL (%d failures, %d checks)" % (len(FAILURES), CHECKS[0]))
        for f in FAILURES[:25]:
            print("  - " + f)
        sys.exit(1)
    print("PASS (%d checks)" % CHECKS[0])
    sys.exit(0)


# --------------------------------------------------------------------------
# independent oracle
# --------------------------------------------------------------------------
# T10 names of the sense keys (SPC-4 table 49), as the library spells them
ORACLE_SENSE_KEYS = {
    0x0: "No Sense",
    0x1: "Recovered Error",
    0x2: "Not Ready",
    0x3: "Medium Error",
    0x4: "Hardware Error",
    0x5: "Illegal Request",
    0x6: "Unit Attention",
    0x7: "Data Protect",
    0x8: "Blank Check",
    0x9: "Vendor Specific",
    0xA: "Copy Aborted",
    0xB: "Aborted Command",
    0xC: "Reserved",
    0xD: "Volume Overflow",
    0xE: "Miscompare",
    0xF: "Completed",
}

# a hand-picked sample of T10 ASC/ASCQ assignments (upper-cased for compare)
ORACLE_ASCQ_SAMPLE = {
    0x0000: "NO ADDITIONAL SENSE INFORMATION",
    0x0001: "FILEMARK DETECTED",
    0x0002: "END-OF-PARTITION/MEDIUM DETECTED",
    0x0005: "END-OF-DATA DETECTED",
    0x0006: "I/O PROCESS TERMINATED",
    0x0016: "OPERATION IN PROGRESS",
    0x001D: "ATA PASS THROUGH INFORMATION AVAILABLE",
    0x0100: "NO INDEX/SECTOR SIGNAL",
    0x0200: "NO SEEK COMPLETE",
    0x0300: "PERIPHERAL DEVICE WRITE FAULT",
    0x0400: "LOGICAL UNIT NOT READY, CAUSE NOT REPORTABLE",
    0x0401: "LOGICAL UNIT IS IN PROCESS OF BECOMING READY",
    0x0402: "LOGICAL UNIT NOT READY, INITIALIZING COMMAND REQUIRED",
    0x0403: "LOGICAL UNIT NOT READY, MANUAL INTERVENTION REQUIRED",
    0x0404: "LOGICAL UNIT NOT READY, FORMAT IN PROGRESS",
    0x0409: "LOGICAL UNIT NOT READY, SELF-TEST IN PROGRESS",
    0x041B: "LOGICAL UNIT NOT READY, SANITIZE IN PROGRESS",
    0x0500: "LOGICAL UNIT DOES NOT RESPOND TO SELECTION",
    0x0800: "LOGICAL UNIT COMMUNICATION FAILURE",
    0x0B00: "WARNING",
    0x0B01: "WARNING - SPECIFIED TEMPERATURE EXCEEDED",
    0x0C00: "WRITE ERROR",
    0x0C02: "WRITE ERROR - AUTO REALLOCATION FAILED",
    0x1000: "ID CRC OR ECC ERROR",
    0x1001: "LOGICAL BLOCK GUARD CHECK FAILED",
    0x1002: "LOGICAL BLOCK APPLICATION TAG CHECK FAILED",
    0x1003: "LOGICAL BLOCK REFERENCE TAG CHECK FAILED",
    0x1100: "UNRECOVERED READ ERROR",
    0x1104: "UNRECOVERED READ ERROR - AUTO REALLOCATE FAILED",
    0x1400: "RECORDED ENTITY NOT FOUND",
    0x1401: "RECORD NOT FOUND",
    0x1500: "RANDOM POSITIONING ERROR",
    0x1700: "RECOVERED DATA WITH NO ERROR CORRECTION APPLIED",
    0x1800: "RECOVERED DATA WITH ERROR CORRECTION APPLIED",
    0x1A00: "PARAMETER LIST LENGTH ERROR",
    0x1D00: "MISCOMPARE DURING VERIFY OPERATION",
    0x2000: "INVALID COMMAND OPERATION CODE",
    0x2100: "LOGICAL BLOCK ADDRESS OUT OF RANGE",
    0x2101: "INVALID ELEMENT ADDRESS",
    0x2400: "INVALID FIELD IN CDB",
    0x2500: "LOGICAL UNIT NOT SUPPORTED",
    0x2600: "INVALID FIELD IN PARAMETER LIST",
    0x2601: "PARAMETER NOT SUPPORTED",
    0x2602: "PARAMETER VALUE INVALID",
    0x2700: "WRITE PROTECTED",
    0x2701: "HARDWARE WRITE PROTECTED",
}

FIXED_LAYOUT = [
    # name, mask, offset  (SPC-4 4.5.3, table 43)
    ("valid", 0x80, 0),
    ("response_code", 0x7F, 0),
    ("filemark", 0x80, 2),
    ("eom", 0x40, 2),
    ("ili", 0x20, 2),
    ("sdat_ovfl", 0x10, 2),
    ("sense_key", 0x0F, 2),
    ("information", 0xFFFFFFFF, 3),
    ("additional_sense_len", 0xFF, 7),
    ("command_specific_information", 0xFFFFFFFF, 8),
    ("additional_sense_code", 0xFF, 12),
    ("additional_sense_code_qualifier", 0xFF, 13),
    ("field_replaceable_unit_code", 0xFF, 14),
    ("sksv", 0x80, 15),
    ("sense_key_specific_information", 0x7FFFFF, 15),
]

DESC_LAYOUT = [
    # name, mask, offset (SPC-4 4.5.2, table 26) -- order as the library reports
    ("response_code", 0x7F, 0),
    ("sdat_ovfl", 0x80, 4),
    ("sense_key", 0x0F, 1),
    ("additional_sense_code", 0xFF, 2),
    ("additional_sense_code_qualifier", 0xFF, 3),
    ("additional_sense_len", 0xFF, 7),
]


def oracle_field(buf, mask, offset):
    width = 1
    m = mask
    while m > 0xFF:
        m >>= 8
        width += 1
    raw = 0
    for b in bytes(buf[offset : offset + width]):
        raw = raw * 256 + b
    low = (mask & -mask).bit_length() - 1
    return (raw & mask) >> low


def oracle_data(buf):
    if not buf:
        buf = b"\x00"
    rc = buf[0] & 0x7F
    if rc in (0x70, 0x71):
        layout = FIXED_LAYOUT
    elif rc in (0x72, 0x73):
        layout = DESC_LAYOUT
    else:
        return {}
    return dict((n, oracle_field(buf, m, o)) for n, m, o in layout)


def oracle_describe(asc, ascq):
    if asc >= 0x80:
        return "Vendor specific ASC"
    if ascq >= 0x80:
        return "Vendor specific ASCQ"
    code = asc * 256 + ascq
    if code in sense_ascq_dict:
        return sense_ascq_dict[code]
    return "Unknown ASC/ASCQ"


def oracle_text(buf):
    data = oracle_data(buf)
    key = data.get("sense_key", 0)
    asc = data.get("additional_sense_code", 0)
    ascq = data.get("additional_sense_code_qualifier", 0)
    return "Check Condition: %s(0x%02X) ASC+Q:%s(0x%04X)" % (
        ORACLE_SENSE_KEYS[key],
        key,
        oracle_describe(asc, ascq),
        asc * 256 + ascq,
    )


def oracle_printed(buf):
    return "".join("%s -> 0x%02X\n" % (k, v) for k, v in oracle_data(buf).items())


def fixed_sense(rc, key, asc, ascq, valid=0, flags=0, info=0, csi=0, fru=0, sks=0, length=18, addl=None):
    buf = bytearray(max(length, 18))
    buf[0] = (0x80 if valid else 0) | rc
    buf[2] = (flags & 0xF0) | (key & 0x0F)
    buf[3:7] = info.to_bytes(4, "big")
    buf[7] = (max(length, 18) - 8) & 0xFF if addl is None else addl
    buf[8:12] = csi.to_bytes(4, "big")
    buf[12] = asc
    buf[13] = ascq
    buf[14] = fru
    buf[15:18] = sks.to_bytes(3, "big")
    return buf[:length] if length < 18 else buf


def desc_sense(rc, key, asc, ascq, descriptors=b"", ovfl=0, length=None, valid=0):
    buf = bytearray(8) + bytearray(descriptors)
    buf[0] = (0x80 if valid else 0) | rc
    buf[1] = key & 0x0F
    buf[2] = asc
    buf[3] = ascq
    buf[4] = 0x80 if ovfl else 0
    buf[7] = len(descriptors) & 0xFF
    if length is not None:
        buf = buf[:length]
    return buf


# --------------------------------------------------------------------------
# the check of one sense buffer against one exception class
# --------------------------------------------------------------------------
def capture(fn, *args, **kwargs):
    out = io.StringIO()
    with contextlib.redirect_stdout(out):
        res = fn(*args, **kwargs)
    return res, out.getvalue()


def check_one(cls, sense, label, full=True):
    """construct / str / print an error of class cls for `sense`"""
    try:
        original = None if sense is None else bytes(sense)
        (err, out0) = capture(cls, sense)
        text, out1 = capture(str, err)
    except Exception as exc:  # the property: must not raise
        check(False, "%s: raised %r" % (label, exc))
        return None
    want_data = oracle_data(original)
    want_text = oracle_text(original)
    ok = (
        text == want_text
        and out0 == ""
        and out1 == ""
        and err.data == want_data
        and err.asc == want_data.get("additional_sense_code", 0)
        and err.ascq == want_data.get("additional_sense_code_qualifier", 0)
    )
    check(ok, "%s: got %r data=%r, want %r data=%r" % (label, text, err.data, want_text, want_data))
    if not full:
        return err
    raw0 = original[0] if original else 0
    check(err.valid == (raw0 & 0x80), "%s: valid %r" % (label, err.valid))
    check(err.response_code == (raw0 & 0x7F), "%s: response_code %r" % (label, err.response_code))
    check(err.show_data is False, "%s: show_data" % label)
    check(list(err.data.keys()) == list(want_data.keys()), "%s: key order %r" % (label, list(err.data)))
    check(all(type(v) is int for v in err.data.values()), "%s: value types" % label)
    check(type(err.asc) is int and type(err.ascq) is int, "%s: asc types" % label)
    check(isinstance(err, SCSICheckCondition) and isinstance(err, Exception), "%s: isinstance" % label)
    check(err.args == (sense,), "%s: args %r" % (label, err.args))
    if sense is not None:
        check(bytes(sense) == original, "%s: sense buffer was modified" % label)
    # the sense buffer is not aliased by the decoded data
    # printing
    try:
        _, printed = capture(err.print_data)
        check(printed == oracle_printed(original), "%s: print_data output %r" % (label, printed))
        err2, out = capture(cls, sense, True)
        check(out == "", "%s: constructor printed" % label)
        check(err2.show_data is True, "%s: show_data True" % label)
        text2, out = capture(str, err2)
        check(text2 == want_text, "%s: text with print %r" % (label, text2))
        check(out == oracle_printed(original), "%s: printed with str %r" % (label, out))
        err3, _ = capture(cls, sense, print_data=True)
        text3, out3 = capture(lambda: "%s" % err3)
        check((text3, out3) == (want_text, oracle_printed(original)), "%s: kw print_data" % label)
        text4, out4 = capture(lambda: "{}".format(err))
        check((text4, out4) == (want_text, ""), "%s: format()" % label)
        _, out5 = capture(print, err)
        check(out5 == want_text + "\n", "%s: print(err) %r" % (label, out5))
        r, _ = capture(repr, err)
        check(isinstance(r, str) and r.startswith(cls.__name__ + "("), "%s: repr %r" % (label, r))
    except Exception as exc:
        check(False, "%s: printing raised %r" % (label, exc))
    # raising and catching
    try:
        raise err
    except SCSICheckCondition as caught:
        check(caught is err, "%s: caught identity" % label)
    except Exception as exc:  # pragma: no cover
        check(False, "%s: wrong exception %r" % (label, exc))
    return err


# --------------------------------------------------------------------------
# 0. public names / tables
# --------------------------------------------------------------------------
def test_public_surface():
    check(SENSE_FORMAT_CURRENT_FIXED == 0x70 and type(SENSE_FORMAT_CURRENT_FIXED) is int, "const 0x70")
    check(SENSE_FORMAT_DEFERRED_FIXED == 0x71 and type(SENSE_FORMAT_DEFERRED_FIXED) is int, "const 0x71")
    check(SENSE_FORMAT_CURRENT_DESCRIPTOR == 0x72 and type(SENSE_FORMAT_CURRENT_DESCRIPTOR) is int, "const 0x72")
    check(SENSE_FORMAT_DEFERRED_DESCRIPTOR == 0x73 and type(SENSE_FORMAT_DEFERRED_DESCRIPTOR) is int, "const 0x73")
    check(type(sense_key_dict) is dict, "sense_key_dict type")
    want_keys = dict((k, v) for k, v in ORACLE_SENSE_KEYS.items() if k != 0xC)
    check(sense_key_dict == want_keys, "sense_key_dict content")
    check(list(sense_key_dict) == sorted(sense_key_dict), "sense_key_dict order")
    check(type(sense_ascq_dict) is dict, "sense_ascq_dict type")
    check(len(sense_ascq_dict) > 600, "sense_ascq_dict size %d" % len(sense_ascq_dict))
    check(
        all(type(k) is int and 0 <= k <= 0x7F7F and type(v) is str and v for k, v in sense_ascq_dict.items()),
        "sense_ascq_dict entries",
    )
    check(list(sense_ascq_dict) == sorted(sense_ascq_dict), "sense_ascq_dict order")
    for code, text in ORACLE_ASCQ_SAMPLE.items():
        check(sense_ascq_dict.get(code, "").upper() == text, "T10 text of %04X: %r" % (code, sense_ascq_dict.get(code)))
    for rng, name in ((vendor_specific_sense_asc, "asc"), (vendor_specific_sense_ascq, "ascq")):
        check(list(rng) == list(range(0x80, 0x100)), "vendor range %s" % name)
        check(0x7F not in rng and 0x80 in rng and 0xFF in rng and 0x100 not in rng, "vendor range in %s" % name)
    check(scsi_sense.decode_bits is converter.decode_bits, "scsi_sense.decode_bits")
    check(scsi_exception.SCSICheckCondition is SCSICheckCondition, "scsi_exception.SCSICheckCondition")
    check(issubclass(SCSICheckCondition, Exception), "SCSICheckCondition is an Exception")
    check(SCSICheckCondition.__name__ == "SCSICheckCondition", "class name")
    check(SCSICheckCondition.__module__ == "pyscsi.pyscsi.scsi_sense", "class module")
    for name in (
        "decode_bits",
        "encode_dict",
        "scsi_ba_to_int",
        "scsi_int_to_ba",
        "print_data",
        "get_opcode",
        "CheckDict",
    ):
        check(getattr(utils_pkg, name, None) is getattr(converter, name), "pyscsi.utils.%s" % name)
    # the layouts the class publishes for sense data and its descriptors
    fixed = SCSICheckCondition._fixed_format_sdata_bits
    check(
        [(k, v[0], v[1]) for k, v in fixed.items()] == FIXED_LAYOUT and all(len(v) == 2 for v in fixed.values()),
        "fixed layout",
    )
    desc = SCSICheckCondition._desc_format_sdata_bits
    check(
        [(k, v[0], v[1]) for k, v in desc.items()] == DESC_LAYOUT and all(len(v) == 2 for v in desc.values()),
        "descriptor layout",
    )
    dtypes = SCSICheckCondition._descriptor_type_dict
    check(sorted(dtypes) == list(range(0x0D)) + [0x80], "descriptor types %r" % sorted(dtypes))
    for t, layout in dtypes.items():
        check(
            [tuple(layout[k]) for k in ("desc_type", "additional_len")] == [(0xFF, 0), (0xFF, 1)],
            "descriptor type %02X header" % t,
        )
    check(dtypes[0x00] is SCSICheckCondition._info_sdata_desc_bits, "descriptor type 0")
    check(dtypes[0x02] is SCSICheckCondition._skey_sdata_desc_bits, "descriptor type 2")
    check(dtypes[0x80] is SCSICheckCondition._vendor_sdata_desc_bits, "descriptor type 80")
    check(
        [(k, tuple(v)) for k, v in SCSICheckCondition._info_sdata_desc_bits.items()]
        == [
            ("desc_type", (0xFF, 0)),
            ("additional_len", (0xFF, 1)),
            ("valid", (0x80, 2)),
            ("information", (0xFFFFFFFFFFFFFFFF, 4)),
        ],
        "information descriptor layout",
    )
    # the layouts are usable with the public decoder
    res = {}
    decode_bits(bytearray([0x00, 0x0A, 0x80, 0, 1, 2, 3, 4, 5, 6, 7, 8]), SCSICheckCondition._info_sdata_desc_bits, res)
    check(
        res == {"desc_type": 0, "additional_len": 0x0A, "valid": 1, "information": 0x0102030405060708},
        "information descriptor decode %r" % res,
    )
    for name in ("unmarshall_fixed_format_sense_data", "unmarshall_desc_format_sense_data", "print_data"):
        check(callable(getattr(SCSICheckCondition, name, None)), "method %s" % name)


# --------------------------------------------------------------------------
# 1. the exception classes the library raises
# --------------------------------------------------------------------------
def exception_classes():
    classes = [
        ("SCSICheckCondition", SCSICheckCondition),
        ("SCSIDevice.CheckCondition", SCSIDevice.CheckCondition),
        ("ISCSIDevice.CheckCondition", ISCSIDevice.CheckCondition),
        ("SCSICommand.CheckCondition", SCSICommand.CheckCondition),
        ("TestUnitReady.CheckCondition", TestUnitReady.CheckCondition),
    ]

    class OnlyDevice(metaclass=SCSIDeviceExceptionMeta):
        pass

    class Both(metaclass=SCSIDeviceCommandExceptionMeta):
        marker = 42

    class Sub(Both):
        pass

    classes.append(("OnlyDevice.CheckCondition", OnlyDevice.CheckCondition))
    classes.append(("Both.CheckCondition", Both.CheckCondition))
    classes.append(("Sub.CheckCondition", Sub.CheckCondition))
    check(Both.marker == 42 and Sub.marker == 42, "metaclass keeps attributes")
    check(type(Both) is SCSIDeviceCommandExceptionMeta and type(Sub) is SCSIDeviceCommandExceptionMeta, "meta type")
    check(type(OnlyDevice) is SCSIDeviceExceptionMeta, "device meta type")
    check(Both.__name__ == "Both" and Sub.__name__ == "Sub", "class names")
    check(Sub.CheckCondition is not Both.CheckCondition, "own CheckCondition per class")
    check(SCSIDevice.CheckCondition is not ISCSIDevice.CheckCondition, "device classes differ")
    check(not issubclass(SCSIDevice.CheckCondition, ISCSIDevice.CheckCondition), "unrelated device classes")

    for label, cls in classes[1:]:
        check(cls.__name__ == "CheckCondition", "%s name" % label)
        check(issubclass(cls, SCSICheckCondition), "%s base" % label)
        check(cls.__bases__ == (SCSICheckCondition,), "%s bases" % label)
        check(cls.__module__ == "pyscsi.pyscsi.scsi_exception", "%s module %r" % (label, cls.__module__))
        check(
            cls.__qualname__ == "SCSIDeviceExceptionMeta.__new__.<locals>.CheckCondition",
            "%s qualname %r" % (label, cls.__qualname__),
        )
        check(cls.__init__ is SCSICheckCondition.__init__, "%s __init__" % label)
        check(cls.__str__ is SCSICheckCondition.__str__, "%s __str__" % label)

    device_names = ["ConditionsMet", "BusyStatus", "ReservationConflict", "TaskSetFull", "ACAActive", "TaskAborted"]
    command_names = ["CommandNotImplemented", "MissingBlocksizeException", "OpcodeException"]
    for owner, names, meta in (
        (SCSIDevice, device_names + command_names, None),
        (ISCSIDevice, device_names + command_names, None),
        (SCSICommand, device_names + command_names, None),
        (OnlyDevice, device_names, "SCSIDeviceExceptionMeta"),
        (Sub, device_names + command_names, None),
    ):
        for n in names:
            exc_cls = getattr(owner, n, None)
            ok = (
                isinstance(exc_cls, type)
                and exc_cls.__bases__ == (Exception,)
                and exc_cls.__name__ == n
                and exc_cls.__module__ == "pyscsi.pyscsi.scsi_exception"
                and not issubclass(exc_cls, SCSICheckCondition)
            )
            check(ok, "%s.%s" % (owner.__name__, n))
            if ok:
                want_meta = "SCSICommandExceptionMeta" if n in command_names else "SCSIDeviceExceptionMeta"
                check(
                    exc_cls.__qualname__ == "%s.__new__.<locals>.%s" % (want_meta, n),
                    "%s.%s qualname %r" % (owner.__name__, n, exc_cls.__qualname__),
                )
                try:
                    raise exc_cls("x")
                except Exception as e:
                    check(type(e) is exc_cls and str(e) == "x", "%s.%s raise" % (owner.__name__, n))
    check(not hasattr(OnlyDevice, "OpcodeException"), "device meta only adds device exceptions")

    class OnlyCommand(metaclass=SCSICommandExceptionMeta):
        pass

    check(not hasattr(OnlyCommand, "CheckCondition"), "command meta only adds command exceptions")
    check(all(hasattr(OnlyCommand, n) for n in command_names), "command meta exceptions")
    return classes


# --------------------------------------------------------------------------
# 2. exhaustive ASC / ASCQ sweep
# --------------------------------------------------------------------------
def test_sweep(classes):
    cls_cycle = [c for _, c in classes]
    n = 0
    # every (asc, ascq) in both formats, the sense key / deferred bit / class rotate
    for asc in range(256):
        for ascq in range(256):
            key = (asc + ascq) & 0x0F
            deferred = (asc ^ ascq) & 1
            cls = cls_cycle[n % len(cls_cycle)]
            n += 1
            check_one(cls, fixed_sense(0x70 + deferred, key, asc, ascq), "fixed %02X/%02X" % (asc, ascq), full=False)
            check_one(cls, desc_sense(0x72 + deferred, key, asc, ascq), "desc %02X/%02X" % (asc, ascq), full=False)
    # every sense key x every format x valid bit, with a set of interesting codes: full checks
    codes = [
        (0x00, 0x00),
        (0x04, 0x01),
        (0x24, 0x00),
        (0x29, 0x00),
        (0x3A, 0x00),
        (0x5D, 0x10),
        (0x74, 0x79),
        (0x7F, 0x7F),
        (0x0F, 0x00),
        (0x00, 0x08),
        (0x00, 0x7F),
        (0x40, 0x7F),
        (0x40, 0x80),
        (0x00, 0x80),
        (0x00, 0xFF),
        (0x7F, 0x80),
        (0x80, 0x00),
        (0x80, 0x80),
        (0xFF, 0x00),
        (0xFF, 0xFF),
        (0x04, 0xFF),
    ]
    for rc in (0x70, 0x71, 0x72, 0x73):
        for key in range(16):
            for valid in (0, 1):
                for i, (asc, ascq) in enumerate(codes):
                    cls = cls_cycle[(i + key) % len(cls_cycle)]
                    if rc < 0x72:
                        buf = fixed_sense(rc, key, asc, ascq, valid=valid)
                    else:
                        buf = desc_sense(rc, key, asc, ascq, valid=valid)
                    check_one(cls, buf, "rc=%02X key=%X valid=%d %02X/%02X" % (rc, key, valid, asc, ascq))


# --------------------------------------------------------------------------
# 3. spot checks of literal texts (no oracle involved)
# --------------------------------------------------------------------------
def test_literals():
    cases = [
        (fixed_sense(0x70, 0x5, 0x24, 0x00), "Check Condition: Illegal Request(0x05) ASC+Q:Invalid Field In CDB(0x2400)"),
        (fixed_sense(0x70, 0x5, 0x20, 0x00), "Check Condition: Illegal Request(0x05) ASC+Q:INVALID COMMAND OPERATION CODE(0x2000)"),
        (
            fixed_sense(0x71, 0x2, 0x04, 0x01),
            "Check Condition: Not Ready(0x02) ASC+Q:LOGICAL UNIT IS IN PROCESS OF BECOMING READY(0x0401)",
        ),
        (desc_sense(0x72, 0x3, 0x11, 0x00), "Check Condition: Medium Error(0x03) ASC+Q:UNRECOVERED READ ERROR(0x1100)"),
        (desc_sense(0x73, 0x7, 0x27, 0x00), "Check Condition: Data Protect(0x07) ASC+Q:WRITE PROTECTED(0x2700)"),
        (desc_sense(0x72, 0x0, 0x00, 0x00), "Check Condition: No Sense(0x00) ASC+Q:NO ADDITIONAL SENSE INFORMATION(0x0000)"),
        (desc_sense(0x72, 0xC, 0x00, 0x00), "Check Condition: Reserved(0x0C) ASC+Q:NO ADDITIONAL SENSE INFORMATION(0x0000)"),
        (fixed_sense(0x70, 0xC, 0x01, 0x01), "Check Condition: Reserved(0x0C) ASC+Q:Unknown ASC/ASCQ(0x0101)"),
        (fixed_sense(0x70, 0x9, 0x80, 0x01), "Check Condition: Vendor Specific(0x09) ASC+Q:Vendor specific ASC(0x8001)"),
        (fixed_sense(0x70, 0x4, 0x44, 0x80), "Check Condition: Hardware Error(0x04) ASC+Q:Vendor specific ASCQ(0x4480)"),
        (desc_sense(0x72, 0xF, 0xFF, 0xFF), "Check Condition: Completed(0x0F) ASC+Q:Vendor specific ASC(0xFFFF)"),
        (desc_sense(0x73, 0xE, 0x1D, 0x00), "Check Condition: Miscompare(0x0E) ASC+Q:MISCOMPARE DURING VERIFY OPERATION(0x1D00)"),
        (desc_sense(0x72, 0x1, 0x00, 0x1D), "Check Condition: Recovered Error(0x01) ASC+Q:ATA PASS THROUGH INFORMATION AVAILABLE(0x001D)"),
        (fixed_sense(0x70, 0x6, 0x29, 0x00), "Check Condition: Unit Attention(0x06) ASC+Q:%s(0x2900)" % sense_ascq_dict[0x2900]),
        (fixed_sense(0xF0 & 0x7F, 0xB, 0x7F, 0x7F), "Check Condition: Aborted Command(0x0B) ASC+Q:Unknown ASC/ASCQ(0x7F7F)"),
        (None, "Check Condition: No Sense(0x00) ASC+Q:NO ADDITIONAL SENSE INFORMATION(0x0000)"),
        (b"", "Check Condition: No Sense(0x00) ASC+Q:NO ADDITIONAL SENSE INFORMATION(0x0000)"),
        (bytearray(), "Check Condition: No Sense(0x00) ASC+Q:NO ADDITIONAL SENSE INFORMATION(0x0000)"),
        (bytearray(18), "Check Condition: No Sense(0x00) ASC+Q:NO ADDITIONAL SENSE INFORMATION(0x0000)"),
        (bytearray([0x7F] + [0xFF] * 17), "Check Condition: No Sense(0x00) ASC+Q:NO ADDITIONAL SENSE INFORMATION(0x0000)"),
    ]
    for i, (buf, want) in enumerate(cases):
        for cls in (SCSICheckCondition, SCSIDevice.CheckCondition, ISCSIDevice.CheckCondition):
            try:
                got = str(cls(buf))
            except Exception as exc:
                got = "raised %r" % (exc,)
            check(got == want, "literal %d: %r != %r" % (i, got, want))

    # a fully decoded fixed format buffer
    buf = fixed_sense(
        0x70, 0x3, 0x11, 0x04, valid=1, flags=0xF0, info=0x01020304, csi=0xA0B0C0D0, fru=0x5A, sks=0x8ABCDE, length=32
    )
    err = SCSICheckCondition(buf)
    check(
        err.data
        == {
            "valid": 1,
            "response_code": 0x70,
            "filemark": 1,
            "eom": 1,
            "ili": 1,
            "sdat_ovfl": 1,
            "sense_key": 3,
            "information": 0x01020304,
            "additional_sense_len": 24,
            "command_specific_information": 0xA0B0C0D0,
            "additional_sense_code": 0x11,
            "additional_sense_code_qualifier": 0x04,
            "field_replaceable_unit_code": 0x5A,
            "sksv": 1,
            "sense_key_specific_information": 0x0ABCDE,
        },
        "fixed literal data %r" % err.data,
    )
    check(err.valid == 0x80 and err.response_code == 0x70, "fixed literal valid/response code")
    err = SCSICheckCondition(buf, True)
    text, out = capture(str, err)
    check(
        out
        == "valid -> 0x01\nresponse_code -> 0x70\nfilemark -> 0x01\neom -> 0x01\nili -> 0x01\nsdat_ovfl -> 0x01\n"
        "sense_key -> 0x03\ninformation -> 0x1020304\nadditional_sense_len -> 0x18\n"
        "command_specific_information -> 0xA0B0C0D0\nadditional_sense_code -> 0x11\n"
        "additional_sense_code_qualifier -> 0x04\nfield_replaceable_unit_code -> 0x5A\nsksv -> 0x01\n"
        "sense_key_specific_information -> 0xABCDE\n",
        "fixed literal print %r" % out,
    )
    check(
        text == "Check Condition: Medium Error(0x03) ASC+Q:UNRECOVERED READ ERROR - AUTO REALLOCATE FAILED(0x1104)",
        "fixed literal text %r" % text,
    )
    # a descriptor format buffer with an information descriptor
    info_desc = bytes([0x00, 0x0A, 0x80, 0x00]) + (0x1122334455667788).to_bytes(8, "big")
    buf = desc_sense(0x73, 0x3, 0x11, 0x00, descriptors=info_desc, ovfl=1)
    err = SCSICheckCondition(buf, print_data=True)
    check(
        err.data
        == {
            "response_code": 0x73,
            "sdat_ovfl": 1,
            "sense_key": 3,
            "additional_sense_code": 0x11,
            "additional_sense_code_qualifier": 0,
            "additional_sense_len": 12,
        },
        "desc literal data %r" % err.data,
    )
    text, out = capture(str, err)
    check(
        out
        == "response_code -> 0x73\nsdat_ovfl -> 0x01\nsense_key -> 0x03\nadditional_sense_code -> 0x11\n"
        "additional_sense_code_qualifier -> 0x00\nadditional_sense_len -> 0x0C\n",
        "desc literal print %r" % out,
    )
    check(text == "Check Condition: Medium Error(0x03) ASC+Q:UNRECOVERED READ ERROR(0x1100)", "desc literal text")


# --------------------------------------------------------------------------
# 4. unusual buffers
# --------------------------------------------------------------------------
def test_unusual(classes):
    rnd = random.Random(0xC08)
    cls_cycle = [c for _, c in classes]
    bufs = []
    # truncated buffers of every length, both formats
    for rc in (0x70, 0x71, 0x72, 0x73, 0xF0, 0xF1, 0xF2, 0xF3):
        full_fixed = fixed_sense(rc & 0x7F, 0x5, 0x24, 0x00, valid=rc & 0x80, info=0xDEADBEEF, csi=0x01020304, fru=9, sks=0xC00001, flags=0xA0)
        full_desc = desc_sense(rc & 0x7F, 0x5, 0x24, 0x00, valid=rc & 0x80, descriptors=bytes([0x02, 0x06, 0, 0, 0xC0, 0, 1, 0]))
        src = full_fixed if (rc & 0x7F) < 0x72 else full_desc
        for n in range(1, len(src) + 1):
            bufs.append(bytearray(src[:n]))
    # no sense at all
    bufs += [None, b"", bytearray(), bytes(1), bytearray(1), bytes(252)]
    # other response codes: reserved, vendor specific 0x7F, and with the valid bit
    for rc in list(range(0x00, 0x70)) + list(range(0x74, 0x80)) + [0x80, 0xEF, 0xF4, 0xFF]:
        tail = bytearray(rnd.randrange(256) for _ in range(17))
        bufs.append(bytearray([rc]) + tail)
    bufs.append(bytearray([0x7F]))
    bufs.append(bytearray([0xFF]))
    # long buffers (252 bytes is the SPC maximum; longer ones with trailing garbage too)
    for rc in (0x70, 0x71, 0x72, 0x73):
        for size in (18, 19, 32, 96, 252, 255, 256, 1024):
            b = bytearray(rnd.randrange(256) for _ in range(size))
            b[0] = rc | (rnd.randrange(2) << 7)
            bufs.append(b)
    # all ones / all zero bodies
    for rc in (0x70, 0x71, 0x72, 0x73, 0xF0, 0xF3):
        bufs.append(bytearray([rc] + [0xFF] * 31))
        bufs.append(bytearray([rc] + [0x00] * 31))
    # descriptor format with every known (and some unknown) descriptor type
    for dtype in list(range(0x0F)) + [0x7F, 0x80, 0x81, 0xFF]:
        body = bytes(rnd.randrange(256) for _ in range(30))
        d = bytes([dtype, len(body)]) + body
        bufs.append(desc_sense(0x72, rnd.randrange(16), 0x0B, 0x01, descriptors=d))
        bufs.append(desc_sense(0x73, rnd.randrange(16), 0x3F, 0x0E, descriptors=d + d, ovfl=1))
    # random fuzz
    for _ in range(3000):
        size = rnd.choice([1, 2, 3, 4, 7, 8, 12, 13, 14, 15, 17, 18, 20, 32, 64])
        b = bytearray(rnd.randrange(256) for _ in range(size))
        b[0] = rnd.choice([0x70, 0x71, 0x72, 0x73, 0xF0, 0xF1, 0xF2, 0xF3, rnd.randrange(256)])
        bufs.append(b)
    for i, buf in enumerate(bufs):
        cls = cls_cycle[i % len(cls_cycle)]
        check_one(cls, buf, "unusual #%d %r" % (i, None if buf is None else bytes(buf[:20])), full=(i % 3 == 0))
    # the same data as bytes / bytearray / memoryview gives the same answer
    for buf in bufs[::7]:
        if not buf:
            continue
        as_bytes = bytes(buf)
        want = oracle_text(as_bytes)
        for variant in (as_bytes, bytearray(as_bytes)):
            try:
                e = SCSIDevice.CheckCondition(variant)
                got = str(e)
                data = e.data
            except Exception as exc:
                got, data = "raised %r" % (exc,), None
            check(got == want and data == oracle_data(as_bytes), "type %s: %r" % (type(variant).__name__, got))


# --------------------------------------------------------------------------
# 5. static helpers and later modification of the instance
# --------------------------------------------------------------------------
def test_helpers():
    rnd = random.Random(5)
    for _ in range(300):
        buf = bytearray(rnd.randrange(256) for _ in range(rnd.choice([1, 5, 8, 13, 18, 40])))
        for cls in (SCSICheckCondition, SCSIDevice.CheckCondition):
            got = cls.unmarshall_fixed_format_sense_data(buf)
            want = dict((n, oracle_field(buf, m, o)) for n, m, o in FIXED_LAYOUT)
            check(type(got) is dict and got == want and list(got) == list(want), "unmarshall fixed %r" % got)
            got = cls.unmarshall_desc_format_sense_data(buf)
            want = dict((n, oracle_field(buf, m, o)) for n, m, o in DESC_LAYOUT)
            check(type(got) is dict and got == want and list(got) == list(want), "unmarshall desc %r" % got)
    a = SCSICheckCondition.unmarshall_fixed_format_sense_data(bytearray(18))
    b = SCSICheckCondition.unmarshall_fixed_format_sense_data(bytearray(18))
    check(a == b and a is not b, "fresh dict per call")
    e = SCSICheckCondition(fixed_sense(0x70, 5, 0x24, 0)).unmarshall_desc_format_sense_data(desc_sense(0x72, 2, 4, 1))
    check(e["sense_key"] == 2 and e["additional_sense_code"] == 4, "static helper via instance")

    # the text follows the instance attributes
    err = SCSIDevice.CheckCondition(fixed_sense(0x70, 5, 0x24, 0))
    err.asc, err.ascq = 0x04, 0x01
    check(str(err) == "Check Condition: Illegal Request(0x05) ASC+Q:LOGICAL UNIT IS IN PROCESS OF BECOMING READY(0x0401)", "asc change")
    err.data["sense_key"] = 2
    check(str(err).startswith("Check Condition: Not Ready(0x02) "), "sense key change")
    err.asc = 0x90
    check(str(err).endswith("ASC+Q:Vendor specific ASC(0x9001)"), "vendor asc change")
    err.show_data = True
    _, out = capture(str, err)
    check(out.startswith("valid -> 0x00\nresponse_code -> 0x70\n") and "sense_key -> 0x02\n" in out, "show_data change")
    check(
        sorted(vars(err)) == ["asc", "ascq", "data", "response_code", "show_data", "valid"],
        "instance attributes %r" % sorted(vars(err)),
    )
    # two errors do not share state
    e1 = SCSICheckCondition(fixed_sense(0x70, 1, 0x17, 1))
    e2 = SCSICheckCondition(desc_sense(0x72, 2, 0x04, 2))
    e3 = SCSICheckCondition(bytearray([0x00]))
    e4 = SCSICheckCondition(None)
    check(e1.data is not e2.data and e3.data is not e4.data, "separate data dicts")
    e3.data["sense_key"] = 4
    check(e4.data == {} and str(e4).startswith("Check Condition: No Sense(0x00)"), "no shared empty dict")
    check(str(e1).endswith("RECOVERED DATA WITH RETRIES(0x1701)") and str(e2).endswith("(0x0402)"), "independent errors")


# --------------------------------------------------------------------------
# 6. through the devices
# --------------------------------------------------------------------------
def test_devices():
    rnd = random.Random(77)
    senses = [
        fixed_sense(0x70, 0x5, 0x24, 0x00),
        fixed_sense(0x71, 0x6, 0x29, 0x00, valid=1, info=7),
        desc_sense(0x72, 0x2, 0x04, 0x01),
        desc_sense(0x73, 0xB, 0x47, 0x03, descriptors=bytes([0x80, 2, 1, 2])),
        fixed_sense(0x70, 0x9, 0x80, 0x80),
        desc_sense(0x72, 0xC, 0x7E, 0x7E),
        bytes(fixed_sense(0x70, 0x3, 0x11, 0x00)),
        bytearray(fixed_sense(0x70, 0x3, 0x11, 0x00)[:8]),
        bytearray([0x72]),
        bytearray([0x00] * 18),
        bytearray(),
        b"",
        None,
    ]
    for _ in range(200):
        b = bytearray(rnd.randrange(256) for _ in range(rnd.choice([2, 8, 14, 18, 24])))
        b[0] = rnd.choice([0x70, 0x71, 0x72, 0x73, 0xF0, 0xF2, 0x7F, 0x00])
        senses.append(b)

    dev = SCSIDevice("/dev/null")
    idev = ISCSIDevice("iscsi://127.0.0.1/iqn.fake:target/0")
    try:
        for d, name in ((dev, "sgio"), (idev, "iscsi")):
            _next_sense["value"] = _NO_ERROR
            cmd = TestUnitReady(d.opcodes.TEST_UNIT_READY)
            try:
                d.execute(cmd)
                check(True, "")
            except Exception as exc:
                check(False, "%s: good status raised %r" % (name, exc))
            for i, sense in enumerate(senses):
                _next_sense["value"] = sense
                cmd = TestUnitReady(d.opcodes.TEST_UNIT_READY)
                try:
                    d.execute(cmd)
                    check(False, "%s #%d: no exception" % (name, i))
                except SCSICheckCondition as err:
                    check(type(err) is d.CheckCondition, "%s #%d: type %r" % (name, i, type(err)))
                    check(isinstance(err, type(d).CheckCondition), "%s #%d: catchable by class attribute" % (name, i))
                    original = None if sense is None else bytes(sense)
                    try:
                        text, out = capture(str, err)
                        check(text == oracle_text(original) and out == "", "%s #%d: text %r" % (name, i, text))
                        check(err.data == oracle_data(original), "%s #%d: data" % (name, i))
                        _, out = capture(err.print_data)
                        check(out == oracle_printed(original), "%s #%d: print" % (name, i))
                        _, out = capture(print, err)
                        check(out == oracle_text(original) + "\n", "%s #%d: print(err)" % (name, i))
                    except Exception as exc:
                        check(False, "%s #%d: text raised %r" % (name, i, exc))
                except Exception as exc:
                    check(False, "%s #%d: wrong exception %r" % (name, i, exc))
        # iSCSI task that carries no raw sense at all
        _next_sense["value"] = _NO_RAW_SENSE
        try:
            idev.execute(TestUnitReady(idev.opcodes.TEST_UNIT_READY))
            check(False, "iscsi no raw sense: no exception")
        except ISCSIDevice.CheckCondition as err:
            check(
                str(err) == "Check Condition: No Sense(0x00) ASC+Q:NO ADDITIONAL SENSE INFORMATION(0x0000)" and err.data == {},
                "iscsi no raw sense text",
            )
        except Exception as exc:
            check(False, "iscsi no raw sense: %r" % (exc,))
        # en_raw_sense on sgio keeps the sense without raising
        _next_sense["value"] = senses[0]
        cmd = TestUnitReady(dev.opcodes.TEST_UNIT_READY)
        try:
            dev.execute(cmd, en_raw_sense=True)
            check(cmd.raw_sense_data is senses[0], "raw sense kept")
            check(str(SCSICheckCondition(cmd.raw_sense_data)).endswith("Invalid Field In CDB(0x2400)"), "raw sense text")
        except Exception as exc:
            check(False, "en_raw_sense raised %r" % (exc,))
    finally:
        _next_sense["value"] = _NO_ERROR
        dev.close()
        idev.close()


# --------------------------------------------------------------------------
# 7. the converter helpers the decoding is built on
# --------------------------------------------------------------------------
def test_converter():
    rnd = random.Random(99)
    # scsi_ba_to_int / scsi_int_to_ba
    for _ in range(500):
        size = rnd.randrange(0, 12)
        raw = bytes(rnd.randrange(256) for _ in range(size))
        want = int.from_bytes(raw, "big")
        for variant in (raw, bytearray(raw), list(raw)):
            got = scsi_ba_to_int(variant)
            check(got == want and type(got) is int, "scsi_ba_to_int(%r) = %r" % (variant, got))
        back = scsi_int_to_ba(want, size)
        check(type(back) is bytearray and bytes(back) == raw, "scsi_int_to_ba(%r, %d) = %r" % (want, size, back))
    check(scsi_ba_to_int(bytearray()) == 0 and scsi_ba_to_int(b"") == 0, "scsi_ba_to_int empty")
    check(scsi_int_to_ba() == bytearray(4), "scsi_int_to_ba default")
    check(scsi_int_to_ba(34, 4) == bytearray(b'\x00\x00\x00"'), "scsi_int_to_ba docstring")
    check(scsi_int_to_ba(0x1234567890, 2) == bytearray(b"\x78\x90"), "scsi_int_to_ba truncates")
    check(scsi_int_to_ba(to_convert=0x0102, array_size=3) == bytearray(b"\x00\x01\x02"), "scsi_int_to_ba keywords")
    check(scsi_int_to_ba(5, 0) == bytearray(), "scsi_int_to_ba size 0")
    check(scsi_ba_to_int(ba=b"\x01\x00") == 256, "scsi_ba_to_int keyword")

    # decode_bits: legacy [mask, offset] notation, random masks
    for _ in range(1500):
        size = rnd.randrange(1, 24)
        data = bytearray(rnd.randrange(256) for _ in range(size))
        width = rnd.randrange(1, 9)
        lo = rnd.randrange(0, 8)
        hi = rnd.randrange(lo, width * 8)
        if hi < (width - 1) * 8 + 0:
            hi = (width - 1) * 8 + rnd.randrange(0, 8)
            lo = min(lo, hi)
        mask = ((1 << (hi + 1)) - 1) & ~((1 << lo) - 1)
        if rnd.random() < 0.3:  # non contiguous masks
            mask &= ~(1 << rnd.randrange(lo, hi + 1)) | (1 << hi) | (1 << lo)
        offset = rnd.randrange(0, size + 2)
        for spec in ([mask, offset], (mask, offset)):
            res = {"keep": "me"}
            ret = decode_bits(data, {"f": spec}, res)
            want = oracle_field(data, mask, offset)
            check(ret is None and res == {"keep": "me", "f": want}, "decode_bits mask=%X off=%d: %r != %r" % (mask, offset, res, want))
    # several fields, order and overwriting of the result
    data = bytearray(range(1, 33))
    layout = {
        "z": [0xF0, 0],
        "a": [0x0F, 0],
        "w16": [0xFFFF, 2],
        "m": [0x3FFC, 4],
        "blob": ("b", 4, 5),
        "words": ("w", 6, 3),
        "dwords": ("dw", 8, 2),
        "q": [0xFFFFFFFFFFFFFFFF, 10],
        "past": [0xFFFF, 31],
        "far": [0xFF, 40],
        "blob_past": ("b", 30, 8),
    }
    res = {"a": "old", "first": 1}
    decode_bits(data, layout, res)
    check(
        res
        == {
            "a": 1,
            "first": 1,
            "z": 0,
            "w16": 0x0304,
            "m": (0x0506 & 0x3FFC) >> 2,
            "blob": bytearray([5, 6, 7, 8, 9]),
            "words": bytearray([7, 8, 9, 10, 11, 12]),
            "dwords": bytearray(range(9, 17)),
            "q": int.from_bytes(bytes(range(11, 19)), "big"),
            "past": 32,
            "far": 0,
            "blob_past": bytearray([31, 32]),
        },
        "decode_bits layout %r" % res,
    )
    check(list(res) == ["a", "first", "z", "w16", "m", "blob", "words", "dwords", "q", "past", "far", "blob_past"], "decode_bits order %r" % list(res))
    check(type(res["blob"]) is bytearray and type(res["a"]) is int, "decode_bits types")
    res = {}
    decode_bits(bytes(data), layout, res)
    check(res["blob"] == b"\x05\x06\x07\x08\x09" and type(res["blob"]) is bytes and res["w16"] == 0x0304, "decode_bits on bytes")
    res = {}
    decode_bits(data, {}, res)
    check(res == {}, "decode_bits empty layout")
    res = {}
    decode_bits(data=data, check_dict={"x": [0x80, 31]}, result_dict=res)
    check(res == {"x": 0}, "decode_bits keywords")

    # encode_dict is the inverse
    for _ in range(300):
        fields = {"k": [0x0F, 2], "asc": [0xFF, 12], "ascq": [0xFF, 13], "info": [0xFFFFFFFF, 3], "v": [0x80, 0], "rc": [0x7F, 0], "sks": [0x7FFFFF, 15]}
        values = dict((k, rnd.randrange(0, oracle_field(b"\xff" * 20, m, 0) + 1)) for k, (m, o) in fields.items())
        out = bytearray(18)
        ret = encode_dict(values, fields, out)
        back = {}
        decode_bits(out, fields, back)
        check(ret is None and back == values, "encode/decode round trip %r %r" % (values, back))
    out = bytearray(8)
    encode_dict({"b": b"\x01\x02", "w": b"\x03\x04\x05\x06", "skip": 9, "bit": 1}, {"b": ("b", 0, 2), "w": ("w", 2, 2), "bit": [0x40, 7]}, out)
    check(out == bytearray(b"\x01\x02\x03\x04\x05\x06\x00\x40"), "encode_dict blobs %r" % out)

    # print_data
    _, out = capture(print_data, {"a": 1, "s": "txt", "n": {"x": 255, "y": "z"}, "big": 0x12345})
    check(out == "a -> 0x01\ns -> txt\nn\nx -> 0xFF\ny -> z\nbig -> 0x12345\n", "print_data %r" % out)
    _, out = capture(print_data, {})
    check(out == "", "print_data empty")


def main():
    test_public_surface()
    classes = exception_classes()
    test_literals()
    test_sweep(classes)
    test_unusual(classes)
    test_helpers()
    test_devices()
    test_converter()
    finish()


if __name__ == "__main__":
    main()
