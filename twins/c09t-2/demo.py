# coding: utf-8
"""
Demo / check for property C09 of python-scsi:

  What a command object encodes or decodes depends only on that command's class
  and its own arguments: creating, using or discarding any other command, before,
  after or concurrently in another thread, never changes a command's CDB, its
  buffers, or the result of decoding or encoding a CDB with its class.  Repeating
  a marshalling call with equal inputs yields equal bytes.

Everything is checked through the public API only (command constructors, the cdb /
dataout / datain / result properties, marshall_cdb / unmarshall_cdb / build_cdb,
the ExtendedCopy marshall_* class methods and the SCSI facade).

run as:  cd <worktree> && PYTHONPATH=<worktree> /venv/bin/python SEED/demo.py
"""
import copy
import gc
import random
import sys
import threading
import types

# --------------------------------------------------------------------------------
# the optional bindings are not installed: give the library harmless stand-ins
# --------------------------------------------------------------------------------
for _name in ("sgio", "iscsi"):
    try:
        __import__(_name)
    except Exception:
        sys.modules[_name] = types.ModuleType(_name)

from pyscsi.pyscsi import scsi_enum_command as enum_command  # noqa: E402
from pyscsi.pyscsi.scsi import SCSI  # noqa: E402
from pyscsi.pyscsi.scsi_cdb_atapassthrough12 import ATAPassThrough12  # noqa: E402
from pyscsi.pyscsi.scsi_cdb_atapassthrough16 import ATAPassThrough16  # noqa: E402
from pyscsi.pyscsi.scsi_cdb_exchangemedium import ExchangeMedium  # noqa: E402
from pyscsi.pyscsi.scsi_cdb_extended_copy_spc4 import (  # noqa: E402
    ExtendedCopy as ExtendedCopy4,
)
from pyscsi.pyscsi.scsi_cdb_extended_copy_spc5 import (  # noqa: E402
    ExtendedCopy as ExtendedCopy5,
)
from pyscsi.pyscsi.scsi_cdb_getlbastatus import GetLBAStatus  # noqa: E402
from pyscsi.pyscsi.scsi_cdb_initelementstatus import (  # noqa: E402
    InitializeElementStatus,
)
from pyscsi.pyscsi.scsi_cdb_initelementstatuswithrange import (  # noqa: E402
    InitializeElementStatusWithRange,
)
from pyscsi.pyscsi.scsi_cdb_inquiry import Inquiry  # noqa: E402
from pyscsi.pyscsi.scsi_cdb_modesense6 import ModeSelect6, ModeSense6  # noqa: E402
from pyscsi.pyscsi.scsi_cdb_modesense10 import ModeSelect10, ModeSense10  # noqa: E402
from pyscsi.pyscsi.scsi_cdb_movemedium import MoveMedium  # noqa: E402
from pyscsi.pyscsi.scsi_cdb_openclose_exportimport_element import (  # noqa: E402
    OpenCloseImportExportElement,
)
from pyscsi.pyscsi.scsi_cdb_persistentreservein import (  # noqa: E402
    PersistentReserveInReadFullStatus,
    PersistentReserveInReadKeys,
    PersistentReserveInReadReservation,
    PersistentReserveInReportCapabilities,
)
from pyscsi.pyscsi.scsi_cdb_persistentreserveout import (  # noqa: E402
    PersistentReserveOut,
)
from pyscsi.pyscsi.scsi_cdb_positiontoelement import PositionToElement  # noqa: E402
from pyscsi.pyscsi.scsi_cdb_preventallow_mediumremoval import (  # noqa: E402
    PreventAllowMediumRemoval,
)
from pyscsi.pyscsi.scsi_cdb_read10 import Read10  # noqa: E402
from pyscsi.pyscsi.scsi_cdb_read12 import Read12  # noqa: E402
from pyscsi.pyscsi.scsi_cdb_read16 import Read16  # noqa: E402
from pyscsi.pyscsi.scsi_cdb_readcapacity10 import ReadCapacity10  # noqa: E402
from pyscsi.pyscsi.scsi_cdb_readcapacity16 import ReadCapacity16  # noqa: E402
from pyscsi.pyscsi.scsi_cdb_readcd import ReadCd  # noqa: E402
from pyscsi.pyscsi.scsi_cdb_readdiscinformation import (  # noqa: E402
    ReadDiscInformation,
)
from pyscsi.pyscsi.scsi_cdb_readelementstatus import ReadElementStatus  # noqa: E402
from pyscsi.pyscsi.scsi_cdb_report_luns import ReportLuns  # noqa: E402
from pyscsi.pyscsi.scsi_cdb_report_priority import ReportPriority  # noqa: E402
from pyscsi.pyscsi.scsi_cdb_report_target_port_groups import (  # noqa: E402
    ReportTargetPortGroups,
)
from pyscsi.pyscsi.scsi_cdb_synchronize_cache10 import (  # noqa: E402
    SynchronizeCache10,
)
from pyscsi.pyscsi.scsi_cdb_synchronize_cache16 import (  # noqa: E402
    SynchronizeCache16,
)
from pyscsi.pyscsi.scsi_cdb_testunitready import TestUnitReady  # noqa: E402
from pyscsi.pyscsi.scsi_cdb_write10 import Write10  # noqa: E402
from pyscsi.pyscsi.scsi_cdb_write12 import Write12  # noqa: E402
from pyscsi.pyscsi.scsi_cdb_write16 import Write16  # noqa: E402
from pyscsi.pyscsi.scsi_cdb_writesame10 import WriteSame10  # noqa: E402
from pyscsi.pyscsi.scsi_cdb_writesame16 import WriteSame16  # noqa: E402
from pyscsi.pyscsi.scsi_command import SCSICommand  # noqa: E402
from pyscsi.pyscsi.scsi_enum_inquiry import (  # noqa: E402
    ASSOCIATION,
    CODE_SET,
    DESIGNATOR,
    NAA,
)
from pyscsi.utils.converter import decode_bits, encode_dict  # noqa: E402

sbc, smc, mmc, spc, ssc = (
    enum_command.sbc,
    enum_command.smc,
    enum_command.mmc,
    enum_command.spc,
    enum_command.ssc,
)

FAILURES = []
CHECKS = [0]


def check(cond, what):
    CHECKS[0] += 1
    if not cond:
        FAILURES.append(what)
        if len(FAILURES) <= 25:
            print("FAIL: %s" % what)
    return cond


# --------------------------------------------------------------------------------
# input material
# --------------------------------------------------------------------------------
def naa_target(word, pdt=0x00, vsi=0x00000C44, blk=512):
    """an Identification descriptor target/CSCD descriptor (word: 'target'|'cscd')"""
    name = (
        "Identification descriptor target descriptor"
        if word == "target"
        else "Identification Descriptor CSCD descriptor"
    )
    return {
        "descriptor_type_code": name,
        "peripheral_device_type": pdt,
        "%s_descriptor_parameters"
        % word: {
            "association": ASSOCIATION.ASSOCIATED_WITH_LUN,
            "code_set": CODE_SET.BINARY,
            "designator_type": DESIGNATOR.NAA,
            "designator": {
                "naa": NAA.IEEE_REGISTERED_EXTENDED,
                "ieee_company_id": 0x589CFC,
                "vendor_specific_identifier": vsi,
                "vendor_specific_identifier_extension": 0xC482CC288FBC0D75,
            },
        },
        "device_type_specific_parameters": {"disk_block_length": blk},
    }


def vendor_target(word, pdt, params, rel=42, blob="deadbeef"):
    return {
        "descriptor_type_code": 0xE4,
        "peripheral_device_type": pdt,
        "relative_initiator_port_identifier": rel,
        "%s_descriptor_parameters"
        % word: {
            "designator_type": DESIGNATOR.VENDOR_SPECIFIC,
            "designator": {"vendor_specific": bytearray.fromhex(blob)},
        },
        "device_type_specific_parameters": params,
    }


def segments(word):
    src = "source_%s_descriptor_id" % word
    dst = "destination_%s_descriptor_id" % word
    return [
        {
            "descriptor_type_code": "Copy from block device to block device",
            "dc": 1,
            "block_device_number_of_blocks": 4,
            "source_block_device_logical_block_address": 1,
            "destination_block_device_logical_block_address": 10,
            src: 0,
            dst: 1,
        },
        {
            "descriptor_type_code": 0x00,
            "cat": 1,
            src: 1,
            dst: 0,
            "stream_device_transfer_length": 0x123456,
            "block_device_number_of_blocks": 0xFFFF,
            "block_device_logical_block_address": 0xFFFFFFFFFFFFFFFF,
        },
        {
            "descriptor_type_code": "stream -> block",
            src: 0xFFFF,
            dst: 0,
            "stream_device_transfer_length": 1,
            "block_device_number_of_blocks": 2,
            "block_device_logical_block_address": 3,
        },
        {
            "descriptor_type_code": 0x0D,
            "cat": 0,
            "dc": 0,
            src: 2,
            dst: 3,
            "block_device_number_of_blocks": 0,
            "source_block_device_logical_block_address": 2**63,
            "destination_block_device_logical_block_address": 2**64 - 1,
        },
        {
            "descriptor_type_code": "Copy from block device to stream device and hold a copy of processed data for the application client",
            src: 7,
            dst: 8,
        },
    ]


MODE_PAGES = {
    "medium_type": 0,
    "device_specific_parameter": 0,
    "block_descriptor_length": 0,
    "mode_pages": [
        {
            "ps": 0,
            "spf": 0,
            "page_code": ModeSense6.PAGE_CODE.CONTROL,
            "tst": 1,
            "swp": 1,
            "busy_timeout_period": 500,
        },
        {
            "ps": 1,
            "spf": 0,
            "page_code": ModeSense6.PAGE_CODE.DISCONNECT_RECONNECT,
            "bus_inactivity_limit": 7,
        },
    ],
}
MODE_PAGES_10 = dict(MODE_PAGES, longlba=0)

IQN = "iqn.1993-08.org.debian:01:0123456789ab"


def build_catalogue():
    """
    -> list of (label, class, factory).  Every factory builds a brand new command
    from brand new argument objects, so calling it twice means 'equal inputs'.
    """
    PRI = spc.PERSISTENT_RESERVE_IN
    PRO = spc.PERSISTENT_RESERVE_OUT
    A3 = sbc.SBC_OPCODE_A3
    S9E = sbc.SBC_OPCODE_9E
    cat = []

    def add(label, cls, factory):
        cat.append((label, cls, factory))

    # --- block commands, the usual and the unusual values
    for n, kw in enumerate(
        (
            {},
            dict(rdprotect=2, dpo=1, fua=1, rarc=1, group=19),
            dict(rdprotect=7, group=0x1F),
            dict(dpo=True, fua=False, rarc=True),
        )
    ):
        add("Read10/%d" % n, Read10, lambda kw=kw: Read10(sbc.READ_10, 512, 1024, 27, **kw))
        add("Read12/%d" % n, Read12, lambda kw=kw: Read12(sbc.READ_12, 512, 2**32 - 1, 3, **kw))
        add("Read16/%d" % n, Read16, lambda kw=kw: Read16(sbc.READ_16, 4096, 2**64 - 1, 2, **kw))
    add("Read10/max", Read10, lambda: Read10(sbc.READ_10, 1, 0xFFFFFFFF, 0xFFFF))
    add("Read10/zero", Read10, lambda: Read10(sbc.READ_10, 512, 0, 0))
    add("Read10/mmc", Read10, lambda: Read10(mmc.READ_10, 2048, 16, 1))
    add("Read12/mmc", Read12, lambda: Read12(mmc.READ_12, 2048, 17, 2, fua=1))
    for n, kw in enumerate(
        ({}, dict(wrprotect=2, dpo=1, fua=1, group=19), dict(wrprotect=7, group=31))
    ):
        add("Write10/%d" % n, Write10, lambda kw=kw: Write10(sbc.WRITE_10, 512, 5, 2, bytearray(range(256)) * 4, **kw))
        add("Write12/%d" % n, Write12, lambda kw=kw: Write12(sbc.WRITE_12, 512, 2**31, 1, bytearray(b"\xa5" * 512), **kw))
        add("Write16/%d" % n, Write16, lambda kw=kw: Write16(sbc.WRITE_16, 512, 2**63, 1, bytearray(b"\x5a" * 512), **kw))
    add("WriteSame10/0", WriteSame10, lambda: WriteSame10(sbc.WRITE_SAME_10, 512, 7, 9, bytearray(b"\x11" * 512)))
    add("WriteSame10/1", WriteSame10, lambda: WriteSame10(sbc.WRITE_SAME_10, 512, 7, 9, bytearray(b"\x22" * 512), wrprotect=4, anchor=1, unmap=1, group=3))
    add("WriteSame16/0", WriteSame16, lambda: WriteSame16(sbc.WRITE_SAME_16, 512, 2**40, 2**20, bytearray(b"\x33" * 512)))
    add("WriteSame16/ndob", WriteSame16, lambda: WriteSame16(sbc.WRITE_SAME_16, 512, 1, 2, None, ndob=1, unmap=1, anchor=1, group=1))
    add("SynchronizeCache10/0", SynchronizeCache10, lambda: SynchronizeCache10(sbc.SYNCHRONIZE_CACHE_10, 1024, 27))
    add("SynchronizeCache10/1", SynchronizeCache10, lambda: SynchronizeCache10(sbc.SYNCHRONIZE_CACHE_10, 2**32 - 1, 2**16 - 1, immed=1, group=19))
    add("SynchronizeCache16/0", SynchronizeCache16, lambda: SynchronizeCache16(sbc.SYNCHRONIZE_CACHE_16, 2**64 - 1, 2**32 - 1, immed=1, group=31))
    add("ReadCapacity10/0", ReadCapacity10, lambda: ReadCapacity10(sbc.READ_CAPACITY_10))
    add("ReadCapacity10/1", ReadCapacity10, lambda: ReadCapacity10(sbc.READ_CAPACITY_10, alloclen=0))
    add("ReadCapacity16/0", ReadCapacity16, lambda: ReadCapacity16(S9E))
    add("ReadCapacity16/1", ReadCapacity16, lambda: ReadCapacity16(S9E, alloclen=4096))
    add("GetLBAStatus/0", GetLBAStatus, lambda: GetLBAStatus(S9E, 19938722))
    add("GetLBAStatus/1", GetLBAStatus, lambda: GetLBAStatus(S9E, 2**64 - 1, alloclen=24))
    add("ATAPassThrough12/0", ATAPassThrough12, lambda: ATAPassThrough12(sbc.ATA_PASS_THROUGH_12, 4, 2, 1, 1, 0, 0, 0xD0, 1, 0xC24F00, 0xB0, blocksize=512))
    add("ATAPassThrough12/1", ATAPassThrough12, lambda: ATAPassThrough12(sbc.ATA_PASS_THROUGH_12, 3, 0, 0, 0, 0, 0, 0, 0, 0, 0xE5, ck_cond=1, device=0xA0, control=1))
    add("ATAPassThrough16/0", ATAPassThrough16, lambda: ATAPassThrough16(sbc.ATA_PASS_THROUGH_16, 4, 2, 1, 1, 0, 0, 0, 1, 0, 0xEC, blocksize=512))
    add("ATAPassThrough16/1", ATAPassThrough16, lambda: ATAPassThrough16(sbc.ATA_PASS_THROUGH_16, 6, 2, 1, 1, 0, 0, 0xFFFF, 8, 2**47, 0x25, blocksize=512, extend=1, device=0x40, ck_cond=1))
    # --- primary commands
    add("TestUnitReady", TestUnitReady, lambda: TestUnitReady(spc.TEST_UNIT_READY))
    for n, kw in enumerate(({}, dict(evpd=1, page_code=0x83, alloclen=255), dict(evpd=1, page_code=0xB0, alloclen=0xFFFF), dict(alloclen=0))):
        add("Inquiry/%d" % n, Inquiry, lambda kw=kw: Inquiry(spc.INQUIRY, **kw))
    add("ModeSense6/0", ModeSense6, lambda: ModeSense6(spc.MODE_SENSE_6, 0x0A))
    add("ModeSense6/1", ModeSense6, lambda: ModeSense6(spc.MODE_SENSE_6, 0x3F, sub_page_code=0xFF, dbd=1, pc=3, alloclen=255))
    add("ModeSense10/0", ModeSense10, lambda: ModeSense10(spc.MODE_SENSE_10, 0x1D))
    add("ModeSense10/1", ModeSense10, lambda: ModeSense10(spc.MODE_SENSE_10, 0x3F, sub_page_code=0xFF, llbaa=1, dbd=1, pc=3, alloclen=0xFFFF))
    add("ModeSelect6/0", ModeSelect6, lambda: ModeSelect6(spc.MODE_SELECT_6, copy.deepcopy(MODE_PAGES)))
    add("ModeSelect6/1", ModeSelect6, lambda: ModeSelect6(spc.MODE_SELECT_6, copy.deepcopy(MODE_PAGES), pf=0, sp=1))
    add("ModeSelect10/0", ModeSelect10, lambda: ModeSelect10(spc.MODE_SELECT_10, copy.deepcopy(MODE_PAGES_10)))
    add("ModeSelect10/1", ModeSelect10, lambda: ModeSelect10(spc.MODE_SELECT_10, copy.deepcopy(MODE_PAGES_10), pf=0, sp=1))
    add("PreventAllow/0", PreventAllowMediumRemoval, lambda: PreventAllowMediumRemoval(spc.PREVENT_ALLOW_MEDIUM_REMOVAL))
    add("PreventAllow/1", PreventAllowMediumRemoval, lambda: PreventAllowMediumRemoval(spc.PREVENT_ALLOW_MEDIUM_REMOVAL, prevent=3))
    add("ReportLuns/0", ReportLuns, lambda: ReportLuns(spc.REPORT_LUNS))
    add("ReportLuns/1", ReportLuns, lambda: ReportLuns(spc.REPORT_LUNS, report=2, alloclen=4096))
    add("ReportPriority/0", ReportPriority, lambda: ReportPriority(A3))
    add("ReportPriority/1", ReportPriority, lambda: ReportPriority(A3, priority=3, alloclen=8))
    add("ReportTargetPortGroups/0", ReportTargetPortGroups, lambda: ReportTargetPortGroups(A3))
    add("ReportTargetPortGroups/1", ReportTargetPortGroups, lambda: ReportTargetPortGroups(A3, data_format=1, alloclen=2**12))
    add("PRIn/keys", PersistentReserveInReadKeys, lambda: PersistentReserveInReadKeys(PRI))
    add("PRIn/resv", PersistentReserveInReadReservation, lambda: PersistentReserveInReadReservation(PRI, alloclen=8))
    add("PRIn/caps", PersistentReserveInReportCapabilities, lambda: PersistentReserveInReportCapabilities(PRI, alloclen=0xFFFF))
    add("PRIn/full", PersistentReserveInReadFullStatus, lambda: PersistentReserveInReadFullStatus(PRI, alloclen=2048))
    add("PROut/register", PersistentReserveOut, lambda: PersistentReserveOut(PRO, PRO.serviceaction.REGISTER, service_action_reservation_key=0xABCDEF0123456789))
    add("PROut/reserve", PersistentReserveOut, lambda: PersistentReserveOut(PRO, PRO.serviceaction.RESERVE, scope=0, pr_type=5, reservation_key=0x1122334455667788))
    add(
        "PROut/spec_i_pt",
        PersistentReserveOut,
        lambda: PersistentReserveOut(
            PRO,
            PRO.serviceaction.REGISTER,
            service_action_reservation_key=1,
            spec_i_pt=1,
            aptpl=1,
            transport_ids=[{"tpid_format": 0, "protocol_id": 5, "iscsi_name": IQN}],
        ),
    )
    # --- media changer / multimedia commands
    add("ExchangeMedium/0", ExchangeMedium, lambda: ExchangeMedium(smc.EXCHANGE_MEDIUM, 15, 32, 64, 32))
    add("ExchangeMedium/1", ExchangeMedium, lambda: ExchangeMedium(smc.EXCHANGE_MEDIUM, 0xFFFF, 0xFFFE, 0xFFFD, 0xFFFC, inv1=1, inv2=1))
    add("InitElementStatus", InitializeElementStatus, lambda: InitializeElementStatus(smc.INITIALIZE_ELEMENT_STATUS))
    add("InitElementStatusWithRange/0", InitializeElementStatusWithRange, lambda: InitializeElementStatusWithRange(smc.INITIALIZE_ELEMENT_STATUS_WITH_RANGE, 15, 3, rng=1, fast=1))
    add("MoveMedium/0", MoveMedium, lambda: MoveMedium(smc.MOVE_MEDIUM, 15, 32, 64, invert=1))
    add("OpenClose/0", OpenCloseImportExportElement, lambda: OpenCloseImportExportElement(smc.OPEN_CLOSE_IMPORT_EXPORT_ELEMENT, 32, 1))
    add("PositionToElement/0", PositionToElement, lambda: PositionToElement(smc.POSITION_TO_ELEMENT, 15, 32, invert=1))
    add("ReadElementStatus/0", ReadElementStatus, lambda: ReadElementStatus(smc.READ_ELEMENT_STATUS, 300, 700))
    add("ReadElementStatus/1", ReadElementStatus, lambda: ReadElementStatus(smc.READ_ELEMENT_STATUS, 0xFFFF, 0xFFFF, element_type=4, voltag=1, curdata=0, dvcid=1, alloclen=0xFFFF))
    add("ReadCd/0", ReadCd, lambda: ReadCd(mmc.READ_CD, 640, 2))
    add("ReadCd/1", ReadCd, lambda: ReadCd(mmc.READ_CD, lba=2**32 - 1, tl=3, est=5, dap=1, mcsb=0x1F, c2ei=2, scsb=4))
    add("ReadDiscInformation/0", ReadDiscInformation, lambda: ReadDiscInformation(mmc.READ_DISC_INFORMATION, 0))
    add("ReadDiscInformation/1", ReadDiscInformation, lambda: ReadDiscInformation(mmc.READ_DISC_INFORMATION, 2, alloc_len=0xFFFF))
    # --- extended copy
    add("ExtendedCopy4/defaults", ExtendedCopy4, lambda: ExtendedCopy4(spc.EXTENDED_COPY))
    add("ExtendedCopy4/header", ExtendedCopy4, lambda: ExtendedCopy4(spc.EXTENDED_COPY, list_identifier=0xAA, sequential_striped=1, nrcr=1, priority=7, inline_data=bytearray.fromhex("deadbeef")))
    add(
        "ExtendedCopy4/full",
        ExtendedCopy4,
        lambda: ExtendedCopy4(
            spc.EXTENDED_COPY,
            0x34,
            0,
            0,
            1,
            [
                naa_target("target"),
                naa_target("target", pdt="CD/DVD device", vsi=0xEE1, blk=2048),
                vendor_target("target", "Stream or Tape", {"fixed": 1, "pad": 1, "stream_block_length": 0x123456}),
                vendor_target("target", 0x03, {"pad": 1}, rel=0xFFFF, blob="00ff00ff00"),
                vendor_target("target", "Optical memory device (e.g., some optical disks)", {"pad": 1, "disk_block_length": 0xFFFFFF}),
            ],
            segments("target"),
            bytearray(range(37)),
        ),
    )
    add("ExtendedCopy5/defaults", ExtendedCopy5, lambda: ExtendedCopy5(spc.EXTENDED_COPY))
    add("ExtendedCopy5/header", ExtendedCopy5, lambda: ExtendedCopy5(spc.EXTENDED_COPY, sequential_striped=1, list_id_usage=3, priority=5, g_sense=1, immed=1, list_identifier=0xDEADBEEF, inline_data=bytearray(b"xyz")))
    add(
        "ExtendedCopy5/full",
        ExtendedCopy5,
        lambda: ExtendedCopy5(
            ssc.EXTENDED_COPY,
            1,
            2,
            3,
            0,
            1,
            0x01020304,
            [
                naa_target("cscd"),
                naa_target("cscd", pdt="Simplified direct access device (e.g., magnetic disk)", vsi=0xEE1, blk=4096),
                vendor_target("cscd", 0x01, {"fixed": 1, "stream_block_length": 0x10000}),
                vendor_target("cscd", "Processor device", {"pad": 1}, rel=1, blob="cafe"),
            ],
            segments("cscd") + [dict(segments("cscd")[0], fco=1)],
            bytearray(range(255, 200, -1)),
        ),
    )
    return cat


# --------------------------------------------------------------------------------
# observations
# --------------------------------------------------------------------------------
def layout_of(cls):
    """the CDB layout a command class documents for itself"""
    return cls.__dict__["_cdb_bits"] if "_cdb_bits" in cls.__dict__ else cls._cdb_bits


def oracle_decode(cls, cdb):
    out = {}
    decode_bits(cdb, layout_of(cls), out)
    return out


def oracle_encode(cls, fields, size):
    out = bytearray(size)
    encode_dict(fields, layout_of(cls), out)
    return out


def snapshot(cmd):
    """what a command object encodes: its CDB and its buffers"""
    return (
        bytes(cmd.cdb),
        None if cmd.dataout is None else bytes(cmd.dataout),
        None if cmd.datain is None else bytes(cmd.datain),
    )


def codec_view(cls, cmd):
    """
    decode / re-encode the CDB of a command that has just been created, with the
    command's class and with the command itself
    """
    raw = bytearray(cmd.cdb)
    fields = cls.unmarshall_cdb(raw)
    fields_i = cmd.unmarshall_cdb(raw)
    again = cls.marshall_cdb(dict(fields))
    again_i = cmd.marshall_cdb(dict(fields_i))
    return fields, fields_i, bytes(again), bytes(again_i)


def build_and_observe(label, cls, factory):
    cmd = factory()
    return cmd, snapshot(cmd), codec_view(cls, cmd)


def check_against_oracle(label, cls, snap, view):
    cdb = snap[0]
    fields, fields_i, again, again_i = view
    want = oracle_decode(cls, cdb)
    check(fields == want, "%s: %s.unmarshall_cdb does not follow the layout of the class" % (label, cls.__name__))
    check(fields_i == want, "%s: cmd.unmarshall_cdb does not follow the layout of the class" % label)
    want_bytes = bytes(oracle_encode(cls, want, len(cdb)))
    check(again == want_bytes, "%s: %s.marshall_cdb does not follow the layout of the class" % (label, cls.__name__))
    check(again_i == want_bytes, "%s: cmd.marshall_cdb does not follow the layout of the class" % label)
    check(len(again) == len(cdb), "%s: re-encoded cdb has another length" % label)


class Device(object):
    """a device that records what it is asked to execute and answers with a pattern"""

    def __init__(self, opcodes, fill=None):
        self._opcodes = opcodes
        self.devicetype = None
        self.fill = fill
        self.log = []
        self.closed = 0

    @property
    def opcodes(self):
        return self._opcodes

    @opcodes.setter
    def opcodes(self, value):
        self._opcodes = value

    def execute(self, cmd, en_raw_sense=False):
        self.log.append((cmd, snapshot(cmd), en_raw_sense))
        if self.fill is not None and cmd.datain:
            self.fill(cmd)

    def open(self):
        pass

    def close(self):
        self.closed += 1


class BareSCSI(SCSI):
    """the facade without the INQUIRY that SCSI.__init__ sends (as tests/mock_device)"""

    def __init__(self, dev, blocksize=0):
        self.device = dev
        self._blocksize = blocksize


def facade_calls():
    """(label, opcode table, call) for every method of the facade"""
    PRI = spc.PERSISTENT_RESERVE_IN.serviceaction
    PRO = spc.PERSISTENT_RESERVE_OUT.serviceaction
    data = lambda c: bytearray(c * 512)  # noqa: E731
    return [
        ("read10", sbc, lambda s: s.read10(1024, 27, rdprotect=2, dpo=1, fua=1, rarc=1, group=19)),
        ("read12", sbc, lambda s: s.read12(1024, 27, group=3)),
        ("read16", sbc, lambda s: s.read16(2**40, 3, fua=1)),
        ("write10", sbc, lambda s: s.write10(8, 1, data(b"\x01"), fua=1)),
        ("write12", sbc, lambda s: s.write12(8, 1, data(b"\x02"), wrprotect=3)),
        ("write16", sbc, lambda s: s.write16(2**50, 1, data(b"\x03"), dpo=1)),
        ("writesame10", sbc, lambda s: s.writesame10(9, 100, data(b"\x04"), unmap=1)),
        ("writesame16", sbc, lambda s: s.writesame16(9, 2**30, data(b"\x05"), anchor=1, unmap=1)),
        ("synchronizecache10", sbc, lambda s: s.synchronizecache10(5, 6, immed=1)),
        ("synchronizecache16", sbc, lambda s: s.synchronizecache16(2**60, 6, group=4)),
        ("readcapacity10", sbc, lambda s: s.readcapacity10()),
        ("readcapacity16", sbc, lambda s: s.readcapacity16(alloclen=32)),
        ("getlbastatus", sbc, lambda s: s.getlbastatus(77, alloclen=64)),
        ("atapassthrough12", sbc, lambda s: s.atapassthrough12(4, 2, 1, 1, 0, 0, 0xD0, 1, 0xC24F00, 0xB0, blocksize=512)),
        ("atapassthrough16", sbc, lambda s: s.atapassthrough16(4, 2, 1, 1, 0, 0, 0, 1, 0, 0xEC, blocksize=512)),
        ("reportpriority", sbc, lambda s: s.reportpriority(priority=1, alloclen=64)),
        ("reporttargetportgroups", sbc, lambda s: s.reporttargetportgroups(alloclen=64)),
        ("inquiry", spc, lambda s: s.inquiry()),
        ("inquiry/vpd", spc, lambda s: s.inquiry(evpd=1, page_code=0x00, alloclen=64)),
        ("testunitready", spc, lambda s: s.testunitready()),
        ("modesense6", spc, lambda s: s.modesense6(0x0A, alloclen=64)),
        ("modesense10", spc, lambda s: s.modesense10(0x0A, alloclen=64)),
        ("modeselect6", spc, lambda s: s.modeselect6(copy.deepcopy(MODE_PAGES), sp=1)),
        ("modeselect10", spc, lambda s: s.modeselect10(copy.deepcopy(MODE_PAGES_10), sp=1)),
        ("preventallowmediumremoval", spc, lambda s: s.preventallowmediumremoval(prevent=1)),
        ("reportluns", spc, lambda s: s.reportluns(report=1, alloclen=64)),
        ("persistentreservein/keys", spc, lambda s: s.persistentreservein(PRI.READ_KEYS, alloclen=64)),
        ("persistentreservein/resv", spc, lambda s: s.persistentreservein(PRI.READ_RESERVATION, alloclen=64)),
        ("persistentreservein/caps", spc, lambda s: s.persistentreservein(PRI.REPORT_CAPABILITIES, alloclen=64)),
        ("persistentreservein/full", spc, lambda s: s.persistentreservein(PRI.READ_FULL_STATUS, alloclen=64)),
        ("persistentreserveout", spc, lambda s: s.persistentreserveout(PRO.REGISTER, service_action_reservation_key=0x1234)),
        ("extendedcopy4", spc, lambda s: s.extendedcopy4(list_identifier=3, priority=1, target_descriptor_list=[naa_target("target")], segment_descriptor_list=segments("target")[:2], inline_data=bytearray(b"ab"))),
        ("extendedcopy4/defaults", spc, lambda s: s.extendedcopy4()),
        ("extendedcopy5", spc, lambda s: s.extendedcopy5(list_identifier=3, priority=1, cscd_descriptor_list=[naa_target("cscd")], segment_descriptor_list=segments("cscd")[:2], inline_data=bytearray(b"ab"))),
        ("extendedcopy5/defaults", spc, lambda s: s.extendedcopy5()),
        ("exchangemedium", smc, lambda s: s.exchangemedium(15, 32, 64, 32, inv1=1)),
        ("initializeelementstatus", smc, lambda s: s.initializeelementstatus()),
        ("initializeelementstatuswithrange", smc, lambda s: s.initializeelementstatuswithrange(15, 3, rng=1)),
        ("movemedium", smc, lambda s: s.movemedium(15, 32, 64, invert=1)),
        ("opencloseimportexportelement", smc, lambda s: s.opencloseimportexportelement(32, 1)),
        ("positiontoelement", smc, lambda s: s.positiontoelement(15, 32, invert=1)),
        ("readelementstatus", smc, lambda s: s.readelementstatus(300, 700, element_type=2, voltag=1, alloclen=64)),
        ("readcd", mmc, lambda s: s.readcd(640, 2, est=1, dap=1, mcsb=2, c2ei=1, scsb=2)),
        ("readdiscinformation", mmc, lambda s: s.readdiscinformation(0, alloc_len=64)),
    ]


def run_facade_call(call, table, fill=None):
    dev = Device(table, fill)
    s = BareSCSI(dev, blocksize=512)
    cmd = call(s)
    return dev, cmd


# --------------------------------------------------------------------------------
# the checks
# --------------------------------------------------------------------------------
def part_reference(catalogue):
    """every command on its own: the reference for everything that follows"""
    ref = {}
    for label, cls, factory in catalogue:
        cmd, snap, view = build_and_observe(label, cls, factory)
        check(isinstance(cmd.cdb, bytearray), "%s: cdb is not a bytearray" % label)
        check_against_oracle(label, cls, snap, view)
        ref[label] = (snap, view)
        # repeating a marshalling call with equal inputs yields equal bytes
        cmd2, snap2, view2 = build_and_observe(label, cls, factory)
        check(snap2 == snap, "%s: built twice from equal arguments, two different encodings" % label)
        check(view2 == view, "%s: decoded twice, two different results" % label)
        check(cmd2.cdb is not cmd.cdb, "%s: two commands share one cdb object" % label)
        if cmd.datain is not None and cmd2.datain is not None:
            check(cmd2.datain is not cmd.datain, "%s: two commands share one datain buffer" % label)
    return ref


def part_other_commands(catalogue, ref, rng):
    """
    commands are kept while many other commands are created, used and discarded:
    neither the kept ones nor the new ones may notice
    """
    order = list(catalogue)
    rng.shuffle(order)
    kept = []
    for label, cls, factory in order:
        cmd, snap, view = build_and_observe(label, cls, factory)
        check((snap, view) == ref[label], "%s: differs after other commands were created before it" % label)
        kept.append((label, cls, cmd, snap, cmd.cdb, cmd.dataout, cmd.datain))
        # every command that exists so far is still what it was
        for klabel, kcls, kcmd, ksnap, kcdb, kout, kin in kept[:: max(1, len(kept) // 7)]:
            check(snapshot(kcmd) == ksnap, "%s: changed when %s was created" % (klabel, label))
    # use and discard a lot of other commands
    for round_ in range(3):
        rng.shuffle(order)
        for label, cls, factory in order:
            tmp = factory()
            tmp.cdb[0] ^= 0xFF  # scribbling over another command's cdb ...
            if tmp.datain:
                tmp.datain[0] = 0xEE  # ... and over its buffers
            tmp.result.update(scribble=round_)
            del tmp
        gc.collect()
        for klabel, kcls, kcmd, ksnap, kcdb, kout, kin in kept:
            check(snapshot(kcmd) == ksnap, "%s: changed after other commands were used and discarded" % klabel)
            check(kcmd.cdb is kcdb and kcmd.dataout is kout and kcmd.datain is kin, "%s: buffers were replaced behind its back" % klabel)
            check(kcmd.result == {}, "%s: result changed behind its back: %r" % (klabel, kcmd.result))
    # a kept command still rebuilds its own cdb: build a new one of the same class
    # (this is what makes the class the current one), then ask the old object
    for klabel, kcls, kcmd, ksnap, kcdb, kout, kin in kept:
        fresh = [f for (l, c, f) in catalogue if l == klabel][0]()
        fields = kcmd.unmarshall_cdb(kcmd.cdb)
        check(fields == oracle_decode(kcls, ksnap[0]), "%s: an old command decodes its cdb differently now" % klabel)
        check(bytes(kcmd.build_cdb(**fields)) == bytes(oracle_encode(kcls, fields, len(ksnap[0]))), "%s: an old command builds its cdb differently now" % klabel)
        check(snapshot(fresh) == ksnap, "%s: a later twin differs" % klabel)


def part_pairs(catalogue, ref, rng):
    """A then B then A again, for many pairs (A, B) of different classes"""
    labels = list(range(len(catalogue)))
    pairs = [(a, b) for a in labels for b in labels if catalogue[a][1] is not catalogue[b][1]]
    rng.shuffle(pairs)
    for a, b in pairs[:1500]:
        la, ca, fa = catalogue[a]
        lb, cb, fb = catalogue[b]
        first = fa()
        snap_a = snapshot(first)
        other, snap_b, view_b = build_and_observe(lb, cb, fb)
        check(snapshot(first) == snap_a == ref[la][0], "%s: changed by creating %s" % (la, lb))
        check((snap_b, view_b) == ref[lb], "%s: differs when created after %s" % (lb, la))
        again, snap_a2, view_a2 = build_and_observe(la, ca, fa)
        check((snap_a2, view_a2) == ref[la], "%s: differs when created after %s" % (la, lb))
        check(snapshot(other) == snap_b, "%s: changed by creating %s" % (lb, la))


def part_extended_copy_marshalling(rng, catalogue):
    """the marshall_* class methods of EXTENDED COPY are pure functions of their input"""
    jobs = []
    for word, cls in (("target", ExtendedCopy4), ("cscd", ExtendedCopy5)):
        marshall_one = getattr(cls, "marshall_%s" % word)
        targets = [
            naa_target(word),
            naa_target(word, pdt="Block", vsi=1, blk=0),
            vendor_target(word, 0x01, {"fixed": 1, "pad": 1, "stream_block_length": 3}),
            vendor_target(word, 0x03, {"pad": 1}),
            vendor_target(word, 0x05, {}),
            vendor_target(word, "Stream", {"pad": 0}, blob="0102030405060708090a0b0c0d0e0f10"),
        ]
        for n, t in enumerate(targets):
            jobs.append(("%s.marshall_%s/%d" % (cls.__name__, word, n), lambda t=t, f=marshall_one: f(copy.deepcopy(t))))
        for n, sg in enumerate(segments(word)):
            jobs.append(("%s.marshall_segment/%d" % (cls.__name__, n), lambda sg=sg, c=cls: c.marshall_segment(copy.deepcopy(sg))))
        params = targets[0]["%s_descriptor_parameters" % word]
        jobs.append(("%s.marshall_designator_descriptor" % cls.__name__, lambda p=params, c=cls: c.marshall_designator_descriptor(copy.deepcopy(p))))
        if word == "target":
            jobs.append(("ExtendedCopy4.marshall_parameter_list", lambda t=targets: ExtendedCopy4.marshall_parameter_list(9, 1, 1, 3, copy.deepcopy(t), segments("target"), bytearray(b"inline"))))
        else:
            jobs.append(("ExtendedCopy5.marshall_parameter_list", lambda t=targets: ExtendedCopy5.marshall_parameter_list(1, 2, 3, 1, 1, 0xFFFFFFFF, copy.deepcopy(t), segments("cscd"), bytearray(b"inline"))))
        for key, table, value in (
            ("descriptor_type_code", cls._segment_descriptor_type_codes, "block -> block"),
            ("descriptor_type_code", cls._segment_descriptor_type_codes, 0x0B),
            ("peripheral_device_type", cls._device_type_codes, "CD/DVD device"),
        ):
            jobs.append(("%s.get_code_int(%r)" % (cls.__name__, value), lambda k=key, tb=table, v=value, c=cls: c.get_code_int(k, {k: v}, tb)))
    first = {}
    for label, job in jobs:
        first[label] = job()
        check(isinstance(first[label], (bytearray, int)), "%s: unexpected result type" % label)
    for round_ in range(4):
        rng.shuffle(jobs)
        for label, job in jobs:
            # any other command in between
            l, c, f = catalogue[rng.randrange(len(catalogue))]
            f()
            got = job()
            check(got == first[label] and type(got) is type(first[label]), "%s: repeated with equal input, different output" % label)
    # unusual input: rejected the same way every time, whatever happened before
    bad = [
        ("unknown segment type", ValueError, lambda c, w: c.marshall_segment({"descriptor_type_code": "no such thing"})),
        ("missing segment type", ValueError, lambda c, w: c.marshall_segment({})),
        ("unsupported segment type", NotImplementedError, lambda c, w: c.marshall_segment({"descriptor_type_code": 0x04})),
        ("stray segment key", ValueError, lambda c, w: c.marshall_segment({"descriptor_type_code": 2, "bogus": 1})),
        ("stray target key", ValueError, lambda c, w: getattr(c, "marshall_%s" % w)(dict(naa_target(w), bogus=1))),
        ("bad lu_id_type", ValueError, lambda c, w: getattr(c, "marshall_%s" % w)(dict(naa_target(w), lu_id_type=1))),
        ("unknown device type", ValueError, lambda c, w: getattr(c, "marshall_%s" % w)(dict(naa_target(w), peripheral_device_type=0x1F))),
        ("unsupported descriptor", NotImplementedError, lambda c, w: getattr(c, "marshall_%s" % w)(dict(naa_target(w), descriptor_type_code=0xE0))),
        ("unknown descriptor", ValueError, lambda c, w: getattr(c, "marshall_%s_descriptor_parameters" % w)(0x42, bytearray(32), {})),
        ("failing segment in a list", NotImplementedError, lambda c, w: c(spc.EXTENDED_COPY, segment_descriptor_list=[{"descriptor_type_code": 0x10}])),
    ]
    for word, cls in (("target", ExtendedCopy4), ("cscd", ExtendedCopy5)):
        for label, exc, job in bad:
            for attempt in range(2):
                catalogue[rng.randrange(len(catalogue))][2]()
                try:
                    job(cls, word)
                except exc:
                    check(True, "")
                except Exception as e:  # noqa: BLE001
                    check(False, "%s %s: raised %r instead of %s" % (cls.__module__, label, e, exc.__name__))
                else:
                    check(False, "%s %s: accepted" % (cls.__module__, label))
    # the shared default arguments of the constructors stay empty
    for cls in (ExtendedCopy4, ExtendedCopy5):
        for d in cls.__init__.__defaults__:
            if isinstance(d, (list, bytearray)):
                check(len(d) == 0, "%s: a default argument was modified: %r" % (cls.__module__, d))
    for name in ("extendedcopy4", "extendedcopy5"):
        for d in getattr(SCSI, name).__defaults__:
            if isinstance(d, (list, bytearray)):
                check(len(d) == 0, "SCSI.%s: a default argument was modified: %r" % (name, d))


def pattern_fill(cmd):
    for i in range(len(cmd.datain)):
        cmd.datain[i] = 0
    if isinstance(cmd, ReadCapacity10):
        cmd.datain[:8] = bytearray.fromhex("0012345600000200")[: len(cmd.datain)]
    elif isinstance(cmd, ReadCapacity16):
        cmd.datain[:14] = bytearray.fromhex("000000000012345600001000" + "0a41")
    elif isinstance(cmd, Inquiry) and not cmd.cdb[1] & 1:
        body = bytearray(96)
        body[0] = 0x05
        body[2] = 0x06
        body[4] = 91
        body[8:16] = b"ACMEcorp"
        body[16:32] = b"Widget 3000     "
        body[32:36] = b"1.0b"
        cmd.datain[: len(cmd.datain)] = body[: len(cmd.datain)]


def part_facade(catalogue, rng):
    """the same through the SCSI facade, with a device that records what it gets"""
    calls = facade_calls()
    ref = {}
    for label, table, call in calls:
        dev, cmd = run_facade_call(call, table, pattern_fill)
        check(len(dev.log) == 1 and dev.log[0][0] is cmd, "%s: the device did not get exactly the command that is returned" % label)
        check(dev.log[0][1][0] == bytes(cmd.cdb), "%s: the cdb changed after the command was executed" % label)
        check(dev.log[0][2] == label.startswith("atapassthrough"), "%s: wrong en_raw_sense" % label)
        check(dev.opcodes is table, "%s: the opcode table of the device was replaced" % label)
        check_against_oracle(label, type(cmd), snapshot(cmd), codec_view(type(cmd), cmd))
        ref[label] = (type(cmd), snapshot(cmd), copy.deepcopy(cmd.result))
    check(ref["readcapacity10"][2] == {"returned_lba": 0x123456, "block_length": 512}, "readcapacity10: decoded %r" % (ref["readcapacity10"][2],))
    check(ref["readcapacity16"][2].get("returned_lba") == 0x123456 and ref["readcapacity16"][2].get("block_length") == 4096, "readcapacity16: decoded %r" % (ref["readcapacity16"][2],))
    check(ref["inquiry"][2].get("peripheral_device_type") == 5 and ref["inquiry"][2].get("t10_vendor_identification") == bytearray(b"ACMEcorp"), "inquiry: decoded %r" % (ref["inquiry"][2],))
    kept = []
    for round_ in range(3):
        rng.shuffle(calls)
        for label, table, call in calls:
            l, c, f = catalogue[rng.randrange(len(catalogue))]
            f()
            dev, cmd = run_facade_call(call, table, pattern_fill)
            check((type(cmd), snapshot(cmd), cmd.result) == ref[label], "%s: differs on repetition %d" % (label, round_))
            kept.append((label, cmd, snapshot(cmd), copy.deepcopy(cmd.result)))
    for label, cmd, snap, result in kept:
        check(snapshot(cmd) == snap and cmd.result == result, "%s: changed after later facade calls" % label)
    # unmarshall again, later, on an old command: same result as the first time
    for label, cmd, snap, result in kept[:: 5]:
        if result:
            l, c, f = catalogue[rng.randrange(len(catalogue))]
            f()
            if isinstance(cmd, Inquiry):
                cmd.unmarshall(evpd=cmd.cdb[1] & 1)
            elif isinstance(cmd, ReadCd):
                continue
            else:
                cmd.unmarshall()
            check(cmd.result == result, "%s: unmarshalling the same datain again gives another result" % label)
    # the real constructor of the facade: it sends an INQUIRY and picks the opcode table
    for pdt, table in ((0x00, sbc), (0x04, sbc), (0x07, sbc), (0x01, ssc), (0x02, ssc), (0x09, ssc), (0x03, spc), (0x08, smc), (0x05, mmc)):
        def fill(cmd, pdt=pdt):
            cmd.datain[0] = pdt

        dev = Device(spc, fill)
        with SCSI(dev, blocksize=512) as s:
            check(dev.opcodes is table and dev.devicetype == pdt, "SCSI(): device type %#x selected %r" % (pdt, dev.opcodes))
            check(len(dev.log) == 1 and dev.log[0][1][0] == bytes.fromhex("120000006000"), "SCSI(): unexpected first command")
            check(s.blocksize == 512, "SCSI(): blocksize")
            r = s.testunitready()
            check(bytes(r.cdb) == bytes(6), "SCSI(): test unit ready cdb")
            s(Device(spc, fill))
            check(s.device is not dev and s.device.opcodes is table, "SCSI.__call__: opcode table")
        check(s.device.closed == 1 and dev.closed == 0, "SCSI.__exit__ closes the current device")
    dev = Device(spc, lambda cmd: cmd.datain.__setitem__(0, 0x1F))
    SCSI(dev)
    check(dev.opcodes is spc and dev.devicetype == 0x1F, "SCSI(): unknown device type keeps the opcode table")
    try:
        BareSCSI(Device(spc)).persistentreservein(0x1F)
    except ValueError:
        check(True, "")
    else:
        check(False, "persistentreservein accepts an unknown service action")

    class Refusing(Device):
        def execute(self, cmd, en_raw_sense=False):
            raise IOError("device says no")

    for label, table, call in calls[:10]:
        try:
            call(BareSCSI(Refusing(table), blocksize=512))
        except IOError as e:
            check(str(e) == "device says no", "%s: the error of the device was replaced" % label)
        else:
            check(False, "%s: the error of the device was swallowed" % label)


def part_base_class(rng, catalogue):
    """the plain building blocks every command shares"""
    sizes = {6: (0x00, 0x12, 0x1F), 10: (0x20, 0x3C, 0x5F), 16: (0x80, 0x88, 0x9F), 12: (0xA0, 0xA8, 0xBF)}

    class Op(object):
        def __init__(self, value):
            self.value = value

    for size, codes in sizes.items():
        for code in codes:
            a = SCSICommand.init_cdb(Op(code))
            catalogue[rng.randrange(len(catalogue))][2]()
            b = Read10.init_cdb(Op(code))
            check(a == bytearray(size) and b == a and a is not b and type(a) is bytearray, "init_cdb(%#x)" % code)
    for code in (0x60, 0x7F, 0xC0, 0xFF, 0x100, -1):
        for holder in (SCSICommand, Inquiry):
            try:
                holder.init_cdb(Op(code))
            except SCSICommand.OpcodeException:
                check(True, "")
            else:
                check(False, "init_cdb(%#x) gave a cdb" % code)
        try:
            SCSICommand(Op(code), 0, 0)
        except SCSICommand.OpcodeException:
            check(True, "")
        else:
            check(False, "SCSICommand(%#x) accepted" % code)
    try:
        Read10(sbc.READ_10, 0, 1, 1)
    except SCSICommand.MissingBlocksizeException:
        check(True, "")
    else:
        check(False, "Read10 without a blocksize accepted")
    # buffers come from the command's own arguments only
    for out_len, in_len in ((0, 0), (1, 2), (17, 4096)):
        catalogue[rng.randrange(len(catalogue))][2]()
        c = SCSICommand(Op(0x12), out_len, in_len)
        d = SCSICommand(Op(0xA0), in_len, out_len)
        check(c.dataout == bytearray(out_len) and c.datain == bytearray(in_len), "SCSICommand buffers")
        check(d.dataout == bytearray(in_len) and d.datain == bytearray(out_len), "SCSICommand buffers")
        check(c.result == {} and c.result is not d.result, "SCSICommand result")
        check(c.opcode.value == 0x12 and d.opcode.value == 0xA0, "SCSICommand opcode")
        check(c.pagecode is None and c.sense is None and c.raw_sense_data is None, "SCSICommand defaults")
        check(repr(c) == "SCSICommand", "repr")
    # the read/write properties store per object
    a = Read10(sbc.READ_10, 512, 1, 1)
    b = Read10(sbc.READ_10, 512, 2, 2)
    for name, value in (("result", {"x": 1}), ("cdb", bytearray(b"abc")), ("datain", bytearray(b"in")), ("dataout", bytearray(b"out")), ("sense", bytearray(b"s")), ("raw_sense_data", b"raw"), ("pagecode", 0x83), ("opcode", sbc.READ_12)):
        before = getattr(b, name)
        setattr(a, name, value)
        check(getattr(a, name) is value, "property %s does not return what was stored" % name)
        check(getattr(b, name) is before, "property %s is shared between two commands" % name)
        check(isinstance(getattr(SCSICommand, name), property), "%s is not a property" % name)
    c = Read10(sbc.READ_10, 512, 3, 3)
    check(bytes(c.cdb) == bytes.fromhex("28000000000300000300") and c.opcode is sbc.READ_10 and c.result == {} and c.sense is None and c.pagecode is None, "a new command shows what was stored in another one")
    # unmarshall(): a command without a decoder says so, others store their result
    t = TestUnitReady(spc.TEST_UNIT_READY)
    try:
        t.unmarshall()
    except NotImplementedError as e:
        check(str(e) == "TestUnitReady has no method to unmarshall datain data", "unmarshall: %s" % e)
    else:
        check(False, "TestUnitReady.unmarshall did not raise")
    # build_cdb ignores fields the class does not have, and xors nothing in twice
    r = Read10(sbc.READ_10, 512, 1, 1)
    check(bytes(r.build_cdb(opcode=0x28, lba=0x01020304, tl=0x0506, nonsense=9)) == bytes.fromhex("28000102030400050600"), "build_cdb")
    check(bytes(r.build_cdb()) == bytes(10), "build_cdb()")
    check(bytes(r.cdb) == bytes.fromhex("28000000000100000100"), "build_cdb changed the cdb of the command")


def part_threads(catalogue, ref):
    """
    the same with threads.  One thread creates, uses and discards commands of every
    kind; at the same time other threads marshall EXTENDED COPY parameter lists,
    decode CDBs and watch commands that already exist.
    """
    errors = []
    stop = threading.Event()
    kept = [(label, factory()) for (label, cls, factory) in catalogue]
    kept_snap = [(label, cmd, snapshot(cmd)) for (label, cmd) in kept]

    seg4, seg5 = segments("target"), segments("cscd")
    t4 = [naa_target("target"), vendor_target("target", 1, {"fixed": 1})]
    t5 = [naa_target("cscd"), vendor_target("cscd", 3, {"pad": 1})]
    want4 = bytes(ExtendedCopy4.marshall_parameter_list(1, 1, 0, 2, copy.deepcopy(t4), copy.deepcopy(seg4), bytearray(b"i")))
    want5 = bytes(ExtendedCopy5.marshall_parameter_list(1, 1, 2, 1, 0, 77, copy.deepcopy(t5), copy.deepcopy(seg5), bytearray(b"i")))

    def guard(fn):
        def run():
            try:
                while not stop.is_set():
                    fn()
            except Exception as e:  # noqa: BLE001
                errors.append("%s: %r" % (fn.__name__, e))
                stop.set()

        return run

    def marshaller4():
        got = ExtendedCopy4.marshall_parameter_list(1, 1, 0, 2, copy.deepcopy(t4), copy.deepcopy(seg4), bytearray(b"i"))
        if bytes(got) != want4:
            errors.append("ExtendedCopy4.marshall_parameter_list differs in a thread")

    def marshaller5():
        got = ExtendedCopy5.marshall_parameter_list(1, 1, 2, 1, 0, 77, copy.deepcopy(t5), copy.deepcopy(seg5), bytearray(b"i"))
        if bytes(got) != want5:
            errors.append("ExtendedCopy5.marshall_parameter_list differs in a thread")

    def watcher():
        for label, cmd, snap in kept_snap:
            if snapshot(cmd) != snap:
                errors.append("%s: changed while another thread created commands" % label)

    threads = [threading.Thread(target=guard(f)) for f in (marshaller4, marshaller5, watcher, watcher)]
    for t in threads:
        t.start()
    try:
        # the one thread that creates commands
        for round_ in range(3):
            for label, cls, factory in catalogue:
                cmd, snap, view = build_and_observe(label, cls, factory)
                if (snap, view) != ref[label]:
                    errors.append("%s: differs while other threads are marshalling" % label)
    finally:
        stop.set()
        for t in threads:
            t.join()
    for label, cmd, snap in kept_snap:
        check(snapshot(cmd) == snap, "%s: changed during the threaded part" % label)

    # several threads create commands of one class at the same time, each with its
    # own arguments
    results = {}

    def reader(n):
        def run():
            try:
                out = []
                for i in range(300):
                    lba, tl = (n << 20) | i, (n * 1000 + i) & 0xFFFF
                    c = Read10(sbc.READ_10, 512, lba, tl, group=n & 0x1F)
                    out.append((lba, tl, bytes(c.cdb), len(c.datain), Read10.unmarshall_cdb(c.cdb)))
                results[n] = out
            except Exception as e:  # noqa: BLE001
                errors.append("reader %d: %r" % (n, e))

        return run

    Read10(sbc.READ_10, 512, 0, 0)
    threads = [threading.Thread(target=reader(n)) for n in range(1, 9)]
    for t in threads:
        t.start()
    for t in threads:
        t.join()
    for n, out in sorted(results.items()):
        for lba, tl, cdb, in_len, fields in out:
            want = oracle_encode(Read10, dict(opcode=0x28, lba=lba, tl=tl, group=n & 0x1F), 10)
            if not (cdb == bytes(want) and in_len == 512 * tl and fields == oracle_decode(Read10, want)):
                errors.append("Read10(lba=%#x, tl=%d) from thread %d is wrong: %s" % (lba, tl, n, cdb.hex()))
                break
    check(len(results) == 8, "not every thread finished")
    check(not errors, "threads: %s" % "; ".join(errors[:5]))


def main():
    rng = random.Random(9)
    catalogue = build_catalogue()
    ref = part_reference(catalogue)
    part_other_commands(catalogue, ref, rng)
    part_pairs(catalogue, ref, rng)
    part_extended_copy_marshalling(rng, catalogue)
    part_facade(catalogue, rng)
    part_base_class(rng, catalogue)
    part_threads(catalogue, ref)
    # and once more at the very end: nothing that happened changed the references
    for label, cls, factory in catalogue:
        cmd, snap, view = build_and_observe(label, cls, factory)
        check((snap, view) == ref[label], "%s: differs at the end of the run" % label)
    if FAILURES:
        print("FAILED: %d of %d checks" % (len(FAILURES), CHECKS[0]))
        return 1
    print("PASS (%d checks, %d commands)" % (CHECKS[0], len(catalogue)))
    return 0


if __name__ == "__main__":
    sys.exit(main())
