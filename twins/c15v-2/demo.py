#!/usr/bin/env python
# Demo / check script for property C15 (device-node handle tracking).
#
# Run as:
#   cd /tmp/seed/C15v && PYTHONPATH=/tmp/seed/C15v /venv/bin/python SEED/demo.py
#
# The external bindings `sgio` and `iscsi` are not installed, so small fakes
# are put into sys.modules before the library is imported.  Device nodes are
# simulated in two ways:
#   * a fake "filesystem" below /dev/pyscsi-demo/ served by wrappers around
#     builtins.open and os.stat (lets us inject close()/open()/stat() failures)
#   * real files below /dev/shm (when writable), replaced with os.replace().
import builtins
import errno
import os
import sys
import tempfile
import types

# --------------------------------------------------------------------------
# bookkeeping
# --------------------------------------------------------------------------
FAILURES = []
CHECKS = [0]


def check(cond, msg):
    CHECKS[0] += 1
    if not cond:
        FAILURES.append(msg)


def check_eq(got, want, msg):
    CHECKS[0] += 1
    if got != want:
        FAILURES.append("%s: got %r, want %r" % (msg, got, want))


class Raises(object):
    """tiny pytest.raises replacement"""

    def __init__(self, exc, msg):
        self.exc = exc
        self.msg = msg
        self.value = None

    def __enter__(self):
        return self

    def __exit__(self, et, ev, tb):
        CHECKS[0] += 1
        if et is None:
            FAILURES.append("%s: nothing raised, wanted %s" % (self.msg, self.exc))
            return True
        if not issubclass(et, self.exc):
            FAILURES.append(
                "%s: raised %r, wanted %s" % (self.msg, ev, self.exc.__name__)
            )
            return True
        self.value = ev
        return True


EVENTS = []  # global, ordered log of everything observable


def mark():
    return len(EVENTS)


def since(m):
    return EVENTS[m:]


# --------------------------------------------------------------------------
# fake sgio
# --------------------------------------------------------------------------
sgio = types.ModuleType("sgio")


class CheckConditionError(Exception):
    def __init__(self, sense):
        Exception.__init__(self, sense)
        self.sense = sense


class SgioState(object):
    hook = None  # callable(file, cdb, dataout, datain) or None


def _sgio_execute(file, cdb, dataout, datain, *args, **kwargs):
    EVENTS.append(("exec", file, cdb, dataout, datain))
    if SgioState.hook is not None:
        SgioState.hook(file, cdb, dataout, datain)
    return 0


sgio.execute = _sgio_execute
sgio.CheckConditionError = CheckConditionError
sys.modules["sgio"] = sgio

# --------------------------------------------------------------------------
# fake iscsi
# --------------------------------------------------------------------------
iscsi = types.ModuleType("iscsi")
iscsi.SCSI_XFER_NONE = 0
iscsi.SCSI_XFER_READ = 1
iscsi.SCSI_XFER_WRITE = 2
iscsi.ISCSI_SESSION_NORMAL = 2
iscsi.ISCSI_HEADER_DIGEST_NONE_CRC32C = 1


class IscsiState(object):
    contexts = []
    next_status = 0
    raw_sense = None
    has_sense = True
    connect_error = None
    disconnect_error = None


class Context(object):
    def __init__(self, name):
        self.name = name
        self.calls = []
        self.disconnects = 0
        IscsiState.contexts.append(self)
        EVENTS.append(("iscsi-context", self, name))

    def set_targetname(self, t):
        self.calls.append(("set_targetname", t))

    def set_session_type(self, t):
        self.calls.append(("set_session_type", t))

    def set_header_digest(self, d):
        self.calls.append(("set_header_digest", d))

    def connect(self, portal, lun):
        self.calls.append(("connect", portal, lun))
        EVENTS.append(("iscsi-connect", self, portal, lun))
        if IscsiState.connect_error is not None:
            raise IscsiState.connect_error

    def disconnect(self):
        self.disconnects += 1
        EVENTS.append(("iscsi-disconnect", self))
        if IscsiState.disconnect_error is not None:
            raise IscsiState.disconnect_error

    def command(self, lun, task, dataout, datain):
        EVENTS.append(("iscsi-command", self, lun, task, dataout, datain))
        task.status = IscsiState.next_status
        if IscsiState.has_sense:
            task.raw_sense = IscsiState.raw_sense


class URL(object):
    def __init__(self, ctx, url):
        self.ctx = ctx
        self.url = url
        rest = url[len("iscsi://"):]
        parts = rest.split("/")
        self.portal = parts[0]
        self.target = parts[1] if len(parts) > 1 else ""
        self.lun = int(parts[2]) if len(parts) > 2 else 0


class Task(object):
    def __init__(self, cdb, direction, xferlen):
        self.cdb = cdb
        self.direction = direction
        self.xferlen = xferlen
        self.status = None


iscsi.Context = Context
iscsi.URL = URL
iscsi.Task = Task
sys.modules["iscsi"] = iscsi

# --------------------------------------------------------------------------
# fake device nodes: wrappers around builtins.open and os.stat
# --------------------------------------------------------------------------
FAKE_ROOT = "/dev/pyscsi-demo/"
_real_open = builtins.open
_real_stat = os.stat


class FakeFile(object):
    def __init__(self, path, ino, mode, buffering):
        self.path = path
        self.ino = ino
        self.mode = mode
        self.buffering = buffering
        self.close_calls = 0
        self.closed = False
        self.close_error = None

    def close(self):
        self.close_calls += 1
        EVENTS.append(("close", self))
        if self.close_error is not None:
            raise self.close_error
        self.closed = True

    def __enter__(self):
        return self

    def __exit__(self, *exc):
        self.close()

    def fileno(self):
        raise OSError(errno.EBADF, "fake file")

    def __repr__(self):
        return "<FakeFile %s ino=%r mode=%s buf=%r>" % (
            self.path,
            self.ino,
            self.mode,
            self.buffering,
        )


class FakeFS(object):
    nodes = {}  # path -> inode number
    files = []  # every FakeFile handed out
    open_errors = {}  # path -> list of exceptions (or None) consumed per open()
    stat_errors = {}  # path -> list of exceptions (or None) consumed per stat()
    next_close_error = {}  # path -> exception given to the next file opened

    @classmethod
    def reset(cls):
        cls.nodes = {}
        cls.files = []
        cls.open_errors = {}
        cls.stat_errors = {}
        cls.next_close_error = {}


def _is_fake(path):
    try:
        path = os.fspath(path)
    except TypeError:
        return False
    return isinstance(path, str) and path.startswith(FAKE_ROOT)


def _fake_open(file, mode="r", buffering=-1, *args, **kwargs):
    if not _is_fake(file):
        return _real_open(file, mode, buffering, *args, **kwargs)
    path = os.fspath(file)
    EVENTS.append(("open-call", path, mode, buffering))
    plan = FakeFS.open_errors.get(path)
    if plan:
        err = plan.pop(0)
        if err is not None:
            raise err
    if path not in FakeFS.nodes:
        raise FileNotFoundError(errno.ENOENT, "No such file or directory", path)
    f = FakeFile(path, FakeFS.nodes[path], mode, buffering)
    f.close_error = FakeFS.next_close_error.pop(path, None)
    FakeFS.files.append(f)
    EVENTS.append(("open", f))
    return f


def _fake_stat(path, *args, **kwargs):
    if not _is_fake(path):
        return _real_stat(path, *args, **kwargs)
    p = os.fspath(path)
    EVENTS.append(("stat", p))
    plan = FakeFS.stat_errors.get(p)
    if plan:
        err = plan.pop(0)
        if err is not None:
            raise err
    if p not in FakeFS.nodes:
        raise FileNotFoundError(errno.ENOENT, "No such file or directory", p)
    ino = FakeFS.nodes[p]
    return os.stat_result((0o020660, ino, 5, 1, 0, 6, 0, 0, 0, 0))


builtins.open = _fake_open
os.stat = _fake_stat

# --------------------------------------------------------------------------
# now the library
# --------------------------------------------------------------------------
from pyscsi.pyiscsi.iscsi_device import ISCSIDevice  # noqa: E402
from pyscsi.pyscsi import scsi_enum_command  # noqa: E402
from pyscsi.pyscsi.scsi import SCSI  # noqa: E402
from pyscsi.pyscsi.scsi_cdb_inquiry import Inquiry  # noqa: E402
from pyscsi.pyscsi.scsi_cdb_read10 import Read10  # noqa: E402
from pyscsi.pyscsi.scsi_cdb_testunitready import TestUnitReady  # noqa: E402
from pyscsi.pyscsi.scsi_cdb_write10 import Write10  # noqa: E402
from pyscsi.pyscsi.scsi_device import SCSIDevice, get_inode  # noqa: E402
from pyscsi.pyscsi.scsi_sense import SCSICheckCondition  # noqa: E402
from pyscsi.utils import init_device  # noqa: E402

spc = scsi_enum_command.spc
sbc = scsi_enum_command.sbc


def make_cmds():
    return [
        TestUnitReady(spc.TEST_UNIT_READY),
        Inquiry(spc.INQUIRY, alloclen=96),
        Inquiry(spc.INQUIRY, evpd=1, page_code=0x80, alloclen=255),
        Read10(sbc.READ_10, 512, 0, 1),
        Read10(sbc.READ_10, 4096, 0xFFFFFFFF, 0),
        Write10(sbc.WRITE_10, 512, 7, 1, bytearray(512)),
    ]


def kinds(events):
    """compress an event slice to comparable tuples"""
    out = []
    for ev in events:
        if ev[0] in ("open", "close", "exec"):
            out.append((ev[0], ev[1]))
        elif ev[0] == "stat":
            out.append(("stat", ev[1]))
        elif ev[0] == "open-call":
            out.append(ev)
        else:
            out.append(ev)
    return out


def expected_mode(rw):
    return "w+b" if rw else "rb"


_counter = [0]


def new_path(tag="n"):
    _counter[0] += 1
    return "%s%s%d" % (FAKE_ROOT, tag, _counter[0])


def run_ok(dev, cmd, **kw):
    """execute and return the events of this call"""
    m = mark()
    dev.execute(cmd, **kw)
    return since(m)


# --------------------------------------------------------------------------
# 0. sanity of get_inode, constructor argument handling
# --------------------------------------------------------------------------
def test_basics():
    FakeFS.reset()
    p = new_path()
    FakeFS.nodes[p] = 4711
    check_eq(get_inode(p), 4711, "get_inode on fake node")
    with Raises(FileNotFoundError, "get_inode on missing node"):
        get_inode(new_path())
    here = os.path.abspath(__file__)
    check_eq(get_inode(here), _real_stat(here).st_ino, "get_inode on a real file")

    # paths without a backend: nothing is opened
    for bad in ("", "dev/sg0", "/de", "/tmp/foo", "iscsi://x/y/0", "/DEV/sg0", " /dev/sg0"):
        m = mark()
        with Raises(NotImplementedError, "SCSIDevice(%r)" % bad) as r:
            SCSIDevice(bad)
        if r.value is not None:
            check_eq(
                str(r.value),
                "No backend implemented for %s" % bad,
                "NotImplementedError text for %r" % bad,
            )
        check_eq(since(m), [], "no I/O for unsupported path %r" % bad)

    # missing node at construction time is an error, not a half-open device
    missing = new_path()
    m = mark()
    with Raises(FileNotFoundError, "open of missing node"):
        SCSIDevice(missing)
    check_eq(
        kinds(since(m)), [("open-call", missing, "rb", -1)], "only an open attempt"
    )

    # mode / buffering are handed to open() for every (re)open
    for rw in (False, True, 0, 1, None, "", "rw", [], [0]):
        for buf in (-1, 0, 1, 4096):
            p = new_path()
            FakeFS.nodes[p] = 10
            m = mark()
            dev = SCSIDevice(p, rw, True, buf)
            f0 = FakeFS.files[-1]
            check_eq(
                kinds(since(m)),
                [("open-call", p, expected_mode(rw), buf), ("open", f0), ("stat", p)],
                "constructor I/O rw=%r buf=%r" % (rw, buf),
            )
            FakeFS.nodes[p] = 11
            ev = run_ok(dev, TestUnitReady(spc.TEST_UNIT_READY))
            f1 = FakeFS.files[-1]
            check(f1 is not f0, "fresh handle after replug rw=%r buf=%r" % (rw, buf))
            check_eq((f1.mode, f1.buffering), (expected_mode(rw), buf), "reopen mode/buffering")
            check_eq(
                kinds(ev),
                [
                    ("stat", p),
                    ("close", f0),
                    ("open-call", p, expected_mode(rw), buf),
                    ("open", f1),
                    ("stat", p),
                    ("exec", f1),
                ],
                "replug sequence rw=%r buf=%r" % (rw, buf),
            )
            dev.close()
            check_eq((f0.close_calls, f1.close_calls), (1, 1), "each handle closed once")

    # keyword form of the constructor
    p = new_path()
    FakeFS.nodes[p] = 1
    dev = SCSIDevice(device=p, readwrite=True, detect_replugged=False, buffering=0)
    f = FakeFS.files[-1]
    check_eq((f.mode, f.buffering), ("w+b", 0), "keyword constructor")
    check_eq(repr(dev), "SCSIDevice", "repr")
    check(dev.opcodes is spc, "default opcodes are spc")
    dev.opcodes = sbc
    check(dev.opcodes is sbc, "opcodes setter")
    with Raises(AttributeError, "devicetype unset"):
        dev.devicetype
    dev.devicetype = 5
    check_eq(dev.devicetype, 5, "devicetype setter")
    dev.close()
    check_eq(f.close_calls, 1, "closed once (keyword constructor)")


# --------------------------------------------------------------------------
# 1. detection enabled: every command goes through the node that exists now
# --------------------------------------------------------------------------
def test_tracking():
    inode_seqs = [
        [5, 5, 5, 5, 5, 5],
        [5, 6, 6, 7, 7, 7],
        [1, 2, 3, 4, 5, 6],
        [0, 1, 0, 1, 0, 1],
        [2**64 - 1, 0, 2**64 - 1, 2**63, 2**63, 1],
        [7, 7, 8, 7, 7, 8],
        [3, 3, 3, 3, 3, 4],
    ]
    for flag in (True, 1, "yes", 2.5, [0], object()):
        for seq in inode_seqs:
            FakeFS.reset()
            p = new_path("t")
            FakeFS.nodes[p] = seq[0]
            dev = SCSIDevice(p, False, flag)
            cur = FakeFS.files[-1]
            opened = [cur]
            known = seq[0]
            cmds = make_cmds()
            for i, cmd in enumerate(cmds):
                FakeFS.nodes[p] = seq[i]
                ev = run_ok(dev, cmd)
                if seq[i] != known:
                    new = FakeFS.files[-1]
                    check(new is not cur, "new handle opened (seq %r step %d)" % (seq, i))
                    check_eq(
                        kinds(ev),
                        [
                            ("stat", p),
                            ("close", cur),
                            ("open-call", p, "rb", -1),
                            ("open", new),
                            ("stat", p),
                            ("exec", new),
                        ],
                        "replug events (seq %r step %d flag %r)" % (seq, i, flag),
                    )
                    check(cur.closed and cur.close_calls == 1, "stale handle closed once")
                    cur = new
                    opened.append(new)
                    known = seq[i]
                else:
                    check_eq(
                        kinds(ev),
                        [("stat", p), ("exec", cur)],
                        "steady events (seq %r step %d flag %r)" % (seq, i, flag),
                    )
                # the handle used belongs to the node that exists right now
                last = ev[-1]
                check_eq(last[1].ino, FakeFS.nodes[p], "command went to the current node")
                check(not last[1].closed, "command went through an open handle")
                check(
                    last[2] is cmd.cdb and last[3] is cmd.dataout and last[4] is cmd.datain,
                    "cdb / dataout / datain handed over unchanged",
                )
            check_eq(FakeFS.files, opened, "no extra handles were opened")
            dev.close()
            check_eq(
                [f.close_calls for f in opened],
                [1] * len(opened),
                "every handle released exactly once (seq %r)" % (seq,),
            )


# --------------------------------------------------------------------------
# 2. closing the stale handle fails: a fresh handle is opened all the same
# --------------------------------------------------------------------------
def test_stale_close_fails():
    for exc in (OSError(errno.EIO, "I/O error"), ValueError("boom"), KeyboardInterrupt()):
        FakeFS.reset()
        p = new_path("c")
        FakeFS.nodes[p] = 100
        dev = SCSIDevice(p, True)
        old = FakeFS.files[-1]
        check_eq(kinds(run_ok(dev, make_cmds()[0])), [("stat", p), ("exec", old)], "warm up")
        old.close_error = exc
        FakeFS.nodes[p] = 101
        m = mark()
        with Raises(type(exc), "failing close() propagates (%r)" % (exc,)) as r:
            dev.execute(make_cmds()[1])
        check(r.value is exc, "the close() error itself is reported")
        new = FakeFS.files[-1]
        check(new is not old and new.ino == 101, "fresh handle opened although close() failed")
        check_eq(
            kinds(since(m)),
            [("stat", p), ("close", old), ("open-call", p, "w+b", -1), ("open", new), ("stat", p)],
            "close fails -> still reopened, command of that call not sent",
        )
        # next command uses the fresh handle, no further reopen
        cmd = make_cmds()[3]
        check_eq(kinds(run_ok(dev, cmd)), [("stat", p), ("exec", new)], "next command uses fresh handle")
        check_eq(old.close_calls, 1, "stale handle not closed again")
        dev.close()
        check_eq((old.close_calls, new.close_calls), (1, 1), "close counts after failing close")

    # close fails AND reopen fails: the open error is reported, chained to the close error
    FakeFS.reset()
    p = new_path("c")
    FakeFS.nodes[p] = 1
    dev = SCSIDevice(p)
    old = FakeFS.files[-1]
    cerr = OSError(errno.EIO, "close failed")
    oerr = PermissionError(errno.EACCES, "open failed")
    old.close_error = cerr
    FakeFS.nodes[p] = 2
    FakeFS.open_errors[p] = [oerr]
    m = mark()
    with Raises(PermissionError, "close and open both fail") as r:
        dev.execute(make_cmds()[0])
    check(r.value is oerr, "open error reported")
    check(r.value is not None and r.value.__context__ is cerr, "close error kept as context")
    check_eq(
        kinds(since(m)),
        [("stat", p), ("close", old), ("open-call", p, "rb", -1)],
        "events when both fail",
    )
    # later the node can be opened again -> retried, command goes to the current node
    old.close_error = None
    ev = run_ok(dev, make_cmds()[0])
    new = FakeFS.files[-1]
    check_eq(
        kinds(ev),
        [("stat", p), ("close", old), ("open-call", p, "rb", -1), ("open", new), ("stat", p), ("exec", new)],
        "retry after double failure",
    )
    check_eq(new.ino, 2, "retry reaches the current node")

    # close fine, reopen fails (e.g. permissions of the new node)
    FakeFS.reset()
    p = new_path("c")
    FakeFS.nodes[p] = 1
    dev = SCSIDevice(p)
    old = FakeFS.files[-1]
    FakeFS.nodes[p] = 2
    oerr = PermissionError(errno.EACCES, "denied")
    FakeFS.open_errors[p] = [oerr]
    m = mark()
    with Raises(PermissionError, "reopen fails") as r:
        dev.execute(make_cmds()[0])
    check(r.value is oerr, "reopen error reported as is")
    check_eq(
        kinds(since(m)),
        [("stat", p), ("close", old), ("open-call", p, "rb", -1)],
        "no command sent through the stale handle when reopen fails",
    )
    ev = run_ok(dev, make_cmds()[0])
    new = FakeFS.files[-1]
    check_eq(kinds(ev)[-1], ("exec", new), "next attempt uses a fresh handle")
    check_eq(new.ino, 2, "fresh handle is for current node")

    # node disappears between the reopen and the inode lookup
    FakeFS.reset()
    p = new_path("c")
    FakeFS.nodes[p] = 1
    dev = SCSIDevice(p)
    old = FakeFS.files[-1]
    FakeFS.nodes[p] = 2
    serr = FileNotFoundError(errno.ENOENT, "gone again", p)
    FakeFS.stat_errors[p] = [None, serr]
    m = mark()
    with Raises(FileNotFoundError, "vanish right after reopen") as r:
        dev.execute(make_cmds()[0])
    check(r.value is serr, "stat error reported")
    mid = FakeFS.files[-1]
    check_eq(
        kinds(since(m)),
        [("stat", p), ("close", old), ("open-call", p, "rb", -1), ("open", mid), ("stat", p)],
        "events for vanish right after reopen",
    )
    FakeFS.nodes[p] = 3
    ev = run_ok(dev, make_cmds()[0])
    new = FakeFS.files[-1]
    check_eq(
        kinds(ev),
        [("stat", p), ("close", mid), ("open-call", p, "rb", -1), ("open", new), ("stat", p), ("exec", new)],
        "recovery after vanish right after reopen",
    )
    dev.close()
    check_eq([f.close_calls for f in FakeFS.files], [1, 1, 1], "all three handles released once")


# --------------------------------------------------------------------------
# 3. vanished node -> error, never the old handle
# --------------------------------------------------------------------------
def test_vanished():
    for rw in (False, True):
        FakeFS.reset()
        p = new_path("v")
        FakeFS.nodes[p] = 9
        dev = SCSIDevice(p, rw)
        old = FakeFS.files[-1]
        run_ok(dev, make_cmds()[0])
        del FakeFS.nodes[p]
        for n in range(3):
            m = mark()
            with Raises(FileNotFoundError, "vanished node (try %d)" % n) as r:
                dev.execute(make_cmds()[n])
            check_eq(kinds(since(m)), [("stat", p)], "vanished: no command, no close, no open")
            if r.value is not None:
                check_eq(r.value.errno, errno.ENOENT, "ENOENT reported")
        # other stat errors are reported as well
        FakeFS.nodes[p] = 9
        perr = PermissionError(errno.EACCES, "stat denied")
        FakeFS.stat_errors[p] = [perr]
        m = mark()
        with Raises(PermissionError, "stat error is reported") as r:
            dev.execute(make_cmds()[0])
        check(r.value is perr, "same stat error object")
        check_eq(kinds(since(m)), [("stat", p)], "stat error: nothing else happens")
        # same node back: old handle still good
        check_eq(kinds(run_ok(dev, make_cmds()[0])), [("stat", p), ("exec", old)], "node back, same inode")
        # vanish, then come back as a new node
        del FakeFS.nodes[p]
        with Raises(FileNotFoundError, "vanished again"):
            dev.execute(make_cmds()[0])
        FakeFS.nodes[p] = 10
        ev = run_ok(dev, make_cmds()[0])
        new = FakeFS.files[-1]
        check_eq(
            kinds(ev),
            [("stat", p), ("close", old), ("open-call", p, expected_mode(rw), -1), ("open", new), ("stat", p), ("exec", new)],
            "re-appeared as new node",
        )
        # through the SCSI facade too
        s = SCSI(dev)
        del FakeFS.nodes[p]
        m = mark()
        with Raises(FileNotFoundError, "vanished via SCSI.testunitready"):
            s.testunitready()
        with Raises(FileNotFoundError, "vanished via SCSI.execute"):
            s.execute(make_cmds()[0])
        check_eq(kinds(since(m)), [("stat", p), ("stat", p)], "facade: nothing sent")
        dev.close()
        check_eq((old.close_calls, new.close_calls), (1, 1), "handles closed once (vanish test)")


# --------------------------------------------------------------------------
# 4. detection disabled: original handle kept, node never looked at
# --------------------------------------------------------------------------
def test_pinned():
    for flag in (False, 0, None, "", [], 0.0, ()):
        FakeFS.reset()
        p = new_path("p")
        FakeFS.nodes[p] = 50
        m = mark()
        dev = SCSIDevice(p, False, flag)
        orig = FakeFS.files[-1]
        check_eq(kinds(since(m)), [("open-call", p, "rb", -1), ("open", orig), ("stat", p)], "pinned open")
        for step, ino in enumerate([50, 51, None, 52, 50, None]):
            if ino is None:
                FakeFS.nodes.pop(p, None)
            else:
                FakeFS.nodes[p] = ino
            cmd = make_cmds()[step]
            ev = run_ok(dev, cmd)
            check_eq(kinds(ev), [("exec", orig)], "pinned: only the command (flag %r step %d)" % (flag, step))
        check_eq(FakeFS.files, [orig], "pinned: no other handle opened")
        check_eq(orig.close_calls, 0, "pinned: not closed while in use")
        dev.close()
        check_eq(orig.close_calls, 1, "pinned: closed once")

    # a flag object whose truth value changes later is honoured per command
    FakeFS.reset()
    p = new_path("p")
    FakeFS.nodes[p] = 1
    flag = []
    dev = SCSIDevice(p, False, flag)
    orig = FakeFS.files[-1]
    FakeFS.nodes[p] = 2
    check_eq(kinds(run_ok(dev, make_cmds()[0])), [("exec", orig)], "empty-list flag: pinned")
    flag.append(1)
    ev = run_ok(dev, make_cmds()[0])
    new = FakeFS.files[-1]
    check_eq(kinds(ev)[-1], ("exec", new), "flag turned true: node tracked")
    check(new is not orig and orig.close_calls == 1, "flag turned true: reopened")
    del flag[:]
    FakeFS.nodes[p] = 3
    check_eq(kinds(run_ok(dev, make_cmds()[0])), [("exec", new)], "flag false again: pinned")
    dev.close()


# --------------------------------------------------------------------------
# 5. close() / with blocks release the handle exactly once
# --------------------------------------------------------------------------
class Boom(Exception):
    pass


def test_release():
    for detect in (True, False):
        for replugs in (0, 1, 3):
            # explicit close()
            FakeFS.reset()
            p = new_path("r")
            FakeFS.nodes[p] = 1
            dev = SCSIDevice(p, False, detect)
            for k in range(replugs):
                FakeFS.nodes[p] += 1
                dev.execute(make_cmds()[k])
            m = mark()
            check(dev.close() is None, "close() returns None")
            last = FakeFS.files[-1]
            check_eq(kinds(since(m)), [("close", last)], "close(): exactly the current handle")
            check_eq([f.close_calls for f in FakeFS.files], [1] * len(FakeFS.files), "close(): all once")
            check(all(f.closed for f in FakeFS.files), "close(): all released")

            # with block, normal exit
            FakeFS.reset()
            FakeFS.nodes[p] = 1
            with SCSIDevice(p, False, detect) as d:
                check(isinstance(d, SCSIDevice), "__enter__ returns the device")
                for k in range(replugs):
                    FakeFS.nodes[p] += 1
                    d.execute(make_cmds()[k])
                check(not FakeFS.files[-1].closed, "open inside the with block")
            check_eq([f.close_calls for f in FakeFS.files], [1] * len(FakeFS.files), "with: all once")
            check_eq(len(FakeFS.files), (replugs if detect else 0) + 1, "with: number of handles")

            # with block, exception
            FakeFS.reset()
            FakeFS.nodes[p] = 1
            err = Boom("x")
            with Raises(Boom, "exception leaves the with block") as r:
                with SCSIDevice(p, True, detect) as d:
                    for k in range(replugs):
                        FakeFS.nodes[p] += 1
                        d.execute(make_cmds()[k])
                    raise err
            check(r.value is err, "with: original exception propagates")
            check_eq([f.close_calls for f in FakeFS.files], [1] * len(FakeFS.files), "with/exc: all once")

            # with block, exception raised by execute itself (vanished node)
            FakeFS.reset()
            FakeFS.nodes[p] = 1
            with Raises(FileNotFoundError if detect else Boom, "with: execute error"):
                with SCSIDevice(p, False, detect) as d:
                    del FakeFS.nodes[p]
                    d.execute(make_cmds()[0])
                    raise Boom()
            check_eq([f.close_calls for f in FakeFS.files], [1], "with/vanish: closed once")

            # SCSI facade as context manager
            FakeFS.reset()
            FakeFS.nodes[p] = 1
            dev = SCSIDevice(p, False, detect)
            with SCSI(dev) as s:
                check(s.device is dev, "SCSI keeps the device")
                check(dev.opcodes is sbc and dev.devicetype == 0, "device type probed")
                for k in range(replugs):
                    FakeFS.nodes[p] += 1
                    s.testunitready()
                    s.execute(make_cmds()[k])
            check_eq([f.close_calls for f in FakeFS.files], [1] * len(FakeFS.files), "SCSI with: all once")
            check_eq(len(FakeFS.files), (replugs if detect else 0) + 1, "SCSI with: number of handles")

            FakeFS.reset()
            FakeFS.nodes[p] = 1
            dev = SCSIDevice(p, False, detect)
            with Raises(Boom, "SCSI with: exception"):
                with SCSI(dev, 512) as s:
                    check_eq(s.blocksize, 512, "blocksize")
                    s.read10(0, 1)
                    raise Boom()
            check_eq([f.close_calls for f in FakeFS.files], [1], "SCSI with/exc: closed once")

    # exiting does not swallow and does not hide a failing close()
    FakeFS.reset()
    p = new_path("r")
    FakeFS.nodes[p] = 1
    cerr = OSError(errno.EIO, "close failed")
    with Raises(OSError, "failing close on with exit") as r:
        with SCSIDevice(p) as d:
            FakeFS.files[-1].close_error = cerr
    check(r.value is cerr, "close error of __exit__ propagates")
    check_eq(FakeFS.files[-1].close_calls, 1, "attempted once")

    FakeFS.reset()
    FakeFS.nodes[p] = 1
    dev = SCSIDevice(p)
    FakeFS.files[-1].close_error = cerr
    with Raises(OSError, "failing close()") as r:
        dev.close()
    check(r.value is cerr, "close() error propagates")

    # __exit__ return value must be falsy (do not swallow)
    FakeFS.reset()
    FakeFS.nodes[p] = 1
    dev = SCSIDevice(p)
    check(not dev.__exit__(None, None, None), "__exit__ falsy")
    check_eq(FakeFS.files[-1].close_calls, 1, "__exit__ closes once")
    FakeFS.nodes[p] = 1
    dev = SCSIDevice(p)
    s = SCSI(dev)
    check(not s.__exit__(Boom, Boom(), None), "SCSI.__exit__ falsy")
    check_eq(FakeFS.files[-1].close_calls, 1, "SCSI.__exit__ closes once")


# --------------------------------------------------------------------------
# 6. check conditions are reported after the handle logic, via the right handle
# --------------------------------------------------------------------------
def test_check_condition():
    sense = bytearray(
        [0x70, 0, 0x05, 0, 0, 0, 0, 10, 0, 0, 0, 0, 0x24, 0x00, 0, 0, 0, 0]
    )
    for detect in (True, False):
        FakeFS.reset()
        p = new_path("k")
        FakeFS.nodes[p] = 1
        dev = SCSIDevice(p, False, detect)
        orig = FakeFS.files[-1]

        def fail(file, cdb, dataout, datain):
            raise CheckConditionError(sense)

        SgioState.hook = fail
        try:
            FakeFS.nodes[p] = 2
            m = mark()
            with Raises(dev.CheckCondition, "check condition") as r:
                dev.execute(make_cmds()[0])
            cur = FakeFS.files[-1]
            check(isinstance(r.value, SCSICheckCondition), "CheckCondition type")
            check_eq(since(m)[-1][1] is (cur if detect else orig), True, "sent via right handle")
            check((cur is not orig) == bool(detect), "reopen iff detection")
            check(r.value is not None and isinstance(r.value.__context__, CheckConditionError), "context kept")
            cmd = make_cmds()[1]
            dev.execute(cmd, en_raw_sense=True)
            check(cmd.raw_sense_data is sense, "raw sense stored")
            cmd = make_cmds()[1]
            dev.execute(cmd, True)
            check(cmd.raw_sense_data is sense, "raw sense stored (positional)")
            s_err = None
            try:
                SCSI.execute(types.SimpleNamespace(device=dev), make_cmds()[0])
            except Exception as e:  # noqa
                s_err = e
            check(isinstance(s_err, dev.CheckCondition), "facade passes CheckCondition")

            # other errors of the transport pass unchanged
            other = RuntimeError("ioctl failed")

            def fail2(file, cdb, dataout, datain):
                raise other

            SgioState.hook = fail2
            with Raises(RuntimeError, "transport error") as r:
                dev.execute(make_cmds()[0])
            check(r.value is other, "transport error unchanged")
        finally:
            SgioState.hook = None
        dev.close()
        check_eq([f.close_calls for f in FakeFS.files], [1] * len(FakeFS.files), "cc: all once")


# --------------------------------------------------------------------------
# 7. init_device
# --------------------------------------------------------------------------
def test_init_device():
    FakeFS.reset()
    p = new_path("i")
    FakeFS.nodes[p] = 1
    for rw in (False, True):
        dev = init_device(p, rw)
        check(type(dev) is SCSIDevice, "init_device gives SCSIDevice")
        f = FakeFS.files[-1]
        check_eq((f.mode, f.buffering), (expected_mode(rw), -1), "init_device mode")
        FakeFS.nodes[p] += 1
        ev = run_ok(dev, make_cmds()[0])
        check(FakeFS.files[-1] is not f, "init_device: detection enabled by default")
        check_eq(kinds(ev)[-1], ("exec", FakeFS.files[-1]), "init_device: command via fresh handle")
        dev.close()
    dev = init_device(p)
    check_eq(FakeFS.files[-1].mode, "rb", "init_device default read only")
    dev.close()
    dev = init_device(dev=p, read_write=1)
    check_eq(FakeFS.files[-1].mode, "w+b", "init_device keyword")
    dev.close()
    check_eq([f.close_calls for f in FakeFS.files], [1] * len(FakeFS.files), "init_device: all once")
    for bad in ("", "/dev", "dev/sg1", "iscsi:/x", "ISCSI://a/b/1", "http://x", "/tmp/x"):
        m = mark()
        with Raises(NotImplementedError, "init_device(%r)" % bad) as r:
            init_device(bad)
        if r.value is not None:
            check_eq(str(r.value), "No backend implemented for %s" % bad, "init_device text")
        check_eq(since(m), [], "init_device(%r): no I/O" % bad)
    with Raises(FileNotFoundError, "init_device on a missing node"):
        init_device(new_path("i"))

    # iscsi
    IscsiState.contexts = []
    url = "iscsi://127.0.0.1:3260/iqn.demo:target/3"
    dev = init_device(url)
    check(type(dev) is ISCSIDevice, "init_device gives ISCSIDevice")
    ctx = IscsiState.contexts[-1]
    check(ctx.name.startswith("iqn.2018-01.org.pyscsi:"), "default initiator name")
    dev.close()
    dev = init_device(url, False, "iqn.me")
    check_eq(IscsiState.contexts[-1].name, "iqn.me", "explicit initiator name")
    dev.close()
    dev = init_device(url, initiator_name="")
    check_eq(IscsiState.contexts[-1].name, url, "empty initiator name -> url")
    dev.close()
    check_eq([c.disconnects for c in IscsiState.contexts], [1, 1, 1], "iscsi sessions closed once")


# --------------------------------------------------------------------------
# 8. ISCSIDevice releases its session exactly once
# --------------------------------------------------------------------------
def test_iscsi():
    url = "iscsi://10.0.0.1/iqn.demo:t/7"
    IscsiState.contexts = []
    IscsiState.next_status = 0
    with Raises(NotImplementedError, "ISCSIDevice with /dev path") as r:
        ISCSIDevice("/dev/sg0")
    if r.value is not None:
        check_eq(str(r.value), "No backend implemented for /dev/sg0", "iscsi text")
    check_eq(IscsiState.contexts, [], "no context for bad url")

    dev = ISCSIDevice(url, "iqn.init")
    ctx = IscsiState.contexts[-1]
    check_eq(
        ctx.calls,
        [
            ("set_targetname", "iqn.demo:t"),
            ("set_session_type", iscsi.ISCSI_SESSION_NORMAL),
            ("set_header_digest", iscsi.ISCSI_HEADER_DIGEST_NONE_CRC32C),
            ("connect", "10.0.0.1", 7),
        ],
        "iscsi open sequence",
    )
    check(dev.opcodes is spc, "iscsi default opcodes")
    for cmd in make_cmds():
        m = mark()
        dev.execute(cmd)
        ev = since(m)
        check_eq(len(ev), 1, "one iscsi command")
        e = ev[0]
        check(e[0] == "iscsi-command" and e[1] is ctx and e[2] == 7, "command on the session / lun")
        task = e[3]
        check(task.cdb is cmd.cdb and e[4] is cmd.dataout and e[5] is cmd.datain, "iscsi buffers")
        if len(cmd.dataout):
            want = (iscsi.SCSI_XFER_WRITE, len(cmd.dataout))
        elif len(cmd.datain):
            want = (iscsi.SCSI_XFER_READ, len(cmd.datain))
        else:
            want = (iscsi.SCSI_XFER_NONE, 0)
        check_eq((task.direction, task.xferlen), want, "iscsi direction/xferlen")
    check_eq(ctx.disconnects, 0, "iscsi: not closed while in use")
    check(dev.close() is None, "iscsi close returns None")
    check_eq(ctx.disconnects, 1, "iscsi: disconnected once")

    # status mapping
    S = scsi_enum_command.SCSI_STATUS
    dev = ISCSIDevice(url)
    ctx = IscsiState.contexts[-1]
    check_eq(ctx.name, url, "iscsi: context named after url")
    table = [
        (S.RESERVATION_CONFLICT, dev.ReservationConflict),
        (S.TASK_ABORTED, dev.TaskAborted),
        (S.BUSY, dev.BusyStatus),
        (S.TASK_SET_FULL, dev.TaskSetFull),
        (S.ACA_ACTIVE, dev.ACAActive),
        (S.CONDITIONS_MET, dev.ConditionsMet),
        (0x7F, RuntimeError),
    ]
    for status, exc in table:
        IscsiState.next_status = status
        with Raises(exc, "iscsi status %r" % (status,)):
            dev.execute(make_cmds()[0])
    sense = bytearray([0x70, 0, 0x02, 0, 0, 0, 0, 10, 0, 0, 0, 0, 0x04, 0x01, 0, 0, 0, 0])
    IscsiState.next_status = S.CHECK_CONDITION
    IscsiState.raw_sense = sense
    cmd = make_cmds()[0]
    with Raises(dev.CheckCondition, "iscsi check condition"):
        dev.execute(cmd, en_raw_sense=True)
    check(cmd.sense is sense and cmd.raw_sense_data is sense, "iscsi sense stored")
    IscsiState.has_sense = False
    cmd = make_cmds()[0]
    with Raises(dev.CheckCondition, "iscsi check condition without sense"):
        dev.execute(cmd)
    check(cmd.sense is None, "iscsi: no sense -> None")
    IscsiState.has_sense = True
    IscsiState.raw_sense = None
    IscsiState.next_status = 0
    dev.close()
    check_eq(ctx.disconnects, 1, "iscsi: disconnected once after errors")

    # with blocks
    with ISCSIDevice(url) as d:
        c1 = IscsiState.contexts[-1]
        d.execute(make_cmds()[1])
        check_eq(c1.disconnects, 0, "iscsi with: open inside")
    check_eq(c1.disconnects, 1, "iscsi with: closed once")
    err = Boom()
    with Raises(Boom, "iscsi with exc") as r:
        with ISCSIDevice(url) as d:
            c2 = IscsiState.contexts[-1]
            raise err
    check(r.value is err, "iscsi with: exception propagates")
    check_eq(c2.disconnects, 1, "iscsi with/exc: closed once")
    d = ISCSIDevice(url)
    c3 = IscsiState.contexts[-1]
    with Raises(Boom, "SCSI+iscsi with exc"):
        with SCSI(d) as s:
            s.testunitready()
            raise Boom()
    check_eq(c3.disconnects, 1, "SCSI+iscsi: closed once")
    d = ISCSIDevice(url)
    check(not d.__exit__(None, None, None), "iscsi __exit__ falsy")
    derr = OSError("disconnect failed")
    IscsiState.disconnect_error = derr
    try:
        d = ISCSIDevice(url)
        with Raises(OSError, "iscsi disconnect error") as r:
            with d:
                pass
        check(r.value is derr, "iscsi disconnect error propagates")
        check_eq(IscsiState.contexts[-1].disconnects, 1, "iscsi failing disconnect tried once")
    finally:
        IscsiState.disconnect_error = None
    cerr = OSError("no route")
    IscsiState.connect_error = cerr
    try:
        with Raises(OSError, "iscsi connect error") as r:
            ISCSIDevice(url)
        check(r.value is cerr, "iscsi connect error propagates")
    finally:
        IscsiState.connect_error = None


# --------------------------------------------------------------------------
# 9. SCSI facade: __call__ with another device, errors pass through unchanged
# --------------------------------------------------------------------------
def test_facade():
    FakeFS.reset()
    p1, p2 = new_path("f"), new_path("f")
    FakeFS.nodes[p1] = 1
    FakeFS.nodes[p2] = 1

    def answer(pdt):
        def hook(file, cdb, dataout, datain):
            if cdb[0] == 0x12 and len(datain):
                datain[0] = pdt

        return hook

    table = {0: "sbc", 4: "sbc", 7: "sbc", 1: "ssc", 2: "ssc", 9: "ssc", 3: "spc", 8: "smc", 5: "mmc"}
    for pdt, name in sorted(table.items()):
        SgioState.hook = answer(pdt)
        try:
            d1 = SCSIDevice(p1)
            s = SCSI(d1)
            check(d1.opcodes is getattr(scsi_enum_command, name), "opcodes for type %d" % pdt)
            check_eq(d1.devicetype, pdt, "devicetype %d" % pdt)
            d2 = SCSIDevice(p2, detect_replugged=False)
            f1, f2 = FakeFS.files[-2], FakeFS.files[-1]
            s(d2)
            check(s.device is d2, "__call__ swaps device")
            FakeFS.nodes[p2] += 1
            ev = kinds(run_ok(s, make_cmds()[0]))
            check_eq(ev, [("exec", f2)], "facade on pinned device")
            s(d1)
            FakeFS.nodes[p1] += 1
            ev = kinds(run_ok(s, make_cmds()[0], en_raw_sense=True))
            check_eq(ev[-1], ("exec", FakeFS.files[-1]), "facade on tracked device")
            check(FakeFS.files[-1] is not f1 and f1.close_calls == 1, "facade: stale handle closed")
            with s:
                pass
            d2.close()
        finally:
            SgioState.hook = None
    check_eq([f.close_calls for f in FakeFS.files], [1] * len(FakeFS.files), "facade: all once")
    s = SCSI(None)
    check(s.device is None, "SCSI(None) allowed")


# --------------------------------------------------------------------------
# 10. the same with real files below /dev/shm
# --------------------------------------------------------------------------
def test_real_files():
    root = "/dev/shm"
    if not (os.path.isdir(root) and os.access(root, os.W_OK)):
        print("note: /dev/shm not writable, real-file part skipped")
        return
    d = tempfile.mkdtemp(prefix="pyscsi-demo-", dir=root)
    node = os.path.join(d, "sg0")
    seen = []

    def hook(file, cdb, dataout, datain):
        seen.append((file, os.fstat(file.fileno()).st_ino, _real_stat(node).st_ino if os.path.exists(node) else None))

    def fresh_node():
        tmp = os.path.join(d, "new")
        with _real_open(tmp, "wb") as f:
            f.write(b"\0" * 64)
        os.replace(tmp, node)

    SgioState.hook = hook
    try:
        for rw in (False, True):
            for buf in (-1, 0, 8192):
                fresh_node()
                # tracked
                dev = SCSIDevice(node, rw, True, buf)
                handles = []
                for k, cmd in enumerate(make_cmds() * 2):
                    if k % 3 == 1:
                        fresh_node()
                    del seen[:]
                    dev.execute(cmd)
                    check_eq(len(seen), 1, "real: one command")
                    f, fino, nino = seen[0]
                    check_eq(fino, nino, "real: handle is for the node at the path (k=%d)" % k)
                    check(not f.closed, "real: handle open")
                    check_eq(f.mode, "rb+" if rw else "rb", "real: mode")
                    if not handles or handles[-1] is not f:
                        handles.append(f)
                    check(all(h.closed for h in handles[:-1]), "real: stale handles closed")
                check_eq(len(handles), 5, "real: one handle per node generation")
                os.unlink(node)
                del seen[:]
                with Raises(FileNotFoundError, "real: vanished node"):
                    dev.execute(make_cmds()[0])
                check_eq(seen, [], "real: nothing sent to vanished node")
                check(not handles[-1].closed, "real: handle untouched on vanish")
                fresh_node()
                dev.execute(make_cmds()[0])
                check(handles[-1].closed and not seen[-1][0].closed, "real: recovered")
                last = seen[-1][0]
                dev.close()
                check(last.closed, "real: closed by close()")

                # pinned
                fresh_node()
                with SCSIDevice(node, rw, False, buf) as dev:
                    first = None
                    for k, cmd in enumerate(make_cmds()):
                        if k == 2:
                            fresh_node()
                        if k == 4:
                            os.unlink(node)
                        del seen[:]
                        dev.execute(cmd)
                        f, fino, nino = seen[0]
                        first = first or f
                        check(f is first and not f.closed, "real pinned: same open handle")
                        if k >= 2:
                            check(fino != nino, "real pinned: old node kept")
                check(first.closed, "real pinned: closed after with")

                # with + exception
                fresh_node()
                del seen[:]
                with Raises(Boom, "real with exc"):
                    with SCSI(SCSIDevice(node, rw, True, buf)) as s:
                        fresh_node()
                        s.testunitready()
                        raise Boom()
                check_eq(len({id(x[0]) for x in seen}), 2, "real: inquiry + tur on two handles")
                check(all(x[0].closed for x in seen), "real: all closed after with/exc")
                check(all(x[1] == x[2] for x in seen), "real: each via the current node")
    finally:
        SgioState.hook = None
        for name in os.listdir(d):
            os.unlink(os.path.join(d, name))
        os.rmdir(d)


def main():
    tests = [
        test_basics,
        test_tracking,
        test_stale_close_fails,
        test_vanished,
        test_pinned,
        test_release,
        test_check_condition,
        test_init_device,
        test_iscsi,
        test_facade,
        test_real_files,
    ]
    for t in tests:
        try:
            t()
        except BaseException as e:  # a crash in a scenario is a failure too
            import traceback

            traceback.print_exc()
            FAILURES.append("%s crashed: %r" % (t.__name__, e))
    if FAILURES:
        print("FAIL (%d of %d checks)" % (len(FAILURES), CHECKS[0]))
        for f in FAILURES[:40]:
            print("  -", f)
        sys.exit(1)
    print("PASS (%d checks)" % CHECKS[0])
    sys.exit(0)


if __name__ == "__main__":
    main()
