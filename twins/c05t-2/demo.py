#!/usr/bin/env python
# coding: utf-8
"""
Property C05 demo.

For every command with a data-out phase that the library composes itself
(MODE SELECT 6/10, PERSISTENT RESERVE OUT basic and register-and-move lists
with TransportIDs, EXTENDED COPY LID1/LID4) the parameter list places each
supplied value at the position the standard assigns, every embedded length
field equals the number of bytes that actually follow, and the CDB's parameter
list length equals the length of the list.  Each such command can be
constructed for every valid parameter dictionary.

The script builds its own, independent, reference encoding of every parameter
list (straight from the layouts in SPC / SMC) and compares it byte for byte
with what the library's public API produces, for a large number of
(deterministically) generated inputs and a number of hand written unusual ones.

Run as:
    cd /tmp/seed/C05t && PYTHONPATH=/tmp/seed/C05t /venv/bin/python SEED/demo.py
"""
import copy
import random
import sys
import types

# --------------------------------------------------------------------------
# the external bindings are optional for the library; make sure that importing
# the library never depends on them being installed.
# --------------------------------------------------------------------------
for _name in ("sgio", "iscsi", "linux_nvme_ioctl"):
    if _name not in sys.modules:
        try:
            __import__(_name)
        except Exception:  # pragma: no cover - depends on the environment
            sys.modules[_name] = types.ModuleType(_name)

from pyscsi.pyscsi.scsi import SCSI  # noqa: E402
from pyscsi.pyscsi.scsi_cdb_extended_copy_spc4 import (  # noqa: E402
    ExtendedCopy as ExtendedCopy4,
)
from pyscsi.pyscsi.scsi_cdb_extended_copy_spc5 import (  # noqa: E402
    ExtendedCopy as ExtendedCopy5,
)
from pyscsi.pyscsi.scsi_cdb_inquiry import Inquiry  # noqa: E402
from pyscsi.pyscsi.scsi_cdb_modesense6 import ModeSelect6, ModeSense6  # noqa: E402
from pyscsi.pyscsi.scsi_cdb_modesense10 import ModeSelect10, ModeSense10  # noqa: E402
from pyscsi.pyscsi.scsi_cdb_persistentreservein import (  # noqa: E402
    PersistentReserveInReadFullStatus,
)
from pyscsi.pyscsi.scsi_cdb_persistentreserveout import (  # noqa: E402
    PersistentReserveOut,
)
from pyscsi.pyscsi.scsi_enum_command import smc, spc, sbc, ssc  # noqa: E402
from pyscsi.pyscsi.scsi_enum_inquiry import (  # noqa: E402
    ASSOCIATION,
    CODE_SET,
    DESIGNATOR,
    NAA,
    VPD,
)
from pyscsi.pyscsi.scsi_enum_modesense import PAGE_CODE  # noqa: E402
from pyscsi.pyscsi.scsi_enum_persistentreserve import PROTOCOL_ID  # noqa: E402

RNG = random.Random(0xC05)
CHECKS = 0


class Failure(Exception):
    pass


def check(cond, msg, *ctx):
    global CHECKS
    CHECKS += 1
    if not cond:
        raise Failure("%s %s" % (msg, " | ".join(repr(c) for c in ctx)))


def check_eq(got, want, msg, *ctx):
    global CHECKS
    CHECKS += 1
    if got != want:
        g = bytes(got).hex() if isinstance(got, (bytes, bytearray)) else repr(got)
        w = bytes(want).hex() if isinstance(want, (bytes, bytearray)) else repr(want)
        raise Failure(
            "%s\n   got : %s\n   want: %s\n   ctx : %s"
            % (msg, g, w, " | ".join(repr(c) for c in ctx))
        )


def check_raises(exc, fn, msg):
    global CHECKS
    CHECKS += 1
    try:
        fn()
    except exc:
        return
    except Exception as e:  # wrong kind
        raise Failure("%s: raised %r instead of %s" % (msg, e, exc))
    raise Failure("%s: did not raise %s" % (msg, exc))


def check_bytearray(value, msg):
    check(isinstance(value, bytearray), msg + ": not a bytearray", type(value))


# --------------------------------------------------------------------------
# a mock device / SCSI object so that we can go through the real public entry
# points (SCSI.modeselect6() and friends)
# --------------------------------------------------------------------------
class Device:
    def __init__(self, opcodes):
        self.opcodes = opcodes
        self.executed = []

    def execute(self, cmd, en_raw_sense=False):
        # record what would go over the wire
        self.executed.append((bytes(cmd.cdb), bytes(cmd.dataout)))

    def open(self):
        pass

    def close(self):
        pass


class MockSCSI(SCSI):
    def __init__(self, dev):
        self.device = dev


# --------------------------------------------------------------------------
# independent reference packer
# --------------------------------------------------------------------------
def put(buf, offset, mask, value):
    """or 'value' into the (big endian) field described by mask at offset"""
    nbytes = (mask.bit_length() + 7) // 8
    shift = (mask & -mask).bit_length() - 1
    assert (value << shift) & ~mask == 0, "reference: value does not fit"
    cur = int.from_bytes(buf[offset : offset + nbytes], "big")
    cur |= value << shift
    buf[offset : offset + nbytes] = cur.to_bytes(nbytes, "big")


def fits(mask):
    """a random value that fits in mask"""
    shift = (mask & -mask).bit_length() - 1
    top = mask >> shift
    r = RNG.random()
    if r < 0.15:
        return 0
    if r < 0.35:
        return top
    return RNG.randint(0, top)


def rbytes(n):
    return bytearray(RNG.getrandbits(8) for _ in range(n))


# ==========================================================================
# MODE SELECT (6) / (10)
# ==========================================================================
ELEMENT_ADDRESS = {
    "first_medium_transport_element_address": (0xFFFF, 0),
    "num_medium_transport_elements": (0xFFFF, 2),
    "first_storage_element_address": (0xFFFF, 4),
    "num_storage_elements": (0xFFFF, 6),
    "first_import_element_address": (0xFFFF, 8),
    "num_import_elements": (0xFFFF, 10),
    "first_data_transfer_element_address": (0xFFFF, 12),
    "num_data_transfer_elements": (0xFFFF, 14),
}
CONTROL = {
    "tst": (0xE0, 0),
    "tmf_only": (0x10, 0),
    "dpicz": (0x08, 0),
    "d_sense": (0x04, 0),
    "gltsd": (0x02, 0),
    "rlec": (0x01, 0),
    "queue_algorithm_modifier": (0xF0, 1),
    "nuar": (0x08, 1),
    "qerr": (0x06, 1),
    "vs": (0x80, 2),
    "rac": (0x40, 2),
    "ua_intlck_ctrl": (0x30, 2),
    "swp": (0x08, 2),
    "ato": (0x80, 3),
    "tas": (0x40, 3),
    "atmpe": (0x20, 3),
    "rwwp": (0x10, 3),
    "autoload_mode": (0x07, 3),
    "busy_timeout_period": (0xFFFF, 6),
    "extended_self_test_completion_time": (0xFFFF, 8),
}
CONTROL_EXT = {
    "tcmos": (0x04, 0),
    "scsip": (0x02, 0),
    "ialuae": (0x01, 0),
    "initial_command_priority": (0x0F, 1),
    "maximum_sense_data_length": (0xFF, 2),
}
DISCONNECT = {
    "buffer_full_ratio": (0xFF, 0),
    "buffer_empty_ratio": (0xFF, 1),
    "bus_inactivity_limit": (0xFFFF, 2),
    "disconnect_time_limit": (0xFFFF, 4),
    "connect_time_limit": (0xFFFF, 6),
    "maximum_burst_size": (0xFFFF, 8),
    "emdp": (0x80, 10),
    "fair_arbitration": (0x70, 10),
    "dimm": (0x08, 10),
    "dtdc": (0x07, 10),
    "first_burst_size": (0xFFFF, 12),
}

# kind -> (page code, spf, sub page code, body length, layout)
PAGE_KINDS = {
    "element": (0x1D, 0, None, 18, ELEMENT_ADDRESS),
    "control": (0x0A, 0, None, 10, CONTROL),
    "control_ext": (0x0A, 1, 1, 28, CONTROL_EXT),
    "disconnect": (0x02, 0, None, 14, DISCONNECT),
}


def gen_mode_page(kind, full=None):
    code, spf, sub, _size, layout = PAGE_KINDS[kind]
    mp = {"ps": RNG.randint(0, 1), "spf": spf, "page_code": code}
    if sub is not None:
        mp["sub_page_code"] = sub
    names = list(layout)
    if full is None:
        full = RNG.random() < 0.5
    if not full:
        names = RNG.sample(names, RNG.randint(0, len(names)))
    RNG.shuffle(names)
    for n in names:
        mp[n] = fits(layout[n][0])
    if RNG.random() < 0.3:
        # shuffle the key order of the whole dict
        items = list(mp.items())
        RNG.shuffle(items)
        mp = dict(items)
    return mp


def ref_mode_page(mp):
    for kind, (code, spf, sub, size, layout) in PAGE_KINDS.items():
        if mp["page_code"] == code and bool(mp["spf"]) == bool(spf):
            break
    else:
        raise AssertionError("reference: unknown page")
    body = bytearray(size)
    for n, (mask, off) in layout.items():
        if n in mp:
            put(body, off, mask, mp[n])
    if spf:
        hdr = bytearray(4)
        hdr[1] = mp["sub_page_code"]
        hdr[2:4] = len(body).to_bytes(2, "big")
    else:
        hdr = bytearray(2)
        hdr[1] = len(body)
    hdr[0] = (mp.get("ps", 0) << 7) | (0x40 if spf else 0) | mp["page_code"]
    return hdr + body


def ref_mode_list(data, ten):
    pages = bytearray()
    for mp in data["mode_pages"]:
        pages += ref_mode_page(mp)
    if ten:
        hdr = bytearray(8)
        hdr[2] = data.get("medium_type", 0)
        hdr[3] = data.get("device_specific_parameter", 0)
        hdr[4] = data.get("longlba", 0)
        out = hdr + pages
        out[0:2] = (len(out) - 2).to_bytes(2, "big")
    else:
        hdr = bytearray(4)
        hdr[1] = data.get("medium_type", 0)
        hdr[2] = data.get("device_specific_parameter", 0)
        out = hdr + pages
        out[0] = len(out) - 1
    return out


def walk_mode_list(buf, ten):
    """structural check: every embedded length equals what follows"""
    if ten:
        check_eq(int.from_bytes(buf[0:2], "big"), len(buf) - 2, "mode data length(10)")
        check_eq(int.from_bytes(buf[6:8], "big"), 0, "block descriptor length(10)")
        pos = 8
    else:
        check_eq(buf[0], len(buf) - 1, "mode data length(6)")
        check_eq(buf[3], 0, "block descriptor length(6)")
        pos = 4
    n = 0
    while pos < len(buf):
        if buf[pos] & 0x40:
            plen = int.from_bytes(buf[pos + 2 : pos + 4], "big")
            pos += 4 + plen
        else:
            plen = buf[pos + 1]
            pos += 2 + plen
        n += 1
    check_eq(pos, len(buf), "mode pages do not tile the parameter list")
    return n


def gen_mode_data(ten, npages):
    data = {}
    if RNG.random() < 0.8:
        data["medium_type"] = RNG.randint(0, 255)
    if RNG.random() < 0.8:
        data["device_specific_parameter"] = RNG.randint(0, 255)
    if ten and RNG.random() < 0.5:
        data["longlba"] = RNG.randint(0, 1)
    data["mode_pages"] = [
        gen_mode_page(RNG.choice(list(PAGE_KINDS))) for _ in range(npages)
    ]
    if RNG.random() < 0.3:
        items = list(data.items())
        RNG.shuffle(items)
        data = dict(items)
    return data


def check_mode_select_one(data, ten, pf, sp, how):
    devs = [spc, sbc, smc, ssc]
    dev = Device(RNG.choice(devs))
    snapshot = copy.deepcopy(data)
    want = ref_mode_list(data, ten)
    kwargs = {}
    if pf is not None:
        kwargs["pf"] = pf
    if sp is not None:
        kwargs["sp"] = sp
    if how == "scsi":
        with MockSCSI(dev) as s:
            cmd = (s.modeselect10 if ten else s.modeselect6)(data, **kwargs)
        check_eq(len(dev.executed), 1, "command was not executed exactly once")
        check_eq(dev.executed[0][1], bytes(want), "data sent to the device", data)
    else:
        klass = ModeSelect10 if ten else ModeSelect6
        opcode = dev.opcodes.MODE_SELECT_10 if ten else dev.opcodes.MODE_SELECT_6
        if how == "positional":
            args = [data]
            if pf is not None:
                args.append(pf)
                if sp is not None:
                    args.append(sp)
                    kwargs = {}
                else:
                    kwargs.pop("pf")
            cmd = klass(opcode, *args, **kwargs)
        else:
            cmd = klass(opcode, data=data, **kwargs)
    epf = 1 if pf is None else pf
    esp = 0 if sp is None else sp
    check_bytearray(cmd.dataout, "mode select dataout")
    check_bytearray(cmd.cdb, "mode select cdb")
    check_eq(cmd.dataout, want, "MODE SELECT parameter list", data, ten)
    walk_n = walk_mode_list(cmd.dataout, ten)
    check_eq(walk_n, len(data["mode_pages"]), "number of mode pages")
    if ten:
        cdb = bytearray(10)
        cdb[0] = 0x55
        cdb[1] = (epf << 4) | esp
        cdb[7:9] = len(want).to_bytes(2, "big")
        check_eq(int.from_bytes(cmd.cdb[7:9], "big"), len(cmd.dataout), "PLL(10)")
    else:
        cdb = bytearray(6)
        cdb[0] = 0x15
        cdb[1] = (epf << 4) | esp
        cdb[4] = len(want)
        check_eq(cmd.cdb[4], len(cmd.dataout), "PLL(6)")
    check_eq(cmd.cdb, cdb, "MODE SELECT cdb", data, ten, pf, sp)
    check_eq(len(cmd.datain), 0, "mode select has no data-in")
    check_eq(data, snapshot, "MODE SELECT modified the caller's dict")
    # the classmethod / staticmethod spellings give the same bytes
    klass = ModeSelect10 if ten else ModeSelect6
    sense = ModeSense10 if ten else ModeSense6
    check_eq(klass.marshall_dataout(data), want, "marshall_dataout (class)")
    check_eq(cmd.marshall_dataout(data), want, "marshall_dataout (instance)")
    check_eq(sense.marshall_datain(data), want, "ModeSense.marshall_datain")
    check_bytearray(klass.marshall_dataout(data), "marshall_dataout")
    check_eq(klass.unmarshall_datain(bytearray(4)), None, "unmarshall_datain")
    check_eq(cmd.unmarshall_datain(bytearray(0)), None, "unmarshall_datain (inst)")
    # cdb round trip
    d = cmd.unmarshall_cdb(cmd.cdb)
    check_eq(
        d,
        {
            "opcode": cdb[0],
            "pf": epf,
            "sp": esp,
            "parameter_list_length": len(want),
        },
        "unmarshall_cdb",
    )
    check_eq(klass.marshall_cdb(d), cdb, "marshall_cdb")
    # the device decodes the (first) page back to what was supplied
    if len(data["mode_pages"]) == 1:
        back = sense.unmarshall_datain(cmd.dataout)
        mp = data["mode_pages"][0]
        got = back["mode_pages"][0]
        for k, v in mp.items():
            if k == "spf":
                check_eq(got[k], 1 if v else 0, "round trip spf")
            else:
                check_eq(got[k], v, "round trip of " + k, mp)
        check_eq(back["medium_type"], data.get("medium_type", 0), "rt medium_type")
        check_eq(
            back["device_specific_parameter"],
            data.get("device_specific_parameter", 0),
            "rt dsp",
        )
    return cmd


def check_mode_select():
    hows = ["scsi", "positional", "keyword"]
    # one page of every kind, every pf/sp combination, both sizes
    for ten in (False, True):
        for kind in PAGE_KINDS:
            for pf in (None, 0, 1):
                for sp in (None, 0, 1):
                    for how in hows:
                        for full in (True, False):
                            data = {
                                "medium_type": RNG.randint(0, 255),
                                "device_specific_parameter": RNG.randint(0, 255),
                                "mode_pages": [gen_mode_page(kind, full)],
                            }
                            check_mode_select_one(data, ten, pf, sp, how)
    # header only (no pages at all), minimal dicts
    for ten in (False, True):
        cmd = check_mode_select_one({"mode_pages": []}, ten, None, None, "scsi")
        check_eq(len(cmd.dataout), 8 if ten else 4, "header only list")
        check_mode_select_one({"mode_pages": (), "medium_type": 3}, ten, 0, 1, "keyword")
    # random multi page lists
    for i in range(400):
        ten = bool(i & 1)
        npages = RNG.randint(0, 6) if not ten else RNG.randint(0, 40)
        data = gen_mode_data(ten, npages)
        check_mode_select_one(
            data, ten, RNG.choice([None, 0, 1]), RNG.choice([None, 0, 1]), RNG.choice(hows)
        )
    # the same page object several times, all maximal values
    for ten in (False, True):
        for kind, (code, spf, sub, size, layout) in PAGE_KINDS.items():
            mp = {"ps": 1, "spf": spf, "page_code": code}
            if sub is not None:
                mp["sub_page_code"] = sub
            for n, (mask, _o) in layout.items():
                mp[n] = mask >> ((mask & -mask).bit_length() - 1)
            data = {
                "medium_type": 0xFF,
                "device_specific_parameter": 0xFF,
                "mode_pages": [mp, mp, dict(mp)],
            }
            if ten:
                data["longlba"] = 1
            cmd = check_mode_select_one(data, ten, 1, 1, "scsi")
            body = cmd.dataout[(8 if ten else 4) :]
            check_eq(len(body) % 3, 0, "three equal pages")
            third = len(body) // 3
            check_eq(body[:third], body[third : 2 * third], "equal pages differ")
    # unusual but valid: truthy non-int spf, keys the header/page does not
    # know, caller supplied length fields (which have to be ignored), all zero
    for ten in (False, True):
        mp = gen_mode_page("control_ext", True)
        mp["spf"] = True
        mp["page_length"] = 99
        mp["comment"] = "ignored"
        data = {
            "mode_data_length": 77,
            "block_descriptor_length": 55,
            "unknown": None,
            "mode_pages": [mp],
        }
        want = ref_mode_list(
            {"mode_pages": [dict(mp, spf=1)]},
            ten,
        )
        klass = ModeSelect10 if ten else ModeSelect6
        opcode = spc.MODE_SELECT_10 if ten else spc.MODE_SELECT_6
        cmd = klass(opcode, data)
        check_eq(cmd.dataout, want, "unusual mode select dict")
        walk_mode_list(cmd.dataout, ten)
        mp = {"spf": 0, "page_code": PAGE_CODE.ELEMENT_ADDRESS_ASSIGNMENT, "ps": 0}
        cmd = klass(opcode, {"mode_pages": [mp]})
        want = bytearray((8 if ten else 4) + 20)
        if ten:
            want[1] = 26
            want[8], want[9] = 0x1D, 18
        else:
            want[0] = 23
            want[4], want[5] = 0x1D, 18
        check_eq(cmd.dataout, want, "all zero element address page")
        # a sub page formatted element address assignment page (spf=1)
        mp = {
            "spf": 1,
            "ps": 0,
            "page_code": PAGE_CODE.ELEMENT_ADDRESS_ASSIGNMENT,
            "sub_page_code": 0x42,
            "num_storage_elements": 0x1234,
        }
        cmd = klass(opcode, {"mode_pages": [mp]})
        hdr = 8 if ten else 4
        check_eq(len(cmd.dataout), hdr + 4 + 18, "spf element page length")
        check_eq(cmd.dataout[hdr : hdr + 4], bytearray([0x5D, 0x42, 0, 18]), "spf hdr")
        check_eq(cmd.dataout[hdr + 4 + 6 : hdr + 4 + 8], b"\x12\x34", "spf body")
        walk_mode_list(cmd.dataout, ten)
        # unsupported things are reported by an exception, never by a
        # wrong list
        check_raises(
            Exception,
            lambda: klass(opcode, {"mode_pages": [{"spf": 0, "page_code": 0x3F}]}),
            "unknown page code",
        )
        check_raises(KeyError, lambda: klass(opcode, {}), "no mode_pages")
        check_raises(
            KeyError,
            lambda: klass(opcode, {"mode_pages": [{"page_code": 0x0A}]}),
            "no spf",
        )
        check_raises(
            KeyError,
            lambda: klass(opcode, {"mode_pages": [{"spf": 0}]}),
            "no page_code",
        )
        check_raises(
            KeyError,
            lambda: klass(opcode, {"mode_pages": [{"spf": 1, "page_code": 0x0A}]}),
            "no sub_page_code",
        )


# ==========================================================================
# TransportIDs / PERSISTENT RESERVE OUT
# ==========================================================================
def pad4(n):
    return (n + 3) // 4 * 4


def gen_tid(proto=None):
    if proto is None:
        proto = RNG.choice(["fc", "1394", "rdma", "iscsi0", "iscsi1", "sas", "sop"])
    if proto == "fc":
        d = {"protocol_id": PROTOCOL_ID.FIBRE_CHANNEL, "n_port_name": rbytes(8)}
    elif proto == "1394":
        d = {"protocol_id": PROTOCOL_ID.IEEE_1394, "eui64_name": rbytes(8)}
    elif proto == "rdma":
        d = {"protocol_id": PROTOCOL_ID.RDMA, "initiator_port_identifier": rbytes(16)}
    elif proto == "sas":
        d = {"protocol_id": PROTOCOL_ID.SAS, "sas_address": rbytes(8)}
    elif proto == "sop":
        d = {"protocol_id": PROTOCOL_ID.SOP, "routing_id": rbytes(8)}
    else:
        n = RNG.choice([1, 2, 3, 4, 5, 6, 7, 8, 15, 16, 17, 38, 39, 40, 41, 100, 223])
        name = "iqn." + "".join(
            RNG.choice("abcdefghijklmnopqrstuvwxyz0123456789.:-") for _ in range(n)
        )
        d = {"protocol_id": PROTOCOL_ID.ISCSI, "iscsi_name": name}
        if proto == "iscsi1":
            d["tpid_format"] = 1
            d["iscsi_initiator_session_id"] = "%012x" % RNG.getrandbits(48)
        elif RNG.random() < 0.5:
            d["tpid_format"] = 0
    if proto not in ("iscsi0", "iscsi1") and RNG.random() < 0.5:
        d["tpid_format"] = 0
    if RNG.random() < 0.3:
        items = list(d.items())
        RNG.shuffle(items)
        d = dict(items)
    if RNG.random() < 0.3:
        # the identifier may be given as bytes too
        for k, v in list(d.items()):
            if isinstance(v, bytearray):
                d[k] = bytes(v)
    return d


def ref_tid(d):
    p = d["protocol_id"]
    fmt = d.get("tpid_format", 0)
    if p == 0x05:
        s = d["iscsi_name"]
        if fmt == 1:
            s = s + ",i,0x" + d["iscsi_initiator_session_id"]
        raw = s.encode("ascii")
        body = raw + bytes(pad4(len(raw) + 1) - len(raw))
        out = bytearray(4) + body
        out[2:4] = len(body).to_bytes(2, "big")
    else:
        out = bytearray(24)
        if p == 0x00:
            out[8:16] = d["n_port_name"]
        elif p == 0x03:
            out[8:16] = d["eui64_name"]
        elif p == 0x04:
            out[8:24] = d["initiator_port_identifier"]
        elif p == 0x06:
            out[4:12] = d["sas_address"]
        elif p == 0x0A:
            out[4:12] = d["routing_id"]
    out[0] = (fmt << 6) | p
    return out


def check_tid_structure(buf):
    p = buf[0] & 0x0F
    if p == 0x05:
        al = int.from_bytes(buf[2:4], "big")
        check_eq(al, len(buf) - 4, "iSCSI TransportID additional length")
        check_eq(al % 4, 0, "iSCSI TransportID not a multiple of four")
        check(al >= 20 or True, "")
        check_eq(buf[-1], 0, "iSCSI name not null terminated")
    else:
        check_eq(len(buf), 24, "fixed TransportID length")


def check_transport_ids():
    M = PersistentReserveInReadFullStatus
    for proto in ["fc", "1394", "rdma", "iscsi0", "iscsi1", "sas", "sop"]:
        for _ in range(60):
            d = gen_tid(proto)
            snap = copy.deepcopy(d)
            got = M.marshall_transport_id(d)
            check_bytearray(got, "marshall_transport_id")
            check_eq(got, ref_tid(d), "TransportID", d)
            check_tid_structure(got)
            check_eq(d, snap, "marshall_transport_id modified its argument")
            back = M.unmarshall_transport_id(got)
            for k, v in d.items():
                check_eq(back[k], v, "TransportID round trip of " + k, d)
    # every iSCSI name length from 1 to 70: padding / null terminator
    for n in range(1, 71):
        for fmt in (0, 1):
            d = {"protocol_id": 5, "iscsi_name": "q" * n}
            if fmt:
                d.update(tpid_format=1, iscsi_initiator_session_id="abc")
            got = M.marshall_transport_id(d)
            check_eq(got, ref_tid(d), "iSCSI TransportID", d)
            check_tid_structure(got)
            strlen = n + (8 if fmt else 0)
            check_eq(len(got), 4 + pad4(strlen + 1), "iSCSI TransportID size")
    # longer identifiers than the field are cut
    d = {"protocol_id": PROTOCOL_ID.SAS, "sas_address": bytearray(range(1, 13))}
    check_eq(
        M.marshall_transport_id(d),
        bytearray([6, 0, 0, 0]) + bytearray(range(1, 9)) + bytearray(12),
        "long sas address",
    )
    d = {"protocol_id": PROTOCOL_ID.RDMA, "initiator_port_identifier": bytes(range(40))}
    check_eq(
        M.marshall_transport_id(d),
        bytearray([4, 0, 0, 0, 0, 0, 0, 0]) + bytearray(range(16)),
        "long rdma id",
    )
    # a protocol id without identifier layout still gives a 24 byte id
    check_eq(
        M.marshall_transport_id({"protocol_id": 0x01, "tpid_format": 0}),
        bytearray([1]) + bytearray(23),
        "protocol 1",
    )
    # errors
    check_raises(
        ValueError,
        lambda: M.marshall_transport_id(
            {"protocol_id": 5, "iscsi_name": "iqn.a", "tpid_format": 1}
        ),
        "format 1 without isid",
    )
    check_raises(
        ValueError,
        lambda: M.marshall_transport_id(
            {"protocol_id": 5, "iscsi_name": "iqn.a", "iscsi_initiator_session_id": "1"}
        ),
        "isid without format 1",
    )
    check_raises(
        ValueError,
        lambda: M.marshall_transport_id(
            {
                "protocol_id": 5,
                "iscsi_name": "iqn.a",
                "iscsi_initiator_session_id": "1",
                "tpid_format": 0,
            }
        ),
        "isid with format 0",
    )
    check_raises(KeyError, lambda: M.marshall_transport_id({}), "no protocol id")
    check_raises(
        KeyError, lambda: M.marshall_transport_id({"protocol_id": 0}), "no n_port_name"
    )
    check_raises(
        KeyError, lambda: M.marshall_transport_id({"protocol_id": 5}), "no iscsi_name"
    )
    check_raises(
        KeyError, lambda: M.marshall_transport_id({"protocol_id": 6}), "no sas_address"
    )


BASIC_KEYS = {
    "reservation_key": (0xFFFFFFFFFFFFFFFF, 0),
    "service_action_reservation_key": (0xFFFFFFFFFFFFFFFF, 8),
    "spec_i_pt": (0x08, 20),
    "all_tg_pt": (0x04, 20),
    "aptpl": (0x01, 20),
}
RAM_KEYS = {
    "reservation_key": (0xFFFFFFFFFFFFFFFF, 0),
    "service_action_reservation_key": (0xFFFFFFFFFFFFFFFF, 8),
    "unreg": (0x02, 17),
    "aptpl": (0x01, 17),
    "relative_target_port_id": (0xFFFF, 18),
}


def ref_pr_out(sa, kw):
    if sa == 7:
        out = bytearray(24)
        for k, (mask, off) in RAM_KEYS.items():
            if k in kw:
                put(out, off, mask, kw[k])
        tid = ref_tid(kw["transport_id"]) if kw.get("transport_id") else bytearray()
        out[20:24] = len(tid).to_bytes(4, "big")
        return out + tid
    out = bytearray(24)
    for k, (mask, off) in BASIC_KEYS.items():
        if k in kw:
            put(out, off, mask, kw[k])
    if sa == 0 and kw.get("spec_i_pt"):
        tids = bytearray()
        for t in kw.get("transport_ids", []):
            tids += ref_tid(t)
        out += len(tids).to_bytes(4, "big") + tids
    return out


def walk_pr_out(sa, buf, kw):
    if sa == 7:
        check_eq(
            int.from_bytes(buf[20:24], "big"), len(buf) - 24, "TRANSPORTID LENGTH field"
        )
        if len(buf) > 24:
            check_tid_structure(buf[24:])
    elif sa == 0 and kw.get("spec_i_pt"):
        check_eq(
            int.from_bytes(buf[24:28], "big"),
            len(buf) - 28,
            "TRANSPORTID PARAMETER DATA LENGTH field",
        )
        pos, n = 28, 0
        while pos < len(buf):
            if buf[pos] & 0x0F == 5:
                ln = 4 + int.from_bytes(buf[pos + 2 : pos + 4], "big")
            else:
                ln = 24
            check_tid_structure(buf[pos : pos + ln])
            pos += ln
            n += 1
        check_eq(pos, len(buf), "TransportIDs do not tile the additional data")
        check_eq(n, len(kw.get("transport_ids", [])), "number of TransportIDs")
    else:
        check_eq(len(buf), 24, "basic parameter list length")


def check_pr_out_one(sa, scope, pr_type, kw, how):
    dev = Device(RNG.choice([spc, sbc, smc, ssc]))
    opcode = dev.opcodes.PERSISTENT_RESERVE_OUT
    snap = copy.deepcopy(kw)
    want = ref_pr_out(sa, kw)
    kwargs = dict(kw)
    escope = 0 if scope is None else scope
    etype = 0 if pr_type is None else pr_type
    if how == "scsi":
        if scope is not None:
            kwargs["scope"] = scope
        if pr_type is not None:
            kwargs["pr_type"] = pr_type
        with MockSCSI(dev) as s:
            cmd = s.persistentreserveout(sa, **kwargs)
        check_eq(len(dev.executed), 1, "PR OUT executed once")
        check_eq(dev.executed[0][1], bytes(want), "PR OUT data sent", sa, kw)
    elif how == "positional":
        cmd = PersistentReserveOut(opcode, sa, escope, etype, **kwargs)
    else:
        if scope is not None:
            kwargs["scope"] = scope
        if pr_type is not None:
            kwargs["pr_type"] = pr_type
        cmd = PersistentReserveOut(opcode=opcode, service_action=sa, **kwargs)
    check_bytearray(cmd.dataout, "PR OUT dataout")
    check_eq(cmd.dataout, want, "PR OUT parameter list", sa, kw)
    walk_pr_out(sa, cmd.dataout, kw)
    cdb = bytearray(10)
    cdb[0] = 0x5F
    cdb[1] = sa
    cdb[2] = (escope << 4) | etype
    cdb[5:9] = len(want).to_bytes(4, "big")
    check_eq(cmd.cdb, cdb, "PR OUT cdb", sa, scope, pr_type)
    check_eq(int.from_bytes(cmd.cdb[5:9], "big"), len(cmd.dataout), "PR OUT PLL")
    check_eq(kw, snap, "PR OUT modified the caller's dicts")
    check_eq(
        PersistentReserveOut.marshall_dataout(opcode, sa, kw),
        want,
        "PersistentReserveOut.marshall_dataout",
    )
    check_eq(cmd.marshall_dataout(opcode, sa, dict(kw)), want, "marshall_dataout (inst)")
    check_eq(kw, snap, "marshall_dataout modified the caller's dicts")
    d = cmd.unmarshall_cdb(cmd.cdb)
    check_eq(
        d,
        {
            "opcode": 0x5F,
            "service_action": sa,
            "scope": escope,
            "pr_type": etype,
            "parameter_list_length": len(want),
        },
        "PR OUT unmarshall_cdb",
    )
    check_eq(PersistentReserveOut.marshall_cdb(d), cdb, "PR OUT marshall_cdb")
    return cmd


def gen_basic_kw():
    kw = {}
    for k, (mask, _o) in BASIC_KEYS.items():
        if RNG.random() < 0.6:
            kw[k] = fits(mask)
    items = list(kw.items())
    RNG.shuffle(items)
    return dict(items)


def check_pr_out():
    hows = ["scsi", "positional", "keyword"]
    types_ = [None, 0, 1, 3, 5, 6, 7, 8, 15]
    scopes = [None, 0, 1, 15]
    # basic lists for every service action
    for sa in range(0, 9):
        if sa == 7:
            continue
        for how in hows:
            check_pr_out_one(sa, None, None, {}, how)
            for _ in range(25):
                kw = gen_basic_kw()
                if RNG.random() < 0.5:
                    kw["transport_ids"] = [gen_tid() for _ in range(RNG.randint(0, 3))]
                check_pr_out_one(sa, RNG.choice(scopes), RNG.choice(types_), kw, how)
    # REGISTER with SPEC_I_PT and 0..n TransportIDs
    for i in range(200):
        kw = gen_basic_kw()
        kw["spec_i_pt"] = 1
        r = RNG.random()
        if r < 0.1:
            pass  # no transport_ids key at all
        elif r < 0.2:
            kw["transport_ids"] = []
        elif r < 0.3:
            kw["transport_ids"] = tuple(gen_tid() for _ in range(RNG.randint(1, 3)))
        else:
            kw["transport_ids"] = [gen_tid() for _ in range(RNG.randint(1, 9))]
        cmd = check_pr_out_one(
            0, RNG.choice(scopes), RNG.choice(types_), kw, RNG.choice(hows)
        )
        check(len(cmd.dataout) >= 28, "SPEC_I_PT list shorter than 28")
    # spec_i_pt with other service actions does not add the extra header
    for sa in (1, 2, 3, 4, 5, 6, 8):
        cmd = check_pr_out_one(
            sa, 0, 1, {"spec_i_pt": 1, "transport_ids": [gen_tid()]}, "scsi"
        )
        check_eq(len(cmd.dataout), 24, "non REGISTER with spec_i_pt")
    # the same TransportID many times
    t = gen_tid("iscsi1")
    check_pr_out_one(0, 0, 0, {"spec_i_pt": 1, "transport_ids": [t] * 17}, "scsi")
    # REGISTER AND MOVE
    for i in range(250):
        kw = {}
        for k, (mask, _o) in RAM_KEYS.items():
            if RNG.random() < 0.7:
                kw[k] = fits(mask)
        r = RNG.random()
        if r < 0.7:
            kw["transport_id"] = gen_tid()
        elif r < 0.8:
            kw["transport_id"] = {}
        elif r < 0.9:
            kw["transport_id"] = None
        items = list(kw.items())
        RNG.shuffle(items)
        kw = dict(items)
        check_pr_out_one(7, RNG.choice(scopes), RNG.choice(types_), kw, RNG.choice(hows))
    # caller supplied length fields never end up in the list
    cmd = check_pr_out_one(
        7,
        0,
        0,
        {
            "transportid_length": 0x11223344,
            "transport_id": gen_tid("fc"),
            "reservation_key": 1,
        },
        "scsi",
    )
    check_eq(cmd.dataout[20:24], bytearray([0, 0, 0, 24]), "transportid_length supplied")
    cmd = check_pr_out_one(7, 0, 0, {"transportid_length": 0x11223344}, "keyword")
    check_eq(cmd.dataout[20:24], bytearray(4), "transportid_length supplied, no id")
    # keys of the other list format are ignored
    check_pr_out_one(7, 0, 0, {"spec_i_pt": 1, "all_tg_pt": 1, "unreg": 1}, "scsi")
    check_pr_out_one(0, 0, 0, {"unreg": 1, "relative_target_port_id": 9}, "scsi")
    check_pr_out_one(
        0, 0, 0, {"spec_i_pt": 0, "transport_ids": [gen_tid()], "aptpl": 1}, "scsi"
    )
    # invalid TransportIDs are refused
    check_raises(
        ValueError,
        lambda: PersistentReserveOut(
            spc.PERSISTENT_RESERVE_OUT,
            7,
            transport_id={"protocol_id": 5, "iscsi_name": "x", "tpid_format": 1},
        ),
        "PR OUT with bad transport id",
    )
    check_raises(
        KeyError,
        lambda: PersistentReserveOut(
            spc.PERSISTENT_RESERVE_OUT,
            0,
            spec_i_pt=1,
            transport_ids=[{"iscsi_name": "x"}],
        ),
        "PR OUT with transport id without protocol",
    )


# ==========================================================================
# designators (used by the identification CSCD / target descriptor)
# ==========================================================================
def gen_designator():
    """return (designator_type, designator dict, reference bytes)"""
    k = RNG.choice(
        ["vs", "t10", "eui8", "eui12", "eui16", "naa2", "naa3", "naa5", "naa6",
         "rtp", "tpg", "lug", "md5", "name", "pci"]
    )
    if k == "vs":
        b = rbytes(RNG.randint(0, 20))
        return DESIGNATOR.VENDOR_SPECIFIC, {"vendor_specific": b}, bytes(b)
    if k == "t10":
        a, b = rbytes(8), rbytes(RNG.randint(0, 12))
        return (
            DESIGNATOR.T10_VENDOR_ID,
            {"t10_vendor_id": a, "vendor_specific_id": b},
            bytes(a + b),
        )
    if k.startswith("eui"):
        cid = RNG.getrandbits(24)
        ext = rbytes(5)
        d = {"ieee_company_id": cid, "vendor_specific_extension_id": ext}
        ref = cid.to_bytes(3, "big") + bytes(ext)
        if k == "eui12":
            d["directory_id"] = rbytes(4)
            ref = ref + bytes(d["directory_id"])
        if k == "eui16":
            d["identifier_extension"] = rbytes(8)
            ref = bytes(d["identifier_extension"]) + ref
        return DESIGNATOR.EUI_64, d, ref
    if k == "naa2":
        a, c, b = RNG.getrandbits(12), RNG.getrandbits(24), RNG.getrandbits(24)
        d = {
            "naa": NAA.IEEE_EXTENDED,
            "vendor_specific_identifier_a": a,
            "ieee_company_id": c,
            "vendor_specific_identifier_b": b,
        }
        ref = ((2 << 60) | (a << 48) | (c << 24) | b).to_bytes(8, "big")
        return DESIGNATOR.NAA, d, ref
    if k == "naa3":
        v = RNG.getrandbits(60)
        d = {"naa": NAA.LOCALLY_ASSIGNED, "locally_administered_value": v}
        return DESIGNATOR.NAA, d, ((3 << 60) | v).to_bytes(8, "big")
    if k == "naa5":
        c, v = RNG.getrandbits(24), RNG.getrandbits(36)
        d = {
            "naa": NAA.IEEE_REGISTERED,
            "ieee_company_id": c,
            "vendor_specific_identifier": v,
        }
        return DESIGNATOR.NAA, d, ((5 << 60) | (c << 36) | v).to_bytes(8, "big")
    if k == "naa6":
        c, v, e = RNG.getrandbits(24), RNG.getrandbits(36), RNG.getrandbits(64)
        d = {
            "naa": NAA.IEEE_REGISTERED_EXTENDED,
            "ieee_company_id": c,
            "vendor_specific_identifier": v,
            "vendor_specific_identifier_extension": e,
        }
        ref = ((6 << 60) | (c << 36) | v).to_bytes(8, "big") + e.to_bytes(8, "big")
        return DESIGNATOR.NAA, d, ref
    if k == "rtp":
        v = RNG.getrandbits(16)
        return (
            DESIGNATOR.RELATIVE_TARGET_PORT_IDENTIFIER,
            {"relative_port": v},
            b"\0\0" + v.to_bytes(2, "big"),
        )
    if k == "tpg":
        v = RNG.getrandbits(16)
        return (
            DESIGNATOR.TARGET_PORTAL_GROUP,
            {"target_portal_group": v},
            b"\0\0" + v.to_bytes(2, "big"),
        )
    if k == "lug":
        v = RNG.getrandbits(16)
        return (
            DESIGNATOR.LOGICAL_UNIT_GROUP,
            {"logical_unit_group": v},
            b"\0\0" + v.to_bytes(2, "big"),
        )
    if k == "md5":
        b = rbytes(16)
        return DESIGNATOR.MD5_LOGICAL_IDENTIFIER, {"md5_logical_identifier": b}, bytes(b)
    if k == "name":
        b = bytearray(b"iqn.2001-04.com.ex\0\0")[: RNG.choice([4, 8, 12, 16, 20])]
        return DESIGNATOR.SCSI_NAME_STRING, {"scsi_name_string": b}, bytes(b)
    v = RNG.getrandbits(16)
    return (
        DESIGNATOR.PCI_EXPRESS_ROUTING_ID,
        {"pci_express_routing_id": v},
        v.to_bytes(2, "big") + bytes(6),
    )


def check_designators():
    for _ in range(600):
        t, d, ref = gen_designator()
        snap = copy.deepcopy(d)
        got = Inquiry.marshall_designator(t, d)
        check_eq(bytes(got), ref, "Inquiry.marshall_designator", t, d)
        check_eq(d, snap, "marshall_designator modified its argument")
        back = Inquiry.unmarshall_designator(t, bytearray(ref))
        for k, v in d.items():
            check_eq(back[k], v, "designator round trip " + k, t, d)
        # full designation descriptor (device identification VPD page)
        dd = {
            "protocol_identifier": RNG.randint(0, 15),
            "code_set": RNG.randint(0, 15),
            "piv": RNG.randint(0, 1),
            "association": RNG.randint(0, 3),
            "designator_type": t,
            "designator": d,
        }
        if RNG.random() < 0.5:
            dd["designator_length"] = RNG.randint(0, 255)  # has to be ignored
        want = (
            bytearray(
                [
                    (dd["protocol_identifier"] << 4) | dd["code_set"],
                    (dd["piv"] << 7) | (dd["association"] << 4) | t,
                    0,
                    len(ref),
                ]
            )
            + ref
        )
        check_eq(Inquiry.marshall_designation_descriptor(dd), want, "designation desc")
    # the VPD page built from several descriptors
    dds, body = [], bytearray()
    for _ in range(7):
        t, d, ref = gen_designator()
        dds.append(
            {
                "piv": 0,
                "code_set": 1,
                "association": 0,
                "designator_type": t,
                "designator": d,
            }
        )
        body += bytearray([1, t, 0, len(ref)]) + ref
    page = Inquiry.marshall_datain(
        {
            "peripheral_qualifier": 0,
            "peripheral_device_type": 0,
            "page_code": VPD.DEVICE_IDENTIFICATION,
            "designator_descriptors": dds,
        }
    )
    check_eq(
        page,
        bytearray([0, 0x83]) + len(body).to_bytes(2, "big") + body,
        "device identification page",
    )
    check_eq(Inquiry.marshall_designator(0x0F, {}), None, "unknown designator type")
    check_eq(
        Inquiry.marshall_designator(DESIGNATOR.NAA, {"naa": 1}), None, "unknown naa"
    )


# ==========================================================================
# EXTENDED COPY (LID1 = spc4 module, LID4 = spc5 module)
# ==========================================================================
class Flavour:
    def __init__(self, lid4):
        self.lid4 = lid4
        self.klass = ExtendedCopy5 if lid4 else ExtendedCopy4
        self.marshall_cscd = (
            ExtendedCopy5.marshall_cscd if lid4 else ExtendedCopy4.marshall_target
        )
        self.marshall_params = (
            ExtendedCopy5.marshall_cscd_descriptor_parameters
            if lid4
            else ExtendedCopy4.marshall_target_descriptor_parameters
        )
        self.params_key = (
            "cscd_descriptor_parameters" if lid4 else "target_descriptor_parameters"
        )
        self.src_key = (
            "source_cscd_descriptor_id" if lid4 else "source_target_descriptor_id"
        )
        self.dst_key = (
            "destination_cscd_descriptor_id"
            if lid4
            else "destination_target_descriptor_id"
        )
        self.ident_name = (
            "Identification Descriptor CSCD descriptor"
            if lid4
            else "Identification descriptor target descriptor"
        )
        self.block_types = [0x00, 0x05, 0x0E] if lid4 else [0x00, 0x04, 0x05, 0x07, 0x0E]
        self.hdr = 48 if lid4 else 16


BLOCK_DESCR = {
    0x00: "Direct access block device (e.g., magnetic disk)",
    0x04: "Write-once device (e.g., some optical disks)",
    0x05: "CD/DVD device",
    0x07: "Optical memory device (e.g., some optical disks)",
    0x0E: "Simplified direct access device (e.g., magnetic disk)",
    0x01: "Sequential access device (e.g., magnetic tape)",
    0x03: "Processor device",
}


def gen_cscd(fl):
    """returns (dict, reference bytes)"""
    while True:
        t, d, ref = gen_designator()
        if len(ref) <= 20:
            break
    pdt = RNG.choice(fl.block_types + [0x01, 0x03])
    out = bytearray(32)
    cd = {}
    r = RNG.random()
    if r < 0.4:
        cd["descriptor_type_code"] = 0xE4
    else:
        cd["descriptor_type_code"] = fl.ident_name
    out[0] = 0xE4
    r = RNG.random()
    if r < 0.5:
        cd["peripheral_device_type"] = pdt
    elif r < 0.8 or pdt == 0x03:
        cd["peripheral_device_type"] = BLOCK_DESCR[pdt]
    else:
        # the (unique) name of the sequential type
        cd["peripheral_device_type"] = "Stream or Tape" if pdt == 1 else pdt
    out[1] = pdt
    if RNG.random() < 0.4:
        cd["lu_id_type"] = 0
    if RNG.random() < 0.6:
        v = RNG.getrandbits(16)
        cd["relative_initiator_port_identifier"] = v
        out[2:4] = v.to_bytes(2, "big")
    params = {"designator_type": t, "designator": d}
    cs = assoc = 0
    if RNG.random() < 0.7:
        cs = params["code_set"] = RNG.randint(0, 15)
    if RNG.random() < 0.7:
        assoc = params["association"] = RNG.randint(0, 3)
    if RNG.random() < 0.5:
        params["designator_length"] = RNG.randint(0, 255)  # ignored
    if RNG.random() < 0.3:
        items = list(params.items())
        RNG.shuffle(items)
        params = dict(items)
    cd[fl.params_key] = params
    out[4] = cs
    out[5] = (assoc << 4) | t
    out[7] = len(ref)
    out[8 : 8 + len(ref)] = ref
    dts = {}
    if pdt in fl.block_types:
        if RNG.random() < 0.6:
            dts["pad"] = RNG.randint(0, 1)
        if RNG.random() < 0.7:
            dts["disk_block_length"] = fits(0xFFFFFF)
        if RNG.random() < 0.2:
            dts["fixed"] = 1  # not a block device parameter: ignored
        out[28] = dts.get("pad", 0) << 2
        out[29:32] = dts.get("disk_block_length", 0).to_bytes(3, "big")
    elif pdt == 0x01:
        if RNG.random() < 0.6:
            dts["pad"] = RNG.randint(0, 1)
        if RNG.random() < 0.6:
            dts["fixed"] = RNG.randint(0, 1)
        if RNG.random() < 0.7:
            dts["stream_block_length"] = fits(0xFFFFFF)
        if RNG.random() < 0.2:
            dts["disk_block_length"] = 512  # ignored
        out[28] = (dts.get("pad", 0) << 2) | dts.get("fixed", 0)
        out[29:32] = dts.get("stream_block_length", 0).to_bytes(3, "big")
    else:
        if RNG.random() < 0.6:
            dts["pad"] = RNG.randint(0, 1)
        if RNG.random() < 0.3:
            dts["disk_block_length"] = 512  # ignored
            dts["fixed"] = 1  # ignored
        out[28] = dts.get("pad", 0) << 2
    if dts or RNG.random() < 0.5:
        cd["device_type_specific_parameters"] = dts
    if RNG.random() < 0.3:
        items = list(cd.items())
        RNG.shuffle(items)
        cd = dict(items)
    return cd, out


SEG_B2S = {
    "cat": (0x01, 1),
    "stream_device_transfer_length": (0xFFFFFF, 9),
    "block_device_number_of_blocks": (0xFFFF, 14),
    "block_device_logical_block_address": (0xFFFFFFFFFFFFFFFF, 16),
}
SEG_B2B = {
    "cat": (0x01, 1),
    "dc": (0x02, 1),
    "block_device_number_of_blocks": (0xFFFF, 10),
    "source_block_device_logical_block_address": (0xFFFFFFFFFFFFFFFF, 12),
    "destination_block_device_logical_block_address": (0xFFFFFFFFFFFFFFFF, 20),
}
SEG_NAMES4 = {
    0x00: ("block -> stream", "Copy from block device to stream device"),
    0x01: ("stream -> block", "Copy from stream device to block device"),
    0x02: ("block -> block", "Copy from block device to block device"),
    0x0B: (
        "block -> stream&application client",
        "Copy from block device to stream device and hold a copy of processed data for the application client",
    ),
    0x0C: (
        "stream -> block&application client",
        "Copy from stream device to block device and hold a copy of processed data for the application client",
    ),
    0x0D: (
        "block -> block&application client",
        "Copy from block device to block device and hold a copy of processed data for the application client",
    ),
}


def gen_segment(fl):
    code = RNG.choice([0x00, 0x01, 0x02, 0x0B, 0x0C, 0x0D])
    if code in (0x02, 0x0D):
        layout = dict(SEG_B2B)
        if fl.lid4:
            layout["fco"] = (0x04, 1)
        size = 28
    else:
        layout = dict(SEG_B2S)
        size = 24
    layout[fl.src_key] = (0xFFFF, 4)
    layout[fl.dst_key] = (0xFFFF, 6)
    out = bytearray(size)
    out[0] = code
    out[2:4] = (size - 4).to_bytes(2, "big")
    sd = {}
    r = RNG.random()
    if r < 0.4:
        sd["descriptor_type_code"] = code
    elif r < 0.7:
        sd["descriptor_type_code"] = SEG_NAMES4[code][0]
    else:
        sd["descriptor_type_code"] = SEG_NAMES4[code][1]
    names = list(layout)
    if RNG.random() < 0.5:
        names = RNG.sample(names, RNG.randint(0, len(names)))
    RNG.shuffle(names)
    for n in names:
        v = fits(layout[n][0])
        sd[n] = v
        put(out, layout[n][1], layout[n][0], v)
    if RNG.random() < 0.3:
        sd["descriptor_length"] = RNG.randint(0, 0xFFFF)  # has to be ignored
    if RNG.random() < 0.3:
        items = list(sd.items())
        RNG.shuffle(items)
        sd = dict(items)
    return sd, out, code


def ref_xcopy_header(fl, a, cscd_len, seg_len, inline_len):
    if fl.lid4:
        h = bytearray(48)
        h[0] = 1
        h[1] = (
            (a.get("sequential_striped", 0) << 5)
            | (a.get("list_id_usage", 0) << 3)
            | a.get("priority", 0)
        )
        h[2:4] = (0x20).to_bytes(2, "big")
        h[15] = (a.get("g_sense", 0) << 1) | a.get("immed", 0)
        h[16] = 0xFF
        h[20:24] = a.get("list_identifier", 0).to_bytes(4, "big")
        h[42:44] = cscd_len.to_bytes(2, "big")
        h[44:46] = seg_len.to_bytes(2, "big")
        h[46:48] = inline_len.to_bytes(2, "big")
    else:
        h = bytearray(16)
        h[0] = a.get("list_identifier", 0)
        h[1] = (
            (a.get("sequential_striped", 0) << 5)
            | (a.get("nrcr", 0) << 4)
            | a.get("priority", 0)
        )
        h[2:4] = cscd_len.to_bytes(2, "big")
        h[8:12] = seg_len.to_bytes(4, "big")
        h[12:16] = inline_len.to_bytes(4, "big")
    return h


def walk_xcopy(fl, buf, ncscd, nseg, ninline):
    if fl.lid4:
        check_eq(buf[0], 1, "PARAMETER LIST FORMAT")
        check_eq(int.from_bytes(buf[2:4], "big"), 0x20, "HEADER CSCD DESC LIST LENGTH")
        check_eq(buf[16], 0xFF, "HEADER CSCD DESCRIPTOR TYPE CODE")
        cl = int.from_bytes(buf[42:44], "big")
        sl = int.from_bytes(buf[44:46], "big")
        il = int.from_bytes(buf[46:48], "big")
    else:
        cl = int.from_bytes(buf[2:4], "big")
        sl = int.from_bytes(buf[8:12], "big")
        il = int.from_bytes(buf[12:16], "big")
    check_eq(fl.hdr + cl + sl + il, len(buf), "xcopy lengths do not add up")
    check_eq(il, ninline, "INLINE DATA LENGTH")
    pos, n = fl.hdr, 0
    while pos < fl.hdr + cl:
        check(0xE0 <= buf[pos] <= 0xFE, "not a CSCD descriptor")
        pos += 64 if buf[pos] in (0xEA, 0xEB) else 32
        n += 1
    check_eq(pos, fl.hdr + cl, "CSCD descriptors do not tile their list")
    check_eq(n, ncscd, "number of CSCD descriptors")
    n = 0
    while pos < fl.hdr + cl + sl:
        dl = int.from_bytes(buf[pos + 2 : pos + 4], "big")
        check_eq(dl, {0: 0x14, 1: 0x14, 2: 0x18, 0xB: 0x14, 0xC: 0x14, 0xD: 0x18}[buf[pos]], "DESCRIPTOR LENGTH")
        pos += 4 + dl
        n += 1
    check_eq(pos, fl.hdr + cl + sl, "segment descriptors do not tile their list")
    check_eq(n, nseg, "number of segment descriptors")


def xcopy_args(fl):
    a = {}
    if RNG.random() < 0.6:
        a["sequential_striped"] = RNG.randint(0, 1)
    if RNG.random() < 0.6:
        a["priority"] = RNG.randint(0, 7)
    if fl.lid4:
        if RNG.random() < 0.6:
            a["list_id_usage"] = RNG.randint(0, 3)
        if RNG.random() < 0.6:
            a["g_sense"] = RNG.randint(0, 1)
        if RNG.random() < 0.6:
            a["immed"] = RNG.randint(0, 1)
        if RNG.random() < 0.6:
            a["list_identifier"] = fits(0xFFFFFFFF)
    else:
        if RNG.random() < 0.6:
            a["nrcr"] = RNG.randint(0, 1)
        if RNG.random() < 0.6:
            a["list_identifier"] = RNG.randint(0, 255)
    return a


def check_xcopy_one(fl, a, cscds, segs, inline, how):
    """cscds/segs: lists of (dict, reference bytes[, code])"""
    cscd_dicts = [c[0] for c in cscds]
    seg_dicts = [s[0] for s in segs]
    cscd_snap = copy.deepcopy(cscd_dicts)
    seg_snap = copy.deepcopy(seg_dicts)
    cref = b"".join(bytes(c[1]) for c in cscds)
    sref = b"".join(bytes(s[1]) for s in segs)
    iref = bytes(inline) if inline is not None else b""
    want = ref_xcopy_header(fl, a, len(cref), len(sref), len(iref)) + cref + sref + iref
    list_key = "cscd_descriptor_list" if fl.lid4 else "target_descriptor_list"
    kwargs = dict(a)
    if cscds or RNG.random() < 0.5:
        kwargs[list_key] = cscd_dicts
    if segs or RNG.random() < 0.5:
        kwargs["segment_descriptor_list"] = seg_dicts
    if inline is not None:
        kwargs["inline_data"] = inline
    dev = Device(RNG.choice([spc, sbc, ssc]))
    opcode = dev.opcodes.EXTENDED_COPY
    if how == "scsi":
        with MockSCSI(dev) as s:
            cmd = (s.extendedcopy5 if fl.lid4 else s.extendedcopy4)(**kwargs)
        check_eq(len(dev.executed), 1, "xcopy executed once")
        check_eq(dev.executed[0][1], bytes(want), "xcopy data sent")
    elif how == "keyword":
        cmd = fl.klass(opcode, **kwargs)
    else:
        if fl.lid4:
            order = [
                ("sequential_striped", 0),
                ("list_id_usage", 0),
                ("priority", 0),
                ("g_sense", 0),
                ("immed", 0),
                ("list_identifier", 0),
                (list_key, []),
                ("segment_descriptor_list", []),
                ("inline_data", bytearray(0)),
            ]
        else:
            order = [
                ("list_identifier", 0),
                ("sequential_striped", 0),
                ("nrcr", 0),
                ("priority", 0),
                (list_key, []),
                ("segment_descriptor_list", []),
                ("inline_data", bytearray(0)),
            ]
        cmd = fl.klass(opcode, *[kwargs.get(k, dflt) for k, dflt in order])
    check_bytearray(cmd.dataout, "xcopy dataout")
    check_eq(cmd.dataout, want, "EXTENDED COPY parameter list", fl.lid4, a, cscd_snap, seg_snap)
    walk_xcopy(fl, cmd.dataout, len(cscds), len(segs), len(iref))
    cdb = bytearray(16)
    cdb[0] = 0x83
    cdb[1] = 1 if fl.lid4 else 0
    cdb[10:14] = len(want).to_bytes(4, "big")
    check_eq(cmd.cdb, cdb, "EXTENDED COPY cdb")
    check_eq(int.from_bytes(cmd.cdb[10:14], "big"), len(cmd.dataout), "xcopy PLL")
    d = cmd.unmarshall_cdb(cmd.cdb)
    check_eq(
        d,
        {
            "opcode": 0x83,
            "service_action": 1 if fl.lid4 else 0,
            "parameter_list_length": len(want),
        },
        "xcopy unmarshall_cdb",
    )
    check_eq(fl.klass.marshall_cdb(d), cdb, "xcopy marshall_cdb")
    # CSCD dicts are left alone
    check_eq(cscd_dicts, cscd_snap, "xcopy modified the CSCD dicts")
    # segment dicts get their descriptor type code resolved and their
    # descriptor length filled in (documented in the code) - nothing else
    for sd, snap, (_d, _ref, code) in zip(seg_dicts, seg_snap, segs):
        exp = dict(snap)
        exp["descriptor_type_code"] = code
        exp["descriptor_length"] = 0x18 if code in (2, 0xD) else 0x14
        check_eq(sd, exp, "segment dict after marshalling")
    return cmd


def check_xcopy():
    hows = ["scsi", "keyword", "positional"]
    for lid4 in (False, True):
        fl = Flavour(lid4)
        # defaults
        cmd = check_xcopy_one(fl, {}, [], [], None, "scsi")
        check_eq(len(cmd.dataout), fl.hdr, "empty xcopy list")
        # single descriptors through the public helpers
        for _ in range(300):
            cd, ref = gen_cscd(fl)
            snap = copy.deepcopy(cd)
            got = fl.marshall_cscd(cd)
            check_bytearray(got, "marshall_cscd/target")
            check_eq(got, ref, "CSCD descriptor", lid4, cd)
            check_eq(cd, snap, "marshall_cscd modified its argument")
        for _ in range(300):
            sd, ref, code = gen_segment(fl)
            got = fl.klass.marshall_segment(sd)
            check_bytearray(got, "marshall_segment")
            check_eq(got, ref, "segment descriptor", lid4, sd)
            # marshalling the (now updated) dict again gives the same bytes
            check_eq(fl.klass.marshall_segment(sd), ref, "segment descriptor (again)")
        # whole commands
        for i in range(250):
            a = xcopy_args(fl)
            cscds = [gen_cscd(fl) for _ in range(RNG.choice([0, 0, 1, 2, 3, 8]))]
            segs = [gen_segment(fl) for _ in range(RNG.choice([0, 0, 1, 2, 5, 9]))]
            r = RNG.random()
            if r < 0.3:
                inline = None
            elif r < 0.6:
                inline = rbytes(RNG.randint(0, 300))
            else:
                inline = bytes(rbytes(RNG.randint(0, 300)))
            check_xcopy_one(fl, a, cscds, segs, inline, RNG.choice(hows))
        # tuples as lists, the same dict more than once
        c = gen_cscd(fl)
        s = gen_segment(fl)
        fl.klass.marshall_segment(s[0])  # normalise once so that copies agree
        a = {"priority": 7, "sequential_striped": 1}
        cscd_list = (c[0], c[0], dict(c[0]))
        seg_list = (s[0], s[0])
        kw = {
            ("cscd_descriptor_list" if lid4 else "target_descriptor_list"): cscd_list,
            "segment_descriptor_list": seg_list,
            "inline_data": b"\x01\x02\x03",
        }
        cmd = fl.klass(spc.EXTENDED_COPY, **a, **kw)
        want = (
            ref_xcopy_header(fl, a, 96, 2 * len(s[1]), 3)
            + c[1] * 3
            + s[1] * 2
            + b"\x01\x02\x03"
        )
        check_eq(cmd.dataout, want, "xcopy with repeated descriptors")
        walk_xcopy(fl, cmd.dataout, 3, 2, 3)
        # marshall_parameter_list directly
        if lid4:
            got = fl.klass.marshall_parameter_list(1, 2, 3, 1, 1, 0xA1B2C3D4, [c[0]], [s[0]], bytearray(b"xy"))
            a = dict(sequential_striped=1, list_id_usage=2, priority=3, g_sense=1, immed=1, list_identifier=0xA1B2C3D4)
        else:
            got = fl.klass.marshall_parameter_list(0xA1, 1, 1, 3, [c[0]], [s[0]], bytearray(b"xy"))
            a = dict(list_identifier=0xA1, sequential_striped=1, nrcr=1, priority=3)
        check_bytearray(got, "marshall_parameter_list")
        check_eq(
            got,
            ref_xcopy_header(fl, a, 32, len(s[1]), 2) + c[1] + s[1] + b"xy",
            "marshall_parameter_list",
        )
        # get_code_int
        tbl = {1: {"name": "a", "description": "A"}, 2: {"name": "b", "description": "a"}}
        G = fl.klass.get_code_int
        check_eq(G("k", {"k": 1}, tbl), 1, "get_code_int by key")
        check_eq(G("k", {"k": "b"}, tbl), 2, "get_code_int by name")
        check_eq(G("k", {"k": "A"}, tbl), 1, "get_code_int by description")
        check_eq(G("k", {"k": "a"}, tbl), 1, "get_code_int first match wins")
        check_raises(ValueError, lambda: G("k", {"k": 3}, tbl), "get_code_int unknown")
        check_raises(ValueError, lambda: G("k", {}, tbl), "get_code_int missing")
        check_raises(ValueError, lambda: G("k", {"k": None}, tbl), "get_code_int None")
        # encode_segment_dict
        got = fl.klass.encode_segment_dict({"a": 0x1234}, {"a": [0xFFFF, 4], "descriptor_length": [0xFFFF, 2]}, 8)
        check_eq(got, bytearray([0, 0, 0, 4, 0x12, 0x34, 0, 0]), "encode_segment_dict")
        check_raises(
            ValueError,
            lambda: fl.klass.encode_segment_dict({"zz": 1}, {"descriptor_length": [0xFFFF, 2]}, 8),
            "encode_segment_dict invalid key",
        )
        # marshall_designator_descriptor
        t, d, ref = gen_designator()
        got = fl.klass.marshall_designator_descriptor(
            {"code_set": 2, "association": 1, "designator_type": t, "designator": d, "designator_length": 200}
        )
        check_eq(got, bytearray([2, 0x10 | t, 0, len(ref)]) + ref, "marshall_designator_descriptor")
        # descriptor parameter helper
        buf = bytearray(32)
        r = fl.marshall_params(0xE4, buf, {"designator_type": 0, "designator": {"vendor_specific": b"\xAA\xBB"}})
        check_eq(r, None, "marshall_*_descriptor_parameters return value")
        check_eq(buf, bytearray([0, 0, 0, 0, 0, 0, 0, 2, 0xAA, 0xBB]) + bytearray(22), "descriptor parameters")
        # errors: refused rather than encoded wrongly
        good_c = lambda: copy.deepcopy(gen_cscd(fl)[0])  # noqa: E731
        c1 = good_c()
        c1["bogus"] = 1
        check_raises(ValueError, lambda: fl.marshall_cscd(c1), "invalid CSCD key")
        c2 = good_c()
        c2["lu_id_type"] = 1
        check_raises(ValueError, lambda: fl.marshall_cscd(c2), "lu_id_type")
        c3 = good_c()
        c3["descriptor_type_code"] = 0x42
        check_raises(ValueError, lambda: fl.marshall_cscd(c3), "bad CSCD type code")
        c4 = good_c()
        del c4["descriptor_type_code"]
        check_raises(ValueError, lambda: fl.marshall_cscd(c4), "no CSCD type code")
        c5 = good_c()
        c5["peripheral_device_type"] = 0x1F
        check_raises(ValueError, lambda: fl.marshall_cscd(c5), "bad device type")
        c6 = good_c()
        del c6["peripheral_device_type"]
        check_raises(ValueError, lambda: fl.marshall_cscd(c6), "no device type")
        for code in (0xE0, 0xE1, 0xE2, 0xE5, 0xE6, 0xE7, 0xE8, 0xE9, 0xEA):
            c7 = good_c()
            c7["descriptor_type_code"] = code
            check_raises(NotImplementedError, lambda: fl.marshall_cscd(c7), "CSCD %x" % code)
            check_raises(
                NotImplementedError,
                lambda: fl.marshall_params(code, bytearray(64), {}),
                "CSCD params %x" % code,
            )
        check_raises(ValueError, lambda: fl.marshall_params(0x11, bytearray(32), {}), "params bad code")
        check_raises(
            ValueError,
            lambda: fl.klass.marshall_segment({"descriptor_type_code": 0x77}),
            "bad segment code",
        )
        check_raises(ValueError, lambda: fl.klass.marshall_segment({}), "no segment code")
        for code in (0x03, 0x04, 0x05, 0x06, 0x07, 0x08, 0x09, 0x0A, 0x0E, 0x0F, 0x10, 0x13, 0x14, 0x15):
            check_raises(
                NotImplementedError,
                lambda: fl.klass.marshall_segment({"descriptor_type_code": code}),
                "segment %x" % code,
            )
        check_raises(
            ValueError,
            lambda: fl.klass.marshall_segment({"descriptor_type_code": 2, "stream_device_transfer_length": 1}),
            "segment key of another format",
        )
        if not lid4:
            check_raises(
                ValueError,
                lambda: fl.klass.marshall_segment({"descriptor_type_code": 2, "fco": 1}),
                "fco in LID1",
            )
        check_raises(
            ValueError,
            lambda: fl.klass(spc.EXTENDED_COPY, segment_descriptor_list=[{"descriptor_type_code": 0x77}]),
            "xcopy with bad segment",
        )
        check_raises(
            NotImplementedError,
            lambda: fl.klass(spc.EXTENDED_COPY, segment_descriptor_list=[{"descriptor_type_code": 3}]),
            "xcopy with unimplemented segment",
        )
    # the documented example of the LID1 command
    r = ExtendedCopy4(
        spc.EXTENDED_COPY,
        priority=1,
        list_identifier=0x34,
        target_descriptor_list=[
            {
                "descriptor_type_code": "Identification descriptor target descriptor",
                "device_type_specific_parameters": {"disk_block_length": 512},
                "peripheral_device_type": 0,
                "target_descriptor_parameters": {
                    "association": 0,
                    "code_set": 1,
                    "designator": {
                        "ieee_company_id": 5807356,
                        "naa": 6,
                        "vendor_specific_identifier": 3140,
                        "vendor_specific_identifier_extension": 14160104652988484981,
                    },
                    "designator_length": 16,
                    "designator_type": 3,
                },
            },
            {
                "descriptor_type_code": "Identification descriptor target descriptor",
                "device_type_specific_parameters": {"disk_block_length": 512},
                "peripheral_device_type": 0,
                "target_descriptor_parameters": {
                    "association": 0,
                    "code_set": 1,
                    "designator": {
                        "ieee_company_id": 5807356,
                        "naa": 6,
                        "vendor_specific_identifier": 3809,
                        "vendor_specific_identifier_extension": 17655255278882869693,
                    },
                    "designator_length": 16,
                    "designator_type": 3,
                },
            },
        ],
        segment_descriptor_list=[
            {
                "block_device_number_of_blocks": 4,
                "dc": 1,
                "descriptor_type_code": "Copy from block device to block device",
                "destination_block_device_logical_block_address": 10,
                "destination_target_descriptor_id": 1,
                "source_block_device_logical_block_address": 1,
                "source_target_descriptor_id": 0,
            }
        ],
    )
    want = (
        "34010040000000000000001c00000000"
        "e400000001030010" "6589cfc000000c44c482cc288fbc0d75" "0000000000000200"
        "e400000001030010" "6589cfc000000ee1f504112274a751bd" "0000000000000200"
        "02020018" "00000001" "00000004" "0000000000000001" "000000000000000a"
    )
    check_eq(r.dataout.hex(), want, "documented LID1 example")
    check_eq(r.cdb.hex(), "830000000000000000000000006c0000", "documented LID1 example cdb")


def main():
    try:
        check_mode_select()
        check_transport_ids()
        check_pr_out()
        check_designators()
        check_xcopy()
    except Failure as e:
        print("FAIL: %s" % e)
        return 1
    print("PASS (%d checks)" % CHECKS)
    return 0


if __name__ == "__main__":
    sys.exit(main())
