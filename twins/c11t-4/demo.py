#!/usr/bin/env python
# coding: utf-8
"""
Demo / checker for property C11:

    Every response and sense decoder returns or raises within an amount of
    work proportional to the size of the buffer it was given, for any byte
    content and any length.  No response a faulty or hostile device can
    produce makes the initiator loop forever or allocate without bound.

The script drives every response decoder and the sense decoder of the library
through its public API (the unmarshall_* class methods, the SCSI facade with a
fake device, and the SCSICheckCondition exception class) with a large set of
buffers: empty, short, all-zero, all-ones, random, valid-then-corrupted, with
hostile length fields, and large ones.

For every call it checks that

  * the call returns or raises an ordinary exception (never hangs):
    the number of executed source lines is counted with sys.settrace and must
    stay below   LINES_PER_BYTE * (len(buffer) + extra) + LINES_CONST ;
    a wall clock alarm is a second safety net,
  * the size of the returned structure (number of nodes and payload bytes) is
    bounded by a linear function of the buffer size,
  * for a subset of hostile buffers the peak of allocated memory (tracemalloc)
    is bounded by a linear function of the buffer size,
  * executed lines grow at most linearly when the buffer grows (scaling check),
  * the outcomes (result structure or exception type) are the ones the library
    is known to produce (a digest over all outcomes is compared with a golden
    value recorded from the reference implementation).

Exit status 0 and "PASS" when everything holds.
"""

import hashlib
import random
import signal
import sys
import time
import tracemalloc
import types

# --------------------------------------------------------------------------
# fake external bindings (not installed, and not needed by the decoders)
# --------------------------------------------------------------------------
for _name in ("sgio", "iscsi"):
    if _name not in sys.modules:
        try:
            __import__(_name)
        except Exception:  # pragma: no cover - depends on the environment
            _m = types.ModuleType(_name)

            class _CheckConditionError(Exception):
                pass

            _m.CheckConditionError = _CheckConditionError
            _m.UnspecifiedError = type("UnspecifiedError", (Exception,), {})
            _m.execute = lambda *a, **k: 0
            sys.modules[_name] = _m

from pyscsi.pyscsi.scsi import SCSI  # noqa: E402
from pyscsi.pyscsi.scsi_cdb_getlbastatus import GetLBAStatus  # noqa: E402
from pyscsi.pyscsi.scsi_cdb_inquiry import Inquiry  # noqa: E402
from pyscsi.pyscsi.scsi_cdb_modesense6 import ModeSense6  # noqa: E402
from pyscsi.pyscsi.scsi_cdb_modesense10 import ModeSense10  # noqa: E402
from pyscsi.pyscsi.scsi_cdb_persistentreservein import (  # noqa: E402
    PersistentReserveInReadFullStatus,
    PersistentReserveInReadKeys,
    PersistentReserveInReadReservation,
    PersistentReserveInReportCapabilities,
)
from pyscsi.pyscsi.scsi_cdb_readcapacity10 import ReadCapacity10  # noqa: E402
from pyscsi.pyscsi.scsi_cdb_readcapacity16 import ReadCapacity16  # noqa: E402
from pyscsi.pyscsi.scsi_cdb_readcd import ReadCd  # noqa: E402
from pyscsi.pyscsi.scsi_cdb_readdiscinformation import (  # noqa: E402
    ReadDiscInformation,
)
from pyscsi.pyscsi.scsi_cdb_readelementstatus import ReadElementStatus  # noqa: E402
from pyscsi.pyscsi.scsi_cdb_report_luns import ReportLuns  # noqa: E402
from pyscsi.pyscsi.scsi_cdb_report_priority import ReportPriority  # noqa: E402
from pyscsi.pyscsi.scsi_cdb_report_target_port_groups import (  # noqa: E402
    ReportTargetPortGroups,
)
from pyscsi.pyscsi.scsi_enum_command import mmc, sbc, smc, spc  # noqa: E402
from pyscsi.pyscsi.scsi_sense import SCSICheckCondition  # noqa: E402

# --------------------------------------------------------------------------
# limits
# --------------------------------------------------------------------------
LINES_PER_BYTE = 1000
LINES_CONST = 50000
NODES_PER_BYTE = 64
NODES_CONST = 400
PAYLOAD_PER_BYTE = 128
PAYLOAD_CONST = 4096
MEM_PER_BYTE = 4000
MEM_CONST = 1 << 20
WALL_SECONDS = 60

# golden digest over the outcomes of all functional cases (result structure or
# exception type), recorded from the reference implementation
GOLDEN = "2b13819bb47a103e90f4652c57fd746eb266786933d9a1ad7b6f7fc1a93ed738"

FAILURES = []


def fail(msg):
    FAILURES.append(msg)
    if len(FAILURES) <= 25:
        print("FAIL: %s" % msg)


# --------------------------------------------------------------------------
# work accounting
# --------------------------------------------------------------------------
class WorkLimit(BaseException):
    """raised from the trace function / the alarm: the decoder did not stop"""


class Meter(object):
    def __init__(self):
        self.lines = 0
        self.limit = 0

    def _local(self, frame, event, arg):
        if event == "line":
            self.lines += 1
            if self.lines > self.limit:
                raise WorkLimit("more than %d lines executed" % self.limit)
        return self._local

    def _global(self, frame, event, arg):
        return self._local

    def run(self, limit, fn):
        self.lines = 0
        self.limit = limit
        sys.settrace(self._global)
        try:
            return fn()
        finally:
            sys.settrace(None)


METER = Meter()


def _alarm(signum, frame):
    raise WorkLimit("wall clock limit of %d seconds exceeded" % WALL_SECONDS)


def measure(obj, depth=0):
    """return (nodes, payload bytes) of a decoded structure"""
    if depth > 50:
        return 1, 0
    if isinstance(obj, dict):
        n, p = 1, 0
        for k, v in obj.items():
            a, b = measure(v, depth + 1)
            n += 1 + a
            p += b
        return n, p
    if isinstance(obj, (list, tuple)):
        n, p = 1, 0
        for v in obj:
            a, b = measure(v, depth + 1)
            n += a
            p += b
        return n, p
    if isinstance(obj, (bytes, bytearray, str)):
        return 1, len(obj)
    if isinstance(obj, int) and not isinstance(obj, bool):
        return 1, (obj.bit_length() + 7) // 8
    return 1, 0


def canon(obj):
    """deterministic text form of a decoded structure (keeps key order)"""
    if isinstance(obj, dict):
        return "{" + ",".join("%s:%s" % (canon(k), canon(v)) for k, v in obj.items()) + "}"
    if isinstance(obj, list):
        return "[" + ",".join(canon(v) for v in obj) + "]"
    if isinstance(obj, tuple):
        return "(" + ",".join(canon(v) for v in obj) + ")"
    if isinstance(obj, bytearray):
        return "ba'" + bytes(obj).hex() + "'"
    if isinstance(obj, bytes):
        return "b'" + obj.hex() + "'"
    if isinstance(obj, bool):
        return "bool:%r" % obj
    if isinstance(obj, int):
        return "i%d" % obj
    if isinstance(obj, str):
        return "s%r" % obj
    if obj is None:
        return "None"
    return "<%s>" % type(obj).__name__


DIGEST = hashlib.sha256()
STRICT = hashlib.sha256()  # also covers the exception messages
COUNT = {"calls": 0, "returned": 0, "raised": 0, "max_ratio": 0.0}
EXC_KINDS = {}


def check_call(label, fn, size, extra=0, record=True):
    """
    run one decoder call under the line meter and check all the bounds

    :param size: size of the device supplied buffer
    :param extra: caller supplied amount of work (READ CD transfer length)
    """
    limit = LINES_PER_BYTE * (size + extra) + LINES_CONST
    COUNT["calls"] += 1
    outcome = None
    try:
        res = METER.run(limit, fn)
        COUNT["returned"] += 1
        nodes, payload = measure(res)
        if nodes > NODES_PER_BYTE * (size + extra) + NODES_CONST:
            fail("%s: result with %d nodes for a %d byte buffer" % (label, nodes, size))
        if payload > PAYLOAD_PER_BYTE * (size + extra) + PAYLOAD_CONST:
            fail("%s: result with %d payload bytes for a %d byte buffer" % (label, payload, size))
        outcome = "R" + canon(res)
        strict = outcome
    except WorkLimit as e:
        fail("%s: did not finish on a %d byte buffer: %s" % (label, size, e))
        outcome = strict = "HANG"
    except MemoryError:
        fail("%s: MemoryError on a %d byte buffer" % (label, size))
        outcome = strict = "MEM"
    except RecursionError:
        fail("%s: RecursionError on a %d byte buffer" % (label, size))
        outcome = strict = "REC"
    except Exception as e:  # an ordinary exception is an allowed outcome
        COUNT["raised"] += 1
        name = type(e).__name__
        EXC_KINDS[name] = EXC_KINDS.get(name, 0) + 1
        outcome = "E" + name
        strict = outcome + ":" + str(e)
    ratio = METER.lines / float(size + extra + 50)
    if ratio > COUNT["max_ratio"]:
        COUNT["max_ratio"] = ratio
    if record:
        DIGEST.update(("%s=%s\n" % (label, outcome)).encode("utf-8"))
        STRICT.update(("%s=%s\n" % (label, strict)).encode("utf-8"))
    return METER.lines


# --------------------------------------------------------------------------
# the decoders
# --------------------------------------------------------------------------
def _sense(buf):
    e = SCSICheckCondition(buf)
    return {
        "valid": e.valid,
        "response_code": e.response_code,
        "data": e.data,
        "asc": e.asc,
        "ascq": e.ascq,
        "str": str(e),
    }


DECODERS = [
    ("inquiry.std", lambda b: Inquiry.unmarshall_datain(b)),
    ("inquiry.std0", lambda b: Inquiry.unmarshall_datain(b, evpd=0)),
    ("inquiry.vpd", lambda b: Inquiry.unmarshall_datain(b, evpd=1)),
    ("inquiry.vpd_pos", lambda b: Inquiry.unmarshall_datain(b, 1)),
    ("inquiry.ata", lambda b: Inquiry.unmarshall_ata_information(b)),
    ("modesense6", lambda b: ModeSense6.unmarshall_datain(b)),
    ("modesense10", lambda b: ModeSense10.unmarshall_datain(b)),
    ("readcapacity10", lambda b: ReadCapacity10.unmarshall_datain(b)),
    ("readcapacity16", lambda b: ReadCapacity16.unmarshall_datain(b)),
    ("getlbastatus", lambda b: GetLBAStatus.unmarshall_datain(b)),
    ("reportluns", lambda b: ReportLuns.unmarshall_datain(b)),
    ("reportpriority", lambda b: ReportPriority.unmarshall_datain(b)),
    ("rtpg", lambda b: ReportTargetPortGroups.unmarshall_datain(b)),
    ("readelementstatus", lambda b: ReadElementStatus.unmarshall_datain(b)),
    ("readdiscinformation", lambda b: ReadDiscInformation.unmarshall_datain(b)),
    ("pr.readkeys", lambda b: PersistentReserveInReadKeys.unmarshall_datain(b)),
    ("pr.readreservation", lambda b: PersistentReserveInReadReservation.unmarshall_datain(b)),
    ("pr.reportcapabilities", lambda b: PersistentReserveInReportCapabilities.unmarshall_datain(b)),
    ("pr.readfullstatus", lambda b: PersistentReserveInReadFullStatus.unmarshall_datain(b)),
    ("pr.transportid", lambda b: PersistentReserveInReadFullStatus.unmarshall_transport_id(b)),
    ("sense", _sense),
    ("sense.fixed", lambda b: SCSICheckCondition.unmarshall_fixed_format_sense_data(b)),
    ("sense.desc", lambda b: SCSICheckCondition.unmarshall_desc_format_sense_data(b)),
]
for _t in range(0, 12):
    DECODERS.append(
        ("inquiry.designator%d" % _t, (lambda t: lambda b: Inquiry.unmarshall_designator(t, b))(_t))
    )


# --------------------------------------------------------------------------
# the SCSI facade with a fake device returning a prepared buffer
# --------------------------------------------------------------------------
class FakeDevice(object):
    def __init__(self, opcodes):
        self.opcodes = opcodes
        self.devicetype = 0
        self.payload = bytearray()
        self.sense = None

    def execute(self, cmd, en_raw_sense=False):
        if self.sense is not None:
            raise SCSICheckCondition(self.sense)
        cmd.datain = self.payload

    def open(self):
        pass

    def close(self):
        pass


def _facade(opcodes):
    s = SCSI(None)
    s.device = FakeDevice(opcodes)
    return s


_SBC = _facade(sbc)
_SMC = _facade(smc)
_MMC = _facade(mmc)
_SPC = _facade(spc)


def _via(scsi, call):
    def run(b):
        scsi.device.payload = b
        return call(scsi).result

    return run


_PRIN = sbc.PERSISTENT_RESERVE_IN.serviceaction

FACADE = [
    ("scsi.inquiry", _via(_SBC, lambda s: s.inquiry())),
    ("scsi.inquiry.vpd83", _via(_SBC, lambda s: s.inquiry(evpd=1, page_code=0x83, alloclen=255))),
    ("scsi.modesense6", _via(_SBC, lambda s: s.modesense6(page_code=0x0A))),
    ("scsi.modesense10", _via(_SBC, lambda s: s.modesense10(page_code=0x0A))),
    ("scsi.readcapacity10", _via(_SBC, lambda s: s.readcapacity10())),
    ("scsi.readcapacity16", _via(_SBC, lambda s: s.readcapacity16())),
    ("scsi.getlbastatus", _via(_SBC, lambda s: s.getlbastatus(0))),
    ("scsi.reportluns", _via(_SBC, lambda s: s.reportluns())),
    ("scsi.reportpriority", _via(_SBC, lambda s: s.reportpriority())),
    ("scsi.rtpg", _via(_SBC, lambda s: s.reporttargetportgroups())),
    ("scsi.readelementstatus", _via(_SMC, lambda s: s.readelementstatus(0, 10))),
    ("scsi.readdiscinformation", _via(_MMC, lambda s: s.readdiscinformation(0))),
    ("scsi.readcd", _via(_MMC, lambda s: s.readcd(0, 1, est=2, mcsb=0x1F))),
    ("scsi.prin.keys", _via(_SBC, lambda s: s.persistentreservein(_PRIN.READ_KEYS))),
    ("scsi.prin.resv", _via(_SBC, lambda s: s.persistentreservein(_PRIN.READ_RESERVATION))),
    ("scsi.prin.caps", _via(_SBC, lambda s: s.persistentreservein(_PRIN.REPORT_CAPABILITIES))),
    ("scsi.prin.full", _via(_SBC, lambda s: s.persistentreservein(_PRIN.READ_FULL_STATUS))),
]


def _facade_sense(b):
    _SBC.device.sense = b
    try:
        try:
            _SBC.inquiry()
        except SCSICheckCondition as e:
            return {"data": e.data, "asc": e.asc, "ascq": e.ascq, "str": str(e)}
        return None
    finally:
        _SBC.device.sense = None


FACADE.append(("scsi.checkcondition", _facade_sense))


# --------------------------------------------------------------------------
# buffers
# --------------------------------------------------------------------------
RND = random.Random(0xC11)


def rnd_bytes(n):
    return bytearray(RND.getrandbits(8) for _ in range(n))


def be(value, size):
    return bytearray((value >> (8 * i)) & 0xFF for i in reversed(range(size)))


def generic_buffers():
    bufs = []
    # every short length with three fill patterns
    for n in range(0, 41):
        bufs.append(bytearray(n))
        bufs.append(bytearray([0xFF]) * n)
        bufs.append(bytearray((i * 37 + 11) & 0xFF for i in range(n)))
    for n in (48, 56, 63, 64, 65, 96, 100, 127, 128, 129, 255, 256, 257, 300, 511, 512, 1000, 1024):
        bufs.append(bytearray(n))
        bufs.append(bytearray([0xFF]) * n)
        bufs.append(bytearray([0x01]) * n)
        bufs.append(bytearray([0x40]) * n)
        bufs.append(bytearray([0x80]) * n)
        bufs.append(rnd_bytes(n))
    # random content
    for _ in range(150):
        bufs.append(rnd_bytes(RND.randrange(0, 200)))
    # immutable input
    for n in (0, 1, 3, 4, 7, 8, 9, 16, 24, 36, 60, 96, 255):
        bufs.append(bytes(rnd_bytes(n)))
        bufs.append(bytes(n))
    return bufs


def header_variants(body_len):
    """buffers with hostile / plausible big endian length fields in front"""
    out = []
    lens = [0, 1, 3, 4, 5, 7, 8, 9, 12, 16, 17, 24, 32,
            body_len - 8, body_len - 4, body_len - 1, body_len,
            body_len + 1, body_len + 4, body_len + 8, 0xFF, 0xFFFF,
            0x10000, 0xFFFFFF, 0xFFFFFFFF]
    for ln in lens:
        if ln < 0:
            continue
        for body in (bytearray(body_len), bytearray([0xFF]) * body_len, rnd_bytes(body_len)):
            # 4 byte length in front (GET LBA STATUS, REPORT LUNS, RTPG, PRIORITY)
            out.append(be(ln & 0xFFFFFFFF, 4) + body)
            # 4 byte generation + 4 byte length (PERSISTENT RESERVE IN)
            out.append(rnd_bytes(4) + be(ln & 0xFFFFFFFF, 4) + body)
            # 2 byte page header + 2 byte length (INQUIRY VPD pages)
            for page in (0x00, 0x80, 0x83, 0x89, 0xB0, 0x55):
                out.append(bytearray([0x00, page]) + be(ln & 0xFFFF, 2) + body)
            # element status header: first addr, count, reserved, 3 byte count
            out.append(rnd_bytes(5) + be(ln & 0xFFFFFF, 3) + body)
    return out


def designator_buffers():
    """DEVICE IDENTIFICATION pages with hostile designator lengths"""
    out = []
    for dlen in (0, 1, 3, 4, 8, 12, 16, 20, 0xFE, 0xFF):
        for count in (1, 2, 5, 40):
            body = bytearray()
            for i in range(count):
                body += bytearray([RND.getrandbits(8), RND.getrandbits(8), 0, dlen])
                body += rnd_bytes(min(dlen, RND.randrange(0, 24)))
            for cut in (0, 1, 2, 3):
                b = body[: len(body) - cut] if cut else body
                out.append(bytearray([0, 0x83]) + be(len(b), 2) + b)
                out.append(bytearray([0, 0x83]) + be(0xFFFF, 2) + b)
    # every designator type / naa
    for t in range(16):
        for naa in (2, 3, 5, 6, 0, 15):
            for dlen in (0, 4, 8, 12, 16):
                d = bytearray([naa << 4]) + rnd_bytes(15)
                body = bytearray([0x61, 0x90 | t, 0, dlen]) + d[:dlen]
                out.append(bytearray([0, 0x83]) + be(len(body), 2) + body)
    # zero length designators only: the walk must still advance
    out.append(bytearray([0, 0x83]) + be(400, 2) + bytearray(400))
    out.append(bytearray([0, 0x83]) + be(0xFFFF, 2) + bytearray(4000))
    return out


def element_status_buffers():
    out = []
    for edl in (0, 1, 2, 12, 16, 52, 0xFFFF):
        for pbc in (0, 8, 16, 52, 0xFFFFFF):
            for flags in (0x00, 0x80, 0x40, 0xC0):
                for etype in (0, 1, 2, 3, 9):
                    body = rnd_bytes(60) if (edl + pbc + flags + etype) % 2 else bytearray(60)
                    page = bytearray([etype, flags]) + be(edl, 2) + bytearray(1) + be(pbc, 3) + body
                    for total in (0, 8, len(page), 0xFFFFFF):
                        out.append(bytearray(5) + be(total, 3) + page + page)
    return out


def rtpg_buffers():
    out = []
    for fmt in (0x00, 0x10, 0x20, 0x70, 0xFF):
        for count in (0, 1, 2, 7, 0xFF):
            for n in (0, 1, 3, 4, 5, 8, 11, 12, 16, 40, 200):
                body = bytearray([fmt, 9, 0, 0]) + bytearray([0, 0, 0, 1, 0, 0, 0, count]) + rnd_bytes(n)
                out.append(be(len(body), 4) + body)
                out.append(be(len(body) + 100, 4) + body)
                body2 = bytearray([0x8F, 0xCF, 0, 1, 0, 0, 0, count]) + bytearray(n)
                out.append(be(len(body2), 4) + body2)
    return out


def fullstatus_buffers():
    out = []
    for adl in (0, 1, 4, 8, 24, 28, 0xFFFF, 0xFFFFFFFF):
        for proto in range(0, 16):
            for fmt in (0x00, 0x40, 0x80, 0xC0):
                name = b"iqn.2003-01.org.linux-iscsi.host:sn.1,i,0x00023d000001\0\0"
                tid = bytearray([fmt | proto, 0]) + be(len(name), 2) + bytearray(name)
                desc = rnd_bytes(20) + be(adl, 4) + tid
                out.append(rnd_bytes(4) + be(len(desc), 4) + desc)
                out.append(rnd_bytes(4) + be(len(desc) * 3, 4) + desc + desc + desc[:10])
    # descriptors without transport id: the walk must still advance
    out.append(bytearray(4) + be(2400, 4) + bytearray(2400))
    # bad utf-8 in an iSCSI name
    tid = bytearray([0x05, 0, 0, 8]) + bytearray([0xFF, 0xFE, 0xC0, 0x80, 0, 0, 0, 0])
    out.append(bytearray(4) + be(24 + len(tid), 4) + bytearray(20) + be(len(tid), 4) + tid)
    tid = bytearray([0x45, 0, 0, 8]) + bytearray(b"a,i,0x1,")
    out.append(bytearray(4) + be(24 + len(tid), 4) + bytearray(20) + be(len(tid), 4) + tid)
    tid = bytearray([0x45, 0, 0, 8]) + bytearray(b"abcdefg\0")
    out.append(bytearray(4) + be(24 + len(tid), 4) + bytearray(20) + be(len(tid), 4) + tid)
    return out


def modesense_buffers():
    out = []
    for bdl in (0, 1, 8, 0xFF):
        for page in (0x00, 0x02, 0x0A, 0x1D, 0x3F, 0x42, 0x4A, 0x5D, 0x7F, 0x8A, 0xCA):
            for sub in (0, 1, 2, 0xFF):
                for n in (0, 1, 2, 4, 12, 40):
                    pg = bytearray([page, sub]) + rnd_bytes(n)
                    out.append(bytearray([0, 0, 0, bdl]) + bytearray(min(bdl, 16)) + pg)
                    out.append(bytearray([0, 0, 0, 0, 0, 0]) + be(bdl, 2) + bytearray(min(bdl, 16)) + pg)
    return out


def sense_buffers():
    out = []
    for rc in (0x00, 0x70, 0x71, 0x72, 0x73, 0x74, 0x7F, 0xF0, 0xF1, 0xF2, 0xF3, 0xFF):
        for n in (0, 1, 2, 3, 7, 8, 13, 14, 17, 18, 32, 252, 255):
            out.append(bytearray([rc]) + bytearray(n))
            out.append(bytearray([rc]) + rnd_bytes(n))
            out.append(bytearray([rc]) + bytearray([0xFF]) * n)
            out.append(bytes(bytearray([rc]) + rnd_bytes(n)))
    for key in range(16):
        for asc in (0x00, 0x04, 0x20, 0x24, 0x29, 0x3A, 0x40, 0x80, 0xFF):
            for ascq in (0x00, 0x01, 0x02, 0x80, 0xFF):
                fixed = bytearray(18)
                fixed[0] = 0x70
                fixed[2] = key
                fixed[7] = 10
                fixed[12] = asc
                fixed[13] = ascq
                out.append(fixed)
                out.append(bytearray([0x72, key, asc, ascq, 0, 0, 0, 0]))
    out.append(None)
    out.append(b"")
    out.append(bytearray())
    return out


def readcd_cases():
    cases = []
    bufs = [bytearray(0), bytearray(3), bytearray(11), bytearray(15), rnd_bytes(20),
            rnd_bytes(100), rnd_bytes(2352), rnd_bytes(2352 + 296 + 96), rnd_bytes(3000),
            bytearray([0xFF]) * 6000, bytes(rnd_bytes(2500))]
    for est in range(0, 7):
        for mcsb in range(0, 32):
            for c2ei in (0, 1, 2, 3):
                for scsb in (0, 1, 2, 4):
                    # a deterministic selection, the full product is too large
                    if (est * 7 + mcsb * 3 + c2ei * 5 + scsb) % 5:
                        continue
                    for bi, b in enumerate(bufs):
                        if (bi + mcsb + est) % 3:
                            continue
                        for lba, tl in ((0, 0), (16, 1), (5, 3)):
                            cases.append((b, lba, tl, dict(est=est, mcsb=mcsb, c2ei=c2ei, scsb=scsb)))
    cases.append((rnd_bytes(100), 0, 1, {}))
    cases.append((rnd_bytes(100), 7, 2, {"est": 1}))
    return cases


def marshalled_buffers():
    """valid responses built by the library itself, then truncated/corrupted"""
    valid = []
    valid.append(Inquiry.marshall_datain({
        "peripheral_qualifier": 0, "peripheral_device_type": 0, "page_code": 0x83,
        "designator_descriptors": [
            {"protocol_identifier": 0, "code_set": 1, "piv": 0, "association": 0,
             "designator_type": 3, "designator_length": 8,
             "designator": {"naa": 5, "ieee_company_id": 0x1234, "vendor_specific_identifier": 0x56}},
            {"protocol_identifier": 6, "code_set": 1, "piv": 1, "association": 1,
             "designator_type": 4, "designator_length": 4,
             "designator": {"relative_port": 7}},
            {"protocol_identifier": 0, "code_set": 2, "piv": 0, "association": 0,
             "designator_type": 1, "designator_length": 20,
             "designator": {"t10_vendor_id": bytearray(b"VENDOR  "),
                            "vendor_specific_id": bytearray(b"serial-12345")}},
        ]}))
    valid.append(GetLBAStatus.marshall_datain({"lbas": [
        {"lba": 1023, "num_blocks": 27, "p_status": 1},
        {"lba": 200000, "num_blocks": 9999, "p_status": 0}]}))
    valid.append(ReportLuns.marshall_datain({"luns": [{"lun0": 0}, {"lun1": 1 << 48}, {"lun2": 77}]}))
    valid.append(ReportTargetPortGroups.marshall_datain({
        "format_type": 1, "implicit_transition_time": 5,
        "target_port_group_descriptors": [
            {"asymmetric_access_state": 1, "pref": 1, "ao_sup": 1, "an_sup": 1, "s_sup": 0,
             "u_sup": 0, "o_sup": 0, "t_sup": 0, "target_port_group": 3, "status_code": 1,
             "vendor": 0, "target_port_count": 2,
             "target_ports": [{"relative_target_port_id": 1}, {"relative_target_port_id": 2}]},
            {"asymmetric_access_state": 0, "pref": 0, "ao_sup": 1, "an_sup": 1, "s_sup": 0,
             "u_sup": 0, "o_sup": 0, "t_sup": 0, "target_port_group": 4, "status_code": 0,
             "vendor": 0, "target_port_count": 1,
             "target_ports": [{"relative_target_port_id": 9}]}]}))
    valid.append(ReadElementStatus.marshall_datain({
        "first_element_address": 1, "num_elements": 3,
        "element_status_pages": [
            {"element_type": 2, "pvoltag": 1, "avoltag": 1, "element_descriptors": [
                {"element_address": 1, "except": 0, "full": 1, "additional_sense_code": 0,
                 "additional_sense_code_qualifier": 0, "svalid": 0, "invert": 0, "ed": 0,
                 "medium_type": 1, "source_storage_element_address": 0, "access": 1,
                 "primary_volume_tag": bytearray(b"A" * 36), "alternate_volume_tag": bytearray(b"B" * 36)},
                {"element_address": 2, "except": 0, "full": 0, "additional_sense_code": 0,
                 "additional_sense_code_qualifier": 0, "svalid": 0, "invert": 0, "ed": 0,
                 "medium_type": 0, "source_storage_element_address": 0, "access": 1}]},
            {"element_type": 3, "pvoltag": 0, "avoltag": 0, "element_descriptors": [
                {"element_address": 9, "except": 0, "full": 0, "additional_sense_code": 0,
                 "additional_sense_code_qualifier": 0, "svalid": 0, "invert": 0, "ed": 0,
                 "medium_type": 0, "source_storage_element_address": 0, "oir": 1, "cmc": 0,
                 "inenab": 1, "exenab": 1, "access": 1, "impexp": 0}]}]}))
    out = []
    for v in valid:
        v = bytearray(v)
        out.append(v)
        for cut in range(1, min(len(v), 40)):
            out.append(v[:-cut])
        for _ in range(60):
            m = bytearray(v)
            for _k in range(RND.randrange(1, 4)):
                m[RND.randrange(len(m))] = RND.choice((0, 1, 0xFF, RND.getrandbits(8)))
            out.append(m)
        out.append(v + rnd_bytes(50))
    return out


# --------------------------------------------------------------------------
# the checks
# --------------------------------------------------------------------------
def _select(*prefixes):
    return [(n, f) for n, f in DECODERS if n.startswith(prefixes)]


def functional_cases():
    general = generic_buffers()
    general += header_variants(40)
    general += header_variants(9)
    general += marshalled_buffers()
    groups = [
        ("g", general, DECODERS),
        ("d", designator_buffers(), _select("inquiry.")),
        ("e", element_status_buffers(), _select("readelementstatus")),
        ("t", rtpg_buffers(), _select("rtpg")),
        ("f", fullstatus_buffers(), _select("pr.")),
        ("m", modesense_buffers(), _select("modesense")),
    ]
    bufs = []
    for tag, group, decoders in groups:
        print("functional: %d buffers x %d decoders" % (len(group), len(decoders)))
        for i, b in enumerate(group):
            for name, fn in decoders:
                check_call("%s#%s%d" % (name, tag, i), lambda: fn(b), len(b))
        bufs += group
    # the sense decoder gets its own buffers too (None and empty included)
    for i, b in enumerate(sense_buffers()):
        n = len(b) if b is not None else 0
        check_call("sense.own#%d" % i, lambda: _sense(b), n)
        check_call("scsi.checkcondition.own#%d" % i, lambda: _facade_sense(b), n)
    # the facade: every 25th buffer
    for i, b in enumerate(bufs):
        if i % 25:
            continue
        for name, fn in FACADE:
            extra = 1 if name == "scsi.readcd" else 0
            check_call("%s#%d" % (name, i), lambda: fn(b), len(b), extra)
    # READ CD
    cases = readcd_cases()
    print("functional: %d READ CD cases" % len(cases))
    for i, (b, lba, tl, kw) in enumerate(cases):
        check_call(
            "readcd#%d" % i,
            lambda: ReadCd.unmarshall_datain(b, lba=lba, tl=tl, **kw),
            len(b),
            tl,
        )
        if i % 7 == 0:
            check_call(
                "readcd.pos#%d" % i,
                lambda: ReadCd.unmarshall_datain(b, lba, tl, **kw),
                len(b),
                tl,
            )


def hostile_fill(n, kind):
    if kind == "zero":
        return bytearray(n)
    if kind == "ones":
        return bytearray([0xFF]) * n
    if kind == "biglen":
        # huge length fields in front, zero (= no progress information) behind
        return bytearray([0xFF]) * 8 + bytearray(n - 8)
    if kind == "vpd83":
        return bytearray([0, 0x83, 0xFF, 0xFF]) + bytearray(n - 4)
    if kind == "vpd00":
        return bytearray([0, 0x00, 0xFF, 0xFF]) + bytearray(n - 4)
    if kind == "elem":
        # element status: one page whose descriptors are one byte each
        page = bytearray([1, 0xC0, 0, 1, 0, 0xFF, 0xFF, 0xFF])
        return bytearray(5) + bytearray([0xFF, 0xFF, 0xFF]) + page + bytearray(n - 16)
    if kind == "elem0":
        # element status: many empty pages
        return bytearray(5) + bytearray([0xFF, 0xFF, 0xFF]) + bytearray(n - 8)
    if kind == "rtpg":
        return bytearray([0xFF] * 4) + bytearray([0x10, 0, 0, 0]) + bytearray(n - 8)
    if kind == "rnd":
        return rnd_bytes(n)
    raise ValueError(kind)


KINDS = ("zero", "ones", "biglen", "vpd83", "vpd00", "elem", "elem0", "rtpg", "rnd")


def scaling_cases():
    """work must grow at most linearly with the buffer"""
    sizes = (512, 2048, 8192)
    print("scaling: %d decoders x %d fills x sizes %r" % (len(DECODERS), len(KINDS), sizes))
    for name, fn in DECODERS:
        for kind in KINDS:
            lines = []
            for n in sizes:
                b = hostile_fill(n, kind)
                lines.append(check_call("%s/%s/%d" % (name, kind, n), lambda: fn(b), n, record=True))
            # quadrupling the buffer may at most (a bit more than) quadruple the work
            for a, c in zip(lines, lines[1:]):
                if c > 6 * a + 2000:
                    fail("%s/%s: work grows faster than the buffer: %r" % (name, kind, lines))


def memory_cases():
    """peak allocation must be bounded by a linear function of the buffer"""
    n = 16384
    print("memory: %d decoders x %d fills, %d byte buffers" % (len(DECODERS), len(KINDS), n))
    for name, fn in DECODERS:
        for kind in KINDS:
            b = hostile_fill(n, kind)
            tracemalloc.start()
            try:
                tracemalloc.reset_peak()
                base = tracemalloc.get_traced_memory()[0]
                try:
                    res = fn(b)
                except Exception:
                    res = None
                peak = tracemalloc.get_traced_memory()[1] - base
            finally:
                tracemalloc.stop()
            del res
            if peak > MEM_PER_BYTE * n + MEM_CONST:
                fail("%s/%s: peak allocation of %d bytes for a %d byte buffer" % (name, kind, peak, n))


def large_cases():
    """large buffers, wall clock only"""
    n = 128 * 1024
    print("large: %d decoders x %d fills, %d byte buffers" % (len(DECODERS), len(KINDS), n))
    worst = 0.0
    for name, fn in DECODERS:
        for kind in KINDS:
            b = hostile_fill(n, kind)
            t0 = time.time()
            try:
                fn(b)
            except WorkLimit as e:
                fail("%s/%s: %s" % (name, kind, e))
            except (MemoryError, RecursionError) as e:
                fail("%s/%s: %s on a %d byte buffer" % (name, kind, type(e).__name__, n))
            except Exception:
                pass
            worst = max(worst, time.time() - t0)
    print("large: slowest call %.2fs" % worst)
    # the sense decoder through the exception class
    for kind in ("zero", "ones", "rnd"):
        for rc in (0x70, 0x72, 0xF1, 0x00):
            b = hostile_fill(n, kind)
            b[0] = rc
            try:
                str(SCSICheckCondition(b))
            except WorkLimit as e:
                fail("sense/%s: %s" % (kind, e))
            except Exception:
                pass


def main():
    t0 = time.time()
    if hasattr(signal, "SIGALRM"):
        signal.signal(signal.SIGALRM, _alarm)
    try:
        for step in (functional_cases, scaling_cases, memory_cases, large_cases):
            if hasattr(signal, "SIGALRM"):
                signal.alarm(WALL_SECONDS * 5)
            t1 = time.time()
            try:
                step()
            except WorkLimit as e:
                fail("%s: %s" % (step.__name__, e))
            print("%s: %.1fs" % (step.__name__, time.time() - t1))
    finally:
        if hasattr(signal, "SIGALRM"):
            signal.alarm(0)

    digest = DIGEST.hexdigest()
    print("calls: %(calls)d (returned %(returned)d, raised %(raised)d), "
          "max lines/byte %(max_ratio).1f" % COUNT)
    print("exceptions seen: %s" % ", ".join("%s=%d" % kv for kv in sorted(EXC_KINDS.items())))
    print("outcome digest: %s" % digest)
    print("strict digest (with exception messages): %s" % STRICT.hexdigest())
    if COUNT["returned"] == 0 or COUNT["raised"] == 0:
        fail("implausible run: no call returned or no call raised")
    if "--record" not in sys.argv and digest != GOLDEN:
        fail("outcomes differ from the reference implementation (digest %s, expected %s)"
             % (digest, GOLDEN))
    print("elapsed %.1fs" % (time.time() - t0))
    if FAILURES:
        print("FAILED (%d problems)" % len(FAILURES))
        return 1
    print("PASS")
    return 0


if __name__ == "__main__":
    sys.exit(main())
