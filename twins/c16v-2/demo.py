#!/usr/bin/env python
# coding: utf-8
"""
Behavioural check of property C16 (command-set selection on attach).

Attaching the SCSI facade to a device issues exactly one standard INQUIRY and
then selects the command set for the reported peripheral device type; processor
and unrecognised types keep a set that offers the primary commands; re-attaching
repeats the selection for the new device and leaks nothing of the previous one.

Run as:  cd /tmp/seed/C16v && PYTHONPATH=/tmp/seed/C16v /venv/bin/python SEED/demo.py
"""
import itertools
import sys
import types

# ----------------------------------------------------------------------------
# fake external bindings (sgio / iscsi), installed before the library is loaded
# ----------------------------------------------------------------------------

WIRE_LOG = []  # (backend, key, bytes(cdb)) for every command that reaches a binding
REPLY = {}  # key (file name or url) -> callable(cdb, datain) filling datain / raising


def _std_inquiry_bytes(devicetype, qualifier=0):
    data = bytearray(96)
    data[0] = ((qualifier & 0x07) << 5) | (devicetype & 0x1F)
    data[1] = 0x80
    data[2] = 0x06
    data[3] = 0x02
    data[4] = 91
    data[8:16] = b"DEMOVEND"
    data[16:32] = b"DEMO PRODUCT    "
    data[32:36] = b"0001"
    return data


def _answer(cdb, datain, devicetype, qualifier=0):
    if cdb[0] == 0x12 and not (cdb[1] & 0x01):
        src = _std_inquiry_bytes(devicetype, qualifier)
        n = min(len(src), len(datain))
        datain[:n] = src[:n]


fake_sgio = types.ModuleType("sgio")


class _CheckConditionError(Exception):
    def __init__(self, sense=None):
        Exception.__init__(self, "check condition")
        self.sense = sense


def _sgio_execute(fobj, cdb, dataout, datain, *args, **kwargs):
    key = fobj.name
    WIRE_LOG.append(("sgio", key, bytes(cdb)))
    REPLY[key](cdb, datain)
    return 0


fake_sgio.CheckConditionError = _CheckConditionError
fake_sgio.execute = _sgio_execute
sys.modules["sgio"] = fake_sgio

fake_iscsi = types.ModuleType("iscsi")
fake_iscsi.SCSI_XFER_NONE = 0
fake_iscsi.SCSI_XFER_READ = 1
fake_iscsi.SCSI_XFER_WRITE = 2
fake_iscsi.ISCSI_SESSION_NORMAL = 2
fake_iscsi.ISCSI_HEADER_DIGEST_NONE_CRC32C = 1


class _Ctx(object):
    def __init__(self, name):
        self.name = name
        self.url = None
        self.connected = False

    def set_targetname(self, t):
        self.target = t

    def set_session_type(self, t):
        pass

    def set_header_digest(self, d):
        pass

    def connect(self, portal, lun):
        self.connected = True

    def disconnect(self):
        self.connected = False

    def command(self, lun, task, dataout, datain):
        WIRE_LOG.append(("iscsi", self.url, bytes(task.cdb)))
        task.status = 0
        REPLY[self.url](task.cdb, datain)


class _URL(object):
    def __init__(self, ctx, url):
        ctx.url = url
        rest = url[len("iscsi://"):]
        parts = rest.split("/")
        self.portal = parts[0]
        self.target = parts[1] if len(parts) > 1 else ""
        self.lun = int(parts[2]) if len(parts) > 2 else 0


class _Task(object):
    def __init__(self, cdb, direction, xferlen):
        self.cdb = cdb
        self.direction = direction
        self.xferlen = xferlen
        self.status = 0
        self.raw_sense = None


fake_iscsi.Context = _Ctx
fake_iscsi.URL = _URL
fake_iscsi.Task = _Task
sys.modules["iscsi"] = fake_iscsi

# ----------------------------------------------------------------------------
# the library under test (public import paths only)
# ----------------------------------------------------------------------------
import pyscsi.pyscsi.scsi as scsi_module  # noqa: E402
import pyscsi.pyscsi.scsi_enum_command as sec  # noqa: E402
from pyscsi.pyiscsi.iscsi_device import ISCSIDevice  # noqa: E402
from pyscsi.pyscsi.scsi import SCSI  # noqa: E402
from pyscsi.pyscsi.scsi_device import SCSIDevice  # noqa: E402
from pyscsi.pyscsi.scsi_enum_command import mmc, sbc, smc, spc, ssc  # noqa: E402

FAILS = []


def check(cond, msg):
    if not cond:
        FAILS.append(msg)
        if len(FAILS) < 40:
            print("FAIL:", msg)


def raises(exc, fn, *a, **kw):
    try:
        fn(*a, **kw)
    except exc:
        return True
    except Exception as e:  # pragma: no cover
        print("   unexpected exception %r" % (e,))
        return False
    return False


SET_NAME = {id(spc): "spc", id(sbc): "sbc", id(ssc): "ssc", id(smc): "smc", id(mmc): "mmc"}

EXPECT = {
    0x00: sbc,
    0x04: sbc,
    0x07: sbc,
    0x01: ssc,
    0x02: ssc,
    0x09: ssc,
    0x03: spc,
    0x08: smc,
    0x05: mmc,
}
ALL_TYPES = list(range(32))


def expected_after(devicetype, before):
    """What device.opcodes must be after the attach, given what it was before."""
    return EXPECT.get(devicetype, before)


class DuckDevice(object):
    """A transport in the style of tests/mock_device.py: plain attributes."""

    def __init__(self, devicetype, opcodes=spc, qualifier=0, name="duck"):
        self.opcodes = opcodes
        self.reported = devicetype
        self.qualifier = qualifier
        self.name = name
        self.cdbs = []
        self.closed = 0

    def execute(self, cmd, en_raw_sense=False):
        self.cdbs.append(bytes(cmd.cdb))
        _answer(cmd.cdb, cmd.datain, self.reported, self.qualifier)

    def open(self):
        pass

    def close(self):
        self.closed += 1


class PropDevice(DuckDevice):
    """Same, but with opcodes / devicetype as properties that log assignments."""

    def __init__(self, *a, **kw):
        self.assigned = []
        DuckDevice.__init__(self, *a, **kw)

    @property
    def opcodes(self):
        return self._o

    @opcodes.setter
    def opcodes(self, v):
        self.assigned.append(("opcodes", v))
        self._o = v

    @property
    def devicetype(self):
        return self._t

    @devicetype.setter
    def devicetype(self, v):
        self.assigned.append(("devicetype", v))
        self._t = v


STD_INQUIRY_CDB = bytes([0x12, 0x00, 0x00, 0x00, 96, 0x00])


def primary_commands_ok(s, dev_cdbs, tag):
    """INQUIRY, TEST UNIT READY and REPORT LUNS can be built and sent."""
    n = len(dev_cdbs())
    i = s.inquiry()
    t = s.testunitready()
    r = s.reportluns()
    sent = dev_cdbs()[n:]
    check(len(sent) == 3, "%s: primary commands sent %d cdbs" % (tag, len(sent)))
    if len(sent) == 3:
        check(sent[0][0] == 0x12 and len(sent[0]) == 6, "%s: INQUIRY cdb %r" % (tag, sent[0]))
        check(sent[1] == bytes(6), "%s: TUR cdb %r" % (tag, sent[1]))
        check(sent[2][0] == 0xA0 and len(sent[2]) == 12, "%s: REPORT LUNS cdb %r" % (tag, sent[2]))
    check(i.cdb[0] == 0x12 and t.cdb[0] == 0x00 and r.cdb[0] == 0xA0, "%s: returned cmds" % tag)
    return i


def set_specific_ok(s, cmdset, tag):
    """A command that only the selected set offers works; foreign ones do not leak in."""
    if cmdset is sbc:
        s.blocksize = 512
        check(s.read10(0, 1).cdb[0] == 0x28, tag + ": sbc read10")
        check(s.write16(0, 1, bytearray(512)).cdb[0] == 0x8A, tag + ": sbc write16")
        check(s.readcapacity16().cdb[0] == 0x9E, tag + ": sbc readcapacity16")
        check(raises(AttributeError, s.movemedium, 0, 1, 2), tag + ": sbc offers MOVE MEDIUM")
        check(raises(AttributeError, s.readcd, 0, 1), tag + ": sbc offers READ CD")
    elif cmdset is ssc:
        check(s.device.opcodes.REWIND.value == 0x01, tag + ": ssc REWIND")
        check(s.device.opcodes.READ_6.value == 0x08, tag + ": ssc READ_6")
        check(raises(AttributeError, s.read10, 0, 1), tag + ": ssc offers READ 10")
        check(raises(AttributeError, s.movemedium, 0, 1, 2), tag + ": ssc offers MOVE MEDIUM")
        check(raises(StopIteration, s.readcapacity16), tag + ": ssc offers 9E")
    elif cmdset is smc:
        check(s.movemedium(0, 1, 2).cdb[0] == 0xA5, tag + ": smc movemedium")
        check(s.exchangemedium(0, 1, 2, 3).cdb[0] == 0xA6, tag + ": smc exchangemedium")
        check(s.initializeelementstatus().cdb[0] == 0x07, tag + ": smc init element status")
        check(raises(AttributeError, s.read10, 0, 1), tag + ": smc offers READ 10")
        check(raises(AttributeError, s.readcd, 0, 1), tag + ": smc offers READ CD")
    elif cmdset is mmc:
        check(s.device.opcodes.READ_CD.value == 0xBE, tag + ": mmc READ_CD")
        check(s.device.opcodes.READ_DISC_INFORMATION.value == 0x51, tag + ": mmc READ DISC INFO")
        check(s.device.opcodes.READ_10.value == 0x28, tag + ": mmc READ_10")
        check(raises(AttributeError, s.movemedium, 0, 1, 2), tag + ": mmc offers MOVE MEDIUM")
        check(raises(AttributeError, s.read16, 0, 1), tag + ": mmc offers READ 16")
        check(raises(AttributeError, s.modesense6, 0x3F), tag + ": mmc offers MODE SENSE 6")
    elif cmdset is spc:
        check(s.modesense6(0x3F).cdb[0] == 0x1A, tag + ": spc modesense6")
        check(raises(AttributeError, s.read10, 0, 1), tag + ": spc offers READ 10")
        check(raises(AttributeError, s.movemedium, 0, 1, 2), tag + ": spc offers MOVE MEDIUM")
        check(raises(AttributeError, s.readcd, 0, 1), tag + ": spc offers READ CD")
        check(raises(StopIteration, s.readcapacity16), tag + ": spc offers 9E")


# ----------------------------------------------------------------------------
# 0. public names and the tables themselves
# ----------------------------------------------------------------------------
def test_public_surface():
    import importlib
    import inspect

    for name in ("spc", "sbc", "ssc", "smc", "mmc"):
        obj = getattr(sec, name)
        check(obj is {"spc": spc, "sbc": sbc, "ssc": ssc, "smc": smc, "mmc": mmc}[name], "sec.%s identity" % name)
        check(getattr(sec, name) is obj, "sec.%s stable identity" % name)
        check(getattr(scsi_module, name) is obj, "scsi.%s re-export" % name)
        table = getattr(sec, name + "_opcodes")
        check(sorted(obj.keys) == sorted(table.keys()), "%s keys changed" % name)
        for k, v in table.items():
            check(getattr(obj, k) is v, "%s.%s identity" % (name, k))
        for k in ("INQUIRY", "TEST_UNIT_READY", "REPORT_LUNS"):
            check(k in obj.keys, "%s lacks %s" % (name, k))
    check(len({id(x) for x in (spc, sbc, ssc, smc, mmc)}) == 5, "command sets distinct")
    check(spc.INQUIRY.value == 0x12 and sbc.INQUIRY.value == 0x12, "INQUIRY value")
    check(sec.SCSI_STATUS.GOOD == 0 and sec.SCSI_STATUS.CHECK_CONDITION == 2, "SCSI_STATUS")
    check(sec.OPCODE.INQUIRY == 0x12, "OPCODE legacy enum")
    check(importlib.import_module("pyscsi.pyscsi.scsi").SCSI is SCSI, "import path scsi.SCSI")
    m = importlib.import_module("pyscsi.pyscsi.scsi_enum_command")
    ns = {}
    exec("from pyscsi.pyscsi.scsi_enum_command import mmc, sbc, smc, spc, ssc", ns)
    check(ns["sbc"] is sbc and ns["mmc"] is mmc and m is sec, "from-import of command sets")

    sig = inspect.signature(SCSI.__init__)
    check(list(sig.parameters) == ["self", "dev", "blocksize"], "SCSI.__init__ params %s" % sig)
    check(sig.parameters["blocksize"].default == 0, "SCSI.__init__ blocksize default")
    check(list(inspect.signature(SCSI.__call__).parameters) == ["self", "dev"], "SCSI.__call__ params")
    sig = inspect.signature(SCSI.inquiry)
    check(list(sig.parameters) == ["self", "evpd", "page_code", "alloclen"], "SCSI.inquiry params")
    check(list(inspect.signature(SCSI.execute).parameters) == ["self", "cmd", "en_raw_sense"], "SCSI.execute params")
    sig = inspect.signature(SCSIDevice.__init__)
    check(
        list(sig.parameters) == ["self", "device", "readwrite", "detect_replugged", "buffering"],
        "SCSIDevice.__init__ params",
    )
    sig = inspect.signature(ISCSIDevice.__init__)
    check(list(sig.parameters) == ["self", "device", "initiator_name"], "ISCSIDevice.__init__ params")
    for cls in (SCSIDevice, ISCSIDevice):
        for attr in ("opcodes", "devicetype", "execute", "open", "close"):
            check(hasattr(cls, attr), "%s.%s missing" % (cls.__name__, attr))
    check(isinstance(SCSI.blocksize, property), "SCSI.blocksize property")


# ----------------------------------------------------------------------------
# 1. every device type on a duck-typed transport
# ----------------------------------------------------------------------------
def test_all_types_duck():
    for cls in (DuckDevice, PropDevice):
        for t in ALL_TYPES:
            for q in (0, 1, 3, 7):
                dev = cls(t, qualifier=q)
                s = SCSI(dev)
                tag = "%s type %#x q%d" % (cls.__name__, t, q)
                check(s.device is dev, tag + ": facade.device")
                check(dev.cdbs == [STD_INQUIRY_CDB], tag + ": attach sent %r" % (dev.cdbs,))
                check(dev.devicetype == t and type(dev.devicetype) is int, tag + ": devicetype %r" % (dev.devicetype,))
                want = expected_after(t, spc)
                check(dev.opcodes is want, tag + ": opcodes is %s" % SET_NAME.get(id(dev.opcodes)))
                if cls is PropDevice:
                    if t in EXPECT:
                        check(
                            dev.assigned == [("opcodes", spc), ("devicetype", t), ("opcodes", want)],
                            tag + ": assignments %r" % (dev.assigned,),
                        )
                    else:
                        check(
                            dev.assigned == [("opcodes", spc), ("devicetype", t)],
                            tag + ": assignments %r" % (dev.assigned,),
                        )
                if q == 0:
                    i = primary_commands_ok(s, lambda: dev.cdbs, tag)
                    check(i.result["peripheral_device_type"] == t, tag + ": inquiry result")
                    check(i.result["peripheral_qualifier"] == 0, tag + ": inquiry qualifier")
                    check(dev.opcodes is want, tag + ": opcodes stable after commands")
                    set_specific_ok(s, want, tag)
                    check(dev.devicetype == t, tag + ": devicetype stable")


# ----------------------------------------------------------------------------
# 2. unrecognised types keep whatever the transport had (never another device's)
# ----------------------------------------------------------------------------
def test_unrecognised_keep_own():
    for t in ALL_TYPES:
        for before in (spc, sbc, ssc, smc, mmc):
            dev = DuckDevice(t, opcodes=before)
            s = SCSI(dev)
            want = expected_after(t, before)
            tag = "type %#x starting with %s" % (t, SET_NAME[id(before)])
            check(dev.opcodes is want, tag + ": got %s" % SET_NAME.get(id(dev.opcodes)))
            check(dev.cdbs == [STD_INQUIRY_CDB], tag + ": one inquiry")
            primary_commands_ok(s, lambda: dev.cdbs, tag)


# ----------------------------------------------------------------------------
# 3. re-attaching: every ordered pair of types
# ----------------------------------------------------------------------------
def test_reattach_pairs():
    for t1, t2 in itertools.product(ALL_TYPES, ALL_TYPES):
        d1 = DuckDevice(t1, name="d1")
        d2 = DuckDevice(t2, name="d2")
        s = SCSI(d1, blocksize=4096)
        w1 = expected_after(t1, spc)
        check(d1.opcodes is w1, "pair %#x,%#x: first attach" % (t1, t2))
        ret = s(d2)
        tag = "pair %#x -> %#x" % (t1, t2)
        check(ret is None, tag + ": __call__ returns %r" % (ret,))
        check(s.device is d2, tag + ": facade.device is new device")
        check(s.blocksize == 4096, tag + ": blocksize kept")
        check(d2.cdbs == [STD_INQUIRY_CDB], tag + ": new device got %r" % (d2.cdbs,))
        check(d1.cdbs == [STD_INQUIRY_CDB], tag + ": old device got %r" % (d1.cdbs,))
        check(d2.devicetype == t2, tag + ": new devicetype")
        check(d1.devicetype == t1, tag + ": old devicetype untouched")
        w2 = expected_after(t2, spc)
        check(d2.opcodes is w2, tag + ": new device has %s" % SET_NAME.get(id(d2.opcodes)))
        check(d1.opcodes is w1, tag + ": old device has %s" % SET_NAME.get(id(d1.opcodes)))
        check(d1.closed == 0 and d2.closed == 0, tag + ": nothing closed")
        if t1 != t2 and (t1 % 5 == 0 or t2 % 7 == 0):
            primary_commands_ok(s, lambda: d2.cdbs, tag)
            set_specific_ok(s, w2, tag)
            check(d1.cdbs == [STD_INQUIRY_CDB], tag + ": old device stays silent")

    # a chain of attaches through all types, forwards and backwards, one facade
    s = SCSI(None)
    devs = [DuckDevice(t) for t in ALL_TYPES + ALL_TYPES[::-1]]
    for dev in devs:
        s(dev)
        check(s.device is dev, "chain: device")
        check(dev.opcodes is expected_after(dev.reported, spc), "chain: type %#x" % dev.reported)
    for dev in devs:
        check(dev.cdbs == [STD_INQUIRY_CDB], "chain: one inquiry for type %#x" % dev.reported)
        check(dev.opcodes is expected_after(dev.reported, spc), "chain: later attaches changed %#x" % dev.reported)


# ----------------------------------------------------------------------------
# 4. same device attached again / a device whose type changes
# ----------------------------------------------------------------------------
def test_same_device_again():
    for t in ALL_TYPES:
        dev = DuckDevice(t)
        s = SCSI(dev)
        s(dev)
        s(dev)
        check(dev.cdbs == [STD_INQUIRY_CDB] * 3, "type %#x: each attach = one inquiry" % t)
        check(dev.opcodes is expected_after(t, spc), "type %#x: stable over repeated attach" % t)

    for t1, t2 in itertools.product(ALL_TYPES, ALL_TYPES):
        dev = DuckDevice(t1)
        s = SCSI(dev)
        after1 = dev.opcodes
        dev.reported = t2
        s(dev)
        check(dev.devicetype == t2, "retype %#x->%#x: devicetype" % (t1, t2))
        check(dev.opcodes is expected_after(t2, after1), "retype %#x->%#x: opcodes" % (t1, t2))
        check(len(dev.cdbs) == 2, "retype: two inquiries")

    # two facades on two devices do not interfere
    a, b = DuckDevice(0x08), DuckDevice(0x05)
    sa, sb = SCSI(a), SCSI(b)
    check(a.opcodes is smc and b.opcodes is mmc, "two facades")
    sa(b)
    sb(a)
    check(a.opcodes is smc and b.opcodes is mmc, "two facades swapped")
    check(sa.device is b and sb.device is a, "two facades swapped devices")
    check(sa.movemedium is not None and raises(AttributeError, sa.movemedium, 0, 1, 2), "swapped: sa now mmc")
    check(sb.movemedium(0, 1, 2).cdb[0] == 0xA5, "swapped: sb now smc")


# ----------------------------------------------------------------------------
# 5. None, failures, odd ways of getting a facade
# ----------------------------------------------------------------------------
def test_none_and_failures():
    s = SCSI(None)
    check(s.device is None, "SCSI(None).device")
    check(s.blocksize == 0, "SCSI(None).blocksize")
    s = SCSI(None, 512)
    check(s.blocksize == 512, "positional blocksize")
    d = DuckDevice(0x01)
    s(d)
    check(d.opcodes is ssc and d.cdbs == [STD_INQUIRY_CDB], "attach after None")
    s(None)
    check(s.device is None, "detach with None")
    check(d.opcodes is ssc and d.cdbs == [STD_INQUIRY_CDB], "detach leaves device alone")
    check(raises(AttributeError, s.inquiry), "inquiry without device")
    d2 = DuckDevice(0x1F)
    s(d2)
    check(d2.opcodes is spc, "attach unknown after detach keeps primary set")

    class Boom(Exception):
        pass

    class FailingDevice(DuckDevice):
        def execute(self, cmd, en_raw_sense=False):
            self.cdbs.append(bytes(cmd.cdb))
            raise Boom("no answer")

    f = FailingDevice(0x00, opcodes=mmc)
    check(raises(Boom, SCSI, f), "failing INQUIRY propagates")
    check(f.opcodes is mmc, "failing INQUIRY leaves opcodes")
    check(not hasattr(f, "devicetype"), "failing INQUIRY leaves devicetype unset")
    check(f.cdbs == [STD_INQUIRY_CDB], "failing INQUIRY tried once")

    good = DuckDevice(0x08)
    s = SCSI(good)
    check(raises(Boom, s, f), "failing re-attach propagates")
    check(s.device is f, "failing re-attach: device already switched")
    check(good.opcodes is smc, "failing re-attach leaves old device")
    check(f.opcodes is mmc, "failing re-attach leaves new device opcodes")

    # a device that cannot even offer INQUIRY
    class Empty(object):
        pass

    nod = DuckDevice(0x00, opcodes=Empty())
    check(raises(AttributeError, SCSI, nod), "opcodes without INQUIRY")
    check(nod.cdbs == [], "nothing sent without INQUIRY opcode")

    # facade subclass that skips SCSI.__init__ (as tests/mock_device.py does)
    class Bare(SCSI):
        def __init__(self, dev):
            self.device = dev

    d = DuckDevice(0x05, opcodes=smc)
    b = Bare(d)
    check(d.cdbs == [] and d.opcodes is smc, "bare facade sends nothing")
    check(b.movemedium(0, 1, 2).cdb[0] == 0xA5, "bare facade uses device's set")
    b(d)
    check(d.cdbs[-1] == STD_INQUIRY_CDB and len(d.cdbs) == 2, "bare facade attach inquiry")
    check(d.opcodes is mmc and d.devicetype == 5, "bare facade attach selects")
    d3 = DuckDevice(0x09)
    b(d3)
    check(d3.opcodes is ssc and d.opcodes is mmc and b.device is d3, "bare facade re-attach")

    # facade subclass overriding inquiry(): the selection uses what it reports
    class Cmd(object):
        def __init__(self, t):
            self.result = {"peripheral_device_type": t}

    class Canned(SCSI):
        calls = 0

        def inquiry(self, evpd=0, page_code=0, alloclen=96):
            type(self).calls += 1
            return Cmd(self.device.reported)

    for t in ALL_TYPES:
        Canned.calls = 0
        d = DuckDevice(t)
        c = Canned(d)
        check(Canned.calls == 1, "canned: one inquiry() call for %#x" % t)
        check(d.cdbs == [], "canned: nothing on the wire")
        check(d.opcodes is expected_after(t, spc) and d.devicetype == t, "canned: type %#x" % t)

    # context manager closes the attached device, also after re-attach
    d1, d2 = DuckDevice(0x00), DuckDevice(0x08)
    with SCSI(d1) as s:
        check(s.device is d1, "with: device")
        s(d2)
    check(d1.closed == 0 and d2.closed == 1, "with: closes current device only")


# ----------------------------------------------------------------------------
# 6. the real transports on top of the fake bindings
# ----------------------------------------------------------------------------
DEV_FILES = ["/dev/null", "/dev/zero", "/dev/full", "/dev/urandom", "/dev/random"]


def wire(key):
    return [c for (_, k, c) in WIRE_LOG if k == key]


def test_scsi_device():
    check(raises(NotImplementedError, SCSIDevice, "nodev"), "SCSIDevice non-/dev/ name")
    for t in ALL_TYPES:
        path = DEV_FILES[t % len(DEV_FILES)]
        del WIRE_LOG[:]
        REPLY[path] = lambda cdb, datain, t=t: _answer(cdb, datain, t)
        dev = SCSIDevice(path)
        tag = "SCSIDevice type %#x" % t
        check(dev.opcodes is spc, tag + ": default set is spc")
        check(raises(AttributeError, lambda: dev.devicetype), tag + ": devicetype before attach")
        check(wire(path) == [], tag + ": opening sends nothing")
        s = SCSI(dev)
        check(wire(path) == [STD_INQUIRY_CDB], tag + ": attach sent %r" % (wire(path),))
        check(dev.devicetype == t, tag + ": devicetype")
        want = expected_after(t, spc)
        check(dev.opcodes is want, tag + ": got %s" % SET_NAME.get(id(dev.opcodes)))
        check(dev._opcodes is want, tag + ": _opcodes storage")
        check(dev._devicetype == t, tag + ": _devicetype storage")
        i = primary_commands_ok(s, lambda: wire(path), tag)
        check(i.result["peripheral_device_type"] == t, tag + ": inquiry result")
        check(bytes(i.result["t10_vendor_identification"]) == b"DEMOVEND", tag + ": vendor")
        set_specific_ok(s, want, tag)
        check(repr(dev) == "SCSIDevice", tag + ": repr")
        dev.close()

    # explicit assignment through the public attributes
    REPLY["/dev/null"] = lambda cdb, datain: _answer(cdb, datain, 0x1E)
    dev = SCSIDevice("/dev/null", detect_replugged=False)
    dev.opcodes = mmc
    check(dev.opcodes is mmc, "SCSIDevice.opcodes settable")
    dev.devicetype = 0x11
    check(dev.devicetype == 0x11, "SCSIDevice.devicetype settable")
    s = SCSI(dev)
    check(dev.opcodes is mmc and dev.devicetype == 0x1E, "SCSIDevice unknown type keeps own set")
    primary_commands_ok(s, lambda: wire("/dev/null"), "SCSIDevice 0x1e preset mmc")
    dev.close()

    # re-attach between real transports
    for t1, t2 in itertools.product((0x00, 0x01, 0x03, 0x05, 0x08, 0x0C, 0x1F), repeat=2):
        del WIRE_LOG[:]
        REPLY["/dev/null"] = lambda cdb, datain, t=t1: _answer(cdb, datain, t)
        REPLY["/dev/zero"] = lambda cdb, datain, t=t2: _answer(cdb, datain, t)
        with SCSIDevice("/dev/null") as d1, SCSIDevice("/dev/zero", readwrite=False) as d2:
            s = SCSI(d1, blocksize=512)
            s(d2)
            tag = "SCSIDevice pair %#x -> %#x" % (t1, t2)
            check(wire("/dev/null") == [STD_INQUIRY_CDB], tag + ": first device wire")
            check(wire("/dev/zero") == [STD_INQUIRY_CDB], tag + ": second device wire")
            check(d1.opcodes is expected_after(t1, spc), tag + ": first device set")
            check(d2.opcodes is expected_after(t2, spc), tag + ": second device set")
            check(d1.devicetype == t1 and d2.devicetype == t2, tag + ": device types")
            primary_commands_ok(s, lambda: wire("/dev/zero"), tag)
            set_specific_ok(s, d2.opcodes, tag)
            check(wire("/dev/null") == [STD_INQUIRY_CDB], tag + ": first device silent")

    # CHECK CONDITION on the INQUIRY
    def cc(cdb, datain):
        raise fake_sgio.CheckConditionError(bytearray([0x70, 0, 0x05, 0, 0, 0, 0, 10] + [0] * 10))

    REPLY["/dev/null"] = cc
    dev = SCSIDevice("/dev/null")
    check(raises(SCSIDevice.CheckCondition, SCSI, dev), "CheckCondition on attach")
    check(dev.opcodes is spc, "CheckCondition leaves spc")
    check(raises(AttributeError, lambda: dev.devicetype), "CheckCondition leaves devicetype unset")
    dev.close()


def test_iscsi_device():
    check(raises(NotImplementedError, ISCSIDevice, "/dev/null"), "ISCSIDevice non-iscsi url")
    for t in ALL_TYPES:
        url = "iscsi://127.0.0.1:3260/iqn.demo:t%d/0" % t
        del WIRE_LOG[:]
        REPLY[url] = lambda cdb, datain, t=t: _answer(cdb, datain, t, qualifier=t % 2)
        dev = ISCSIDevice(url, initiator_name="iqn.demo:init" if t % 3 else "")
        tag = "ISCSIDevice type %#x" % t
        check(dev.opcodes is spc, tag + ": default set is spc")
        check(raises(AttributeError, lambda: dev.devicetype), tag + ": devicetype before attach")
        s = SCSI(dev)
        check(wire(url) == [STD_INQUIRY_CDB], tag + ": attach sent %r" % (wire(url),))
        check(dev.devicetype == t, tag + ": devicetype")
        want = expected_after(t, spc)
        check(dev.opcodes is want, tag + ": got %s" % SET_NAME.get(id(dev.opcodes)))
        check(dev._opcodes is want and dev._devicetype == t, tag + ": storage")
        primary_commands_ok(s, lambda: wire(url), tag)
        set_specific_ok(s, want, tag)
        dev.opcodes = smc
        check(dev.opcodes is smc, tag + ": opcodes settable")
        dev.devicetype = 3
        check(dev.devicetype == 3, tag + ": devicetype settable")
        dev.close()

    # mixed re-attach: sgio -> iscsi -> duck -> sgio
    url = "iscsi://10.0.0.1/iqn.demo:mixed/1"
    for t1, t2, t3 in itertools.product((0x00, 0x02, 0x05, 0x08, 0x0D), (0x03, 0x04, 0x09, 0x1F), (0x07, 0x08, 0x0A)):
        del WIRE_LOG[:]
        REPLY["/dev/full"] = lambda cdb, datain, t=t1: _answer(cdb, datain, t)
        REPLY[url] = lambda cdb, datain, t=t2: _answer(cdb, datain, t)
        d1 = SCSIDevice("/dev/full")
        d2 = ISCSIDevice(url)
        d3 = DuckDevice(t3)
        s = SCSI(d1)
        s(d2)
        s(d3)
        tag = "mixed %#x,%#x,%#x" % (t1, t2, t3)
        check(d1.opcodes is expected_after(t1, spc), tag + ": d1")
        check(d2.opcodes is expected_after(t2, spc), tag + ": d2")
        check(d3.opcodes is expected_after(t3, spc), tag + ": d3")
        check(wire("/dev/full") == [STD_INQUIRY_CDB] and wire(url) == [STD_INQUIRY_CDB], tag + ": wire")
        check(d3.cdbs == [STD_INQUIRY_CDB], tag + ": duck wire")
        s(d1)
        check(wire("/dev/full") == [STD_INQUIRY_CDB] * 2, tag + ": back to d1 repeats inquiry")
        check(d1.opcodes is expected_after(t1, spc) and s.device is d1, tag + ": back to d1")
        check(d2.opcodes is expected_after(t2, spc), tag + ": d2 after")
        d1.close()
        d2.close()


def main():
    test_public_surface()
    test_all_types_duck()
    test_unrecognised_keep_own()
    test_reattach_pairs()
    test_same_device_again()
    test_none_and_failures()
    test_scsi_device()
    test_iscsi_device()
    if FAILS:
        print("FAILED: %d checks" % len(FAILS))
        return 1
    print("PASS")
    return 0


if __name__ == "__main__":
    sys.exit(main())
