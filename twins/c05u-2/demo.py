#!/usr/bin/env python
# coding: utf-8
"""
Check of property C05: every data-out parameter list the library composes
itself (MODE SELECT 6/10, PERSISTENT RESERVE OUT basic / register-and-move with
TransportIDs, EXTENDED COPY LID1 / LID4) puts each supplied value where the
standard puts it, every embedded length field counts the bytes that really
follow, and the CDB parameter list length is the length of the list.

The expected bytes are produced by a small independent reference encoder in
this file (plain big-endian integer arithmetic on the field positions given in
SPC), never by the library's own tables.

Run as:
    cd /tmp/seed/C05u && PYTHONPATH=/tmp/seed/C05u /venv/bin/python SEED/demo.py
"""

import copy
import inspect
import random
import sys
import types

# The library itself never needs the external bindings for building commands,
# but be safe: provide tiny fakes if they are not installed.
for _name in ("sgio", "iscsi"):
    try:
        __import__(_name)
    except Exception:  # pragma: no cover
        sys.modules[_name] = types.ModuleType(_name)

from pyscsi.pyscsi import scsi_enum_modesense as MS_ENUM
from pyscsi.pyscsi.scsi import SCSI
from pyscsi.pyscsi.scsi_cdb_extended_copy_spc4 import ExtendedCopy as ExtendedCopy4
from pyscsi.pyscsi.scsi_cdb_extended_copy_spc5 import ExtendedCopy as ExtendedCopy5
from pyscsi.pyscsi.scsi_cdb_inquiry import Inquiry
from pyscsi.pyscsi.scsi_cdb_modesense6 import ModeSelect6, ModeSense6
from pyscsi.pyscsi.scsi_cdb_modesense10 import ModeSelect10, ModeSense10
from pyscsi.pyscsi.scsi_cdb_persistentreservein import (
    PersistentReserveIn,
    PersistentReserveInReadFullStatus,
    PersistentReserveInReadKeys,
    PersistentReserveInReadReservation,
    PersistentReserveInReportCapabilities,
    _pad4_len,
)
from pyscsi.pyscsi.scsi_cdb_persistentreserveout import PersistentReserveOut
from pyscsi.pyscsi.scsi_command import SCSICommand
from pyscsi.pyscsi.scsi_enum_command import smc, spc, sbc, ssc
from pyscsi.pyscsi.scsi_enum_inquiry import ASSOCIATION, CODE_SET, DESIGNATOR, NAA
from pyscsi.pyscsi.scsi_enum_persistentreserve import PR_SCOPE, PR_TYPE, PROTOCOL_ID

RNG = random.Random(0xC05)
CHECKS = 0


def check(cond, msg):
    global CHECKS
    CHECKS += 1
    if not cond:
        raise AssertionError(msg)


def eq(got, want, msg):
    global CHECKS
    CHECKS += 1
    if got != want:
        if isinstance(got, (bytes, bytearray)) and isinstance(want, (bytes, bytearray)):
            raise AssertionError(
                "%s\n   got: %s\n  want: %s" % (msg, bytes(got).hex(), bytes(want).hex())
            )
        raise AssertionError("%s\n   got: %r\n  want: %r" % (msg, got, want))


def raises(exc, fn, *a, **kw):
    global CHECKS
    CHECKS += 1
    try:
        fn(*a, **kw)
    except exc as e:
        return e
    except Exception as e:  # wrong type
        raise AssertionError(
            "expected %s, got %s: %s" % (exc.__name__, type(e).__name__, e)
        )
    raise AssertionError("expected %s, nothing raised" % exc.__name__)


class MockDevice:
    def __init__(self, opcodes):
        self.opcodes = opcodes
        self.executed = []

    def execute(self, cmd, en_raw_sense=False):
        self.executed.append(cmd)

    def open(self):
        pass

    def close(self):
        pass


class MockSCSI(SCSI):
    def __init__(self, dev):
        self.device = dev


# ----------------------------------------------------------------------------
# reference encoder helpers
# ----------------------------------------------------------------------------
def be(value, nbytes):
    return bytes(int(value).to_bytes(nbytes, "big"))


def put(buf, offset, nbytes, value, shift=0):
    """OR an integer into a big endian field of a bytearray."""
    v = be(int(value) << shift, nbytes)
    for i in range(nbytes):
        buf[offset + i] |= v[i]


def rbytes(n):
    return bytes(RNG.randrange(256) for _ in range(n))


def rbits(n):
    return RNG.getrandbits(n)


def pick_int(bits):
    """unusual choices for an n bit unsigned field"""
    return RNG.choice([0, 1, (1 << bits) - 1, 1 << (bits - 1), rbits(bits), rbits(bits)])


def flag():
    return RNG.choice([0, 1, True, False])


# ----------------------------------------------------------------------------
# MODE SELECT 6 / 10
# ----------------------------------------------------------------------------
# (name, byte offset, nbytes, shift, bits)
ELEMENT_ADDRESS = [
    ("first_medium_transport_element_address", 0, 2, 0, 16),
    ("num_medium_transport_elements", 2, 2, 0, 16),
    ("first_storage_element_address", 4, 2, 0, 16),
    ("num_storage_elements", 6, 2, 0, 16),
    ("first_import_element_address", 8, 2, 0, 16),
    ("num_import_elements", 10, 2, 0, 16),
    ("first_data_transfer_element_address", 12, 2, 0, 16),
    ("num_data_transfer_elements", 14, 2, 0, 16),
]
CONTROL = [
    ("tst", 0, 1, 5, 3),
    ("tmf_only", 0, 1, 4, 1),
    ("dpicz", 0, 1, 3, 1),
    ("d_sense", 0, 1, 2, 1),
    ("gltsd", 0, 1, 1, 1),
    ("rlec", 0, 1, 0, 1),
    ("queue_algorithm_modifier", 1, 1, 4, 4),
    ("nuar", 1, 1, 3, 1),
    ("qerr", 1, 1, 1, 2),
    ("vs", 2, 1, 7, 1),
    ("rac", 2, 1, 6, 1),
    ("ua_intlck_ctrl", 2, 1, 4, 2),
    ("swp", 2, 1, 3, 1),
    ("ato", 3, 1, 7, 1),
    ("tas", 3, 1, 6, 1),
    ("atmpe", 3, 1, 5, 1),
    ("rwwp", 3, 1, 4, 1),
    ("autoload_mode", 3, 1, 0, 3),
    ("busy_timeout_period", 6, 2, 0, 16),
    ("extended_self_test_completion_time", 8, 2, 0, 16),
]
CONTROL_EXT = [
    ("tcmos", 0, 1, 2, 1),
    ("scsip", 0, 1, 1, 1),
    ("ialuae", 0, 1, 0, 1),
    ("initial_command_priority", 1, 1, 0, 4),
    ("maximum_sense_data_length", 2, 1, 0, 8),
]
DISCONNECT = [
    ("buffer_full_ratio", 0, 1, 0, 8),
    ("buffer_empty_ratio", 1, 1, 0, 8),
    ("bus_inactivity_limit", 2, 2, 0, 16),
    ("disconnect_time_limit", 4, 2, 0, 16),
    ("connect_time_limit", 6, 2, 0, 16),
    ("maximum_burst_size", 8, 2, 0, 16),
    ("emdp", 10, 1, 7, 1),
    ("fair_arbitration", 10, 1, 4, 3),
    ("dimm", 10, 1, 3, 1),
    ("dtdc", 10, 1, 0, 3),
    ("first_burst_size", 12, 2, 0, 16),
]
# kind -> (page_code, spf, sub_page_code, body size, layout)
MODE_PAGES = {
    "element": (0x1D, 0, None, 18, ELEMENT_ADDRESS),
    "element_sub": (0x1D, 1, None, 18, ELEMENT_ADDRESS),
    "control": (0x0A, 0, None, 10, CONTROL),
    "control_ext": (0x0A, 1, 1, 28, CONTROL_EXT),
    "disconnect": (0x02, 0, None, 14, DISCONNECT),
}


def random_mode_page(kind, sparse):
    page_code, spf, sub, size, layout = MODE_PAGES[kind]
    mp = {"page_code": page_code, "spf": spf, "ps": flag()}
    if spf:
        mp["sub_page_code"] = sub if sub is not None else pick_int(8)
    elif RNG.random() < 0.3:
        # a sub page code on a page_0 format page has no place in the header
        mp["sub_page_code"] = 0
    for name, _off, _n, _shift, bits in layout:
        if sparse and RNG.random() < 0.5:
            continue
        mp[name] = flag() if bits == 1 else pick_int(bits)
    items = list(mp.items())
    RNG.shuffle(items)
    return dict(items)


def expected_mode_page(mp):
    for kind, (page_code, spf, sub, size, layout) in MODE_PAGES.items():
        if page_code == mp["page_code"] and bool(spf) == bool(mp["spf"]):
            break
    else:
        raise AssertionError("bad page in demo")
    body = bytearray(size)
    for name, off, n, shift, _bits in layout:
        if name in mp:
            put(body, off, n, mp[name], shift)
    if spf:
        head = bytearray(4)
        head[1] = mp["sub_page_code"]
        head[2:4] = be(size, 2)
    else:
        head = bytearray(2)
        head[1] = size
    head[0] = (int(mp.get("ps", 0)) << 7) | (int(bool(spf)) << 6) | mp["page_code"]
    return bytes(head + body)


def expected_mode_list(data, ten):
    pages = b"".join(expected_mode_page(mp) for mp in data["mode_pages"])
    if ten:
        hdr = bytearray(8)
        hdr[2] = data.get("medium_type", 0)
        hdr[3] = data.get("device_specific_parameter", 0)
        hdr[4] = int(data.get("longlba", 0))
        out = hdr + pages
        out[0:2] = be(len(out) - 2, 2)
    else:
        hdr = bytearray(4)
        hdr[1] = data.get("medium_type", 0)
        hdr[2] = data.get("device_specific_parameter", 0)
        out = hdr + pages
        out[0] = len(out) - 1
    return bytes(out)


def walk_mode_list(buf, ten):
    """structural check: every length field counts what follows"""
    hl = 8 if ten else 4
    if ten:
        eq(int.from_bytes(buf[0:2], "big"), len(buf) - 2, "mode data length (10)")
        eq(int.from_bytes(buf[6:8], "big"), 0, "block descriptor length (10)")
    else:
        eq(buf[0], len(buf) - 1, "mode data length (6)")
        eq(buf[3], 0, "block descriptor length (6)")
    pos = hl
    n = 0
    while pos < len(buf):
        if buf[pos] & 0x40:
            plen = int.from_bytes(buf[pos + 2 : pos + 4], "big")
            pos += 4 + plen
        else:
            plen = buf[pos + 1]
            pos += 2 + plen
        n += 1
    eq(pos, len(buf), "mode pages tile the parameter list exactly")
    return n


def check_modeselect():
    kinds = list(MODE_PAGES)
    dev = MockDevice(spc)
    s = MockSCSI(dev)
    for it in range(400):
        ten = bool(it & 1)
        npages = RNG.choice([0, 1, 1, 1, 2, 3, 5])
        pages = [
            random_mode_page(RNG.choice(kinds), sparse=RNG.random() < 0.5)
            for _ in range(npages)
        ]
        data = {"mode_pages": pages}
        if RNG.random() < 0.8:
            data["medium_type"] = pick_int(8)
        if RNG.random() < 0.8:
            data["device_specific_parameter"] = pick_int(8)
        if ten and RNG.random() < 0.6:
            data["longlba"] = flag()
        if RNG.random() < 0.3:
            data["some_unknown_key"] = 77  # ignored by the composer
        if RNG.random() < 0.3:
            data["mode_pages"] = tuple(pages)
        snapshot = copy.deepcopy(data)
        want = expected_mode_list(data, ten)
        pf, sp = RNG.choice([0, 1]), RNG.choice([0, 1])
        cls, sense = (ModeSelect10, ModeSense10) if ten else (ModeSelect6, ModeSense6)
        opcode = spc.MODE_SELECT_10 if ten else spc.MODE_SELECT_6
        variant = it % 4
        if variant == 0:
            cmd = cls(opcode, data, pf, sp)
        elif variant == 1:
            cmd = cls(opcode=opcode, data=data, sp=sp, pf=pf)
        elif variant == 2:
            cmd = (s.modeselect10 if ten else s.modeselect6)(data, pf=pf, sp=sp)
            check(dev.executed[-1] is cmd, "wrapper executes the command it returns")
        else:
            cmd = cls(opcode, data)
            pf, sp = 1, 0
        eq(type(cmd.dataout), bytearray, "dataout type")
        eq(bytes(cmd.dataout), want, "MODE SELECT parameter list %r" % (data,))
        eq(data, snapshot, "caller's dict untouched")
        eq(walk_mode_list(cmd.dataout, ten), len(pages), "number of pages")
        # the static helpers give the same bytes
        eq(bytes(cls.marshall_dataout(data)), want, "marshall_dataout")
        eq(bytes(sense.marshall_datain(data)), want, "marshall_datain")
        eq(cls.unmarshall_datain(cmd.dataout), None, "ModeSelect.unmarshall_datain")
        # cdb
        if ten:
            cdb = bytearray(10)
            cdb[0] = 0x55
            cdb[7:9] = be(len(want), 2)
        else:
            cdb = bytearray(6)
            cdb[0] = 0x15
            cdb[4] = len(want)
        cdb[1] = (pf << 4) | sp
        eq(type(cmd.cdb), bytearray, "cdb type")
        eq(bytes(cmd.cdb), bytes(cdb), "MODE SELECT cdb")
        eq(len(cmd.datain), 0, "no data-in buffer")
        d = cmd.unmarshall_cdb(cmd.cdb)
        eq(d["parameter_list_length"], len(cmd.dataout), "cdb parameter list length")
        # decoder agrees on the first page
        dec = sense.unmarshall_datain(cmd.dataout)
        eq(dec["medium_type"], data.get("medium_type", 0), "medium type decodes")
        if pages:
            first = pages[0]
            got = dec["mode_pages"][0]
            for k, v in first.items():
                if k == "sub_page_code" and not first["spf"]:
                    continue
                if k in got:
                    eq(got[k], int(v), "round trip of %s" % k)
            if first["spf"]:
                eq(got["sub_page_code"], first["sub_page_code"], "sub page code")
        else:
            eq(dec["mode_pages"], [], "no pages")

    # explicit, hand-computed examples
    d6 = {
        "medium_type": 0x11,
        "device_specific_parameter": 0x80,
        "mode_pages": [
            {
                "ps": 1,
                "spf": 0,
                "page_code": MS_ENUM.PAGE_CODE.ELEMENT_ADDRESS_ASSIGNMENT,
                "first_medium_transport_element_address": 0x0102,
                "num_storage_elements": 0x0A0B,
                "num_data_transfer_elements": 0xFFFE,
            }
        ],
    }
    c = ModeSelect6(smc.MODE_SELECT_6, d6)
    eq(
        c.dataout.hex(),
        "17118000" + "9d12" + "0102" + "0000" + "0000" + "0a0b" + "0000" * 3 + "fffe" + "0000",
        "hand computed MODE SELECT(6)",
    )
    eq(c.cdb.hex(), "151000001800", "hand computed MODE SELECT(6) cdb")
    d10 = {
        "medium_type": 1,
        "device_specific_parameter": 2,
        "longlba": 1,
        "mode_pages": [
            {
                "ps": 0,
                "spf": 1,
                "page_code": MS_ENUM.PAGE_CODE.CONTROL,
                "sub_page_code": 1,
                "tcmos": 1,
                "ialuae": 1,
                "initial_command_priority": 9,
                "maximum_sense_data_length": 0xEE,
            }
        ],
    }
    c = ModeSelect10(sbc.MODE_SELECT_10, d10, pf=0, sp=1)
    eq(
        c.dataout.hex(),
        "0026010201000000" + "4a01001c" + "0509ee" + "00" * 25,
        "hand computed MODE SELECT(10)",
    )
    eq(c.cdb.hex(), "55010000000000002800", "hand computed MODE SELECT(10) cdb")

    # invalid dictionaries still fail the same way
    raises(KeyError, ModeSelect6, spc.MODE_SELECT_6, {})
    raises(KeyError, ModeSelect10, spc.MODE_SELECT_10, {"medium_type": 1})
    raises(KeyError, ModeSelect6, spc.MODE_SELECT_6, {"mode_pages": [{"page_code": 2}]})
    raises(KeyError, ModeSelect10, spc.MODE_SELECT_10, {"mode_pages": [{"spf": 0}]})
    raises(
        KeyError,
        ModeSelect6,
        spc.MODE_SELECT_6,
        {"mode_pages": [{"spf": 1, "page_code": 0x0A}]},
    )
    raises(
        NameError,
        ModeSelect6,
        spc.MODE_SELECT_6,
        {"mode_pages": [{"spf": 0, "page_code": 0x3F}]},
    )
    raises(
        NameError,
        ModeSelect10,
        spc.MODE_SELECT_10,
        {"mode_pages": [{"spf": 1, "page_code": 0x0A, "sub_page_code": 2}]},
    )
    # MODE SELECT(6) cannot express more than 255 bytes
    big = {"mode_pages": [random_mode_page("control_ext", False) for _ in range(9)]}
    raises(ValueError, ModeSelect6, spc.MODE_SELECT_6, big)
    c = ModeSelect10(spc.MODE_SELECT_10, big)
    eq(bytes(c.dataout), expected_mode_list(big, True), "9 pages in MODE SELECT(10)")
    eq(c.cdb[7:9], be(8 + 9 * 32, 2), "cdb length for 9 pages")


# ----------------------------------------------------------------------------
# TransportIDs and PERSISTENT RESERVE OUT
# ----------------------------------------------------------------------------
def random_iscsi_name():
    n = RNG.choice([1, 2, 3, 4, 5, 6, 7, 8, 15, 16, 17, 38, 60, 223])
    alphabet = "abcdefghijklmnopqrstuvwxyz0123456789.:-"
    return "iqn." + "".join(RNG.choice(alphabet) for _ in range(n))


def random_transport_id():
    """returns (dict, expected bytes)"""
    proto = RNG.choice(["fc", "1394", "rdma", "iscsi0", "iscsi1", "sas", "sop"])
    typ = RNG.choice([bytes, bytearray])
    extra = RNG.choice([0, 0, 0, 3])  # over-long identifiers are cut to size
    if proto == "fc":
        name = rbytes(8 + extra)
        d = {"protocol_id": PROTOCOL_ID.FIBRE_CHANNEL, "n_port_name": typ(name)}
        exp = bytearray(24)
        exp[8:16] = name[:8]
    elif proto == "1394":
        name = rbytes(8 + extra)
        d = {"protocol_id": PROTOCOL_ID.IEEE_1394, "eui64_name": typ(name)}
        exp = bytearray(24)
        exp[0] = 0x03
        exp[8:16] = name[:8]
    elif proto == "rdma":
        name = rbytes(16 + extra)
        d = {"protocol_id": PROTOCOL_ID.RDMA, "initiator_port_identifier": typ(name)}
        exp = bytearray(24)
        exp[0] = 0x04
        exp[8:24] = name[:16]
    elif proto == "sas":
        name = rbytes(8 + extra)
        d = {"protocol_id": PROTOCOL_ID.SAS, "sas_address": typ(name)}
        exp = bytearray(24)
        exp[0] = 0x06
        exp[4:12] = name[:8]
    elif proto == "sop":
        name = rbytes(8 + extra)
        d = {"protocol_id": PROTOCOL_ID.SOP, "routing_id": typ(name)}
        exp = bytearray(24)
        exp[0] = 0x0A
        exp[4:12] = name[:8]
    else:
        name = random_iscsi_name()
        d = {"protocol_id": PROTOCOL_ID.ISCSI, "iscsi_name": name}
        if proto == "iscsi1":
            isid = "%012x" % rbits(48)
            d["tpid_format"] = 1
            d["iscsi_initiator_session_id"] = isid
            text = (name + ",i,0x" + isid).encode("ascii")
            b0 = 0x45
        else:
            if RNG.random() < 0.5:
                d["tpid_format"] = 0
            if RNG.random() < 0.2:
                d["iscsi_initiator_session_id"] = ""
            text = name.encode("ascii")
            b0 = 0x05
        padded = text + b"\0"
        while len(padded) % 4:
            padded += b"\0"
        exp = bytearray([b0, 0]) + be(len(padded), 2) + padded
    if not proto.startswith("iscsi") and RNG.random() < 0.5:
        d["tpid_format"] = 0
    items = list(d.items())
    RNG.shuffle(items)
    return dict(items), bytes(exp)


def check_transport_ids():
    for _ in range(600):
        d, exp = random_transport_id()
        snap = copy.deepcopy(d)
        got = PersistentReserveInReadFullStatus.marshall_transport_id(d)
        eq(type(got), bytearray, "TransportID type")
        eq(bytes(got), exp, "TransportID %r" % (d,))
        eq(d, snap, "TransportID dict untouched")
        eq(len(got) % 4, 0, "TransportID length is a multiple of four")
        if d["protocol_id"] != PROTOCOL_ID.ISCSI:
            eq(len(got), 24, "fixed size TransportID is 24 bytes")
        else:
            eq(int.from_bytes(got[2:4], "big"), len(got) - 4, "iSCSI additional length")
            check(got[-1] == 0, "iSCSI name is NUL terminated")
        # and it decodes back
        back = PersistentReserveInReadFullStatus.unmarshall_transport_id(got)
        eq(back["protocol_id"], d["protocol_id"], "protocol id decodes")
        eq(back["tpid_format"], d.get("tpid_format", 0), "format decodes")
        for k, v in d.items():
            if k in ("protocol_id", "tpid_format"):
                continue
            if k == "iscsi_initiator_session_id" and not v:
                continue
            if isinstance(v, str):
                eq(back[k], v, "decode %s" % k)
            else:
                n = 16 if k == "initiator_port_identifier" else 8
                eq(bytes(back[k]), bytes(v[:n]), "decode %s" % k)
    # pad helper
    for n in range(0, 40):
        want = (n + 1 + 3) // 4 * 4
        eq(_pad4_len("x" * n), want, "_pad4_len(%d)" % n)
    # documented example
    tid = PersistentReserveInReadFullStatus.marshall_transport_id(
        {
            "protocol_id": PROTOCOL_ID.ISCSI,
            "tpid_format": 0,
            "iscsi_name": "iqn.1993-08.org.debian:01:90c27cf89279",
        }
    )
    eq(
        tid.hex(),
        "0500002869716e2e313939332d30382e6f72672e64656269616e3a30313a3930633237636638393237390000",
        "iSCSI TransportID example",
    )
    # errors
    raises(
        ValueError,
        PersistentReserveInReadFullStatus.marshall_transport_id,
        {"protocol_id": PROTOCOL_ID.ISCSI, "tpid_format": 1, "iscsi_name": "iqn.a"},
    )
    raises(
        ValueError,
        PersistentReserveInReadFullStatus.marshall_transport_id,
        {
            "protocol_id": PROTOCOL_ID.ISCSI,
            "iscsi_name": "iqn.a",
            "iscsi_initiator_session_id": "1234",
        },
    )
    raises(
        KeyError,
        PersistentReserveInReadFullStatus.marshall_transport_id,
        {"protocol_id": PROTOCOL_ID.SAS},
    )
    raises(KeyError, PersistentReserveInReadFullStatus.marshall_transport_id, {})
    raises(
        KeyError,
        PersistentReserveInReadFullStatus.marshall_transport_id,
        {"protocol_id": PROTOCOL_ID.ISCSI},
    )
    # a protocol without a specific layout gets the bare 24 byte header
    got = PersistentReserveInReadFullStatus.marshall_transport_id({"protocol_id": 1})
    eq(bytes(got), b"\x01" + bytes(23), "unknown protocol TransportID")
    raises(
        ValueError,
        PersistentReserveInReadFullStatus.unmarshall_transport_id,
        bytearray(got),
    )


def pr_cdb(sa, scope, typ, length):
    cdb = bytearray(10)
    cdb[0] = 0x5F
    cdb[1] = sa
    cdb[2] = (scope << 4) | typ
    cdb[5:9] = be(length, 4)
    return bytes(cdb)


def check_pr_out():
    opcode = spc.PERSISTENT_RESERVE_OUT
    SA = opcode.serviceaction
    dev = MockDevice(spc)
    s = MockSCSI(dev)
    basic_sas = [
        SA.REGISTER,
        SA.RESERVE,
        SA.RELEASE,
        SA.CLEAR,
        SA.PREEMPT,
        SA.PREEMPT_AND_ABORT,
        SA.REGISTER_AND_IGNORE_EXISTING_KEY,
        SA.REPLACE_LOST_REGISTRATION,
    ]
    pr_types = [
        0,
        PR_TYPE.WRITE_EXCLUSIVE,
        PR_TYPE.EXCLUSIVE_ACCESS,
        PR_TYPE.WRITE_EXCLUSIVE_REGISTRANTS_ONLY,
        PR_TYPE.EXCLUSIVE_ACCESS_REGISTRANTS_ONLY,
        PR_TYPE.WRITE_EXCLUSIVE_ALL_REGISTRANTS,
        PR_TYPE.EXCLUSIVE_ACCESS_ALL_REGISTRANTS,
        0xF,
    ]
    for it in range(700):
        kw = {}
        if RNG.random() < 0.8:
            kw["reservation_key"] = pick_int(64)
        if RNG.random() < 0.8:
            kw["service_action_reservation_key"] = pick_int(64)
        if RNG.random() < 0.6:
            kw["aptpl"] = flag()
        scope = RNG.choice([PR_SCOPE.LU_SCOPE, 0, 1, 0xF])
        typ = RNG.choice(pr_types)
        mode = RNG.choice(["basic", "basic", "spec", "ram", "ram_tid"])
        if mode in ("ram", "ram_tid"):
            sa = SA.REGISTER_AND_MOVE
            if RNG.random() < 0.6:
                kw["unreg"] = flag()
            if RNG.random() < 0.8:
                kw["relative_target_port_id"] = pick_int(16)
            exp = bytearray(24)
            tid = b""
            if mode == "ram_tid":
                d, tid = random_transport_id()
                kw["transport_id"] = d
            elif RNG.random() < 0.3:
                kw["transport_id"] = RNG.choice([None, {}])
            if RNG.random() < 0.2:
                # a caller supplied length never wins over the real one
                kw["transportid_length"] = 0x01020304
            put(exp, 0, 8, kw.get("reservation_key", 0))
            put(exp, 8, 8, kw.get("service_action_reservation_key", 0))
            put(exp, 17, 1, kw.get("unreg", 0), 1)
            put(exp, 17, 1, kw.get("aptpl", 0), 0)
            put(exp, 18, 2, kw.get("relative_target_port_id", 0))
            put(exp, 20, 4, len(tid))
            exp += tid
        else:
            sa = RNG.choice(basic_sas)
            if RNG.random() < 0.5:
                kw["all_tg_pt"] = flag()
            tids = []
            if mode == "spec":
                kw["spec_i_pt"] = RNG.choice([1, True])
                n = RNG.choice([0, 1, 2, 3, 6])
                pairs = [random_transport_id() for _ in range(n)]
                if n or RNG.random() < 0.5:
                    kw["transport_ids"] = RNG.choice([list, tuple])(p[0] for p in pairs)
                tids = [p[1] for p in pairs]
            elif RNG.random() < 0.3:
                kw["spec_i_pt"] = RNG.choice([0, False])
                if RNG.random() < 0.5:
                    # without SPEC_I_PT no TransportIDs are sent
                    kw["transport_ids"] = [random_transport_id()[0]]
            exp = bytearray(24)
            put(exp, 0, 8, kw.get("reservation_key", 0))
            put(exp, 8, 8, kw.get("service_action_reservation_key", 0))
            put(exp, 20, 1, kw.get("spec_i_pt", 0), 3)
            put(exp, 20, 1, kw.get("all_tg_pt", 0), 2)
            put(exp, 20, 1, kw.get("aptpl", 0), 0)
            if mode == "spec" and sa == SA.REGISTER:
                blob = b"".join(tids)
                exp += be(len(blob), 4) + blob
        if RNG.random() < 0.2:
            kw["not_a_field"] = 5
        items = list(kw.items())
        RNG.shuffle(items)
        kw = dict(items)
        snap = copy.deepcopy(kw)
        variant = it % 3
        if variant == 0:
            cmd = PersistentReserveOut(opcode, sa, scope, typ, **kw)
        elif variant == 1:
            cmd = PersistentReserveOut(
                opcode=opcode, service_action=sa, pr_type=typ, scope=scope, **kw
            )
        else:
            cmd = s.persistentreserveout(sa, scope=scope, pr_type=typ, **kw)
            check(dev.executed[-1] is cmd, "wrapper executed the command")
        eq(bytes(cmd.dataout), bytes(exp), "PR OUT list sa=%d %r" % (sa, kw))
        eq(kw, snap, "kwargs untouched")
        eq(bytes(cmd.cdb), pr_cdb(sa, scope, typ, len(exp)), "PR OUT cdb")
        eq(type(cmd.cdb), bytearray, "cdb type")
        check(isinstance(cmd.dataout, (bytes, bytearray)), "dataout type")
        eq(
            cmd.unmarshall_cdb(cmd.cdb),
            {
                "opcode": 0x5F,
                "service_action": sa,
                "scope": scope,
                "pr_type": typ,
                "parameter_list_length": len(cmd.dataout),
            },
            "cdb decodes",
        )
        eq(
            bytes(PersistentReserveOut.marshall_dataout(opcode, sa, kw)),
            bytes(exp),
            "marshall_dataout classmethod",
        )
        eq(kw, snap, "dict untouched by marshall_dataout")
        # structure
        out = cmd.dataout
        if sa == SA.REGISTER_AND_MOVE:
            eq(int.from_bytes(out[20:24], "big"), len(out) - 24, "TRANSPORTID LENGTH")
        elif len(out) > 24:
            eq(int.from_bytes(out[24:28], "big"), len(out) - 28, "ADDITIONAL LENGTH")
            pos = 28
            count = 0
            while pos < len(out):
                if out[pos] & 0x0F == 5:
                    pos += 4 + int.from_bytes(out[pos + 2 : pos + 4], "big")
                else:
                    pos += 24
                count += 1
            eq(pos, len(out), "TransportIDs tile the additional data")
            eq(count, len(kw.get("transport_ids", ())), "TransportID count")
        else:
            eq(len(out), 24, "basic list is 24 bytes")

    # defaults
    cmd = PersistentReserveOut(opcode, SA.CLEAR)
    eq(bytes(cmd.dataout), bytes(24), "empty basic list")
    eq(bytes(cmd.cdb), pr_cdb(3, 0, 0, 24), "default scope/type")
    cmd = PersistentReserveOut(opcode, SA.REGISTER_AND_MOVE)
    eq(bytes(cmd.dataout), bytes(24), "empty register and move list")
    # errors surface from TransportID composition
    raises(
        ValueError,
        PersistentReserveOut,
        opcode,
        SA.REGISTER_AND_MOVE,
        transport_id={"protocol_id": PROTOCOL_ID.ISCSI, "tpid_format": 1, "iscsi_name": "x"},
    )
    raises(
        KeyError,
        PersistentReserveOut,
        opcode,
        SA.REGISTER,
        spec_i_pt=1,
        transport_ids=[{"n_port_name": bytes(8)}],
    )
    # the full status decoder reads back what PR OUT register-and-move sends
    d, tid = random_transport_id()
    fs = bytearray(8) + bytearray(24) + tid
    fs[4:8] = be(24 + len(tid), 4)
    fs[8 + 20 : 8 + 24] = be(len(tid), 4)
    dec = PersistentReserveInReadFullStatus.unmarshall_datain(fs)
    eq(len(dec["full_status"]), 1, "one full status descriptor")
    eq(dec["full_status"][0]["transport_id"]["protocol_id"], d["protocol_id"], "fs tid")


# ----------------------------------------------------------------------------
# EXTENDED COPY
# ----------------------------------------------------------------------------
BLOCK_TYPES = {4: [0x00, 0x04, 0x05, 0x07, 0x0E], 5: [0x00, 0x05, 0x0E]}
DEVICE_ALIASES = {
    4: {
        0x00: ["Block", "Direct access block device (e.g., magnetic disk)"],
        0x01: ["Stream or Tape", "Sequential access device (e.g., magnetic tape)"],
        0x03: ["Stream", "Processor device"],
        0x04: ["Write-once device (e.g., some optical disks)"],
        0x05: ["CD/DVD device"],
        0x07: ["Optical memory device (e.g., some optical disks)"],
        0x0E: ["Simplified direct access device (e.g., magnetic disk)"],
    },
    5: {
        0x00: ["Block", "Direct access block device (e.g., magnetic disk)"],
        0x01: ["Stream or Tape", "Sequential access device (e.g., magnetic tape)"],
        0x03: ["Stream", "Processor device"],
        0x05: ["CD/DVD device"],
        0x0E: ["Simplified direct access device (e.g., magnetic disk)"],
    },
}
E4_NAMES = {
    4: "Identification descriptor target descriptor",
    5: "Identification Descriptor CSCD descriptor",
}
SEGMENT_ALIASES = {
    0x00: ["block -> stream", "Copy from block device to stream device"],
    0x01: ["stream -> block", "Copy from stream device to block device"],
    0x02: ["block -> block", "Copy from block device to block device"],
    0x0B: [
        "block -> stream&application client",
        "Copy from block device to stream device and hold a copy of processed data for the application client",
    ],
    0x0C: [
        "stream -> block&application client",
        "Copy from stream device to block device and hold a copy of processed data for the application client",
    ],
    0x0D: [
        "block -> block&application client",
        "Copy from block device to block device and hold a copy of processed data for the application client",
    ],
}


def random_designator():
    """returns (designator_type, designator dict, expected bytes)"""
    t = RNG.choice(
        [
            "vendor",
            "t10",
            "eui8",
            "eui12",
            "eui16",
            "naa2",
            "naa3",
            "naa5",
            "naa6",
            "rtp",
            "tpg",
            "lug",
            "md5",
            "name",
            "pci",
        ]
    )
    typ = RNG.choice([bytes, bytearray])
    if t == "vendor":
        raw = rbytes(RNG.choice([0, 1, 4, 11, 20]))
        return DESIGNATOR.VENDOR_SPECIFIC, {"vendor_specific": typ(raw)}, raw
    if t == "t10":
        vid = rbytes(8)
        vs = rbytes(RNG.choice([0, 3, 7, 12]))
        return (
            DESIGNATOR.T10_VENDOR_ID,
            {"t10_vendor_id": typ(vid), "vendor_specific_id": typ(vs)},
            vid + vs,
        )
    if t == "eui8":
        cid, ext = rbits(24), rbytes(5)
        return (
            DESIGNATOR.EUI_64,
            {"ieee_company_id": cid, "vendor_specific_extension_id": bytearray(ext)},
            be(cid, 3) + ext,
        )
    if t == "eui12":
        cid, ext, did = rbits(24), rbytes(5), rbytes(4)
        return (
            DESIGNATOR.EUI_64,
            {
                "ieee_company_id": cid,
                "vendor_specific_extension_id": bytearray(ext),
                "directory_id": bytearray(did),
            },
            be(cid, 3) + ext + did,
        )
    if t == "eui16":
        cid, ext, ide = rbits(24), rbytes(5), rbytes(8)
        return (
            DESIGNATOR.EUI_64,
            {
                "identifier_extension": bytearray(ide),
                "ieee_company_id": cid,
                "vendor_specific_extension_id": bytearray(ext),
            },
            ide + be(cid, 3) + ext,
        )
    if t == "naa2":
        a, cid, b = rbits(12), rbits(24), rbits(24)
        return (
            DESIGNATOR.NAA,
            {
                "naa": NAA.IEEE_EXTENDED,
                "vendor_specific_identifier_a": a,
                "ieee_company_id": cid,
                "vendor_specific_identifier_b": b,
            },
            be((2 << 60) | (a << 48) | (cid << 24) | b, 8),
        )
    if t == "naa3":
        v = rbits(60)
        return (
            DESIGNATOR.NAA,
            {"naa": NAA.LOCALLY_ASSIGNED, "locally_administered_value": v},
            be((3 << 60) | v, 8),
        )
    if t == "naa5":
        cid, vsi = rbits(24), rbits(36)
        return (
            DESIGNATOR.NAA,
            {
                "naa": NAA.IEEE_REGISTERED,
                "ieee_company_id": cid,
                "vendor_specific_identifier": vsi,
            },
            be((5 << 60) | (cid << 36) | vsi, 8),
        )
    if t == "naa6":
        cid, vsi, ext = rbits(24), rbits(36), rbits(64)
        return (
            DESIGNATOR.NAA,
            {
                "naa": NAA.IEEE_REGISTERED_EXTENDED,
                "ieee_company_id": cid,
                "vendor_specific_identifier": vsi,
                "vendor_specific_identifier_extension": ext,
            },
            be((6 << 60) | (cid << 36) | vsi, 8) + be(ext, 8),
        )
    if t == "rtp":
        v = rbits(16)
        return (
            DESIGNATOR.RELATIVE_TARGET_PORT_IDENTIFIER,
            {"relative_port": v},
            be(v, 4),
        )
    if t == "tpg":
        v = rbits(16)
        return DESIGNATOR.TARGET_PORTAL_GROUP, {"target_portal_group": v}, be(v, 4)
    if t == "lug":
        v = rbits(16)
        return DESIGNATOR.LOGICAL_UNIT_GROUP, {"logical_unit_group": v}, be(v, 4)
    if t == "md5":
        raw = rbytes(16)
        return (
            DESIGNATOR.MD5_LOGICAL_IDENTIFIER,
            {"md5_logical_identifier": typ(raw)},
            raw,
        )
    if t == "name":
        raw = ("naa." + "%016x" % rbits(64)).encode("ascii")
        return DESIGNATOR.SCSI_NAME_STRING, {"scsi_name_string": typ(raw)}, raw
    v = rbits(16)
    return DESIGNATOR.PCI_EXPRESS_ROUTING_ID, {"pci_express_routing_id": v}, be(v, 2) + bytes(6)


def random_target(ver):
    """returns (descriptor dict, expected 32 bytes)"""
    params_key = "target_descriptor_parameters" if ver == 4 else "cscd_descriptor_parameters"
    aliases = DEVICE_ALIASES[ver]
    pdt = RNG.choice(list(aliases))
    pdt_given = RNG.choice([pdt, pdt] + aliases[pdt])
    if pdt_given == "Block":
        pdt = 0
    code_given = RNG.choice([0xE4, E4_NAMES[ver]])
    dtype, desig, raw = random_designator()
    tdp = {"designator_type": dtype, "designator": desig}
    code_set = 0
    assoc = 0
    if RNG.random() < 0.7:
        code_set = RNG.choice([CODE_SET.BINARY, CODE_SET.ASCII, CODE_SET.UTF8])
        tdp["code_set"] = code_set
    if RNG.random() < 0.7:
        assoc = RNG.choice(
            [
                ASSOCIATION.ASSOCIATED_WITH_LUN,
                ASSOCIATION.ASSOCIATED_WITH_TARGET_PORT,
                ASSOCIATION.ASSOCIATED_WITH_TARGET_DEVICE,
            ]
        )
        tdp["association"] = assoc
    if RNG.random() < 0.4:
        # a caller supplied length never wins over the real one
        tdp["designator_length"] = RNG.choice([len(raw), 0, 0xFF, 3])
    d = {"descriptor_type_code": code_given, "peripheral_device_type": pdt_given}
    d[params_key] = tdp
    rel = 0
    if RNG.random() < 0.6:
        rel = pick_int(16)
        d["relative_initiator_port_identifier"] = rel
    if RNG.random() < 0.3:
        d["lu_id_type"] = 0
    exp = bytearray(32)
    exp[0] = 0xE4
    exp[1] = pdt
    exp[2:4] = be(rel, 2)
    exp[4] = code_set
    exp[5] = (assoc << 4) | dtype
    exp[7] = len(raw)
    exp[8 : 8 + len(raw)] = raw
    check(len(raw) <= 20, "demo designators fit")
    if RNG.random() < 0.8:
        dsp = {}
        if RNG.random() < 0.7:
            dsp["pad"] = flag()
        if pdt in BLOCK_TYPES[ver]:
            if RNG.random() < 0.7:
                dsp["disk_block_length"] = RNG.choice([0, 512, 4096, 0xFFFFFF, rbits(24)])
            put(exp, 28, 1, dsp.get("pad", 0), 2)
            put(exp, 29, 3, dsp.get("disk_block_length", 0))
        elif pdt == 1:
            if RNG.random() < 0.7:
                dsp["fixed"] = flag()
            if RNG.random() < 0.7:
                dsp["stream_block_length"] = RNG.choice([0, 1024, 0xFFFFFF, rbits(24)])
            put(exp, 28, 1, dsp.get("pad", 0), 2)
            put(exp, 28, 1, dsp.get("fixed", 0), 0)
            put(exp, 29, 3, dsp.get("stream_block_length", 0))
        else:
            put(exp, 28, 1, dsp.get("pad", 0), 2)
        d["device_type_specific_parameters"] = dsp
    items = list(d.items())
    RNG.shuffle(items)
    return dict(items), bytes(exp)


def random_segment(ver):
    """returns (descriptor dict, expected bytes, resolved code)"""
    src = "source_target_descriptor_id" if ver == 4 else "source_cscd_descriptor_id"
    dst = "destination_target_descriptor_id" if ver == 4 else "destination_cscd_descriptor_id"
    code = RNG.choice(list(SEGMENT_ALIASES))
    given = RNG.choice([code, code] + SEGMENT_ALIASES[code])
    d = {"descriptor_type_code": given}
    b2b = code in (0x02, 0x0D)
    exp = bytearray(28 if b2b else 24)
    exp[0] = code
    exp[2:4] = be(len(exp) - 4, 2)

    def maybe(name, bits, off, n, shift=0):
        if RNG.random() < 0.7:
            v = flag() if bits == 1 else pick_int(bits)
            d[name] = v
            put(exp, off, n, v, shift)

    maybe("cat", 1, 1, 1, 0)
    maybe(src, 16, 4, 2)
    maybe(dst, 16, 6, 2)
    if b2b:
        maybe("dc", 1, 1, 1, 1)
        if ver == 5:
            maybe("fco", 1, 1, 1, 2)
        maybe("block_device_number_of_blocks", 16, 10, 2)
        maybe("source_block_device_logical_block_address", 64, 12, 8)
        maybe("destination_block_device_logical_block_address", 64, 20, 8)
    else:
        maybe("stream_device_transfer_length", 24, 9, 3)
        maybe("block_device_number_of_blocks", 16, 14, 2)
        maybe("block_device_logical_block_address", 64, 16, 8)
    if RNG.random() < 0.2:
        # a caller supplied length never wins over the real one
        d["descriptor_length"] = RNG.choice([0, 1, 0xFFFF])
    items = list(d.items())
    RNG.shuffle(items)
    return dict(items), bytes(exp), code


def xcopy_header(ver, kw, tlen, slen, ilen):
    if ver == 4:
        h = bytearray(16)
        h[0] = kw.get("list_identifier", 0)
        put(h, 1, 1, kw.get("sequential_striped", 0), 5)
        put(h, 1, 1, kw.get("nrcr", 0), 4)
        put(h, 1, 1, kw.get("priority", 0), 0)
        h[2:4] = be(tlen, 2)
        h[8:12] = be(slen, 4)
        h[12:16] = be(ilen, 4)
    else:
        h = bytearray(48)
        h[0] = 1
        put(h, 1, 1, kw.get("sequential_striped", 0), 5)
        put(h, 1, 1, kw.get("list_id_usage", 0), 3)
        put(h, 1, 1, kw.get("priority", 0), 0)
        h[2:4] = be(0x20, 2)
        put(h, 15, 1, kw.get("g_sense", 0), 1)
        put(h, 15, 1, kw.get("immed", 0), 0)
        h[16] = 0xFF
        h[20:24] = be(kw.get("list_identifier", 0), 4)
        h[42:44] = be(tlen, 2)
        h[44:46] = be(slen, 2)
        h[46:48] = be(ilen, 2)
    return bytes(h)


def xcopy_cdb(ver, length):
    cdb = bytearray(16)
    cdb[0] = 0x83
    cdb[1] = 0 if ver == 4 else 1
    cdb[10:14] = be(length, 4)
    return bytes(cdb)


XC4_ORDER = [
    "list_identifier",
    "sequential_striped",
    "nrcr",
    "priority",
    "target_descriptor_list",
    "segment_descriptor_list",
    "inline_data",
]
XC5_ORDER = [
    "sequential_striped",
    "list_id_usage",
    "priority",
    "g_sense",
    "immed",
    "list_identifier",
    "cscd_descriptor_list",
    "segment_descriptor_list",
    "inline_data",
]
XC_DEFAULTS = {
    "list_identifier": 0,
    "sequential_striped": 0,
    "nrcr": 0,
    "priority": 0,
    "list_id_usage": 0,
    "g_sense": 0,
    "immed": 0,
}


def check_xcopy(ver):
    cls = ExtendedCopy4 if ver == 4 else ExtendedCopy5
    order = XC4_ORDER if ver == 4 else XC5_ORDER
    tkey = "target_descriptor_list" if ver == 4 else "cscd_descriptor_list"
    marshall_target = cls.marshall_target if ver == 4 else cls.marshall_cscd
    opcode = spc.EXTENDED_COPY
    dev = MockDevice(spc)
    s = MockSCSI(dev)
    wrapper = s.extendedcopy4 if ver == 4 else s.extendedcopy5
    for it in range(500):
        kw = {}
        if RNG.random() < 0.7:
            kw["list_identifier"] = pick_int(8 if ver == 4 else 32)
        if RNG.random() < 0.5:
            kw["sequential_striped"] = flag()
        if RNG.random() < 0.6:
            kw["priority"] = pick_int(3)
        if ver == 4:
            if RNG.random() < 0.5:
                kw["nrcr"] = flag()
        else:
            if RNG.random() < 0.5:
                kw["list_id_usage"] = pick_int(2)
            if RNG.random() < 0.5:
                kw["g_sense"] = flag()
            if RNG.random() < 0.5:
                kw["immed"] = flag()
        targets = [random_target(ver) for _ in range(RNG.choice([0, 0, 1, 2, 3, 7]))]
        segments = [random_segment(ver) for _ in range(RNG.choice([0, 0, 1, 2, 5]))]
        inline = rbytes(RNG.choice([0, 0, 1, 4, 33, 300]))
        if targets or RNG.random() < 0.3:
            kw[tkey] = RNG.choice([list, tuple])(t[0] for t in targets)
        if segments or RNG.random() < 0.3:
            kw["segment_descriptor_list"] = RNG.choice([list, tuple])(
                x[0] for x in segments
            )
        if inline or RNG.random() < 0.3:
            kw["inline_data"] = RNG.choice([bytes, bytearray])(inline)
        tblob = b"".join(t[1] for t in targets)
        sblob = b"".join(x[1] for x in segments)
        want = xcopy_header(ver, kw, len(tblob), len(sblob), len(inline)) + tblob + sblob + inline
        tsnap = copy.deepcopy([t[0] for t in targets])
        ssnap = copy.deepcopy([x[0] for x in segments])

        variant = it % 3
        if variant == 0:
            cmd = cls(opcode, **kw)
        elif variant == 1:
            # positional: fill the gaps with the documented defaults
            last = max([order.index(k) for k in kw] + [-1])
            args = []
            for name in order[: last + 1]:
                if name in kw:
                    args.append(kw[name])
                elif name in XC_DEFAULTS:
                    args.append(XC_DEFAULTS[name])
                elif name == "inline_data":
                    args.append(bytearray(0))
                else:
                    args.append([])
            cmd = cls(opcode, *args)
        else:
            cmd = wrapper(**kw)
            check(dev.executed[-1] is cmd, "wrapper executed the command")
        eq(bytes(cmd.dataout), want, "EXTENDED COPY(LID%d) list %r" % (1 if ver == 4 else 4, kw))
        eq(bytes(cmd.cdb), xcopy_cdb(ver, len(want)), "EXTENDED COPY cdb")
        eq(type(cmd.cdb), bytearray, "cdb type")
        check(isinstance(cmd.dataout, (bytes, bytearray)), "dataout type")
        eq(len(cmd.datain), 0, "no data-in")
        dec = cmd.unmarshall_cdb(cmd.cdb)
        eq(dec["parameter_list_length"], len(cmd.dataout), "cdb parameter list length")
        eq(dec["service_action"], 0 if ver == 4 else 1, "service action")

        # structural walk
        out = cmd.dataout
        if ver == 4:
            hl = 16
            tl = int.from_bytes(out[2:4], "big")
            sl = int.from_bytes(out[8:12], "big")
            il = int.from_bytes(out[12:16], "big")
        else:
            hl = 48
            eq(int.from_bytes(out[2:4], "big"), 0x20, "header CSCD descriptor list length")
            tl = int.from_bytes(out[42:44], "big")
            sl = int.from_bytes(out[44:46], "big")
            il = int.from_bytes(out[46:48], "big")
        eq(hl + tl + sl + il, len(out), "list lengths add up to the parameter list")
        eq(tl, 32 * len(targets), "target descriptor list length")
        pos = hl
        for _ in targets:
            eq(out[pos], 0xE4, "descriptor type code at the start of each target")
            check(out[pos + 7] <= 24, "designator length")
            pos += 32
        n = 0
        while pos < hl + tl + sl:
            pos += 4 + int.from_bytes(out[pos + 2 : pos + 4], "big")
            n += 1
        eq(pos, hl + tl + sl, "segment descriptors tile their list")
        eq(n, len(segments), "segment count")
        eq(bytes(out[pos:]), inline, "inline data comes last")

        # target dictionaries are left alone, segment dictionaries get their
        # type code resolved and their length filled in
        eq([t[0] for t in targets], tsnap, "target dicts untouched")
        for (sd, sexp, code), before in zip(segments, ssnap):
            after = dict(before)
            after["descriptor_type_code"] = code
            after["descriptor_length"] = len(sexp) - 4
            eq(sd, after, "segment dict after marshalling")

        # the building blocks give the same answers on their own
        for td, texp in targets:
            eq(bytes(marshall_target(td)), texp, "marshall target %r" % (td,))
        for sd, sexp, code in segments:
            eq(bytes(cls.marshall_segment(dict(sd))), sexp, "marshall_segment")
        kw2 = dict(XC_DEFAULTS)
        kw2.update({tkey: [], "segment_descriptor_list": [], "inline_data": bytearray(0)})
        kw2.update(kw)
        eq(
            bytes(cls.marshall_parameter_list(*[kw2[k] for k in order])),
            want,
            "marshall_parameter_list",
        )

    # defaults are not shared state that gets modified
    a = cls(opcode)
    b = cls(opcode)
    eq(bytes(a.dataout), xcopy_header(ver, {}, 0, 0, 0), "default parameter list")
    eq(bytes(b.dataout), bytes(a.dataout), "second default command is the same")

    # designation descriptor helper
    for _ in range(100):
        dtype, desig, raw = random_designator()
        data = {"designator_type": dtype, "designator": desig, "code_set": 2, "association": 1}
        got = cls.marshall_designator_descriptor(data)
        eq(bytes(got), bytes([2, 0x10 | dtype, 0, len(raw)]) + raw, "designator descriptor")
        eq(bytes(Inquiry.marshall_designator(dtype, desig)), raw, "Inquiry designator")
        full = dict(data, piv=1, protocol_identifier=6)
        got = Inquiry.marshall_designation_descriptor(full)
        eq(
            bytes(got),
            bytes([0x62, 0x90 | dtype, 0, len(raw)]) + raw,
            "Inquiry designation descriptor",
        )

    # get_code_int
    table = {1: {"name": "one", "description": "first"}, 2: {"name": "two"}}
    eq(cls.get_code_int("k", {"k": 1}, table), 1, "get_code_int key")
    eq(cls.get_code_int("k", {"k": "two"}, table), 2, "get_code_int name")
    eq(cls.get_code_int("k", {"k": "first"}, table), 1, "get_code_int description")
    raises(ValueError, cls.get_code_int, "k", {"k": "three"}, table)
    raises(ValueError, cls.get_code_int, "k", {}, table)
    raises(ValueError, cls.get_code_int, "k", {"k": None}, table)

    # encode_segment_dict
    d = {"a": 0x1234, "descriptor_length": 99}
    got = cls.encode_segment_dict(
        d, {"a": [0xFFFF, 4], "descriptor_length": [0xFFFF, 2]}, 8
    )
    eq(bytes(got), bytes.fromhex("0000000412340000"), "encode_segment_dict")
    eq(d, {"a": 0x1234, "descriptor_length": 4}, "encode_segment_dict fills the length")
    raises(ValueError, cls.encode_segment_dict, {"zz": 1}, {"a": [0xFF, 0]}, 8)

    # errors
    good_t, _ = random_target(ver)
    good_s, _, _ = random_segment(ver)
    bad = dict(good_t, bogus=1)
    e = raises(ValueError, marshall_target, bad)
    check(str(e).startswith("Invalid key supplied: "), "invalid key message")
    raises(ValueError, cls, opcode, **{tkey: [bad]})
    e = raises(ValueError, marshall_target, dict(good_t, lu_id_type=1))
    eq(str(e), "Invalid lu_id_type provided: 1", "lu_id_type message")
    bad = dict(good_t)
    del bad["descriptor_type_code"]
    e = raises(ValueError, marshall_target, bad)
    eq(str(e), "Invalid descriptor_type_code provided: None", "missing code message")
    e = raises(ValueError, marshall_target, dict(good_t, descriptor_type_code=0x42))
    eq(str(e), "Invalid descriptor_type_code provided: 66", "bad code message")
    e = raises(ValueError, marshall_target, dict(good_t, peripheral_device_type=0x1F))
    eq(str(e), "Invalid peripheral_device_type provided: 31", "bad device type message")
    for code in (0xE0, 0xE1, 0xE2, 0xE5, 0xE6, 0xE7, 0xE8, 0xE9, 0xEA):
        e = raises(NotImplementedError, marshall_target, dict(good_t, descriptor_type_code=code))
        check(
            str(e).startswith("CSCD descriptor parameter not yet implemented for " + hex(code)),
            "not implemented message",
        )
    if ver == 4:
        raises(ValueError, marshall_target, dict(good_t, descriptor_type_code=0xEB))
        raises(ValueError, cls.marshall_target_descriptor_parameters, 0x01, bytearray(32), {})
        raises(ValueError, cls.marshall_target_descriptor_parameters, 0xE3, bytearray(32), {})
        raises(ValueError, marshall_target, dict(good_t, descriptor_type_code=0xE3))
        raises(KeyError, cls.marshall_target_descriptor_parameters, 0xEB, bytearray(32), {})
        buf = bytearray(32)
        eq(
            cls.marshall_target_descriptor_parameters(
                0xE4, buf, {"designator_type": 0, "designator": {"vendor_specific": b"\x01\x02"}}
            ),
            None,
            "parameters are written in place",
        )
        eq(bytes(buf[:10]), bytes.fromhex("00000000000000020102"), "in place designator")
    else:
        raises(NotImplementedError, marshall_target, dict(good_t, descriptor_type_code=0xEB))
        raises(NotImplementedError, marshall_target, dict(good_t, descriptor_type_code=0xFE))
        raises(ValueError, marshall_target, dict(good_t, descriptor_type_code=0xE3))
        raises(ValueError, cls.marshall_cscd_descriptor_parameters, 0x01, bytearray(32), {})
        raises(ValueError, cls.marshall_cscd_descriptor_parameters, 0xE3, bytearray(32), {})
        buf = bytearray(32)
        eq(
            cls.marshall_cscd_descriptor_parameters(
                0xE4, buf, {"designator_type": 0, "designator": {"vendor_specific": b"\x01\x02"}}
            ),
            None,
            "parameters are written in place",
        )
        eq(bytes(buf[:10]), bytes.fromhex("00000000000000020102"), "in place designator")
    pk = "target_descriptor_parameters" if ver == 4 else "cscd_descriptor_parameters"
    bad = dict(good_t)
    del bad[pk]
    raises(KeyError, marshall_target, bad)
    raises(ValueError, cls.marshall_segment, dict(good_s, bogus=1))
    raises(ValueError, cls, opcode, segment_descriptor_list=[dict(good_s, bogus=1)])
    raises(ValueError, cls.marshall_segment, {"cat": 1})
    raises(ValueError, cls.marshall_segment, {"descriptor_type_code": 0x99})
    for code in (0x03, 0x04, 0x0A, 0x0E, 0x15, "filemark -> tape", "Tape device image copy"):
        e = raises(NotImplementedError, cls.marshall_segment, {"descriptor_type_code": code})
        check(
            str(e).startswith("segment descriptor parameter not yet implemented for 0x"),
            "segment not implemented message",
        )
    if ver == 4:
        raises(ValueError, cls.marshall_segment, {"descriptor_type_code": 2, "fco": 1})
        raises(
            ValueError,
            cls.marshall_segment,
            {"descriptor_type_code": 2, "source_cscd_descriptor_id": 1},
        )
    else:
        raises(
            ValueError,
            cls.marshall_segment,
            {"descriptor_type_code": 2, "source_target_descriptor_id": 1},
        )
    raises(ValueError, cls.marshall_segment, {"descriptor_type_code": 0, "dc": 1})


def check_xcopy_examples():
    # the example from the SPC-4 class' docstring
    tds = [
        {
            "descriptor_type_code": "Identification descriptor target descriptor",
            "device_type_specific_parameters": {"disk_block_length": 512},
            "peripheral_device_type": 0,
            "target_descriptor_parameters": {
                "association": 0,
                "code_set": 1,
                "designator": {
                    "ieee_company_id": 5807356,
                    "naa": 6,
                    "vendor_specific_identifier": 3140,
                    "vendor_specific_identifier_extension": 14160104652988484981,
                },
                "designator_length": 16,
                "designator_type": 3,
            },
        },
        {
            "descriptor_type_code": "Identification descriptor target descriptor",
            "device_type_specific_parameters": {"disk_block_length": 512},
            "peripheral_device_type": 0,
            "target_descriptor_parameters": {
                "association": 0,
                "code_set": 1,
                "designator": {
                    "ieee_company_id": 5807356,
                    "naa": 6,
                    "vendor_specific_identifier": 3809,
                    "vendor_specific_identifier_extension": 17655255278882869693,
                },
                "designator_length": 16,
                "designator_type": 3,
            },
        },
    ]
    seg = [
        {
            "block_device_number_of_blocks": 4,
            "dc": 1,
            "descriptor_type_code": "Copy from block device to block device",
            "destination_block_device_logical_block_address": 10,
            "destination_target_descriptor_id": 1,
            "source_block_device_logical_block_address": 1,
            "source_target_descriptor_id": 0,
        }
    ]
    s = MockSCSI(MockDevice(sbc))
    r = s.extendedcopy4(
        priority=1, list_identifier=0x34, target_descriptor_list=tds, segment_descriptor_list=seg
    )
    want = (
        "34010040" + "00000000" + "0000001c" + "00000000"
        + "e4000000" + "01030010" + "6589cfc000000c44c482cc288fbc0d75" + "00000000" + "00000200"
        + "e4000000" + "01030010" + "6589cfc000000ee1" + be(17655255278882869693, 8).hex() + "00000000" + "00000200"
        + "02020018" + "00000001" + "00000004" + "0000000000000001" + "000000000000000a"
    )
    eq(r.dataout.hex(), want, "SPC-4 docstring example")
    eq(r.cdb.hex(), "8300" + "00" * 8 + "0000006c" + "0000", "SPC-4 docstring example cdb")

    cscds = copy.deepcopy(tds)
    for c in cscds:
        c["descriptor_type_code"] = 0xE4
        c["cscd_descriptor_parameters"] = c.pop("target_descriptor_parameters")
    seg5 = [
        {
            "block_device_number_of_blocks": 4,
            "dc": 1,
            "fco": 1,
            "cat": 1,
            "descriptor_type_code": 0x0D,
            "destination_block_device_logical_block_address": 10,
            "destination_cscd_descriptor_id": 1,
            "source_block_device_logical_block_address": 1,
            "source_cscd_descriptor_id": 0,
        }
    ]
    s = MockSCSI(MockDevice(ssc))
    r = s.extendedcopy5(
        priority=1,
        list_identifier=0x01020304,
        list_id_usage=2,
        immed=1,
        cscd_descriptor_list=cscds,
        segment_descriptor_list=seg5,
        inline_data=b"\xaa\xbb",
    )
    want5 = (
        "01110020" + "00" * 11 + "01" + "ff000000" + "01020304" + "00" * 18 + "0040" + "001c" + "0002"
        + "e4000000" + "01030010" + "6589cfc000000c44c482cc288fbc0d75" + "00000000" + "00000200"
        + "e4000000" + "01030010" + "6589cfc000000ee1" + be(17655255278882869693, 8).hex() + "00000000" + "00000200"
        + "0d070018" + "00000001" + "00000004" + "0000000000000001" + "000000000000000a"
        + "aabb"
    )
    eq(r.dataout.hex(), want5, "SPC-5 example")
    eq(r.cdb.hex(), "8301" + "00" * 8 + "0000008e" + "0000", "SPC-5 example cdb")


# ----------------------------------------------------------------------------
# API surface
# ----------------------------------------------------------------------------
def sig(f):
    return str(inspect.signature(f))


def check_api():
    import pyscsi.pyscsi.scsi_cdb_persistentreservein as pri
    import pyscsi.pyscsi.scsi_cdb_persistentreserveout as pro

    eq(pro.__all__, ["PersistentReserveOut"], "persistentreserveout.__all__")
    eq(
        pri.__all__,
        [
            "PersistentReserveIn",
            "PersistentReserveInReadKeys",
            "PersistentReserveInReadReservation",
            "PersistentReserveInReportCapabilities",
            "PersistentReserveInReadFullStatus",
        ],
        "persistentreservein.__all__",
    )
    for cls in (
        ModeSense6,
        ModeSelect6,
        ModeSense10,
        ModeSelect10,
        PersistentReserveOut,
        PersistentReserveIn,
        PersistentReserveInReadKeys,
        PersistentReserveInReadReservation,
        PersistentReserveInReportCapabilities,
        PersistentReserveInReadFullStatus,
        ExtendedCopy4,
        ExtendedCopy5,
        Inquiry,
    ):
        check(issubclass(cls, SCSICommand), "%s is a SCSICommand" % cls.__name__)
    for cls in (
        PersistentReserveInReadKeys,
        PersistentReserveInReadReservation,
        PersistentReserveInReportCapabilities,
        PersistentReserveInReadFullStatus,
    ):
        check(issubclass(cls, PersistentReserveIn), "PR IN hierarchy")
    eq(ExtendedCopy4.__name__, "ExtendedCopy", "class name")
    eq(ExtendedCopy5.__name__, "ExtendedCopy", "class name")
    eq(ExtendedCopy4.__module__, "pyscsi.pyscsi.scsi_cdb_extended_copy_spc4", "module")
    eq(ExtendedCopy5.__module__, "pyscsi.pyscsi.scsi_cdb_extended_copy_spc5", "module")
    check(ExtendedCopy4 is not ExtendedCopy5, "two ExtendedCopy classes")
    eq(repr(ExtendedCopy4(spc.EXTENDED_COPY)), "ExtendedCopy", "repr")
    eq(repr(ModeSelect6(spc.MODE_SELECT_6, {"mode_pages": []})), "ModeSelect6", "repr")

    eq(sig(ModeSelect6.__init__), "(self, opcode, data, pf=1, sp=0)", "ModeSelect6 signature")
    eq(sig(ModeSelect10.__init__), "(self, opcode, data, pf=1, sp=0)", "ModeSelect10 signature")
    eq(sig(ModeSelect6.marshall_dataout), "(data)", "ModeSelect6.marshall_dataout")
    eq(sig(ModeSelect10.marshall_dataout), "(data)", "ModeSelect10.marshall_dataout")
    eq(sig(ModeSelect6.unmarshall_datain), "(data)", "ModeSelect6.unmarshall_datain")
    eq(sig(ModeSense6.marshall_datain), "(data)", "ModeSense6.marshall_datain")
    eq(sig(ModeSense10.marshall_datain), "(data)", "ModeSense10.marshall_datain")
    eq(sig(ModeSense6.unmarshall_datain), "(data)", "ModeSense6.unmarshall_datain")
    eq(
        sig(ModeSense6.__init__),
        "(self, opcode, page_code, sub_page_code=0, dbd=0, pc=0, alloclen=96)",
        "ModeSense6 signature",
    )
    eq(
        sig(ModeSense10.__init__),
        "(self, opcode, page_code, sub_page_code=0, llbaa=0, dbd=0, pc=0, alloclen=96)",
        "ModeSense10 signature",
    )
    eq(
        sig(PersistentReserveOut.__init__),
        "(self, opcode, service_action, scope=0, pr_type=0, **kwargs)",
        "PersistentReserveOut signature",
    )
    eq(
        sig(PersistentReserveOut.marshall_dataout),
        "(opcode, service_action, data)",
        "PersistentReserveOut.marshall_dataout",
    )
    eq(
        sig(PersistentReserveInReadFullStatus.marshall_transport_id),
        "(data)",
        "marshall_transport_id",
    )
    eq(
        sig(PersistentReserveInReadFullStatus.unmarshall_transport_id),
        "(data)",
        "unmarshall_transport_id",
    )
    eq(
        sig(ExtendedCopy4.__init__),
        "(self, opcode, list_identifier=0, sequential_striped=0, nrcr=0, priority=0, "
        "target_descriptor_list=[], segment_descriptor_list=[], inline_data=bytearray(b''))",
        "ExtendedCopy4 signature",
    )
    eq(
        sig(ExtendedCopy5.__init__),
        "(self, opcode, sequential_striped=0, list_id_usage=0, priority=0, g_sense=0, immed=0, "
        "list_identifier=0, cscd_descriptor_list=[], segment_descriptor_list=[], "
        "inline_data=bytearray(b''))",
        "ExtendedCopy5 signature",
    )
    eq(
        sig(ExtendedCopy4.marshall_parameter_list),
        "(list_identifier, sequential_striped, nrcr, priority, target_descriptor_list, "
        "segment_descriptor_list, inline_data)",
        "ExtendedCopy4.marshall_parameter_list",
    )
    eq(
        sig(ExtendedCopy5.marshall_parameter_list),
        "(sequential_striped, list_id_usage, priority, g_sense, immed, list_identifier, "
        "cscd_descriptor_list, segment_descriptor_list, inline_data)",
        "ExtendedCopy5.marshall_parameter_list",
    )
    eq(sig(ExtendedCopy4.marshall_target), "(target_dict)", "marshall_target")
    eq(sig(ExtendedCopy5.marshall_cscd), "(cscd_dict)", "marshall_cscd")
    eq(
        sig(ExtendedCopy4.marshall_target_descriptor_parameters),
        "(descriptor_type_code, data, target_descriptor_parameters)",
        "marshall_target_descriptor_parameters",
    )
    eq(
        sig(ExtendedCopy5.marshall_cscd_descriptor_parameters),
        "(descriptor_type_code, data, cscd_descriptor_parameters)",
        "marshall_cscd_descriptor_parameters",
    )
    for cls in (ExtendedCopy4, ExtendedCopy5):
        eq(sig(cls.marshall_segment), "(segment_dict)", "marshall_segment")
        eq(sig(cls.marshall_designator_descriptor), "(data)", "marshall_designator_descriptor")
        eq(sig(cls.encode_segment_dict), "(data_dict, check_dict, numbytes)", "encode_segment_dict")
        eq(sig(cls.get_code_int), "(key, datadict, table)", "get_code_int")
    eq(sig(Inquiry.marshall_designator), "(_type, data)", "Inquiry.marshall_designator")
    eq(
        sig(Inquiry.marshall_designation_descriptor),
        "(data)",
        "Inquiry.marshall_designation_descriptor",
    )
    eq(
        sig(Inquiry.__init__),
        "(self, opcode, evpd=0, page_code=0, alloclen=96)",
        "Inquiry signature",
    )
    # the enumerations remain reachable through the command classes
    for cls in (ModeSense6, ModeSelect6, ModeSense10, ModeSelect10):
        eq(cls.PAGE_CODE.CONTROL, 0x0A, "PAGE_CODE via class")
        eq(cls.PC.SAVED, 3, "PC via class")
    check(ModeSense6.MODESENSE6 is MS_ENUM.MODESENSE6, "MODESENSE6 via class")
    check(ModeSense10.MODESENSE10 is MS_ENUM.MODESENSE10, "MODESENSE10 via class")
    eq(Inquiry.DESIGNATOR.NAA, 3, "DESIGNATOR via class")


def check_interleaving():
    """commands of different kinds built back to back do not disturb each other"""
    s = MockSCSI(MockDevice(spc))
    a = s.extendedcopy5(inline_data=b"abc")
    b = s.persistentreserveout(0x07, reservation_key=1)
    c = s.modeselect6({"mode_pages": []})
    d = s.extendedcopy4(inline_data=b"abcd")
    e = s.modeselect10({"mode_pages": []})
    eq(a.cdb.hex(), "8301" + "00" * 8 + "00000033" + "0000", "xcopy5 cdb")
    eq(b.cdb.hex(), "5f07000000" + "00000018" + "00", "pr out cdb")
    eq(c.cdb.hex(), "151000000400", "mode select 6 cdb")
    eq(d.cdb.hex(), "8300" + "00" * 8 + "00000014" + "0000", "xcopy4 cdb")
    eq(e.cdb.hex(), "55100000000000000800", "mode select 10 cdb")
    for cmd in (a, b, c, d, e):
        dec = type(cmd).unmarshall_cdb(type(cmd).marshall_cdb({"opcode": 1}))
        check("opcode" in dec, "static cdb helpers usable")


def main():
    check_api()
    check_modeselect()
    check_transport_ids()
    check_pr_out()
    check_xcopy(4)
    check_xcopy(5)
    check_xcopy_examples()
    check_interleaving()
    print("PASS (%d checks)" % CHECKS)
    return 0


if __name__ == "__main__":
    try:
        sys.exit(main())
    except AssertionError as exc:
        print("FAIL: %s" % exc)
        sys.exit(1)
