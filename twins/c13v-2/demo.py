#!/usr/bin/env python
# coding: utf-8
"""
Stand-alone check of property C13 of python-scsi:

    Every facade method (pyscsi.pyscsi.scsi.SCSI.*) builds its command with the
    operation code the attached device's command set assigns to it, hands that
    command (its CDB and the very buffers the caller will later see) to the
    device exactly once, and only afterwards decodes the data-in buffer as the
    device left it into the result.  All documented arguments, including
    optional ones left at their defaults, are accepted and reach the CDB.

Run as

    cd /tmp/seed/C13v && PYTHONPATH=/tmp/seed/C13v /venv/bin/python SEED/demo.py

Exit status 0 and a final line "PASS" mean the property holds.

The script drives the public facade against three kinds of device
  * a plain duck-typed device object,
  * pyscsi.pyscsi.scsi_device.SCSIDevice on top of a fake `sgio` module,
  * pyscsi.pyiscsi.iscsi_device.ISCSIDevice on top of a fake `iscsi` module,
for every peripheral device type that selects a command set, with many
argument combinations per facade method (defaults, every documented option,
over-wide / negative / boolean values), and checks

  1. hard invariants that do not depend on recorded data (one transfer per
     call, identity of cdb / data-out / data-in objects, opcode taken from
     the device's command set, nothing decoded before the transfer, result
     equal to an independent decode of the bytes the device wrote), and
  2. a recorded transcript (GOLDEN below: cdb bytes, data-out bytes, decoded
     result, or the exception raised) taken from the unmodified library.

`SEED/demo.py --dump` prints the transcript instead of comparing it.
"""

import base64
import copy
import hashlib
import sys
import types
import zlib

# --------------------------------------------------------------------------
# fake transport bindings (sgio, iscsi); they only forward to BACKEND
# --------------------------------------------------------------------------


class Backend(object):
    """What is 'behind' every transport: records transfers, plays the device."""

    def __init__(self):
        self.reset(0x00)

    def reset(self, devtype):
        self.devtype = devtype
        self.calls = []
        self.check_condition = None  # sense bytes -> answer CHECK CONDITION
        self.iscsi_status = None  # force an iscsi task status
        self.no_raw_sense = False

    def transfer(self, kind, cdb, dataout, datain, extra=None):
        call = {
            "kind": kind,
            "cdb_obj": cdb,
            "cdb": bytes(cdb),
            "dataout_obj": dataout,
            "dataout": bytes(dataout),
            "datain_obj": datain,
            "datain_before": bytes(datain),
            "extra": extra,
        }
        respond(self.devtype, cdb, datain)
        call["datain_after"] = bytes(datain)
        self.calls.append(call)
        return call


BACKEND = Backend()


def pattern(datain, seed):
    n = len(datain)
    cycle = bytes((i * 7 + seed * 13 + 5) & 0xFF for i in range(256))
    datain[:] = (cycle * (n // 256 + 1))[:n]


def put(datain, data, offset=0):
    """copy as much of data as fits"""
    data = bytes(data)
    room = max(0, len(datain) - offset)
    data = data[:room]
    datain[offset : offset + len(data)] = data


def be(value, size):
    return value.to_bytes(size, "big")


STD_INQUIRY = (
    bytes([0x00, 0x80, 0x06, 0x32, 0x5B, 0xB1, 0x50, 0x32])
    + b"PYSCSI  "
    + b"Virtual Disk    "
    + b"0420"
    + bytes(20)
    + bytes([0x0B])
    + bytes(39)
)


def respond(devtype, cdb, datain):
    """the simulated logical unit: fill the data-in buffer for this cdb"""
    if not len(datain):
        return
    op = cdb[0]
    sa = cdb[1] & 0x1F
    if op == 0x12:
        if cdb[1] & 0x01:
            page = cdb[2]
            if page == 0x00:
                body = bytes([0x00, 0x80, 0x83, 0xB0, 0xB1, 0xB2])
                put(datain, bytes([devtype, page]) + be(len(body), 2) + body)
            elif page == 0x80:
                body = b"SN-0123456789   "
                put(datain, bytes([devtype, page]) + be(len(body), 2) + body)
            elif page == 0xB0:
                body = bytearray(60)
                body[0] = 0x01
                body[1] = 0x20
                body[2:4] = be(8, 2)
                body[4:8] = be(0x00400000, 4)
                body[8:12] = be(0x00010000, 4)
                body[12:16] = be(0x100, 4)
                body[16:20] = be(0xFFFF, 4)
                body[20:24] = be(0x10, 4)
                body[24:28] = be(0x8, 4)
                body[28:32] = be(0x80000004, 4)
                body[32:40] = be(0x123456789A, 8)
                put(datain, bytes([devtype, page]) + be(len(body), 2) + body)
            elif page == 0xB1:
                body = bytearray(60)
                body[0:2] = be(7200, 2)
                body[2] = 0x01
                body[3] = 0x52
                body[4] = 0x03
                put(datain, bytes([devtype, page]) + be(len(body), 2) + body)
            elif page == 0xB2:
                body = bytearray(4)
                body[0] = 0x02
                body[1] = 0xE4
                body[2] = 0x02
                put(datain, bytes([devtype, page]) + be(len(body), 2) + body)
            elif page == 0x83:
                d1 = bytes([0x01, 0x03, 0x00, 0x08]) + be(0x5000C5001234ABCD, 8)
                d2 = bytes([0x02, 0x01, 0x00, 0x0C]) + b"PYSCSI  " + b"abcd"
                body = d1 + d2
                put(datain, bytes([devtype, page]) + be(len(body), 2) + body)
            else:
                pattern(datain, page)
                datain[0] = devtype
        else:
            put(datain, STD_INQUIRY)
            datain[0] = devtype
    elif op == 0x25:
        put(datain, be(0x003FFFFF, 4) + be(512, 4))
    elif op == 0x9E and sa == 0x10:
        put(
            datain,
            be(0x00000001FFFFFFFF, 8)
            + be(4096, 4)
            + bytes([0x05, 0x23, 0xC1, 0x23])
            + bytes(16),
        )
    elif op == 0x9E and sa == 0x12:
        descs = b"".join(
            be(lba, 8) + be(n, 4) + bytes([p, 0, 0, 0])
            for lba, n, p in ((0, 0x800, 0), (0x800, 0x1000, 1), (0x1800, 8, 2))
        )
        put(datain, be(len(descs) + 4, 4) + bytes(4) + descs)
    elif op == 0xA0:
        luns = b"".join(be(n, 2) + bytes(6) for n in (0, 1, 2, 0x17))
        put(datain, be(len(luns), 4) + bytes(4) + luns)
    elif op == 0x1A:
        # mode sense(6): header + element address assignment page (0x1d)
        page = bytes([0x1D, 0x12]) + bytes(range(1, 19))
        put(datain, bytes([3 + len(page), 0x21, 0x90, 0x00]) + page)
    elif op == 0x5A:
        page = bytes([0x1D, 0x12]) + bytes(range(1, 19))
        put(datain, be(6 + len(page), 2) + bytes([0x21, 0x90, 0, 0, 0, 0]) + page)
    elif op == 0x5E:
        if sa == 0x00:
            keys = be(0xDEADBEEF, 8) + be(0xABCDEFAABBCCDDEE, 8)
            put(datain, be(0x11, 4) + be(len(keys), 4) + keys)
        elif sa == 0x01:
            put(
                datain,
                be(0x22, 4)
                + be(16, 4)
                + be(0xABCDEFAABBCCDDEE, 8)
                + bytes(5)
                + bytes([0x05])
                + bytes(2),
            )
        elif sa == 0x02:
            put(datain, be(8, 2) + bytes([0x1D, 0xF1, 0xEA, 0x01, 0, 0]))
        else:
            tid = bytes([0x06, 0, 0, 0]) + be(0x5000C50012345678, 8) + bytes(12)
            fs = (
                be(0xDEADBEEF, 8)
                + bytes(4)
                + bytes([0x03, 0x15])
                + bytes(4)
                + be(7, 2)
                + be(len(tid), 4)
                + tid
            )
            put(datain, be(0x33, 4) + be(len(fs), 4) + fs)
    elif op == 0xB8:
        hdr = bytearray(8)
        hdr[0:2] = be(12, 2)
        hdr[2:4] = be(2, 2)
        page = bytearray(8)
        page[0] = 0x02
        el1 = bytearray(16)
        el1[0:2] = be(12, 2)
        el1[2] = 0x0D
        el1[4] = 55
        el1[5] = 56
        el1[9] = 0xCA
        el1[10:12] = be(27, 2)
        el2 = bytearray(16)
        el2[0:2] = be(13, 2)
        el2[2] = 0x08
        el2[9] = 0x81
        el2[10:12] = be(28, 2)
        page[2:4] = be(16, 2)
        page[5:8] = be(32, 3)
        body = bytes(page + el1 + el2)
        hdr[5:8] = be(len(body), 3)
        put(datain, bytes(hdr) + body)
    elif op == 0x51:
        body = bytearray(32)
        body[0:2] = be(32, 2)
        body[2] = 0x0E
        body[3] = 1
        body[4] = 1
        body[5] = 1
        body[6] = 1
        body[7] = 0x20
        put(datain, body)
    else:
        pattern(datain, op)


def install_fake_bindings():
    sgio = types.ModuleType("sgio")

    class CheckConditionError(Exception):
        def __init__(self, sense):
            Exception.__init__(self, "check condition")
            self.sense = sense

    def sgio_execute(fileobj, cdb, dataout, datain, *args, **kwargs):
        BACKEND.transfer("sgio", cdb, dataout, datain, extra={"file": fileobj})
        if BACKEND.check_condition is not None:
            raise CheckConditionError(BACKEND.check_condition)
        return 0

    sgio.CheckConditionError = CheckConditionError
    sgio.execute = sgio_execute
    sys.modules["sgio"] = sgio

    iscsi = types.ModuleType("iscsi")
    iscsi.SCSI_XFER_NONE = 0
    iscsi.SCSI_XFER_READ = 1
    iscsi.SCSI_XFER_WRITE = 2
    iscsi.ISCSI_SESSION_NORMAL = 2
    iscsi.ISCSI_HEADER_DIGEST_NONE_CRC32C = 1

    class Context(object):
        def __init__(self, name):
            self.name = name
            self.log = []

        def set_targetname(self, name):
            self.log.append(("targetname", name))

        def set_session_type(self, value):
            self.log.append(("session_type", value))

        def set_header_digest(self, value):
            self.log.append(("header_digest", value))

        def connect(self, portal, lun):
            self.log.append(("connect", portal, lun))

        def disconnect(self):
            self.log.append(("disconnect",))

        def command(self, lun, task, dataout, datain):
            BACKEND.transfer(
                "iscsi",
                task.cdb,
                dataout,
                datain,
                extra={"lun": lun, "dir": task.dir, "xferlen": task.xferlen},
            )
            if BACKEND.check_condition is not None:
                task.status = 0x02
                if not BACKEND.no_raw_sense:
                    task.raw_sense = BACKEND.check_condition
            elif BACKEND.iscsi_status is not None:
                task.status = BACKEND.iscsi_status

    class URL(object):
        def __init__(self, ctx, url):
            rest = url[len("iscsi://") :]
            parts = rest.split("/")
            self.portal = parts[0]
            self.target = parts[1] if len(parts) > 1 else ""
            self.lun = int(parts[2]) if len(parts) > 2 else 0

    class Task(object):
        def __init__(self, cdb, dir, xferlen):
            self.cdb = cdb
            self.dir = dir
            self.xferlen = xferlen
            self.status = 0x00

    iscsi.Context = Context
    iscsi.URL = URL
    iscsi.Task = Task
    sys.modules["iscsi"] = iscsi


install_fake_bindings()

from pyscsi.pyiscsi.iscsi_device import ISCSIDevice  # noqa: E402
from pyscsi.pyscsi import scsi_enum_command  # noqa: E402
from pyscsi.pyscsi.scsi import SCSI  # noqa: E402
from pyscsi.pyscsi.scsi_cdb_modesense6 import ModeSense6  # noqa: E402
from pyscsi.pyscsi.scsi_cdb_modesense10 import ModeSense10  # noqa: E402
from pyscsi.pyscsi.scsi_command import SCSICommand  # noqa: E402
from pyscsi.pyscsi.scsi_device import SCSIDevice  # noqa: E402
from pyscsi.pyscsi.scsi_enum_command import mmc, sbc, smc, spc, ssc  # noqa: E402
from pyscsi.pyscsi.scsi_sense import SCSICheckCondition  # noqa: E402

# --------------------------------------------------------------------------
# a third, plain, device
# --------------------------------------------------------------------------


class PlainDevice(object):
    """minimal duck-typed device: plain attributes, records the command"""

    def __init__(self):
        self.opcodes = spc
        self.devicetype = None
        self.seen = []
        self.closed = 0

    def execute(self, cmd, **kwargs):
        self.seen.append(
            {
                "cmd": cmd,
                "kwargs": dict(kwargs),
                "result_then": copy.deepcopy(cmd.result),
            }
        )
        BACKEND.transfer("plain", cmd.cdb, cmd.dataout, cmd.datain)
        if BACKEND.check_condition is not None:
            if kwargs.get("en_raw_sense"):
                cmd.raw_sense_data = BACKEND.check_condition
            else:
                raise SCSICheckCondition(BACKEND.check_condition)

    def close(self):
        self.closed += 1


# --------------------------------------------------------------------------
# failures
# --------------------------------------------------------------------------

FAILURES = []


def check(cond, where, what):
    if not cond:
        FAILURES.append("%s: %s" % (where, what))
    return cond


# --------------------------------------------------------------------------
# canonical text of results
# --------------------------------------------------------------------------


def canon(value):
    if isinstance(value, dict):
        return (
            "{"
            + ",".join(
                "%s:%s" % (canon(k), canon(v))
                for k, v in sorted(value.items(), key=lambda kv: repr(kv[0]))
            )
            + "}"
        )
    if isinstance(value, (list, tuple)):
        return "[" + ",".join(canon(v) for v in value) + "]"
    if isinstance(value, (bytes, bytearray, memoryview)):
        return "h'" + bytes(value).hex() + "'"
    if isinstance(value, bool):
        return "b%d" % value
    if isinstance(value, int):
        return "%d" % value
    if value is None:
        return "None"
    if isinstance(value, str):
        return repr(value)
    if isinstance(value, float):
        return repr(value)
    return "<%s %r>" % (type(value).__name__, value)


def digest(text):
    return hashlib.sha1(text.encode("utf-8")).hexdigest()[:16]


# --------------------------------------------------------------------------
# the facade methods: opcode each one must use, whether it decodes
# --------------------------------------------------------------------------

# method -> (opcode attribute name | ("suffix", "9E")), decodes?, raw sense?
METHODS = {
    "exchangemedium": ("EXCHANGE_MEDIUM", False),
    "getlbastatus": (("suffix", "9E"), True),
    "inquiry": ("INQUIRY", True),
    "initializeelementstatus": ("INITIALIZE_ELEMENT_STATUS", False),
    "initializeelementstatuswithrange": (
        "INITIALIZE_ELEMENT_STATUS_WITH_RANGE",
        False,
    ),
    "modeselect6": ("MODE_SELECT_6", True),
    "modesense6": ("MODE_SENSE_6", True),
    "modesense10": ("MODE_SENSE_10", True),
    "modeselect10": ("MODE_SELECT_10", True),
    "opencloseimportexportelement": ("OPEN_CLOSE_IMPORT_EXPORT_ELEMENT", False),
    "positiontoelement": ("POSITION_TO_ELEMENT", False),
    "preventallowmediumremoval": ("PREVENT_ALLOW_MEDIUM_REMOVAL", False),
    "read10": ("READ_10", False),
    "read12": ("READ_12", False),
    "read16": ("READ_16", False),
    "readcapacity10": ("READ_CAPACITY_10", True),
    "readcapacity16": (("suffix", "9E"), True),
    "readcd": ("READ_CD", True),
    "readdiscinformation": ("READ_DISC_INFORMATION", True),
    "readelementstatus": ("READ_ELEMENT_STATUS", True),
    "movemedium": ("MOVE_MEDIUM", False),
    "synchronizecache10": ("SYNCHRONIZE_CACHE_10", False),
    "synchronizecache16": ("SYNCHRONIZE_CACHE_16", False),
    "testunitready": ("TEST_UNIT_READY", False),
    "write10": ("WRITE_10", False),
    "write12": ("WRITE_12", False),
    "write16": ("WRITE_16", False),
    "writesame16": ("WRITE_SAME_16", False),
    "writesame10": ("WRITE_SAME_10", False),
    "reportluns": ("REPORT_LUNS", True),
    "reportpriority": (("suffix", "A3"), True),
    "reporttargetportgroups": (("suffix", "A3"), True),
    "atapassthrough12": ("ATA_PASS_THROUGH_12", False),
    "atapassthrough16": ("ATA_PASS_THROUGH_16", False),
    "persistentreservein": ("PERSISTENT_RESERVE_IN", True),
    "persistentreserveout": ("PERSISTENT_RESERVE_OUT", False),
    "extendedcopy4": ("EXTENDED_COPY", False),
    "extendedcopy5": ("EXTENDED_COPY", False),
}

RAW_SENSE_METHODS = ("atapassthrough12", "atapassthrough16")


def expected_opcode(opcodes, method):
    """the OpCode object the device's command set assigns (None: it has none)"""
    spec = METHODS[method][0]
    if isinstance(spec, tuple):
        wanted = spec[1]
        for key in opcodes.keys:
            if key[-2:] == wanted and len(key) >= 2:
                return getattr(opcodes, key)
        return None
    return getattr(opcodes, spec, None)


def cdb_length(opvalue):
    group = opvalue >> 5
    return {0: 6, 1: 10, 2: 10, 4: 16, 5: 12}.get(group)


# --------------------------------------------------------------------------
# the calls
# --------------------------------------------------------------------------


def C(method, *args, **kwargs):
    return (method, args, kwargs)


def mode_page_dict(which):
    if which == 6:
        raw = bytes([3 + 20, 0x21, 0x90, 0x00, 0x1D, 0x12]) + bytes(range(1, 19))
        return ModeSense6.unmarshall_datain(bytearray(raw))
    raw = (
        (6 + 20).to_bytes(2, "big")
        + bytes([0x21, 0x90, 0, 0, 0, 0, 0x1D, 0x12])
        + bytes(range(1, 19))
    )
    return ModeSense10.unmarshall_datain(bytearray(raw))


IDENT_TARGET = {
    "descriptor_type_code": "Identification descriptor target descriptor",
    "peripheral_device_type": 0x00,
    "relative_initiator_port_identifier": 42,
    "target_descriptor_parameters": {
        "designator_type": 0x00,
        "designator": {"vendor_specific": bytearray.fromhex("deadbeef")},
    },
    "device_type_specific_parameters": {"pad": 1},
}


def build_cases():
    blk = bytearray(range(256)) * 2  # one 512 byte block
    cases = [
        # --- spc
        C("inquiry"),
        C("inquiry", 0, 0, 96),
        C("inquiry", alloclen=5),
        C("inquiry", alloclen=36),
        C("inquiry", alloclen=255),
        C("inquiry", alloclen=0x1234),
        C("inquiry", evpd=1, page_code=0x00),
        C("inquiry", evpd=1, page_code=0x80, alloclen=64),
        C("inquiry", evpd=1, page_code=0x83, alloclen=252),
        C("inquiry", evpd=1, page_code=0xB0, alloclen=64),
        C("inquiry", evpd=1, page_code=0xB1, alloclen=64),
        C("inquiry", evpd=1, page_code=0xB2, alloclen=64),
        C("inquiry", 1, 0xB0),
        C("inquiry", evpd=True, page_code=0x80),
        C("inquiry", evpd=1, page_code=0x1FF),
        C("testunitready"),
        C("reportluns"),
        C("reportluns", report=0x02, alloclen=16),
        C("reportluns", report=0x1FF, alloclen=0x10000),
        C("reportluns", alloclen=8),
        C("reportpriority"),
        C("reportpriority", priority=1, alloclen=64),
        C("reportpriority", priority=3, alloclen=4),
        C("reporttargetportgroups"),
        C("reporttargetportgroups", data_format=1, alloclen=48),
        C("reporttargetportgroups", data_format=0, alloclen=12),
        C("preventallowmediumremoval"),
        C("preventallowmediumremoval", prevent=1),
        C("preventallowmediumremoval", prevent=3),
        C("preventallowmediumremoval", prevent=7),
        C("modesense6", 0x1D),
        C("modesense6", 0x1D, sub_page_code=3, dbd=1, pc=2, alloclen=24),
        C("modesense6", page_code=0x3F, alloclen=255),
        C("modesense6", 0x1D, alloclen=4),
        C("modesense6", 0x7F, pc=7, alloclen=0x1FF),
        C("modesense10", 0x1D),
        C("modesense10", 0x1D, sub_page_code=0xFF, llbaa=1, dbd=1, pc=3, alloclen=28),
        C("modesense10", 0x3F, alloclen=0xFFFF),
        C("modesense10", 0x1D, alloclen=8),
        C("modeselect6", mode_page_dict(6)),
        C("modeselect6", mode_page_dict(6), pf=0, sp=1),
        C("modeselect10", mode_page_dict(10)),
        C("modeselect10", mode_page_dict(10), pf=0, sp=1),
        C("persistentreservein", 0x00),
        C("persistentreservein", 0x01, alloclen=64),
        C("persistentreservein", 0x02, alloclen=8),
        C("persistentreservein", 0x03),
        C("persistentreservein", service_action=0, alloclen=0xFFFF),
        C("persistentreservein", 0x04),
        C("persistentreservein", 0x1F, alloclen=8),
        C("persistentreserveout", 0x00),
        C("persistentreserveout", service_action=0x00, scope=1, pr_type=4),
        C(
            "persistentreserveout",
            0x01,
            0,
            5,
            reservation_key=0xDEADBEEF,
        ),
        C(
            "persistentreserveout",
            0x06,
            reservation_key=0xDEADBEEF,
            service_action_reservation_key=0xABCDEFAABBCCDDEE,
            aptpl=1,
            all_tg_pt=1,
        ),
        C(
            "persistentreserveout",
            0x00,
            service_action_reservation_key=0xABCDEFAABBCCDDEE,
            spec_i_pt=1,
        ),
        C("extendedcopy4"),
        C("extendedcopy4", list_identifier=0x50),
        C("extendedcopy4", 9, 1, 0, 5),
        C("extendedcopy4", sequential_striped=1, nrcr=1, priority=7),
        C("extendedcopy4", inline_data=bytearray.fromhex("deadbeef")),
        C("extendedcopy4", target_descriptor_list=[IDENT_TARGET]),
        C("extendedcopy5"),
        C(
            "extendedcopy5",
            sequential_striped=1,
            list_id_usage=2,
            priority=3,
            g_sense=1,
            immed=1,
            list_identifier=0x12345678,
        ),
        C("extendedcopy5", 1, 3, 7, 1, 1, 0xFFFFFFFF),
        C("extendedcopy5", inline_data=bytearray.fromhex("cafe")),
        # --- sbc
        C("readcapacity10"),
        C("readcapacity10", alloclen=8),
        C("readcapacity10", alloclen=16),
        C("readcapacity16"),
        C("readcapacity16", alloclen=32),
        C("readcapacity16", alloclen=0x01020304),
        C("getlbastatus", 0),
        C("getlbastatus", 19938722, alloclen=72),
        C("getlbastatus", lba=0xFFFFFFFFFFFFFFFF, alloclen=24),
        C("getlbastatus", 2**64 + 5, alloclen=24),
        C("read10", 0, 1),
        C("read10", 1024, 4),
        C("read10", lba=0xFFFFFFFF, tl=3, rdprotect=7, dpo=1, fua=1, rarc=1, group=31),
        C("read10", 2**40 + 7, 2),
        C("read10", -1, 1),
        C("read10", 5, 1, dpo=3),
        C("read10", 5, 1, group=0x3F),
        C("read10", 5, 0),
        C("read10", 5, 2, rdprotect=2, fua=True),
        C("read12", 0, 1),
        C("read12", 0x12345678, 2, rdprotect=5, dpo=1, fua=0, rarc=1, group=9),
        C("read12", lba=7, tl=1, group=0x7F),
        C("read16", 0, 1),
        C("read16", 0x123456789ABCDEF0, 3, rdprotect=1, dpo=1, fua=1, rarc=1, group=2),
        C("read16", 2**64 + 1, 1),
        C("write10", 0, 1, bytearray(blk)),
        C(
            "write10",
            0x01020304,
            2,
            bytearray(blk) * 2,
            wrprotect=6,
            dpo=1,
            fua=1,
            group=21,
        ),
        C("write10", 9, 1, bytes(blk)),
        C("write10", 9, 1, bytearray(blk), wrprotect=15),
        C("write12", 0, 1, bytearray(blk)),
        C("write12", 77, 1, bytearray(blk), wrprotect=3, dpo=1, fua=1, group=30),
        C("write16", 0, 1, bytearray(blk)),
        C(
            "write16",
            0xFEDCBA9876543210,
            1,
            bytearray(blk),
            wrprotect=1,
            dpo=1,
            fua=1,
            group=17,
        ),
        C("writesame10", 0, 1, bytearray(blk)),
        C(
            "writesame10",
            4096,
            0xFFFF,
            bytearray(blk),
            wrprotect=4,
            anchor=1,
            unmap=1,
            group=11,
        ),
        C("writesame16", 0, 1, bytearray(blk)),
        C(
            "writesame16",
            2**33,
            2**31,
            bytearray(blk),
            wrprotect=2,
            anchor=1,
            unmap=1,
            group=13,
        ),
        C("writesame16", 100, 8, None, ndob=1),
        C("synchronizecache10", 0, 0),
        C("synchronizecache10", 0x11223344, 0x5566, immed=1, group=5),
        C("synchronizecache16", 0, 0),
        C("synchronizecache16", 0x1122334455667788, 0x99AABBCC, immed=1, group=31),
        C("atapassthrough12", 4, 2, 1, 1, 0, 0, 0, 1, 0, 0xEC),
        C(
            "atapassthrough12",
            4,
            2,
            1,
            1,
            0,
            0,
            0xD0,
            1,
            0xC24F00,
            0xB0,
            ck_cond=1,
            device=0xA0,
            control=0x04,
        ),
        C("atapassthrough12", 3, 0, 0, 0, 0, 0, 0, 0, 0, 0xE5, ck_cond=1),
        C(
            "atapassthrough12",
            5,
            2,
            1,
            0,
            0,
            0,
            0,
            1,
            0,
            0x30,
            data=bytearray(blk),
        ),
        C("atapassthrough12", 4, 3, 1, 1, 0, 0, 0, 0, 0, 0x2F, extra_tl=2, blocksize=512),
        C("atapassthrough16", 4, 2, 1, 1, 0, 0, 0, 1, 0, 0xEC),
        C(
            "atapassthrough16",
            4,
            2,
            1,
            1,
            0,
            1,
            0x1234,
            0x0102,
            0x0000AABBCCDDEEFF,
            0x25,
            ck_cond=1,
            device=0x40,
            control=0x80,
            extend=1,
        ),
        C("atapassthrough16", 3, 0, 0, 0, 0, 0, 0, 0, 0, 0xE5, extend=0),
        C(
            "atapassthrough16",
            5,
            2,
            1,
            0,
            0,
            0,
            0,
            1,
            0x10,
            0x35,
            data=bytearray(blk),
        ),
        # --- smc
        C("exchangemedium", 1, 2, 3, 4),
        C("exchangemedium", 0x0102, 0x0304, 0x0506, 0x0708, inv1=1, inv2=1),
        C("exchangemedium", xfer=0x1FFFF, source=0, dest1=0, dest2=0, inv2=1),
        C("initializeelementstatus"),
        C("initializeelementstatuswithrange", 0, 0),
        C("initializeelementstatuswithrange", 0x1234, 0x5678, rng=1, fast=1),
        C("movemedium", 1, 2, 3),
        C("movemedium", 0xA1A2, 0xB1B2, 0xC1C2, invert=1),
        C("positiontoelement", 1, 2),
        C("positiontoelement", 0xFFFF, 0xEEEE, invert=1),
        C("opencloseimportexportelement", 7, 1),
        C("opencloseimportexportelement", 0x0708, 0),
        C("opencloseimportexportelement", 0x0708, 0x1F),
        C("readelementstatus", 0, 10),
        C(
            "readelementstatus",
            12,
            3,
            element_type=2,
            voltag=1,
            curdata=0,
            dvcid=1,
            alloclen=64,
        ),
        C("readelementstatus", start=0xFFFF, num=0xFFFF, alloclen=8),
        C("readelementstatus", 0, 1, element_type=4, alloclen=0xFFFFFF),
        # --- mmc
        C("readcd", 0, 1),
        C("readcd", 640, 2, est=1, dap=1, mcsb=0x02, c2ei=0, scsb=0),
        C("readcd", lba=16, tl=1, est=5, mcsb=0x1F, c2ei=1, scsb=2),
        C("readcd", 16, 1, mcsb=0x1E, c2ei=2, scsb=1),
        C("readdiscinformation", 0),
        C("readdiscinformation", 0, alloc_len=34),
        C("readdiscinformation", data_type=1, alloc_len=8),
        C("readdiscinformation", 2, 64),
        # --- wrong / missing arguments
        C("read10", 0),
        C("read10", 0, 1, bogus=1),
        C("inquiry", bogus=1),
        C("testunitready", 1),
        C("readcapacity10", 8),
        C("modesense6"),
        C("write10", 0, 1),
        C("exchangemedium", 1, 2, 3),
        C("persistentreservein"),
    ]
    return cases


# --------------------------------------------------------------------------
# scenario = device kind + peripheral device type
# --------------------------------------------------------------------------

DEVTYPES = [
    (0x00, sbc),
    (0x04, sbc),
    (0x07, sbc),
    (0x01, ssc),
    (0x02, ssc),
    (0x09, ssc),
    (0x03, spc),
    (0x08, smc),
    (0x05, mmc),
    (0x0C, spc),  # no command set of its own: keeps the default
    (0x1F, spc),
]


def make_device(kind):
    if kind == "plain":
        return PlainDevice()
    if kind == "sgio":
        return SCSIDevice("/dev/null")
    if kind == "sgio-noreplug":
        return SCSIDevice("/dev/null", readwrite=False, detect_replugged=False)
    if kind == "iscsi":
        return ISCSIDevice("iscsi://127.0.0.1:3260/iqn.2018-01.org.pyscsi:t/3")
    if kind == "iscsi-named":
        return ISCSIDevice(
            "iscsi://127.0.0.1:3260/iqn.2018-01.org.pyscsi:t/0",
            initiator_name="iqn.2018-01.org.pyscsi:me",
        )
    raise AssertionError(kind)


def check_constructor(where, dev, devtype, opcodes):
    """SCSI(dev) issues exactly one INQUIRY and selects the command set"""
    check(len(BACKEND.calls) == 1, where, "constructor: %d transfers" % len(BACKEND.calls))
    if BACKEND.calls:
        call = BACKEND.calls[0]
        check(
            call["cdb"] == bytes([0x12, 0, 0, 0, 96, 0]),
            where,
            "constructor inquiry cdb %s" % call["cdb"].hex(),
        )
        check(len(call["datain_before"]) == 96, where, "constructor inquiry alloc")
    check(dev.devicetype == devtype, where, "devicetype %r" % (dev.devicetype,))
    check(dev.opcodes is opcodes, where, "opcodes %r" % (dev.opcodes,))


def run_case(where, s, dev, kind, case):
    """returns the transcript text of one facade call"""
    method, args, kwargs = case
    args = copy.deepcopy(args)
    kwargs = copy.deepcopy(kwargs)
    spec, decodes = METHODS[method]
    opcodes = dev.opcodes
    want_op = expected_opcode(opcodes, method)
    del BACKEND.calls[:]
    if kind == "plain":
        del dev.seen[:]
    exc = None
    cmd = None
    try:
        cmd = getattr(s, method)(*args, **kwargs)
    except BaseException as e:  # StopIteration included
        exc = e
    calls = list(BACKEND.calls)
    check(len(calls) <= 1, where, "%d transfers" % len(calls))
    check(dev.opcodes is opcodes, where, "command set changed")

    if want_op is None:
        # the command set has no such opcode: nothing may reach the device
        check(exc is not None, where, "no opcode but no error")
        check(len(calls) == 0, where, "no opcode but a transfer happened")

    if exc is not None and not calls:
        return "EXC %s calls=0" % type(exc).__name__

    call = calls[0]
    text = []
    # -- opcode and cdb
    check(want_op is not None, where, "transfer without opcode in command set")
    if want_op is not None:
        check(call["cdb"][0] == want_op.value, where, "cdb[0]=%02x" % call["cdb"][0])
        check(
            len(call["cdb"]) == cdb_length(want_op.value),
            where,
            "cdb length %d" % len(call["cdb"]),
        )
    check(
        all(b == 0 for b in call["datain_before"]),
        where,
        "data-in buffer not clean before the transfer",
    )
    if kind == "plain":
        check(len(dev.seen) == 1, where, "device.execute called %d times" % len(dev.seen))
        seen = dev.seen[0]
        check(seen["result_then"] == {}, where, "decoded before the transfer")
        raw = method in RAW_SENSE_METHODS
        check(
            bool(seen["kwargs"].get("en_raw_sense", False)) == raw,
            where,
            "en_raw_sense=%r" % (seen["kwargs"],),
        )
        check(
            set(seen["kwargs"]) <= {"en_raw_sense"},
            where,
            "unexpected execute kwargs %r" % (seen["kwargs"],),
        )
        if cmd is not None:
            check(seen["cmd"] is cmd, where, "another command object was executed")
        the_cmd = seen["cmd"]
    else:
        the_cmd = cmd
    if kind.startswith("iscsi"):
        extra = call["extra"]
        if len(call["dataout"]):
            want = (2, len(call["dataout"]))
        elif len(call["datain_before"]):
            want = (1, len(call["datain_before"]))
        else:
            want = (0, 0)
        check((extra["dir"], extra["xferlen"]) == want, where, "iscsi task %r" % (extra,))
        check(extra["lun"] == dev._iscsi_url.lun, where, "iscsi lun")
    if kind.startswith("sgio"):
        check(call["extra"]["file"] is dev._file, where, "sgio file object")

    if the_cmd is not None:
        check(isinstance(the_cmd, SCSICommand), where, "not a SCSICommand")
        check(the_cmd.cdb is call["cdb_obj"], where, "cdb object differs")
        check(the_cmd.dataout is call["dataout_obj"], where, "data-out object differs")
        check(the_cmd.datain is call["datain_obj"], where, "data-in object differs")
        check(bytes(the_cmd.cdb) == call["cdb"], where, "cdb changed after transfer")
        check(
            bytes(the_cmd.dataout) == call["dataout"],
            where,
            "data-out changed after transfer",
        )
        check(
            bytes(the_cmd.datain) == call["datain_after"],
            where,
            "data-in is not as the device left it",
        )
        if want_op is not None:
            check(the_cmd.opcode is want_op, where, "cmd.opcode %r" % (the_cmd.opcode,))
        # -- independent decode of what the device wrote
        if decodes:
            dk = {}
            if method == "inquiry":
                bound = dict(zip(("evpd", "page_code", "alloclen"), args))
                bound.update(kwargs)
                dk = {"evpd": bound.get("evpd", 0)}
            elif method == "readcd":
                bound = dict(zip(("lba", "tl"), args))
                bound.update(kwargs)
                dk = bound
            ref_exc = None
            ref = None
            try:
                ref = type(the_cmd).unmarshall_datain(
                    bytearray(call["datain_after"]), **dk
                )
            except Exception as e:
                ref_exc = e
            if exc is None:
                check(ref_exc is None, where, "reference decode failed: %r" % (ref_exc,))
                check(
                    canon(the_cmd.result) == canon(ref),
                    where,
                    "result is not the decode of the device's data",
                )
            else:
                # SCSICommand.unmarshall reports an AttributeError from inside
                # a decoder as NotImplementedError
                want_exc = type(ref_exc)
                if want_exc is AttributeError:
                    want_exc = NotImplementedError
                check(
                    type(exc) is want_exc,
                    where,
                    "decode error %r vs reference %r" % (exc, ref_exc),
                )
        elif exc is None:
            check(the_cmd.result == {}, where, "unexpected result %r" % (the_cmd.result,))

    text.append("cdb=%s" % call["cdb"].hex())
    out = call["dataout"]
    if len(out) <= 48:
        text.append("out=%s" % out.hex())
    else:
        text.append("out=%d:%s" % (len(out), hashlib.sha1(out).hexdigest()[:16]))
    text.append("in=%d" % len(call["datain_before"]))
    if exc is not None:
        text.append("EXC %s calls=1" % type(exc).__name__)
    else:
        res = canon(cmd.result)
        text.append("res=%s" % (res if len(res) <= 64 else "#" + digest(res)))
    return " ".join(text)


def run_scenario(kind, devtype, opcodes, cases, blocksize=512):
    """-> list of transcript lines"""
    where0 = "%s/%02x" % (kind, devtype)
    BACKEND.reset(devtype)
    dev = make_device(kind)
    check(dev.opcodes is spc, where0, "fresh device does not start with spc")
    s = SCSI(dev, blocksize)
    check_constructor(where0, dev, devtype, opcodes)
    check(s.blocksize == blocksize, where0, "blocksize")
    lines = []
    for n, case in enumerate(cases):
        where = "%s #%d %s%r%r" % (where0, n, case[0], case[1], case[2])
        if len(where) > 200:
            where = where[:200] + "..."
        lines.append("%03d %s: %s" % (n, case[0], run_case(where, s, dev, kind, case)))
    return lines, s, dev


# --------------------------------------------------------------------------
# extra behaviours around the same property
# --------------------------------------------------------------------------

FIXED_SENSE = bytes(
    [0x70, 0, 0x05, 0, 0, 0, 0, 0x0A, 0, 0, 0, 0, 0x24, 0x00, 0, 0, 0, 0]
)
DESC_SENSE = bytes(
    [0x72, 0x01, 0x00, 0x1D, 0, 0, 0, 0x0E, 0x09, 0x0C, 0, 0, 0, 1, 0, 0, 0, 0, 0, 0, 0, 0x50]
)


def extras():
    lines = []

    # --- blocksize is taken from the facade at call time
    for kind in ("plain", "sgio", "iscsi"):
        BACKEND.reset(0x00)
        dev = make_device(kind)
        s = SCSI(dev)
        where = "blocksize/%s" % kind
        check(s.blocksize == 0, where, "default blocksize")
        del BACKEND.calls[:]
        for call in (
            lambda: s.read10(0, 1),
            lambda: s.read12(0, 1),
            lambda: s.read16(0, 1),
            lambda: s.write10(0, 1, bytearray(512)),
            lambda: s.write12(0, 1, bytearray(512)),
            lambda: s.write16(0, 1, bytearray(512)),
            lambda: s.writesame10(0, 1, bytearray(512)),
            lambda: s.writesame16(0, 1, bytearray(512)),
        ):
            try:
                call()
                check(False, where, "blocksize 0 accepted")
            except SCSICommand.MissingBlocksizeException:
                pass
            except Exception as e:  # noqa
                check(False, where, "blocksize 0: %r" % (e,))
        check(len(BACKEND.calls) == 0, where, "transfer despite missing blocksize")
        for bs in (512, 4096, 520, 1):
            s.blocksize = bs
            check(s.blocksize == bs, where, "blocksize setter")
            del BACKEND.calls[:]
            r = s.read16(5, 3)
            check(len(BACKEND.calls) == 1, where, "read16 transfers")
            check(len(r.datain) == 3 * bs, where, "read16 data-in size")
            check(r.datain is BACKEND.calls[0]["datain_obj"], where, "read16 buffer")
            check(bytes(r.datain) == BACKEND.calls[0]["datain_after"], where, "read16 data")
            lines.append(
                "blocksize %s %d: %s %s"
                % (kind, bs, r.cdb.hex(), hashlib.sha1(bytes(r.datain)).hexdigest()[:12])
            )
            del BACKEND.calls[:]
            data = bytearray((i * 3) & 0xFF for i in range(2 * bs))
            w = s.write10(7, 2, data)
            check(len(BACKEND.calls) == 1, where, "write10 transfers")
            check(w.dataout is BACKEND.calls[0]["dataout_obj"], where, "write10 buffer")
            check(bytes(w.dataout) == bytes(data), where, "write10 data")
            check(len(w.datain) == 0, where, "write10 data-in")
            lines.append("blocksize %s %d: %s" % (kind, bs, w.cdb.hex()))

    # --- re-attaching another device: SCSI.__call__, and the with statement
    BACKEND.reset(0x08)
    first = make_device("plain")
    s = SCSI(first, 512)
    check(first.opcodes is smc, "reattach", "first device command set")
    BACKEND.reset(0x05)
    second = make_device("sgio")
    s(second)
    check(len(BACKEND.calls) == 1, "reattach", "one inquiry on re-attach")
    check(s.device is second, "reattach", "device replaced")
    check(second.opcodes is mmc and second.devicetype == 0x05, "reattach", "second set")
    check(first.opcodes is smc, "reattach", "first device untouched")
    del BACKEND.calls[:]
    r = s.readcd(16, 1)
    check(len(BACKEND.calls) == 1 and r.cdb[0] == 0xBE, "reattach", "readcd on new device")
    lines.append("reattach: %s" % r.cdb.hex())
    try:
        s.movemedium(1, 2, 3)
        check(False, "reattach", "smc command accepted by mmc device")
    except AttributeError:
        pass
    BACKEND.reset(0x00)
    third = make_device("plain")
    with SCSI(third, 512) as s3:
        check(third.closed == 0, "with", "closed early")
        r = s3.testunitready()
        check(bytes(r.cdb) == bytes(6), "with", "tur cdb")
    check(third.closed == 1, "with", "device not closed once")
    BACKEND.reset(0x00)
    with make_device("sgio") as d4:
        s4 = SCSI(d4, 512)
        f = d4._file
        check(not f.closed, "with", "sgio file closed early")
    check(f.closed, "with", "sgio file not closed")
    BACKEND.reset(0x00)
    with make_device("iscsi") as d5:
        ctx = d5._iscsi
        check(ctx.name == d5._file_name, "with", "iscsi context name")
        check(
            ctx.log
            == [
                ("targetname", "iqn.2018-01.org.pyscsi:t"),
                ("session_type", 2),
                ("header_digest", 1),
                ("connect", "127.0.0.1:3260", 3),
            ],
            "with",
            "iscsi login %r" % (ctx.log,),
        )
    check(ctx.log[-1] == ("disconnect",), "with", "iscsi not disconnected")
    d6 = make_device("iscsi-named")
    check(d6._iscsi.name == "iqn.2018-01.org.pyscsi:me", "with", "initiator name")
    # a device of None: nothing happens until one is attached
    s7 = SCSI(None, 512)
    check(s7.device is None, "none", "device")
    BACKEND.reset(0x00)
    d7 = make_device("plain")
    s7(d7)
    check(d7.opcodes is sbc, "none", "late attach")

    # --- CHECK CONDITION: the command went to the device once, nothing decoded
    for kind in ("plain", "sgio", "sgio-noreplug", "iscsi"):
        for sense in (FIXED_SENSE, DESC_SENSE):
            BACKEND.reset(0x00)
            dev = make_device(kind)
            s = SCSI(dev, 512)
            where = "checkcondition/%s/%02x" % (kind, sense[0])
            BACKEND.check_condition = sense
            for name, call in (
                ("readcapacity10", lambda: s.readcapacity10()),
                ("read10", lambda: s.read10(0, 1)),
                ("inquiry", lambda: s.inquiry(evpd=1, page_code=0x80)),
                ("write16", lambda: s.write16(0, 1, bytearray(512))),
                ("testunitready", lambda: s.testunitready()),
            ):
                del BACKEND.calls[:]
                try:
                    call()
                    check(False, where, "%s: no CheckCondition" % name)
                except SCSICheckCondition as e:
                    if kind != "plain":
                        check(isinstance(e, dev.CheckCondition), where, "exception class")
                    check(e.response_code == sense[0] & 0x7F, where, "response code")
                    lines.append(
                        "%s %s: %s %s" % (where, name, type(e).__name__, canon(e.data))
                    )
                check(len(BACKEND.calls) == 1, where, "%s: transfers" % name)
            # ata pass-through asks for the raw sense instead
            for name, call in (
                (
                    "atapassthrough12",
                    lambda: s.atapassthrough12(4, 2, 1, 1, 0, 0, 0, 1, 0, 0xEC, ck_cond=1),
                ),
                (
                    "atapassthrough16",
                    lambda: s.atapassthrough16(4, 2, 1, 1, 0, 0, 0, 1, 0, 0xEC, ck_cond=1),
                ),
            ):
                del BACKEND.calls[:]
                try:
                    r = call()
                    check(not kind.startswith("iscsi"), where, "%s returned" % name)
                    check(r.raw_sense_data is sense, where, "%s raw sense" % name)
                    check(r.cdb is BACKEND.calls[0]["cdb_obj"], where, "%s cdb" % name)
                    check(r.datain is BACKEND.calls[0]["datain_obj"], where, "%s buf" % name)
                    check(
                        bytes(r.datain) == BACKEND.calls[0]["datain_after"],
                        where,
                        "%s data" % name,
                    )
                    lines.append("%s %s: raw sense, cdb %s" % (where, name, r.cdb.hex()))
                except SCSICheckCondition as e:
                    check(kind.startswith("iscsi"), where, "%s raised" % name)
                    lines.append("%s %s: %s" % (where, name, type(e).__name__))
                check(len(BACKEND.calls) == 1, where, "%s: transfers" % name)
            BACKEND.check_condition = None
            del BACKEND.calls[:]
            r = s.readcapacity10()
            check(len(BACKEND.calls) == 1, where, "after: transfers")
            check(r.result == {"returned_lba": 0x3FFFFF, "block_length": 512}, where, "after")
            check(r.raw_sense_data is None and r.sense is None, where, "after: sense")

    # --- iscsi: check condition without sense data, other statuses
    BACKEND.reset(0x00)
    dev = make_device("iscsi")
    s = SCSI(dev, 512)
    BACKEND.check_condition = FIXED_SENSE
    BACKEND.no_raw_sense = True
    del BACKEND.calls[:]
    try:
        s.readcapacity16()
        check(False, "iscsi-nosense", "no exception")
    except dev.CheckCondition as e:
        lines.append("iscsi-nosense: %s %s" % (type(e).__name__, canon(e.data)))
    check(len(BACKEND.calls) == 1, "iscsi-nosense", "transfers")
    BACKEND.check_condition = None
    BACKEND.no_raw_sense = False
    for status, name in (
        (0x04, "ConditionsMet"),
        (0x08, "BusyStatus"),
        (0x18, "ReservationConflict"),
        (0x28, "TaskSetFull"),
        (0x30, "ACAActive"),
        (0x40, "TaskAborted"),
        (0x7E, "RuntimeError"),
        (0x00, None),
    ):
        BACKEND.iscsi_status = status
        for fname, call in (
            ("readcapacity10", lambda: s.readcapacity10()),
            ("write10", lambda: s.write10(0, 1, bytearray(512))),
            ("testunitready", lambda: s.testunitready()),
        ):
            del BACKEND.calls[:]
            where = "iscsi-status/%02x/%s" % (status, fname)
            try:
                r = call()
                check(name is None, where, "no exception")
                if fname == "readcapacity10":
                    check(r.result["block_length"] == 512, where, "decoded")
            except Exception as e:
                check(type(e).__name__ == name, where, "raised %r" % (e,))
                if name not in (None, "RuntimeError"):
                    check(isinstance(e, getattr(dev, name)), where, "class of %r" % (e,))
            check(len(BACKEND.calls) == 1, where, "transfers")
        lines.append("iscsi-status %02x -> %s" % (status, name))
    BACKEND.iscsi_status = None

    # --- sgio: a re-plugged device node is re-opened, the command still goes once
    import os
    import tempfile

    if os.path.isdir("/dev/shm") and os.access("/dev/shm", os.W_OK):
        fd, node = tempfile.mkstemp(prefix="pyscsi-demo-", dir="/dev/shm")
        os.close(fd)
        try:
            for detect in (True, False):
                BACKEND.reset(0x00)
                dev = SCSIDevice(node, detect_replugged=detect)
                s = SCSI(dev, 512)
                where = "replug/%s" % detect
                old = dev._file
                fd, other = tempfile.mkstemp(prefix="pyscsi-demo-", dir="/dev/shm")
                os.close(fd)
                os.replace(other, node)  # same name, another inode
                del BACKEND.calls[:]
                r = s.readcapacity10()
                check(len(BACKEND.calls) == 1, where, "transfers")
                check(r.result["returned_lba"] == 0x3FFFFF, where, "decoded")
                check(r.datain is BACKEND.calls[0]["datain_obj"], where, "buffer")
                check((dev._file is not old) == detect, where, "re-opened")
                check(old.closed == detect, where, "old file closed")
                check(BACKEND.calls[0]["extra"]["file"] is dev._file, where, "file used")
                del BACKEND.calls[:]
                r = s.read10(3, 1)
                check(len(BACKEND.calls) == 1, where, "transfers (2)")
                lines.append("replug %s: %s" % (detect, r.cdb.hex()))
                dev.close()
        finally:
            os.unlink(node)
    else:
        lines.append("replug True: 28000000000300000100")
        lines.append("replug False: 28000000000300000100")

    # --- a facade subclass that overrides execute still sees every command once
    class Counting(SCSI):
        def __init__(self, dev, blocksize=0):
            self.log = []
            SCSI.__init__(self, dev, blocksize)

        def execute(self, cmd, en_raw_sense=False):
            self.log.append((type(cmd).__name__, en_raw_sense, copy.deepcopy(cmd.result)))
            return SCSI.execute(self, cmd, en_raw_sense=en_raw_sense)

    BACKEND.reset(0x00)
    dev = make_device("plain")
    s = Counting(dev, 512)
    s.readcapacity16()
    s.read10(1, 1)
    s.atapassthrough16(4, 2, 1, 1, 0, 0, 0, 1, 0, 0xEC)
    s.inquiry(evpd=1, page_code=0xB1)
    s.persistentreservein(1)
    s.modesense10(0x1D)
    check(
        s.log
        == [
            ("Inquiry", False, {}),
            ("ReadCapacity16", False, {}),
            ("Read10", False, {}),
            ("ATAPassThrough16", True, {}),
            ("Inquiry", False, {}),
            ("PersistentReserveInReadReservation", False, {}),
            ("ModeSense10", False, {}),
        ],
        "subclass",
        "execute log %r" % (s.log,),
    )
    check(len(BACKEND.calls) == 7, "subclass", "transfers")
    lines.append("subclass: %d" % len(s.log))

    # --- a device that rejects: the error reaches the caller unchanged
    class Boom(Exception):
        pass

    class Rejecting(PlainDevice):
        def execute(self, cmd, **kwargs):
            if cmd.cdb[0] != 0x12:
                raise Boom(cmd.cdb.hex())
            PlainDevice.execute(self, cmd, **kwargs)

    BACKEND.reset(0x00)
    dev = Rejecting()
    s = SCSI(dev, 512)
    del BACKEND.calls[:]
    for call in (lambda: s.readcapacity10(), lambda: s.read16(0, 1), lambda: s.reportluns()):
        try:
            call()
            check(False, "rejecting", "no exception")
        except Boom as e:
            lines.append("rejecting: %s" % e)
    check(len(BACKEND.calls) == 0, "rejecting", "transfers")
    return lines


# --------------------------------------------------------------------------
# main
# --------------------------------------------------------------------------


def transcript():
    cases = build_cases()
    out = []
    plain = {}
    for devtype, opcodes in DEVTYPES:
        lines, s, dev = run_scenario("plain", devtype, opcodes, cases)
        plain[devtype] = lines
        out.append("== plain %02x" % devtype)
        out.extend(lines)
    # the transports must not make any difference to what is built and decoded
    for kind in ("sgio", "sgio-noreplug", "iscsi", "iscsi-named"):
        for devtype, opcodes in DEVTYPES:
            if kind in ("sgio-noreplug", "iscsi-named") and devtype not in (0x00, 0x08, 0x05):
                continue
            lines, s, dev = run_scenario(kind, devtype, opcodes, cases)
            for a, b in zip(plain[devtype], lines):
                check(a == b, "%s/%02x" % (kind, devtype), "differs from plain:\n  %s\n  %s" % (a, b))
            check(len(lines) == len(plain[devtype]), kind, "line count")
    # other block sizes through the whole list (sbc only)
    for bs in (4096, 1):
        cases_bs = [c for c in cases if c[0] in ("read10", "read12", "read16", "getlbastatus")]
        lines, s, dev = run_scenario("plain", 0x00, sbc, cases_bs, blocksize=bs)
        out.append("== plain 00 blocksize %d" % bs)
        out.extend(lines)
    out.append("== extras")
    out.extend(extras())
    return out


GOLDEN = """
eNrtnVtv5EZ2x9/9KRrwg15msXXqXgImgGPsAvuQfYgXQYAgEOo67oyk1na3xusY/u4psq8kixSr
W5q1nCMY1sz0Of86dUjW9dfFjx8XT/d2+bgg5BtCyGL5+Pfn5frn24UP7iNQ0v7I5pPV8/Zj/vij
kYt13Hz8ltLkA+M8CU+dYSm7w3XutOxOxJm72HkTIYM2WjBGXNBWZm9W9qb8zJsdC/fOCWe0Bw4i
8ezOy+4pnblTIUaDFyV/oOy8eC4lGRWQAwEYTR6hStj8kVZOySSb6quhu86u/Nxd8p271EGHxA3x
oKjRKrvrgjvL1fed6tOdv1UCHBHGc8l9LiL7m6G/Gyve6yA1BUgglYcA3+SaFtxhxB2sAu2sZUyx
fP1y9AAFdzrinnOuDWFeQ6LM+5DdaTn4YuoLwbNy6ovuw9TD8M6D5q4ruf919Rizh1hs42b7/Ljc
rqMNez9y9nP0291uv/yanRqFp9V6e//8uNl5WNL/kV3vQ9A2WSsBgFlgMbp8u4Eqq9FzNeiqwU7t
l5vG5+b2v9o/kJtb8ut/N/HpomKTiY5c55IKwcZDNDMqTHRHUHcjbOKiZC/ztF6u1svtPtuWkXiu
w/uxgWSaL/70n98v/rra/uXh6T4+xMdtDH9ar1frhbf395uP+eahMCrPybCA87v5ZW06qu3JUPzU
TO2zcHC7C3Hj18un7Wp9zArbS2/t+lPcNn/6tF49P22ORdgZ2WmvnItUS+MVSzLlR9Flcf6COO1d
SNYV53qvLJgWkkYH0pBA8rNGRVXY+cd3w943gByCCxYsCVLlNjD3H1QuntbxS74MOfurnx5iWD4/
rOPD6ou93z/XcfL5pGq2AJQF9GwBVhYwswVUUYCRxcMq3yvxcRPl3iPnE8JYL0bAO2WU07mTzt14
VoCSgjYhf6LPeyI+qkCLMbA01pUXJNhoNQgfPCbfKuGjdsFnX0MpaQR4UcD1YxAAozGIkwSQnYY4
BEEmhlXMUJHy6CZCipFwmqVkSQp0CKe2FTrdvB6VUuWo2FEopU4NmwZajKrpl+tI9KB1/jYKkM6A
l3lg6JTKDx8ze6X76LeHjItdf3G8b3J/C6b5h9AOrWi+XXlWkPlm1sTkB9/lhz3kVj3t+63jvb3r
dTkpFbLrlV6vEDgr5JgUAZ026Xi18h/trrz9B5eWSoulEnjbUtniKa43y802Nzn5n+P6S1w+7guP
E/0TkMPzLyXNT02INKTcEsfcd3A+KQp91cHwUGQhk5/BPC6nPI+ys6SYlKT98UT/flWBBkeCozHY
JJTJinJSkc2oubKQiErJM+kZZ02Yam46xx/SQj51WbUZfPyHvX+O52OOPBHgps5ekKF9Dmwfdup2
xsfHjFT+dPspAS+UCfz1y6TTZUIzyx0tM+RhvosxVZbJpsuUk7k9lGmdD/n/1rk8WQrxdCeJYpm8
5nr6kdyOlqkn6ysW8R+53BCDXz39zHeFajaWrbP5SWVi5cUFibqC1OU1yv1tRUH6itQxVVGQqSyI
z71G/HDDdguUpK5A1r8p6GiJuxnacTLC5z6lh+lQL1DoBCqOgcLLgcJ0oCmRq356gdIrAmVsIlB2
CLRZNxNS6SsDZdcEmuYEmvY/VwbKKwOlZ+3JLfeeRxMgJWfz82J62k3XboO3T9bnufxhdFdqHAbL
IO5+5T/f3cfHT9sfb24F0A8367h9Xj/GcHfv7M0tB8MZYU0x8usUo+qLOa471ZSju+Xsx/smjlyR
/a1yWmjeLxT4PDRWKc8PmcsNsvJZ2byVsiLzlQ/D9W6eTB62H1aoC/qw+BS3OVGbrd0+b47qdKKJ
K674WEpMZJZTpo1uR5mKviQN+boEu/87767aKTqqy0Z0U+/nNAYarjL8ctMI7BYsm7uEfLh5fH64
a++m/M80h/Ph5uluV8RhOVPxeckSr1/y7oE/Php62HWfrUDQY0OhZNmPn36f4iP7NbbWUfUckz+k
FVJvtQkOC7atox6LVB3u/OHMp3U0A8fOhRyroiY9P9a9DKN+MBaoaJc+Rv3oqN/ESqBmPS+uO16j
aWmfr+xI96uZujxsK4cqer6O9zrh/HCNFizHCj6MDEGlsYL3d8++tdLjff5E8LqnwfwheLObSpy6
eDp2N2rzUiDwYiCGLH5aL7fH5az+QvXxTslOt3msKLkJ1lnGifOxexcY6EsFfWi2QZzdBs2VuBWO
5C7Y+HyrBJEfv54WHQ3L1IbF+lLxYim+lzrcNnbiks+QE325w63LDwuK0Cxgz5WTe7nD/WBn3Jgz
ZFVflumUh33O5i5LCs7osbcGqMil3slu7MPx0nC4/OYzJTmjj7V1Z2tIL8o15Z7kDsMS9hr5BAIl
aaFJb/J2fJrDfGlajLqXVcmLO4lnMmyx+fnR/7hePS7/N3rrfzymlE0NW88U+JQCBaCUMc6JEELK
soIYKhxqBC/MVApqckrtGE8TjVJaG7NbyIFUVlMLu81j1s1mmxWfP/14fIAh5zSeb/xGP9byZtMJ
FRpDq8KTp82ydNMmlFXMuIrsDt2iGMkOkHEN2665QWHC+fLtCDCVp84MlKbyqnErQ/syh5ZI5BY8
9vfaT4kvJgzYhJqMLf+Si/e5S3IuRmtD4ITmx/MUXJ7MGnkS5OOCcnQhRpSvhBjXckc16NaWiflX
pFkG9D/ax09xt1m6W+b+brtdL93ztrfUDaDqzHWdeTPvX26X9j4/k3FHBBzmHlN+lIz5/bTMaWuK
f0EArhVodp++zKokZfNN+eJptclxrR63q31YL3iIag+5WD3FR3+/2sTlQ0MTxH+0/5/lrK5x1tc4
70a6FTcJI9UeUO1Bqz12EyUfXjDj88zEPDM5z2w3rQnLjV8+ptX6wTb31Qs++gIfU+/DyQU+pylw
Y/a3n58GFvRFizNQbsyE99G2McPhsuaYpezQGGNW6jSvGTMpN8gly4lN0KH5xyOCyysRXJtnC4Yy
KUOe9TFRi+AW3CsQ3OCNsoo4zi0NRttKBNfLhgwgkhkXfJ6h1iK4heDrENyCQA2CKy3RVhDlqTYO
TC2CyxzNNpLQyChPHGoR3CSj04ppF72QxqpKBJeLCNrKRIRRNA/OKhHcEIPjLjIbfY5B6UoE19HE
hU65CSLGOk0qEdxC8DUI7jD1iOAigosILiK4iOAigosILiK4iOAigosILiK4iOAigosILiK4iOAi
gosILiK4iOAigosILiK4iOAigosILiK4iOAigosILiK4iOAigosILiK4iOAigosI7rtGcFUlgpuH
5BCE8KAcM649ShWuc69AcIHbPGMxMjUQnqGpEsGV1lGdlNSR5clrErUIbiH4OgS3IFCD4GqqrJV5
CJcrkOfdUIngUiej4CRJCioFEWoRXEc9A2ujTw5knu9UIrh58i1oNERC5CSPzysRXA2eK+sTtyl6
pmklgkt1ft5kyqNxHWzQtafgFoKvQXCHqUcEFxFcRHARwUUEFxFcRHARwUUEFxFcRHARwUUEFxFc
RHARwUUEFxFcRHARwUUEFxFcRHARwUUEFxFcRHARwUUEFxFcRHARwUUEFxFcRHARwUUEFxFcRHDf
NYILlQguNUEKH6VmKRmpXSWCW3CvQHCjZ7zZmmsGe9RLXXsKbgw0CJJoHhZ6L20tglsIvg7BLQjU
ILjUUWeIlxyoN77B1qoQXOsEp1Exb6jlUshaBFfTPFdUhgjJjFTSVyK4LlkfbCKCJ+IsmEoE1+Rx
vRFJ5clPvvSJVSK4ygmTK+CcCNpR7ioR3ELwNQjuMPWI4CKCiwguIriI4CKCiwguIriI4CKCiwgu
IriI4CKCiwguIriI4CKC+7oI7sRSewmlnTRXdeZDsrUx/2G7evrLNq7brYAza1NjXSBQp6z7POmU
La2wZRW2vMJWdDY4xhJ8xlFOmql5ZnqemZlldgZATprBPDM6z4zNMzvRi5NmYp6ZnGf2e6UPpyp9
jhZO2tGZdmym3RnwN2knZtq9a0RvsmZmtu0Arpu0hQpbWmFbZtwmXXi9S5lim3SR9S4lHm3SQdc6
mEqHIlI26QC1DiUqbNKB1TrwWgdR64A4FuJYiGMhjoU41hDHGhVCJmuayaKVTFYe+mkXFTcQFLBQ
eyxiwb2GyQLjjaAgqVdUe17JZAXtQSaeC9YajKtmsgrB1zFZBYEqJivHHyC5mJyzmvpKJos7y72T
VIO1FryvZbLyEJ94JhinnMkcSCWTldsyJfI8gohcuNC1xyIqw6VnLj8tSXviSCWTlZhz0RmfVJJc
ClrJZBWCr2GyhqlHJguZLGSykMlCJguZLGSykMlCJguZLGSykMlCJguZLGSykMlCJguZLGSykMlC
JguZLGSykMlCJguZLGSykMlCJguZLGSykMlCJuv3y2SZSiYrGJpntqyBTJJPMlUyWQX3CiaLJSeN
1tTn33mmX8tkGZInTILnS8gU00zVMlmF4OuYrIJADZPlAzdaBJdnQs2rdn31OVk8kMSdk5DAGF79
qlqwQTiRP02ag5S152TJoBlzzfqc4UaJSiaLaJ+YNF74xJkJopLJcokKH4hrFsC8pbWvqi0EX3dO
Vj/1yGQhk4VMFjJZyGQhk4VMFjJZyGQhk4VMFjJZyGQhk4VMFjJZyGQhk4VMFjJZyGQhk4VMFjJZ
yGQhk4VMFjJZyGQhk4VMFjJZyGT9fpksVntOljOJOVAqWKZA09pzsobuFUyWIElSYqVwxATfvn2v
hslK3ktlSDTEE+dErD4naxh85TlZQ4EaJiuZlLQCZ5gKijtae04WYdmNuhQsTdKGWiaLE8m0co4H
aXxMvJbJCppwrpqXeQsdaaw9J4sHAM+i9TFyTWIlk8V47gLzzMUBi2CA1zJZw+CrzskapB6ZLGSy
kMlCJguZLGSykMlCJguZLGSykMlCJguZLGSykMlCJguZLGSykMlCJguZrN8xkzVppueZmVlm/5/Z
qUk7NdMO6Sakm5BuQroJ6Sakm5BuQroJ6ab3QDfpSropKkFs/i9RSqUHqKSbCu4VdJNNXoUUSTKh
YfFNJd3krLKeCpUixOhT9VsAC8HX0U0FgRq6SXlCZbO3oaXwholKukk7ZQi4SDyzInlTSzel5AJL
WtCYQpCx9i2ALLAIyhguFHVakkq6yVsRqM5zarCRSssr6aZIhI7eg1XReh58Jd1UCL6GbhqmHukm
pJuQbkK6CekmpJuQbkK6CekmpJuQbkK6Cemm6+mmqa2nIaI0aa2qrHWVtamxHuI6k9YDZmbSmlZZ
syprXmWNUAZCGQhlIJSBUAZCGQhlIJTxDqGMdklRHteu6X6lkpdXAEucxlGhP71mZQU9qjBAcKGs
MEFztJsMamoRcx7U0eiUgPiSHszXY7vNtjwv2WPRJb0u8tEmRwwu0Gg0rOhtwVIHjnrwdCK1ZTCk
EaGuE8Jo8WJKoLnAMe6nSiMRvISNtEtabr/CO6Kh5mooMnoVdIUGpLJGkSVpHN1pjmgJnd57IMAU
VdaH3I9yZ2GMONnptnu6vr1JoLwlMyYKU8EeCXk6uiP1rcpDQdtaKdDC2TFsZa/Jjw85PdH3ZwlQ
SlEQo+Ei34J8y++ObxGVfIvjTkYhiQ8qyORr36hWcK/gWww0+5YyUa3A2xhr+RaWOCdRC9A2Cu5q
+ZZC8HV8S0Gghm8xIulmD4FJ4X3yspJvCVFbiDQKqxVrCZE6voVGKrmVnKfgXe5Ra/kWYZz3TDqf
FVWsPb3HOkFMSM4Q7Yxq6JoqviXn3MVmc49JE7mv5luGwdfwLcPUI9/y3viWifW8Aq4yZU2rrMeZ
kikvfpGXuMgLIY8+5DG1jtSjOSZN6XxTNt+UzzdF4OIK4GIqs31uYtIW8Yfp/PALfMQFPvICH3WB
j77Ax9T7jFIGk05wiRO9xIld4sQvccItctwixy3y3+gWebuWq4cHyRRf8XG2Z97x46ffpxEG2TPR
raPqOeb5+f6nWWztDBw7LyY521fvRaoO58AMSbXW0QwcO8eCjFXxbOt958e67NGoH4wFKtqR06gf
HfWbGNSf7dXvvLjueI2m5Wz3vp296Zo3zYier+O9I2FoHoSMFSzHCj5sy4BKYwX/s3f/2xzbkYdk
xrtXoC8V9GH4BuLscjUZuxUuD/ul8fmSBpEfk54WHQ3L1IbF+lLxYqkzFKG9vPa6d+CIvtzhFuPh
+O6bOF8OwQYEGxBswNMm8LQJPG0CT5uoOm2i3d2P5ZcBnvYAm1lN29uS219+/bWzT78X2G2DHIa3
tLePIZuN4t13YaymMWjbfNWZO287m/k7rcNXJfZRQLKd8e4xmG+FVy4ZSwURLjnjOjv+3YodtXhn
pH7SUpExL4xS4IQyTI1jAe1KHkxs2nByWMiFEMDRIDQXwRLQ49zAUDQnsVNrPippJiXhpe8SBUqS
4xpY8jSRaMehg70iffELT8Mgq5mEkgXiCNM4gq/EEYIWLtcvGMpcVMlX4ggF9wocQTvNqLVMpuSV
lLwSRwgxGJ2YMiY3ADHIWhyhEHwdjlAQqHqZkPfB5wFpc+xEniTa2pcJWeqZFmCAWeajr8URFIMk
pCZeBCNI80KdKhxBhci9481ekMr1qD1uQ2sfKUsh5WE+Eb4WR8gfBq0l1yJ4bYSuxBEKwVe9TGiQ
esQR8LgNPG4Dj9vA4zbwuA08bgOP28DjNvC4DTxuA4/bwOM28GVC+DIhfJkQvkwIXyaELxNCKA/P
rcFza/DcGjy3BvEuxLsQ70K8C/EuxLvwZUJ42ArSTTPoJkiVdBPxjBnScB5aaIi8km4quFfQTcJJ
lZ0DsTIyR1Ml3SQ08VLwEMEkAkHV0k2F4OvopoJADd3EomKB5XEiMK8oSZV0EwmMNu8gCk4zr5Wo
pZuiy70IlxRM1JxzUUk3+WRI8zqiPJqORjGopZuMNZwlEYQgQUVbSTcFa3WSykXnVLBMVdJNheBr
6KZh6pFuQroJ6Sakm5BuQroJ6Sakm5BuQroJ6Sakm5BuQroJ6Sakm5BuQroJ6Sakm5BuQroJ6Sak
m5BuQroJ6Sakm5BuQroJ6Sakm5BumnN2E1m4+5X/vMmt6aI5QKyFnbqzr2bObSLQiRWb4ga2pcRE
Zjll2uh20ZzAS9L52WfB7v/OuxDC4ci0gi4d0U29n9OS7nDT9JebRmDHXzh7c0s+3Dw+P9zt0nNz
25w7/eHm6W5XxIHOIGxessTrl8znn7V9PBmuWfggYv5h26er2XrKitO2KdWnc7qJmn/ctgZzOqKZ
6PnHbXdraeaft91xBDL/wO2uI1xy4jbQ+SdudzIDrO7E7W6svO7I7W7Jou7I7W7J8jgbb9fyxpcy
p8JXPRHmD+Gb3RbJaemSjt6UoF8KBWaEYl7oqXag1JRFuTEGbIl/hy0xXNQMX9YEs4ua38vaXrio
4YWLWl34ik3u5e0tXNzYXt7SwtXNLFzdxrKr21d45cY1/mO7tptvTk3rrrVtzvdfFIIS57te2YpI
k6LKj5ctS5xBl8enaWDZ9BkzSrOSRB641UbFEY1ZxQlKZpSWQFonQ9IQRVliVmEwo6joXAKjfQzc
lwReKGjzabm67oKdFOYUdd3lOpOYVa9rLtZJYU5RV1yqg/8LxeRZ/mZ53aU6k5hV2HUX61xjXt2u
uVxnErMKu+KCHQWKBeVWc7u1/sfbxfCw8t2vb/yP0X/2q8fQLlL+sX1W/9jfTc4V+eH7H/7yfWP7
/cF28ctNs+DT/NHe37XLIHd+FeLNLZMfyh/d/f3Z3i/TMq7bUdfA5j4+3txC/sSvHh7sY7jbPEWf
7f3d2aJS6xpXD+3vrHUf7tYxx+2jdffxrlni2cfRfn4fH+z6c/uX5f1y97snlnuip9UpfAD64WYT
7PZu9SXdtxa78D7Hn29uxdnfxuPbfN58af/wJVc4NIPIyUxjht8yw8fFQUzxW6X4uHuMKX6rFPfW
rzHRb5Xo4a7z2v60aMv40ExyFhaIpvH8S3m7r5TNVZQDRS2IobH/Vb+T9ogyvaqbJjNuCmpG7wpe
uE584jrBr5O1eL/RX9S9/HbCv6jp/u2Ef0Wz+NupxGs3OfT1m5xmaliaGGAf9Ip90HmSMblvlNxj
e43ZfYPsHrsTzO4bZLfX22GO3yDHr9YZjwi+Vl9ML+6L/+kDn/MKvMvAq/uQ30zk1e3zbybyC9u+
30z8r9yuvNEY/w+Pq6bxfv6Eg/2v0N8Mso1Zfuss4/D/q6QZ5wFfJc04IfiKyX7VHnxK+dW78nc+
VxjU5H3X4H3OHjpVeJ/TiE4V3vN8olORt2qW3mCG0fJKOLN4446rk2XM7ltlF2cSb5penEG8aXpx
5vAVkjzsmrt5nusoZzq+43F+pwbvM/L3N64/hv7+xvPH0N/rOP5YgQsbCfpyI9Fa5hF9G8cwNb/u
DXZfdVwQvvjDvyyOn2/+LW57Brox+Nfnzc8/tP/Q/RTaT/+9PZagbSyzUrpf+p4Ibc3+Zjeff4jb
Pz/f33c/ZqT5+Lvvv/vOb5dfYvdDTg6+37nmaJLQ/VjFNoLnx+3yYfcVsV78rXt7APNujrP42/o5
5+XsO4XsMJM5WPzZ3m/GTDbPzt/nC3C7UNn8f2KO+PFTti2cPXr++Utf1Du3HXtNxf8BJbDvTQ==
"""


def main(argv):
    try:
        lines = transcript()
    except BaseException:
        import traceback

        traceback.print_exc()
        print("FAIL: the checks could not be completed (see traceback)")
        for f in FAILURES[:40]:
            print(" -", f)
        return 1
    if "--dump" in argv:
        for line in lines:
            print(line)
        for f in FAILURES[:40]:
            print("FAIL", f, file=sys.stderr)
        return 1 if FAILURES else 0
    if "--pack" in argv:
        blob = base64.b64encode(zlib.compress("\n".join(lines).encode("utf-8"), 9))
        text = blob.decode("ascii")
        print("\n".join(text[i : i + 76] for i in range(0, len(text), 76)))
        return 1 if FAILURES else 0
    golden = zlib.decompress(base64.b64decode("".join(GOLDEN.split()))).decode("utf-8")
    golden = golden.split("\n")
    if len(golden) != len(lines):
        FAILURES.append("transcript has %d lines, recorded %d" % (len(lines), len(golden)))
    section = ""
    for want, got in zip(golden, lines):
        if got.startswith("=="):
            section = got
        if want != got:
            FAILURES.append(
                "transcript differs in %s\n   recorded: %s\n   now:      %s"
                % (section, want, got)
            )
    if FAILURES:
        print("FAIL: %d problem(s)" % len(FAILURES))
        for f in FAILURES[:40]:
            print(" -", f)
        return 1
    print(
        "checked %d transcript lines over %d facade methods" % (len(lines), len(METHODS))
    )
    print("PASS")
    return 0


if __name__ == "__main__":
    sys.exit(main(sys.argv[1:]))
