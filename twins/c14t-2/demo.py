#!/usr/bin/env python
# coding: utf-8
"""
Demo / check of property C14:

  Every operation code, service action and status code the library exposes
  under a standard command name has the value T10 assigns to that name, and the
  same name has the same value in every device-type command set that lists it.
  The CDB length derived from an operation code is the one its group prescribes
  (6, 10, 12 or 16 bytes), and codes in variable-length, reserved or vendor
  groups are refused.

Only the public API of the library is used.  Run as
    cd /tmp/seed/C14t && PYTHONPATH=/tmp/seed/C14t /venv/bin/python SEED/demo.py
"""
import sys
import types

# the external bindings are not installed; the library only needs the names
for _missing in ("sgio", "iscsi"):
    if _missing not in sys.modules:
        try:
            __import__(_missing)
        except ImportError:
            sys.modules[_missing] = types.ModuleType(_missing)

import pyscsi.pyscsi.scsi_enum_command as enum_command
from pyscsi.pyscsi.scsi import SCSI
from pyscsi.pyscsi.scsi_command import SCSICommand
from pyscsi.pyscsi.scsi_enum_command import (
    OPCODE,
    SCSI_STATUS,
    SERVICE_ACTION_IN,
    mmc,
    sbc,
    smc,
    spc,
    ssc,
)
from pyscsi.pyscsi.scsi_opcode import OpCode
from pyscsi.utils.converter import get_opcode
from pyscsi.utils.enum import Enum
from pyscsi.utils.exception import NotSupportedArgumentError

# Reference tables (T10 values), written down independently of the library code.
SERVICE_ACTIONS = [
    ("REPORT_DEVICE_IDENTIFIER", 0x05),
    ("REPORT_ALIASES", 0x0B),
    ("REPORT_PRIORITY", 0x0E),
    ("REPORT_SUPPORTED_OPERATION_CODES", 0x0C),
    ("REPORT_SUPPORTED_TASK_MANAGEMENT_FUNCTIONS", 0x0D),
    ("REPORT_TARGET_PORT_GROUPS", 0x0A),
    ("REPORT_TIMESTAMP", 0x0F),
    ("REPORT_IDENTIFYING_INFORMATION", 0x05),
    ("REQUEST_DATA_TRANSFER_ELEMENT_INQUIRY", 0x06),
    ("CHANGE_ALIASES", 0x0B),
    ("SET_DEVICE_IDENTIFIER", 0x06),
    ("SET_PRIORITY", 0x0E),
    ("SET_TARGET_PORT_GROUPS", 0x0A),
    ("SET_TIMESTAMP", 0x0F),
    ("SET_IDENTIFYING_INFORMATION", 0x06),
    ("ORWRITE_32", 0x0E),
    ("READ_32", 0x09),
    ("VERIFY_32", 0x0A),
    ("WRITE_32", 0x0B),
    ("WRITE_AND_VERIFY_32", 0x0C),
    ("WRITE_SAME_32", 0x0D),
    ("XDREAD_32", 0x03),
    ("XDWRITE_32", 0x04),
    ("XDWRITEREAD_32", 0x07),
    ("XPWRITE_32", 0x06),
    ("GET_LBA_STATUS", 0x12),
    ("READ_CAPACITY_16", 0x10),
    ("REPORT_REFERRALS", 0x13),
    ("OPEN_IMPORTEXPORT_ELEMENT", 0x00),
    ("CLOSE_IMPORTEXPORT_ELEMENT", 0x01),
]

SA_MAINTENANCE_IN = [
    ("REPORT_ASSIGNED_UNASSIGNED_P_EXTENT", 0x00),
    ("REPORT_COMPONENT_DEVICE", 0x01),
    ("REPORT_COMPONENT_DEVICE_ATTACHMENTS", 0x02),
    ("REPORT_DEVICE_IDENTIFICATION", 0x07),
    ("REPORT_PERIPHERAL_DEVICE", 0x03),
    ("REPORT_PERIPHERAL_DEVICE_ASSOCIATIONS", 0x04),
    ("REPORT_PERIPHERAL_DEVICE_COMPONENT_DEVICE_IDENTIFIER", 0x05),
    ("REPORT_STATES", 0x06),
    ("REPORT_SUPPORTED_CONFIGURATION_METHOD", 0x09),
    ("REPORT_UNCONFIGURED_CAPACITY", 0x08),
]

SA_MAINTENANCE_OUT = [
    ("ADD_PERIPHERAL_DEVICE_COMPONENT_DEVICE", 0x00),
    ("ATTACH_TO_COMPONENT_DEVICE", 0x01),
    ("BREAK_PERIPHERAL_DEVICE_COMPONENT_DEVICE", 0x07),
    ("EXCHANGE_P_EXTENT", 0x02),
    ("EXCHANGE_PERIPHERAL_DEVICE_COMPONENT_DEVICE", 0x03),
    ("INSTRUCT_COMPONENT_DEVICE", 0x04),
    ("REMOVE_PERIPHERAL_DEVICE_COMPONENT_DEVICE", 0x05),
    ("SET_PERIPHERAL_DEVICE_COMPONENT_DEVICE_IDENTIFIER", 0x06),
]

SA_PERSISTENT_RESERVE_IN = [
    ("READ_KEYS", 0x00),
    ("READ_RESERVATION", 0x01),
    ("REPORT_CAPABILITIES", 0x02),
    ("READ_FULL_STATUS", 0x03),
]

SA_PERSISTENT_RESERVE_OUT = [
    ("REGISTER", 0x00),
    ("RESERVE", 0x01),
    ("RELEASE", 0x02),
    ("CLEAR", 0x03),
    ("PREEMPT", 0x04),
    ("PREEMPT_AND_ABORT", 0x05),
    ("REGISTER_AND_IGNORE_EXISTING_KEY", 0x06),
    ("REGISTER_AND_MOVE", 0x07),
    ("REPLACE_LOST_REGISTRATION", 0x08),
]

SCSI_STATUS_ = [
    ("GOOD", 0x00),
    ("CHECK_CONDITION", 0x02),
    ("CONDITIONS_MET", 0x04),
    ("BUSY", 0x08),
    ("RESERVATION_CONFLICT", 0x18),
    ("TASK_SET_FULL", 0x28),
    ("ACA_ACTIVE", 0x30),
    ("TASK_ABORTED", 0x40),
    ("SGIO_ERROR", 0xFF),
]

OPCODES = [
    ("INQUIRY", 0x12),
    ("MODE_SENSE_6", 0x1A),
    ("MOVE_MEDIUM", 0xA5),
    ("READ_10", 0x28),
    ("READ_12", 0xA8),
    ("READ_16", 0x88),
    ("READ_CAPACITY_10", 0x25),
    ("READ_ELEMENT_STATUS", 0xB8),
    ("SERVICE_ACTION_IN", 0x9E),
    ("TEST_UNIT_READY", 0x00),
    ("WRITE_10", 0x2A),
    ("WRITE_12", 0xAA),
    ("WRITE_16", 0x8A),
    ("WRITE_SAME_10", 0x41),
    ("WRITE_SAME_16", 0x93),
]

SERVICE_ACTION_INS = [
    ("READ_CAPACITY_16", 0x10),
    ("GET_LBA_STATUS", 0x12),
]

# command set -> [(attribute, OpCode.name, operation code, service actions)]
COMMAND_SETS = {
    "spc": [
        ("SPC_OPCODE_A4", "SPC_OPCODE_A4", 0xA4, SERVICE_ACTIONS),
        ("SPC_OPCODE_A3", "SPC_OPCODE_A3", 0xA3, SERVICE_ACTIONS),
        ("ACCESS_CONTROL_IN", "ACCESS_CONTROL_IN", 0x86, []),
        ("ACCESS_CONTROL_OUT", "ACCESS_CONTROL_OUT", 0x87, []),
        ("EXTENDED_COPY", "EXTENDED_COPY", 0x83, []),
        ("INQUIRY", "INQUIRY", 0x12, []),
        ("LOG_SELECT", "LOG_SELECT", 0x4C, []),
        ("LOG_SENSE", "LOG_SENSE", 0x4D, []),
        ("MODE_SELECT_6", "MODE_SELECT_6", 0x15, []),
        ("MODE_SELECT_10", "MODE_SELECT_10", 0x55, []),
        ("MODE_SENSE_6", "MODE_SENSE_6", 0x1A, []),
        ("MODE_SENSE_10", "MODE_SENSE_10", 0x5A, []),
        ("PERSISTENT_RESERVE_IN", "PERSISTENT_RESERVE_IN", 0x5E, SA_PERSISTENT_RESERVE_IN),
        ("PERSISTENT_RESERVE_OUT", "PERSISTENT_RESERVE_OUT", 0x5F, SA_PERSISTENT_RESERVE_OUT),
        ("PREVENT_ALLOW_MEDIUM_REMOVAL", "PREVENT_ALLOW_MEDIUM_REMOVAL", 0x1E, []),
        ("READ_ATTRIBUTE", "READ_ATTRIBUTE", 0x8C, []),
        ("READ_BUFFER_10", "READ_BUFFER_10", 0x3C, []),
        ("READ_BUFFER_16", "READ_BUFFER_16", 0x9B, []),
        ("READ_MEDIA_SERIAL_NUMBER", "READ_MEDIA_SERIAL_NUMBER", 0xAB, [("READ_MEDIA_SERIAL_NUMBER", 0x01)]),
        ("RECEIVE_COPY_RESULTS", "RECEIVE_COPY_RESULTS", 0x84, []),
        ("RECEIVE_DIAGNOSTIC_RESULTS", "RECEIVE_DIAGNOSTIC_RESULTS", 0x1C, []),
        ("REPORT_LUNS", "REPORT_LUNS", 0xA0, []),
        ("REQUEST_SENSE", "REQUEST_SENSE", 0x03, []),
        ("SEND_DIAGNOSTIC", "SEND_DIAGNOSTIC", 0x1D, []),
        ("TEST_UNIT_READY", "TEST_UNIT_READY", 0x00, []),
        ("WRITE_ATTRIBUTE", "WRITE_ATTRIBUTE", 0x8D, []),
        ("WRITE_BUFFER", "WRITE_BUFFER", 0x3B, []),
    ],
    "sbc": [
        ("SBC_OPCODE_7F", "SBC_OPCODE_7F", 0x7F, SERVICE_ACTIONS),
        ("SBC_OPCODE_A4", "SBC_OPCODE_A4", 0xA4, SERVICE_ACTIONS),
        ("SBC_OPCODE_A3", "SBC_OPCODE_A3", 0xA3, SERVICE_ACTIONS),
        ("SBC_OPCODE_9E", "SBC_OPCODE_9E", 0x9E, SERVICE_ACTIONS),
        ("ACCESS_CONTROL_IN", "ACCESS_CONTROL_IN", 0x86, []),
        ("ACCESS_CONTROL_OUT", "ACCESS_CONTROL_OUT", 0x87, []),
        ("ATA_PASS_THROUGH_12", "ATA_PASS_THROUGH_12", 0xA1, []),
        ("ATA_PASS_THROUGH_16", "ATA_PASS_THROUGH_16", 0x85, []),
        ("COMPARE_AND_WRITE", "COMPARE_AND_WRITE", 0x89, []),
        ("EXTENDED_COPY", "EXTENDED_COPY", 0x83, []),
        ("FORMAT_UNIT", "FORMAT_UNIT", 0x04, []),
        ("INQUIRY", "INQUIRY", 0x12, []),
        ("LOG_SELECT", "LOG_SELECT", 0x4C, []),
        ("LOG_SENSE", "LOG_SENSE", 0x4D, []),
        ("MAINTENANCE_IN", "MAINTENANCE_IN", 0xA3, SA_MAINTENANCE_IN),
        ("MAINTENANCE_OUT", "MAINTENANCE_OUT", 0xA4, SA_MAINTENANCE_OUT),
        ("MODE_SELECT_6", "MODE_SELECT_6", 0x15, []),
        ("MODE_SELECT_10", "MODE_SELECT_10", 0x55, []),
        ("MODE_SENSE_6", "MODE_SENSE_6", 0x1A, []),
        ("MODE_SENSE_10", "MODE_SENSE_10", 0x5A, []),
        ("ORWRITE_16", "ORWRITE_16", 0x8B, []),
        ("PERSISTENT_RESERVE_IN", "PERSISTENT_RESERVE_IN", 0x5E, SA_PERSISTENT_RESERVE_IN),
        ("PERSISTENT_RESERVE_OUT", "PERSISTENT_RESERVE_OUT", 0x5F, SA_PERSISTENT_RESERVE_OUT),
        ("PRE_FETCH_10", "PRE_FETCH_10", 0x34, []),
        ("PRE_FETCH_16", "PRE_FETCH_16", 0x90, []),
        ("PREVENT_ALLOW_MEDIUM_REMOVAL", "PREVENT_ALLOW_MEDIUM_REMOVAL", 0x1E, []),
        ("READ_6", "READ_6", 0x08, []),
        ("READ_10", "READ_10", 0x28, []),
        ("READ_12", "READ_12", 0xA8, []),
        ("READ_16", "READ_16", 0x88, []),
        ("READ_ATTRIBUTE", "READ_ATTRIBUTE", 0x8C, []),
        ("READ_BUFFER_10", "READ_BUFFER_10", 0x3C, []),
        ("READ_BUFFER_16", "READ_BUFFER_16", 0x9B, []),
        ("READ_CAPACITY_10", "READ_CAPACITY_10", 0x25, []),
        ("READ_DEFECT_DATA_10", "READ_DEFECT_DATA_10", 0x37, []),
        ("READ_DEFECT_DATA_12", "READ_DEFECT_DATA_12", 0xB7, []),
        ("READ_LONG_10", "READ_LONG_10", 0x3E, []),
        ("READ_LONG_16", "READ_LONG_16", 0x9E, [("READ_LONG_16", 0x11)]),
        ("REASSIGN_BLOCKS", "REASSIGN_BLOCKS", 0x07, []),
        ("RECEIVE_COPY_RESULTS", "RECEIVE_COPY_RESULTS", 0x84, []),
        ("RECEIVE_DIAGNOSTIC_RESULTS", "RECEIVE_DIAGNOSTIC_RESULTS", 0x1C, []),
        ("REDUNDANCY_GROUP_IN", "REDUNDANCY_GROUP_IN", 0xBA, []),
        ("REDUNDANCY_GROUP_OUT", "REDUNDANCY_GROUP_OT", 0xBB, []),
        ("REPORT_LUNS", "REPORT_LUNS", 0xA0, []),
        ("REQUEST_SENSE", "REQUEST_SENSE", 0x03, []),
        ("SECURITY_PROTOCOL_IN", "SECURITY_PROTOCOL_IN", 0xA2, []),
        ("SECURITY_PROTOCOL_OUT", "SECURITY_PROTOCOL_OUT", 0xB5, []),
        ("SEND_DIAGNOSTIC", "SEND_DIAGNOSTIC", 0x1D, []),
        ("SPARE_IN", "SPARE_IN", 0xBC, []),
        ("SPARE_OUT", "SPARE_OUT", 0xBD, []),
        ("START_STOP_UNIT", "START_STOP_UNIT", 0x1B, []),
        ("SYNCHRONIZE_CACHE_10", "SYNCHRONIZE_CACHE_10", 0x35, []),
        ("SYNCHRONIZE_CACHE_16", "SYNCHRONIZE_CACHE_16", 0x91, []),
        ("TEST_UNIT_READY", "TEST_UNIT_READY", 0x00, []),
        ("UNMAP", "UNMAP", 0x42, []),
        ("VERIFY_10", "VERIFY_10", 0x2F, []),
        ("VERIFY_12", "VERIFY_12", 0xAF, []),
        ("VERIFY_16", "VERIFY_16", 0x8F, []),
        ("VOLUME_SET_IN", "VOLUME_SET_IN", 0xBE, []),
        ("VOLUME_SET_OUT", "VOLUME_SET_OUT", 0xBF, []),
        ("WRITE_6", "WRITE_6", 0x0A, []),
        ("WRITE_10", "WRITE_10", 0x2A, []),
        ("WRITE_12", "WRITE_12", 0xAA, []),
        ("WRITE_16", "WRITE_16", 0x8A, []),
        ("WRITE_AND_VERIFY_10", "WRITE_AND_VERIFY_10", 0x2E, []),
        ("WRITE_AND_VERIFY_12", "WRITE_AND_VERIFY_12", 0xAE, []),
        ("WRITE_AND_VERIFY_16", "WRITE_AND_VERIFY_16", 0x8E, []),
        ("WRITE_ATTRIBUTE", "WRITE_ATTRIBUTE", 0x8D, []),
        ("WRITE_BUFFER", "WRITE_BUFFER", 0x3B, []),
        ("WRITE_LONG_10", "WRITE_LONG_10", 0x3F, []),
        ("WRITE_LONG_16", "WRITE_LONG_16", 0x9F, [("WRITE_LONG_16", 0x11)]),
        ("WRITE_SAME_10", "WRITE_SAME_10", 0x41, []),
        ("WRITE_SAME_16", "WRITE_SAME_16", 0x93, []),
        ("XDREAD_10", "XDREAD_10", 0x52, []),
        ("XDWRITE_10", "XDWRITE_10", 0x50, []),
        ("XDWRITEREAD_10", "XDWRITEREAD_10", 0x53, []),
        ("XPWRITE_10", "XPWRITE_10", 0x51, []),
    ],
    "ssc": [
        ("SSC_OPCODE_A4", "SSC_OPCODE_A4", 0xA4, SERVICE_ACTIONS),
        ("SSC_OPCODE_A3", "SSC_OPCODE_A3", 0xA3, SERVICE_ACTIONS),
        ("ACCESS_CONTROL_IN", "ACCESS_CONTROL_IN", 0x86, []),
        ("ACCESS_CONTROL_OUT", "ACCESS_CONTROL_OUT", 0x87, []),
        ("ERASE_16", "ERASE_16", 0x93, []),
        ("EXTENDED_COPY", "EXTENDED_COPY", 0x83, []),
        ("FORMAT_MEDIUM", "FORMAT_MEDIUM", 0x04, []),
        ("INQUIRY", "INQUIRY", 0x12, []),
        ("LOAD_UNLOAD", "LOAD_UNLOAD", 0x1B, []),
        ("LOCATE_16", "LOCATE_16", 0x92, []),
        ("LOG_SELECT", "LOG_SELECT", 0x4C, []),
        ("LOG_SENSE", "LOG_SENSE", 0x4D, []),
        ("MODE_SELECT_6", "MODE_SELECT_6", 0x15, []),
        ("MODE_SELECT_10", "MODE_SELECT_10", 0x55, []),
        ("MODE_SENSE_6", "MODE_SENSE_6", 0x1A, []),
        ("MODE_SENSE_10", "MODE_SENSE_10", 0x5A, []),
        ("MOVE_MEDIUM_ATTACHED", "MOVE_MEDIUM_ATTACHED", 0xA7, []),
        ("PERSISTENT_RESERVE_IN", "PERSISTENT_RESERVE_IN", 0x5E, SA_PERSISTENT_RESERVE_IN),
        ("PERSISTENT_RESERVE_OUT", "PERSISTENT_RESERVE_OUT", 0x5F, SA_PERSISTENT_RESERVE_OUT),
        ("PREVENT_ALLOW_MEDIUM_REMOVAL", "PREVENT_ALLOW_MEDIUM_REMOVAL", 0x1E, []),
        ("READ_6", "READ_6", 0x08, []),
        ("READ_16", "READ_16", 0x88, []),
        ("READ_ATTRIBUTE", "READ_ATTRIBUTE", 0x8C, []),
        ("READ_BLOCK_LIMITS", "READ_BLOCK_LIMITS", 0x05, []),
        ("READ_BUFFER_10", "READ_BUFFER_10", 0x3C, []),
        ("READ_BUFFER_16", "READ_BUFFER_16", 0x9B, []),
        ("READ_ELEMENT_STATUS_ATTACHED", "READ_ELEMENT_STATUS_ATTACHED", 0xB4, []),
        ("READ_POSITION", "READ_POSITION", 0x34, []),
        ("READ_REVERSE_6", "READ_REVERSE_6", 0x0F, []),
        ("READ_REVERSE_16", "READ_REVERSE_16", 0x81, []),
        ("RECEIVE_COPY_RESULTS", "RECEIVE_COPY_RESULTS", 0x84, []),
        ("RECEIVE_DIAGNOSTIC_RESULTS", "RECEIVE_DIAGNOSTIC_RESULTS", 0x1C, []),
        ("RECOVER_BUFFERED_DATA", "RECOVER_BUFFERED_DATA", 0x14, []),
        ("REPORT_ALIAS", "REPORT_ALIAS", 0xA3, [("REPORT_ALIAS", 0x0B)]),
        ("REPORT_DENSITY_SUPPORT", "REPORT_DENSITY_SUPPORT", 0x44, []),
        ("REPORT_LUNS", "REPORT_LUNS", 0xA0, []),
        ("REQUEST_SENSE", "REQUEST_SENSE", 0x03, []),
        ("REWIND", "REWIND", 0x01, []),
        ("SEND_DIAGNOSTIC", "SEND_DIAGNOSTIC", 0x1D, []),
        ("SET_CAPACITY", "SET_CAPACITY", 0x0B, []),
        ("SPACE_6", "SPACE_6", 0x11, []),
        ("SPACE_16", "SPACE_16", 0x91, []),
        ("TEST_UNIT_READY", "TEST_UNIT_READY", 0x00, []),
        ("VERIFY_6", "VERIFY_6", 0x13, []),
        ("VERIFY_16", "VERIFY_16", 0x8F, []),
        ("WRITE_6", "WRITE_6", 0x0A, []),
        ("WRITE_16", "WRITE_16", 0x8A, []),
        ("WRITE_ATTRIBUTE", "WRITE_ATTRIBUTE", 0x8D, []),
        ("WRITE_BUFFER", "WRITE_BUFFER", 0x3B, []),
        ("WRITE_FILEMARKS_6", "WRITE_FILEMARKS_6", 0x10, []),
        ("WRITE_FILEMARKS_16", "WRITE_FILEMARKS_16", 0x80, []),
    ],
    "smc": [
        ("SMC_OPCODE_A4", "SMC_OPCODE_A4", 0xA4, SERVICE_ACTIONS),
        ("SMC_OPCODE_A3", "SMC_OPCODE_A3", 0xA3, SERVICE_ACTIONS),
        ("ACCESS_CONTROL_IN", "ACCESS_CONTROL_IN", 0x86, []),
        ("ACCESS_CONTROL_OUT", "ACCESS_CONTROL_OUT", 0x87, []),
        ("EXCHANGE_MEDIUM", "EXCHANGE_MEDIUM", 0xA6, []),
        ("INITIALIZE_ELEMENT_STATUS", "INITIALIZE_ELEMENT_STATUS", 0x07, []),
        ("INITIALIZE_ELEMENT_STATUS_WITH_RANGE", "INITIALIZE_ELEMENT_STATUS_WITH_RANGE", 0x37, []),
        ("INQUIRY", "INQUIRY", 0x12, []),
        ("LOG_SELECT", "LOG_SELECT", 0x4C, []),
        ("LOG_SENSE", "LOG_SENSE", 0x4D, []),
        ("MAINTENANCE_IN", "MAINTENANCE_IN", 0xA3, SA_MAINTENANCE_IN),
        ("MAINTENANCE_OUT", "MAINTENANCE_OUT", 0xA4, SA_MAINTENANCE_OUT),
        ("MODE_SELECT_6", "MODE_SELECT_6", 0x15, []),
        ("MODE_SELECT_10", "MODE_SELECT_10", 0x55, []),
        ("MODE_SENSE_6", "MODE_SENSE_6", 0x1A, []),
        ("MODE_SENSE_10", "MODE_SENSE_10", 0x5A, []),
        ("MOVE_MEDIUM", "MOVE_MEDIUM", 0xA5, []),
        ("OPEN_CLOSE_IMPORT_EXPORT_ELEMENT", "SMC_OPCODE_1B", 0x1B, SERVICE_ACTIONS),
        ("PERSISTENT_RESERVE_IN", "PERSISTENT_RESERVE_IN", 0x5E, SA_PERSISTENT_RESERVE_IN),
        ("PERSISTENT_RESERVE_OUT", "PERSISTENT_RESERVE_OUT", 0x5F, SA_PERSISTENT_RESERVE_OUT),
        ("PREVENT_ALLOW_MEDIUM_REMOVAL", "PREVENT_ALLOW_MEDIUM_REMOVAL", 0x1E, []),
        ("POSITION_TO_ELEMENT", "POSITION_TO_ELEMENT", 0x2B, []),
        ("READ_ATTRIBUTE", "READ_ATTRIBUTE", 0x8C, []),
        ("READ_BUFFER_10", "READ_BUFFER_10", 0x3C, []),
        ("READ_BUFFER_16", "READ_BUFFER_16", 0x9B, []),
        ("READ_ELEMENT_STATUS", "READ_ELEMENT_STATUS", 0xB8, []),
        ("RECEIVE_DIAGNOSTIC_RESULTS", "RECEIVE_DIAGNOSTIC_RESULTS", 0x1C, []),
        ("REDUNDANCY_GROUP_IN", "REDUNDANCY_GROUP_IN", 0xBA, []),
        ("REDUNDANCY_GROUP_OUT", "REDUNDANCY_GROUP_OUT", 0xBB, []),
        ("RELEASE_6", "RELEASE_6", 0x17, []),
        ("RELEASE_10", "RELEASE_10", 0x57, []),
        ("REPORT_LUNS", "REPORT_LUNS", 0xA0, []),
        ("REPORT_VOLUME_TYPES_SUPPORTED", "REPORT_VOLUME_TYPES_SUPPORTED", 0x44, []),
        ("REQUEST_VOLUME_ELEMENT_ADDRESS", "REQUEST_VOLUME_ELEMENT_ADDRESS", 0xB5, []),
        ("REQUEST_SENSE", "REQUEST_SENSE", 0x03, []),
        ("RESERVE_6", "RESERVE_6", 0x16, []),
        ("RESERVE_10", "RESERVE_10", 0x56, []),
        ("SEND_DIAGNOSTIC", "SEND_DIAGNOSTIC", 0x1D, []),
        ("SEND_VOLUME_TAG", "SEND_VOLUME_TAG", 0xB6, []),
        ("SPARE_IN", "SPARE_IN", 0xBC, []),
        ("SPARE_OUT", "SPARE_OUT", 0xBD, []),
        ("TEST_UNIT_READY", "TEST_UNIT_READY", 0x00, []),
        ("VOLUME_SET_IN", "VOLUME_SET_IN", 0xBE, []),
        ("VOLUME_SET_OUT", "VOLUME_SET_OUT", 0xBF, []),
        ("WRITE_ATTRIBUTE", "WRITE_ATTRIBUTE", 0x8D, []),
        ("WRITE_BUFFER", "WRITE_BUFFER", 0x3B, []),
    ],
    "mmc": [
        ("BLANK", "BLANK", 0xA1, []),
        ("CLOSE_TRACK_SESSION", "CLOSE_TRACK_SESSION", 0x5B, []),
        ("FORMAT_UNIT", "FORMAT_UNIT", 0x04, []),
        ("GET_CONFIGURATION", "GET_CONFIGURATION", 0x46, []),
        ("GET_EVENT_STATUS_NOTIFICATION", "GET_EVENT_STATUS_NOTIFICATION", 0x4A, []),
        ("GET_PERFORMANCE", "GET_PERFORMANCE", 0xAC, []),
        ("INQUIRY", "INQUIRY", 0x12, []),
        ("LOAD_UNLOAD_MEDIUM", "LOAD_UNLOAD_MEDIUM", 0xA6, []),
        ("MECHANISM_STATUS", "MECHANISM_STATUS", 0xBD, []),
        ("MODE_SELECT_10", "MODE_SELECT_10", 0x55, []),
        ("MODE_SENSE_10", "MODE_SENSE_10", 0x5A, []),
        ("PREVENT_ALLOW_MEDIUM_REMOVAL", "PREVENT_ALLOW_MEDIUM_REMOVAL", 0x1E, []),
        ("READ_10", "READ_10", 0x28, []),
        ("READ_12", "READ_12", 0xA8, []),
        ("READ_BUFFER_10", "READ_BUFFER_10", 0x3C, []),
        ("READ_BUFFER_16", "READ_BUFFER_16", 0x9B, []),
        ("READ_BUFFER_CAPACITY", "READ_BUFFER_CAPACITY", 0x5C, []),
        ("READ_CAPACITY", "READ_CAPACITY", 0x25, []),
        ("READ_CD", "READ_CD", 0xBE, []),
        ("READ_CD_MSF", "READ_CD_MSF", 0xB9, []),
        ("READ_DISC_INFORMATION", "READ_DISC_INFORMATION", 0x51, []),
        ("READ_DISC_STRUCTURE", "READ_DISC_STRUCTURE", 0xAD, []),
        ("READ_FORMAT_CAPACITIES", "READ_FORMAT_CAPACITIES", 0x23, []),
        ("READ_TOC_PMA_ATIP", "READ_TOC_PMA_ATIP", 0x43, []),
        ("READ_TRACK_INFORMATION", "READ_TRACK_INFORMATION", 0x52, []),
        ("REPAIR_TRACK", "REPAIR_TRACK", 0x58, []),
        ("REPORT_KEY", "REPORT_KEY", 0xA4, []),
        ("REPORT_LUNS", "REPORT_LUNS", 0xA0, []),
        ("REQUEST_SENSE", "REQUEST_SENSE", 0x03, []),
        ("RESERVE_TRACK", "RESERVE_TRACK", 0x53, []),
        ("SECURITY_PROTOCOL_IN", "SECURITY_PROTOCOL_IN", 0xA2, []),
        ("SECURITY_PROTOCOL_OUT", "SECURITY_PROTOCOL_OUT", 0xB5, []),
        ("SEEK_10", "SEEK_10", 0x2B, []),
        ("SEND_CUE_SHEET", "SEND_CUE_SHEET", 0x5D, []),
        ("SEND_DISC_STRUCTURE", "SEND_DISC_STRUCTURE", 0xBF, []),
        ("SEND_KEY", "SEND_KEY", 0xA3, []),
        ("SEND_OPC_INFORMATION", "SEND_OPC_INFORMATION", 0x54, []),
        ("SET_CD_SPEED", "SET_CD_SPEED", 0xBB, []),
        ("SET_READ_AHEAD", "SET_READ_AHEAD", 0xA7, []),
        ("SET_STREAMING", "SET_STREAMING", 0xB6, []),
        ("START_STOP_UNIT", "START_STOP_UNIT", 0x1B, []),
        ("SYNCHRONIZE_CACHE", "SYNCHRONIZE_CACHE", 0x35, []),
        ("TEST_UNIT_READY", "TEST_UNIT_READY", 0x00, []),
        ("VERIFY_10", "VERIFY_10", 0x2F, []),
        ("WRITE_10", "WRITE_10", 0x2A, []),
        ("WRITE_12", "WRITE_12", 0xAA, []),
        ("WRITE_AND_VERIFY_10", "WRITE_AND_VERIFY_10", 0x2E, []),
        ("WRITE_BUFFER", "WRITE_BUFFER", 0x3B, []),
    ],
}

FAILURES = []
CHECKS = [0]


def check(cond, msg):
    CHECKS[0] += 1
    if not cond:
        FAILURES.append(msg)


def raises(exc, func, *args, **kwargs):
    """True if func(*args) raises exactly an exception of (sub)class exc"""
    try:
        func(*args, **kwargs)
    except exc:
        return True
    except BaseException:  # noqa
        return False
    return False


def enum_items(enum):
    return [(key, getattr(enum, key)) for key in enum.keys]


def expected_cdb_length(code):
    """the T10 rule, written independently: group code = top three bits"""
    if isinstance(code, int) and 0 <= code <= 0xFF:
        return {0: 6, 1: 10, 2: 10, 4: 16, 5: 12}.get(code >> 5)
    return None


# ---------------------------------------------------------------------------
# 1. operation codes / names / service actions of every command set
# ---------------------------------------------------------------------------
def check_command_sets():
    enums = {"spc": spc, "sbc": sbc, "ssc": ssc, "smc": smc, "mmc": mmc}
    seen = {}
    all_objects = []
    for set_name, rows in COMMAND_SETS.items():
        enum = enums[set_name]
        table = getattr(enum_command, set_name + "_opcodes")
        check(isinstance(enum, Enum), "%s is no Enum" % set_name)
        check(isinstance(table, dict), "%s_opcodes is no dict" % set_name)
        check(
            enum.keys == [row[0] for row in rows],
            "%s: keys differ: %r" % (set_name, enum.keys),
        )
        check(
            list(table.keys()) == [row[0] for row in rows],
            "%s_opcodes: keys differ" % set_name,
        )
        for attr, name, code, actions in rows:
            where = "%s.%s" % (set_name, attr)
            op = getattr(enum, attr)
            all_objects.append(op)
            check(isinstance(op, OpCode), where + " is no OpCode")
            check(table[attr] is op, where + " differs from dict entry")
            check(op.value == code, where + ".value == %r" % (op.value,))
            check(type(op.value) is int, where + ".value is no int")
            check(op.name == name, where + ".name == %r" % (op.name,))
            check(type(op.name) is str, where + ".name is no str")
            text = "%s - %x" % (name, code)
            check(str(op) == text, where + " str() == %r" % str(op))
            check(repr(op) == text, where + " repr() == %r" % repr(op))
            check("%s" % op == text, where + " %s formatting")
            check("{}".format(op) == text, where + " {} formatting")
            check("{!r}".format(op) == text, where + " {!r} formatting")
            # service actions
            sa = op.serviceaction
            check(isinstance(sa, Enum), where + ".serviceaction is no Enum")
            check(
                enum_items(sa) == list(actions),
                where + ".serviceaction == %r" % (enum_items(sa),),
            )
            for sa_name, sa_value in actions:
                check(
                    getattr(sa, sa_name) == sa_value,
                    where + ".serviceaction.%s" % sa_name,
                )
                # reverse lookup returns the first name having that value
                first = [n for n, v in actions if v == sa_value][0]
                check(sa[sa_value] == first, where + ".serviceaction[%r]" % sa_value)
            check(sa[0x1234] == "", where + ".serviceaction[unknown]")
            check(
                raises(AttributeError, getattr, sa, "NO_SUCH_ACTION"),
                where + ".serviceaction.NO_SUCH_ACTION",
            )
            # the same name has the same value in every command set
            if attr in seen:
                check(
                    seen[attr][1] == code and op.value == seen[attr][2].value,
                    "%s has %#x but %s has %#x"
                    % (where, op.value, seen[attr][0], seen[attr][1]),
                )
            else:
                seen[attr] = (where, code, op)
            # reverse lookup of the OpCode object in its Enum
            check(enum[op] == attr, where + " reverse lookup by object")
            # CDB length of the code
            length = expected_cdb_length(code)
            if length is None:
                check(
                    raises(SCSICommand.OpcodeException, SCSICommand.init_cdb, op),
                    where + " init_cdb should refuse",
                )
            else:
                cdb = SCSICommand.init_cdb(op)
                check(
                    type(cdb) is bytearray and cdb == bytearray(length),
                    where + " init_cdb gives %r" % (cdb,),
                )
        check(
            raises(AttributeError, getattr, enum, "NO_SUCH_COMMAND"),
            set_name + ".NO_SUCH_COMMAND",
        )
        check(enum[0x12] == "", set_name + "[0x12] (ints are no members)")
    # every entry is an object of its own (setters must not alias)
    check(
        len(set(id(o) for o in all_objects)) == len(all_objects),
        "OpCode objects are shared between entries",
    )
    check(
        len(set(id(o.serviceaction) for o in all_objects)) == len(all_objects),
        "service action Enums are shared between entries",
    )
    # a few T10 values spelled out by hand
    by_hand = [
        (spc.TEST_UNIT_READY, 0x00), (spc.REQUEST_SENSE, 0x03), (spc.INQUIRY, 0x12),
        (sbc.INQUIRY, 0x12), (ssc.INQUIRY, 0x12), (smc.INQUIRY, 0x12),
        (mmc.INQUIRY, 0x12), (sbc.READ_6, 0x08), (sbc.READ_10, 0x28),
        (sbc.READ_12, 0xA8), (sbc.READ_16, 0x88), (sbc.WRITE_6, 0x0A),
        (sbc.WRITE_10, 0x2A), (sbc.WRITE_12, 0xAA), (sbc.WRITE_16, 0x8A),
        (sbc.READ_CAPACITY_10, 0x25), (sbc.SBC_OPCODE_9E, 0x9E),
        (sbc.SBC_OPCODE_7F, 0x7F), (sbc.WRITE_SAME_10, 0x41),
        (sbc.WRITE_SAME_16, 0x93), (sbc.UNMAP, 0x42), (sbc.VOLUME_SET_IN, 0xBE),
        (sbc.VOLUME_SET_OUT, 0xBF), (sbc.SYNCHRONIZE_CACHE_10, 0x35),
        (sbc.SYNCHRONIZE_CACHE_16, 0x91), (sbc.ATA_PASS_THROUGH_12, 0xA1),
        (sbc.ATA_PASS_THROUGH_16, 0x85), (spc.MODE_SENSE_6, 0x1A),
        (spc.MODE_SENSE_10, 0x5A), (spc.MODE_SELECT_6, 0x15),
        (spc.MODE_SELECT_10, 0x55), (spc.REPORT_LUNS, 0xA0),
        (spc.PERSISTENT_RESERVE_IN, 0x5E), (spc.PERSISTENT_RESERVE_OUT, 0x5F),
        (spc.EXTENDED_COPY, 0x83), (spc.RECEIVE_COPY_RESULTS, 0x84),
        (smc.MOVE_MEDIUM, 0xA5), (smc.EXCHANGE_MEDIUM, 0xA6),
        (smc.READ_ELEMENT_STATUS, 0xB8), (smc.POSITION_TO_ELEMENT, 0x2B),
        (smc.INITIALIZE_ELEMENT_STATUS, 0x07),
        (smc.INITIALIZE_ELEMENT_STATUS_WITH_RANGE, 0x37),
        (smc.OPEN_CLOSE_IMPORT_EXPORT_ELEMENT, 0x1B), (smc.MAINTENANCE_IN, 0xA3),
        (smc.MAINTENANCE_OUT, 0xA4), (ssc.REWIND, 0x01), (ssc.SPACE_6, 0x11),
        (ssc.LOCATE_16, 0x92), (ssc.READ_ELEMENT_STATUS_ATTACHED, 0xB4),
        (mmc.READ_CD, 0xBE), (mmc.READ_DISC_INFORMATION, 0x51),
        (mmc.READ_TOC_PMA_ATIP, 0x43), (mmc.GET_CONFIGURATION, 0x46),
        (mmc.BLANK, 0xA1), (mmc.SYNCHRONIZE_CACHE, 0x35),
    ]
    for op, code in by_hand:
        check(op.value == code, "by hand: %s != %#x" % (op, code))
    check(smc.MAINTENANCE_IN.serviceaction.REPORT_DEVICE_IDENTIFICATION == 0x07, "sa 1")
    check(sbc.SBC_OPCODE_9E.serviceaction.READ_CAPACITY_16 == 0x10, "sa 2")
    check(sbc.SBC_OPCODE_9E.serviceaction.GET_LBA_STATUS == 0x12, "sa 3")
    check(sbc.SBC_OPCODE_A3.serviceaction.REPORT_TARGET_PORT_GROUPS == 0x0A, "sa 4")
    check(sbc.SBC_OPCODE_A3.serviceaction.REPORT_PRIORITY == 0x0E, "sa 5")
    check(spc.SPC_OPCODE_A3.serviceaction.REPORT_SUPPORTED_OPERATION_CODES == 0x0C, "sa 6")
    check(spc.PERSISTENT_RESERVE_IN.serviceaction.READ_FULL_STATUS == 0x03, "sa 7")
    check(spc.PERSISTENT_RESERVE_OUT.serviceaction.REGISTER_AND_MOVE == 0x07, "sa 8")
    check(sbc.READ_LONG_16.serviceaction.READ_LONG_16 == 0x11, "sa 9")
    check(smc.OPEN_CLOSE_IMPORT_EXPORT_ELEMENT.serviceaction.CLOSE_IMPORTEXPORT_ELEMENT == 0x01, "sa 10")
    # the generator used by the library to find "XXX_OPCODE_9E" style entries
    check([o.value for o in get_opcode(sbc, "9E")] == [0x9E], "get_opcode 9E")
    check([o.value for o in get_opcode(sbc, "A3")] == [0xA3], "get_opcode A3 sbc")
    check([o.name for o in get_opcode(smc, "A4")] == ["SMC_OPCODE_A4"], "get_opcode A4")
    check([o.value for o in get_opcode(sbc, "16")] == [
        0x85, 0x8B, 0x90, 0x88, 0x9B, 0x9E, 0x91, 0x8F, 0x8A, 0x8E, 0x9F, 0x93,
    ], "get_opcode 16: %r" % [hex(o.value) for o in get_opcode(sbc, "16")])
    check(list(get_opcode(mmc, "ZZ")) == [], "get_opcode ZZ")


# ---------------------------------------------------------------------------
# 2. plain dictionaries, status codes, obsolete Enums
# ---------------------------------------------------------------------------
def check_plain_tables():
    pairs = [
        ("service_actions", SERVICE_ACTIONS),
        ("sa_maintenance_in", SA_MAINTENANCE_IN),
        ("sa_maintenance_out", SA_MAINTENANCE_OUT),
        ("sa_persistent_reserve_in", SA_PERSISTENT_RESERVE_IN),
        ("sa_persistent_reserve_out", SA_PERSISTENT_RESERVE_OUT),
        ("scsi_status", SCSI_STATUS_),
        ("opcodes", OPCODES),
        ("service_action_ins", SERVICE_ACTION_INS),
    ]
    for name, expected in pairs:
        table = getattr(enum_command, name)
        check(type(table) is dict, name + " is no dict")
        check(list(table.items()) == expected, name + " differs: %r" % (table,))
    check(enum_command.action_codes == {""}, "action_codes")
    for enum, expected, label in (
        (SCSI_STATUS, SCSI_STATUS_, "SCSI_STATUS"),
        (OPCODE, OPCODES, "OPCODE"),
        (SERVICE_ACTION_IN, SERVICE_ACTION_INS, "SERVICE_ACTION_IN"),
    ):
        check(isinstance(enum, Enum), label + " is no Enum")
        check(enum_items(enum) == expected, label + " differs: %r" % enum_items(enum))
        check(getattr(enum_command, label) is enum, label + " identity")
        for key, value in expected:
            check(getattr(enum, key) == value, "%s.%s" % (label, key))
            check(enum[value] == key, "%s[%#x]" % (label, value))
    # every possible status byte
    by_value = dict((v, k) for k, v in SCSI_STATUS_)
    for status in range(-2, 0x102):
        check(
            SCSI_STATUS[status] == by_value.get(status, ""),
            "SCSI_STATUS[%r] == %r" % (status, SCSI_STATUS[status]),
        )
    check(SCSI_STATUS[None] == "" and SCSI_STATUS["GOOD"] == "", "SCSI_STATUS[odd]")
    check(SCSI_STATUS[2.0] == "CHECK_CONDITION", "SCSI_STATUS[2.0]")
    check(SCSI_STATUS[False] == "GOOD", "SCSI_STATUS[False]")
    hand = dict(GOOD=0x00, CHECK_CONDITION=0x02, CONDITIONS_MET=0x04, BUSY=0x08,
                RESERVATION_CONFLICT=0x18, TASK_SET_FULL=0x28, ACA_ACTIVE=0x30,
                TASK_ABORTED=0x40)
    for key, value in hand.items():
        check(getattr(SCSI_STATUS, key) == value, "status by hand " + key)
    # the obsolete OPCODE enum agrees with the command sets
    for key, value in OPCODES:
        for enum in (spc, sbc, ssc, smc, mmc):
            if key in enum.keys:
                check(getattr(enum, key).value == value, "OPCODE.%s vs set" % key)
    check(OPCODE.SERVICE_ACTION_IN == sbc.SBC_OPCODE_9E.value, "SERVICE_ACTION_IN 9E")
    for key, value in SERVICE_ACTION_INS:
        check(getattr(sbc.SBC_OPCODE_9E.serviceaction, key) == value, "SAI " + key)
    # nothing public appeared or vanished
    public = sorted(n for n in dir(enum_command) if not n.startswith("_"))
    check(
        public
        == sorted(
            [
                "Enum", "OpCode", "OPCODE", "SCSI_STATUS", "SERVICE_ACTION_IN",
                "action_codes", "mmc", "mmc_opcodes", "opcodes",
                "sa_maintenance_in", "sa_maintenance_out",
                "sa_persistent_reserve_in", "sa_persistent_reserve_out", "sbc",
                "sbc_opcodes", "scsi_status", "service_action_ins",
                "service_actions", "smc", "smc_opcodes", "spc", "spc_opcodes",
                "ssc", "ssc_opcodes",
            ]
        ),
        "public names of scsi_enum_command: %r" % (public,),
    )


# ---------------------------------------------------------------------------
# 3. CDB length from the operation code
# ---------------------------------------------------------------------------
class IntLike(int):
    pass


class Holder(object):
    """anything with a .value works as opcode for init_cdb"""

    def __init__(self, value):
        self.value = value


class MyCommand(SCSICommand):
    _cdb_bits = {"opcode": [0xFF, 0]}


def check_cdb_length():
    exc = SCSICommand.OpcodeException
    check(issubclass(exc, Exception), "OpcodeException is no Exception")
    check(MyCommand.OpcodeException is not exc, "per class exception")
    codes = list(range(-300, 600)) + [
        -(2 ** 31), -(2 ** 64), 2 ** 8, 2 ** 16, 2 ** 31, 2 ** 32 + 0x12, 2 ** 64,
        10 ** 30,
    ]
    for code in codes:
        length = expected_cdb_length(code)
        for op in (OpCode("X", code, {}), Holder(code), OpCode("X", IntLike(code), {})):
            for func in (SCSICommand.init_cdb, MyCommand.init_cdb):
                if length is None:
                    check(raises(exc, func, op), "init_cdb(%r) should refuse" % code)
                    check(
                        not raises(MyCommand.OpcodeException, func, op),
                        "init_cdb(%r) raised the subclass exception" % code,
                    )
                else:
                    cdb = func(op)
                    check(
                        type(cdb) is bytearray and len(cdb) == length and not any(cdb),
                        "init_cdb(%r) == %r" % (code, cdb),
                    )
                    check(func(op) is not cdb, "init_cdb(%r) returns a shared buffer" % code)
        # through the constructor
        op = OpCode("SOME_COMMAND", code, {"ACTION": 1})
        if length is None:
            check(raises(exc, SCSICommand, op, 0, 0), "SCSICommand(%r) should refuse" % code)
            check(raises(exc, MyCommand, op, 3, 4), "MyCommand(%r) should refuse" % code)
        else:
            for cls in (SCSICommand, MyCommand):
                cmd = cls(op, 3, 4)
                check(cmd.opcode is op, "cmd.opcode")
                check(
                    type(cmd.cdb) is bytearray and cmd.cdb == bytearray(length),
                    "%s(%r).cdb == %r" % (cls.__name__, code, cmd.cdb),
                )
                check(cmd.dataout == bytearray(3) and cmd.datain == bytearray(4), "buffers")
                check(cmd.result == {} and cmd.pagecode is None, "result/pagecode")
                check(repr(cmd) == cls.__name__, "repr(cmd)")
            cmd = MyCommand(op, 0, 0)
            built = cmd.build_cdb(opcode=code)
            check(
                len(built) == length and built[0] == code and not any(built[1:]),
                "build_cdb(%r) == %r" % (code, built),
            )
            check(MyCommand.unmarshall_cdb(built) == {"opcode": code}, "unmarshall_cdb")
            check(MyCommand.marshall_cdb({"opcode": code}) == built, "marshall_cdb")
            # instance access to the static helper
            check(len(cmd.init_cdb(op)) == length, "cmd.init_cdb")
    # group boundaries by hand
    for code, length in (
        (0x00, 6), (0x1F, 6), (0x20, 10), (0x3F, 10), (0x40, 10), (0x5F, 10),
        (0x80, 16), (0x9F, 16), (0xA0, 12), (0xBF, 12),
    ):
        check(len(SCSICommand.init_cdb(Holder(code))) == length, "boundary %#x" % code)
    for code in (0x60, 0x7E, 0x7F, 0xC0, 0xDF, 0xE0, 0xFF, 0x100, -1):
        check(raises(exc, SCSICommand.init_cdb, Holder(code)), "refused %#x" % code)
    # bools are ints
    check(len(SCSICommand.init_cdb(Holder(True))) == 6, "init_cdb(True)")
    check(len(SCSICommand.init_cdb(Holder(False))) == 6, "init_cdb(False)")
    # things that are no numbers are a TypeError, no OpcodeException
    for junk in (None, "12", b"\x12", [0x12], (0x12,), {}, object()):
        check(
            raises(TypeError, SCSICommand.init_cdb, Holder(junk)),
            "init_cdb(%r) should be a TypeError" % (junk,),
        )
    check(raises(AttributeError, SCSICommand.init_cdb, 0x12), "init_cdb(int)")
    check(raises(AttributeError, SCSICommand.init_cdb, None), "init_cdb(None)")
    # all 256 codes of all sets: the library's own names fall in the right group
    for enum in (spc, sbc, ssc, smc, mmc):
        for key in enum.keys:
            op = getattr(enum, key)
            length = expected_cdb_length(op.value)
            if key.endswith(("_6", "_10", "_12", "_16")) and "OPCODE" not in key:
                wanted = int(key.rsplit("_", 1)[1])
                check(length == wanted, "%s is in the %r byte group" % (key, length))


# ---------------------------------------------------------------------------
# 4. OpCode objects
# ---------------------------------------------------------------------------
def check_opcode_class():
    op = OpCode("WRITE_FOO", 0xAB, {"A": 1, "B": 2, "C": 1})
    check((op.name, op.value) == ("WRITE_FOO", 0xAB), "OpCode ctor")
    check(str(op) == "WRITE_FOO - ab" and repr(op) == "WRITE_FOO - ab", "OpCode str")
    check(isinstance(op.serviceaction, Enum), "OpCode sa type")
    check(enum_items(op.serviceaction) == [("A", 1), ("B", 2), ("C", 1)], "OpCode sa")
    check(op.serviceaction[1] == "A" and op.serviceaction[3] == "", "OpCode sa lookup")
    # keyword construction
    op2 = OpCode(serviceaction={}, code=0x05, name="N")
    check((op2.name, op2.value, op2.serviceaction.keys) == ("N", 5, []), "OpCode kw")
    check(str(op2) == "N - 5", "OpCode str small")
    check(str(OpCode("Z", 0, {})) == "Z - 0", "OpCode str zero")
    check(str(OpCode("Z", 0x1FF, {})) == "Z - 1ff", "OpCode str big")
    check(str(OpCode("Z", -0x1F, {})) == "Z - -1f", "OpCode str negative")
    check(str(OpCode(None, True, {})) == "None - 1", "OpCode str odd")
    check(str(OpCode(("a",), 10, {})) == "('a',) - a", "OpCode str tuple name")
    check(raises(TypeError, str, OpCode("Z", "12", {})), "OpCode str of str value")
    check(raises(TypeError, str, OpCode("Z", None, {})), "OpCode str of None value")
    # setters
    op.name = "OTHER"
    op.value = 0x28
    check((op.name, op.value, str(op)) == ("OTHER", 0x28, "OTHER - 28"), "setters")
    check(len(SCSICommand.init_cdb(op)) == 10, "init_cdb follows the setter")
    sa = Enum(X=9)
    op.serviceaction = sa
    check(op.serviceaction is sa, "serviceaction setter")
    op.serviceaction = None
    check(op.serviceaction is None, "serviceaction setter None")
    # the setters work on the instance only
    other = OpCode("O", 1, {})
    check((other.name, other.value) == ("O", 1), "instances are independent")
    # the service action dict is copied
    source = {"A": 1}
    op3 = OpCode("Q", 2, source)
    source["B"] = 2
    check(op3.serviceaction.keys == ["A"], "service actions are copied")
    op4 = OpCode("Q", 2, enum_command.service_actions)
    op4.serviceaction.add("NEW_ONE", 0x77)
    check("NEW_ONE" not in enum_command.service_actions, "module dict untouched")
    check("NEW_ONE" not in sbc.SBC_OPCODE_9E.serviceaction.keys, "other Enum untouched")
    # bad service action arguments
    for junk in (None, 5, "abc", [("A", 1)], ("A",)):
        check(
            raises(NotSupportedArgumentError, OpCode, "N", 1, junk),
            "OpCode(serviceaction=%r)" % (junk,),
        )
    check(raises(TypeError, OpCode), "OpCode()")
    check(raises(TypeError, OpCode, "N", 1), "OpCode(2 args)")
    check(raises(TypeError, OpCode, "N", 1, {}, 4), "OpCode(4 args)")
    for prop in ("name", "value", "serviceaction"):
        check(isinstance(getattr(OpCode, prop), property), "OpCode.%s property" % prop)
    check(raises(AttributeError, delattr, op, "value"), "del op.value")
    # subclass keeps working
    class Sub(OpCode):
        def __str__(self):
            return "sub"

    sub = Sub("S", 0x12, {})
    check(str(sub) == "sub" and repr(sub) == "S - 12", "OpCode subclass str/repr")
    check(sub.value == 0x12 and len(SCSICommand.init_cdb(sub)) == 6, "OpCode subclass")


# ---------------------------------------------------------------------------
# 5. the Enum helper
# ---------------------------------------------------------------------------
def check_enum_class():
    e = Enum(a=1, b=2, c=1)
    check(e.keys == ["a", "b", "c"], "Enum kw keys")
    check((e.a, e.b, e.c) == (1, 2, 1), "Enum kw values")
    check(e[1] == "a" and e[2] == "b" and e[3] == "" and e["a"] == "", "Enum lookup")
    d = Enum({"x": 0x10, "y": 0x20})
    check(d.keys == ["x", "y"] and d.x == 0x10 and d[0x20] == "y", "Enum dict")
    check(type(d.keys) is list and d.keys is not d.keys, "Enum.keys is a fresh list")
    check(isinstance(d, Enum) and isinstance(d, type) and d.__name__ == "Enum", "Enum type")
    # a dict wins over keyword arguments
    both = Enum({"x": 1}, y=2)
    check(both.keys == ["x"], "Enum dict and kw")
    check(Enum({}).keys == [] and Enum({})[0] == "", "Enum empty dict")
    check(Enum({}, z=1).keys == [], "Enum empty dict and kw")
    check(Enum(1, 2, z=3).keys == ["z"], "Enum junk positional and kw")

    class MyDict(dict):
        pass

    check(raises(NotSupportedArgumentError, Enum, MyDict(a=1)), "Enum dict subclass")
    check(Enum(MyDict(a=1), b=2).keys == ["b"], "Enum dict subclass and kw")
    for args in ((), (1,), ("a",), ([("a", 1)],), ({"a": 1}, {"b": 2}), (None,)):
        check(raises(NotSupportedArgumentError, Enum, *args), "Enum%r" % (args,))
    check(issubclass(NotSupportedArgumentError, Exception), "exception type")
    # source dict is copied
    src = {"k": 1}
    en = Enum(src)
    src["l"] = 2
    check(en.keys == ["k"], "Enum copies its dict")
    # dunder keys are hidden, single underscore keys are not
    hidden = Enum({"__x": 1, "_y": 2, "z__": 3, "__w__": 4})
    check(hidden.keys == ["_y", "z__"], "Enum hidden keys: %r" % hidden.keys)
    check(hidden[1] == "" and hidden[2] == "_y" and hidden[3] == "z__", "Enum hidden lookup")
    # values of any kind
    obj = object()
    mixed = Enum({"n": None, "o": obj, "s": "str", "t": (1, 2), "f": 1.0, "l": [1]})
    check(mixed[None] == "n" and mixed[obj] == "o" and mixed["str"] == "s", "Enum mixed 1")
    check(mixed[(1, 2)] == "t" and mixed[1] == "f" and mixed[[1]] == "l", "Enum mixed 2")
    check(mixed[True] == "f" and mixed[[]] == "", "Enum mixed 3")
    # add / remove
    e.add("d", 4)
    check(e.keys == ["a", "b", "c", "d"] and e.d == 4 and e[4] == "d", "Enum.add")
    check(raises(KeyError, e.add, "a", 5) and e.a == 1, "Enum.add existing")
    try:
        e.add("b", 7)
    except KeyError as ex:
        check(ex.args == ("key b already exist",), "Enum.add message %r" % (ex.args,))
    e.add("__hidden", 1)
    check(e.keys == ["a", "b", "c", "d"], "Enum.add hidden")
    e.add("__hidden", 2)
    check(getattr(e, "__hidden") == 2, "Enum.add hidden twice")
    e.remove("a")
    check(e.keys == ["b", "c", "d"] and e[1] == "c", "Enum.remove")
    check(raises(AttributeError, getattr, e, "a"), "Enum removed attribute")
    check(raises(KeyError, e.remove, "a"), "Enum.remove twice")
    check(raises(KeyError, e.remove, "nope"), "Enum.remove unknown")
    try:
        e.remove("nope")
    except KeyError as ex:
        check(isinstance(ex.__cause__, AttributeError), "Enum.remove cause")
        check(ex.args == ("Key %s not found" % ex.__cause__,), "Enum.remove message")
    e.add("a", 11)
    check(e.keys == ["b", "c", "d", "a"] and e[11] == "a", "Enum.add after remove")
    check(raises(TypeError, e.add, 5, 5), "Enum.add non string key")
    check(raises(TypeError, e.remove, 5), "Enum.remove non string key")
    # enums are independent
    check(Enum(a=1).keys == ["a"] and d.keys == ["x", "y"], "Enum independence")
    # the first match wins in insertion order, even after add()
    f = Enum({"late": 5})
    f.add("later", 5)
    check(f[5] == "late", "Enum first match")
    f.remove("late")
    check(f[5] == "later", "Enum first match after remove")
    # a key named like the keys property is shadowed by the property
    k = Enum(keys=3, other=3)
    check(k.keys == ["keys", "other"] and k[3] == "other", "Enum key named keys")
    # values that raise when compared
    class Angry(object):
        def __eq__(self, other):
            raise ValueError("no")

    angry = Enum({"ok": 1, "angry": Angry()})
    check(angry[1] == "ok", "Enum stops at the first match")
    check(raises(ValueError, angry.__getitem__, 2), "Enum comparison errors pass through")
    # a module level Enum can be extended and restored
    SCSI_STATUS.add("MY_STATUS", 0x99)
    check(SCSI_STATUS[0x99] == "MY_STATUS" and SCSI_STATUS.keys[-1] == "MY_STATUS", "status add")
    SCSI_STATUS.remove("MY_STATUS")
    check(SCSI_STATUS[0x99] == "" and enum_items(SCSI_STATUS) == SCSI_STATUS_, "status remove")
    check(raises(KeyError, SCSI_STATUS.add, "GOOD", 1) and SCSI_STATUS.GOOD == 0, "status re-add")


# ---------------------------------------------------------------------------
# 6. the commands the library builds carry the right code and length
# ---------------------------------------------------------------------------
class FakeDevice(object):
    def __init__(self, opcodes):
        self.opcodes = opcodes
        self.executed = []

    def execute(self, cmd, en_raw_sense=False):
        self.executed.append(cmd)

    def open(self):
        pass

    def close(self):
        pass


class FakeSCSI(SCSI):
    def __init__(self, dev, blocksize=512):
        self.device = dev
        self._blocksize = blocksize


def check_commands():
    calls = [
        # (command set, method, args, kwargs, T10 opcode, T10 cdb length, service action or None)
        (sbc, "inquiry", (), {}, 0x12, 6, None),
        (ssc, "inquiry", (), {"evpd": 1, "page_code": 0x83}, 0x12, 6, None),
        (mmc, "inquiry", (), {}, 0x12, 6, None),
        (sbc, "testunitready", (), {}, 0x00, 6, None),
        (smc, "testunitready", (), {}, 0x00, 6, None),
        (sbc, "modesense6", (0x3F,), {}, 0x1A, 6, None),
        (sbc, "modesense10", (0x3F,), {}, 0x5A, 10, None),
        (sbc, "read10", (1, 2), {}, 0x28, 10, None),
        (mmc, "read10", (1, 2), {}, 0x28, 10, None),
        (sbc, "read12", (1, 2), {}, 0xA8, 12, None),
        (sbc, "read16", (1, 2), {}, 0x88, 16, None),
        (ssc, "read16", (1, 2), {}, 0x88, 16, None),
        (sbc, "write10", (1, 1, bytearray(512)), {}, 0x2A, 10, None),
        (sbc, "write12", (1, 1, bytearray(512)), {}, 0xAA, 12, None),
        (sbc, "write16", (1, 1, bytearray(512)), {}, 0x8A, 16, None),
        (sbc, "writesame10", (1, 1, bytearray(512)), {}, 0x41, 10, None),
        (sbc, "writesame16", (1, 1, bytearray(512)), {}, 0x93, 16, None),
        (sbc, "readcapacity10", (), {}, 0x25, 10, None),
        (sbc, "readcapacity16", (), {}, 0x9E, 16, 0x10),
        (sbc, "getlbastatus", (5,), {}, 0x9E, 16, 0x12),
        (sbc, "synchronizecache10", (0, 0), {}, 0x35, 10, None),
        (sbc, "synchronizecache16", (0, 0), {}, 0x91, 16, None),
        (sbc, "reportluns", (), {}, 0xA0, 12, None),
        (sbc, "reportpriority", (), {}, 0xA3, 12, 0x0E),
        (sbc, "reporttargetportgroups", (), {}, 0xA3, 12, 0x0A),
        (sbc, "preventallowmediumremoval", (), {}, 0x1E, 6, None),
        (spc, "persistentreservein", (0x00,), {}, 0x5E, 10, 0x00),
        (sbc, "persistentreservein", (0x01,), {}, 0x5E, 10, 0x01),
        (ssc, "persistentreservein", (0x02,), {}, 0x5E, 10, 0x02),
        (smc, "persistentreservein", (0x03,), {}, 0x5E, 10, 0x03),
        (sbc, "persistentreserveout", (0x00,), {}, 0x5F, 10, 0x00),
        (sbc, "persistentreserveout", (0x06,), {}, 0x5F, 10, 0x06),
        (smc, "opencloseimportexportelement", (32, 1), {}, 0x1B, 6, None),
        (smc, "movemedium", (1, 2, 3), {}, 0xA5, 12, None),
        (smc, "exchangemedium", (1, 2, 3, 4), {}, 0xA6, 12, None),
        (smc, "positiontoelement", (1, 2), {}, 0x2B, 10, None),
        (smc, "initializeelementstatus", (), {}, 0x07, 6, None),
        (smc, "initializeelementstatuswithrange", (1, 2), {}, 0x37, 10, None),
        (smc, "readelementstatus", (1, 2), {}, 0xB8, 12, None),
        (mmc, "readcd", (1, 2), {}, 0xBE, 12, None),
        (mmc, "readdiscinformation", (0,), {}, 0x51, 10, None),
    ]
    done = 0
    for opcodes, method, args, kwargs, code, length, action in calls:
        label = "%s(%s)" % (method, opcodes is sbc and "sbc" or "other")
        scsi = FakeSCSI(FakeDevice(opcodes))
        cmd = getattr(scsi, method)(*args, **kwargs)
        done += 1
        check(isinstance(cmd, SCSICommand), label + " returns no command")
        check(scsi.device.executed == [cmd], label + " was not executed once")
        check(cmd.cdb[0] == code, label + " opcode byte %#x" % cmd.cdb[0])
        check(len(cmd.cdb) == length, label + " cdb length %d" % len(cmd.cdb))
        check(cmd.opcode.value == code, label + " cmd.opcode")
        check(expected_cdb_length(code) == length, label + " table sanity")
        if action is not None:
            check(cmd.cdb[1] & 0x1F == action, label + " service action %#x" % cmd.cdb[1])
    check(done == len(calls), "only %d library commands could be exercised" % done)
    # the open/close import export element command sits on the 6 byte code 1Bh
    from pyscsi.pyscsi.scsi_cdb_openclose_exportimport_element import (
        OpenCloseImportExportElement,
    )

    op = smc.OPEN_CLOSE_IMPORT_EXPORT_ELEMENT
    for name, value in (("OPEN_IMPORTEXPORT_ELEMENT", 0), ("CLOSE_IMPORTEXPORT_ELEMENT", 1)):
        cmd = OpenCloseImportExportElement(op, 32, getattr(op.serviceaction, name))
        check(len(cmd.cdb) == 6 and cmd.cdb[0] == 0x1B, "open/close cdb")
        check(cmd.cdb[4] & 0x1F == value, "open/close action code")
    # a command on a variable length / vendor code is refused whatever the class
    from pyscsi.pyscsi.scsi_cdb_inquiry import Inquiry
    from pyscsi.pyscsi.scsi_cdb_read10 import Read10

    for code in (0x60, 0x7F, 0xC0, 0xFF, 0x100, -1):
        bad = OpCode("BAD", code, {})
        check(raises(SCSICommand.OpcodeException, Inquiry, bad), "Inquiry(%#x)" % code)
        check(raises(SCSICommand.OpcodeException, Read10, bad, 512, 0, 1), "Read10(%#x)" % code)
    check(raises(SCSICommand.OpcodeException, Inquiry, sbc.SBC_OPCODE_7F), "Inquiry(7F)")
    # ... and a command class follows whatever fixed length code it is given
    check(len(Inquiry(sbc.READ_16).cdb) == 16, "Inquiry on a 16 byte code")
    check(len(Inquiry(sbc.READ_12).cdb) == 12, "Inquiry on a 12 byte code")
    check(len(Inquiry(sbc.READ_10).cdb) == 10, "Inquiry on a 10 byte code")
    check(len(Inquiry(sbc.READ_6).cdb) == 6, "Inquiry on a 6 byte code")


def main():
    check_command_sets()
    check_plain_tables()
    check_cdb_length()
    check_opcode_class()
    check_enum_class()
    check_commands()
    # run the table checks again: nothing above may have disturbed the tables
    check_command_sets()
    check_plain_tables()
    if FAILURES:
        print("FAIL: %d of %d checks" % (len(FAILURES), CHECKS[0]))
        for failure in FAILURES[:40]:
            print("  - " + failure)
        return 1
    print("PASS (%d checks)" % CHECKS[0])
    return 0


if __name__ == "__main__":
    sys.exit(main())
