#!/usr/bin/env python
# coding: utf-8
"""
Demo / check script for property C18 (pseudo enumerations).

    cd /tmp/seed/C18v && PYTHONPATH=/tmp/seed/C18v /venv/bin/python SEED/demo.py

Checks, only through the public API (pyscsi.utils.enum.Enum,
pyscsi.utils.exception.NotSupportedArgumentError, pyscsi.pyscsi.scsi_opcode.OpCode
and the enumerations the library itself builds):

 * an enumeration built from a mapping (positional dict or keyword arguments)
   exposes exactly the supplied names with their values,
 * reverse lookup returns the first supplied name carrying the value, the name
   itself when values are unique, and "" when no name carries it,
 * after any sequence of add / remove the names, values and reverse lookup agree
   with a plain dict that underwent the same operations,
 * adding an existing name / removing a missing one raises KeyError and changes
   nothing,
 * enumerations never affect one another (nor the mapping they were built from).
"""
import importlib
import pkgutil
import random
import sys
import types

# the library never needs the external bindings for this property, but be safe
for _missing in ("sgio", "iscsi"):
    if _missing not in sys.modules:
        try:
            importlib.import_module(_missing)
        except Exception:  # pragma: no cover - not installed in the sandbox
            sys.modules[_missing] = types.ModuleType(_missing)

from pyscsi.pyscsi import scsi_enum_command
from pyscsi.pyscsi.scsi_opcode import OpCode
from pyscsi.utils.enum import Enum
from pyscsi.utils.exception import NotSupportedArgumentError

CHECKS = 0


def check(cond, msg):
    global CHECKS
    CHECKS += 1
    if not cond:
        raise AssertionError(msg)


def expect(exc, fn, *args, **kwargs):
    """call fn and insist on the exception; returns the exception object"""
    global CHECKS
    CHECKS += 1
    try:
        fn(*args, **kwargs)
    except exc as ex:
        return ex
    except BaseException as ex:  # noqa
        raise AssertionError(
            "expected %s from %r%r, got %r" % (exc.__name__, fn, args, ex)
        )
    raise AssertionError("expected %s from %r%r, got nothing" % (exc.__name__, fn, args))


def first_name(model, value):
    for name, held in model.items():
        if held == value:
            return name
    return ""


PROBES = [
    0, 1, 2, 3, 4, 5, 7, 0xFF, 0x100, -1, 1.0, 2.5, True, False, None, "", "A", "a",
    "one", b"", b"\x01", (1,), (1, 2), (), [1, 2], [], {"k": 1}, frozenset(), 10 ** 30,
    float("inf"), "missing", object(),
]


def agrees(enum, model, label):
    """enum and the model dict describe the same enumeration"""
    check(isinstance(enum, Enum), label + ": not an Enum")
    check(type(enum) is Enum, label + ": type is not Enum")
    names = enum.keys
    check(isinstance(names, list), label + ": keys is not a list")
    check(names == list(model.keys()), label + ": names %r != %r" % (names, list(model)))
    check(len(set(names)) == len(names), label + ": duplicated names")
    # the list is a fresh snapshot every time
    check(enum.keys is not names, label + ": keys list is shared")
    for name, value in model.items():
        check(hasattr(enum, name), label + ": %s missing" % name)
        got = getattr(enum, name)
        check(got is value or got == value, label + ": %s -> %r != %r" % (name, got, value))
        check(name in vars(enum), label + ": %s not in vars" % name)
        back = enum[value]
        check(back == first_name(model, value), label + ": [%r] -> %r" % (value, back))
        check(back in model, label + ": [%r] gave a foreign name" % (value,))
        held = model[back]
        check(held is value or held == value, label + ": reverse name has another value")
    # public attributes are exactly the names
    public = [n for n in vars(enum) if not n.startswith("__")]
    check(public == list(model.keys()), label + ": extra public attributes %r" % public)
    # values unique -> reverse lookup is the identity on names
    vals = list(model.values())
    if all(sum(1 for w in vals if w == v) == 1 for v in vals):
        for name in model:
            check(enum[model[name]] == name, label + ": unique value not reversed")
    for probe in PROBES:
        check(enum[probe] == first_name(model, probe), label + ": probe %r" % (probe,))
    stranger = object()
    check(enum[stranger] == "", label + ": unknown value must give ''")


def test_construction():
    cases = [
        {"A": 1, "B": 2, "C": 3},
        {"A": 1},
        {},
        {"X": 0, "Y": 0, "Z": 0},
        {"LOW": 1, "HIGH": 2, "ALSO_LOW": 1, "ALSO_HIGH": 2},
        {"zero": 0, "false": False, "fzero": 0.0, "one": 1, "true": True},
        {"s": "text", "e": "", "n": None, "t": (1, 2), "b": b"\x01", "f": 2.5},
        {"lst": [1, 2], "dct": {"k": 1}, "lst2": [1, 2], "empty": []},
        {"_private": 5, "_": 6, "x_": 7, "a__b": 8},
        {"big": 10 ** 30, "neg": -1, "inf": float("inf")},
        {"a": "a", "b": "a", "A": "A"},
        {"name%d" % i: i % 7 for i in range(200)},
        {"v%03d" % i: i for i in range(256)},
        {"Z": 26, "Y": 25, "A": 1, "M": 13},  # order is insertion order, not sorted
        {"nested": Enum(q=1), "fn": len, "cls": int},
        {"müller": 1, "naïve": 2, "日本": 3},
        {"with space": 1, "dash-ed": 2, "9lives": 9, "": 0},
    ]
    for i, src in enumerate(cases):
        before = dict(src)
        e = Enum(src)
        agrees(e, before, "dict case %d" % i)
        check(src == before, "constructor changed its argument")
        check(e.__name__ == "Enum", "enumeration name")
        # keyword construction, where the names are identifiers
        if src and all(isinstance(k, str) and k.isidentifier() and k != "cls" for k in src):
            k = Enum(**src)
            agrees(k, before, "kw case %d" % i)
            check(k is not e, "two constructions gave one object")
        # a copy of the mapping builds an equal but distinct enumeration
        e2 = Enum(dict(src))
        agrees(e2, before, "dict copy case %d" % i)
        check(e2 is not e, "two constructions gave one object")
        # later changes to the mapping are not seen
        src["LATER"] = 99
        agrees(e, before, "after source mutation %d" % i)
        check(not hasattr(e, "LATER"), "source mutation leaked in")

    # positional dict wins over keywords
    both = Enum({"A": 1}, B=2)
    agrees(both, {"A": 1}, "dict + kwargs")
    both = Enum({}, B=2)
    agrees(both, {}, "empty dict + kwargs")

    # names that begin with two underscores are carried but never listed
    hidden = Enum({"__hidden": 1, "shown": 2, "__dunder__": 3})
    check(hidden.keys == ["shown"], "dunder names listed")
    check(hidden[2] == "shown" and hidden[1] == "" and hidden[3] == "", "dunder reverse")
    check(vars(hidden)["__hidden"] == 1, "dunder value kept")

    # names shadowing the helper methods are still plain members
    shadow = Enum({"add": 1, "remove": 2, "other": 3})
    check(shadow.keys == ["add", "remove", "other"], "shadow names")
    check(shadow.add == 1 and shadow.remove == 2, "shadow values")
    check(shadow[1] == "add" and shadow[2] == "remove" and shadow[3] == "other", "shadow rev")

    # unsupported arguments
    bad_args = [
        (), (1,), (1, 2, 3), ((1, 2, 3),), ([("A", 1)],), ("A",), (None,),
        ({"A": 1}, {"B": 2}), ({"A": 1}, 2), ({"A"},), (frozenset(),), (b"ab",),
        (types.MappingProxyType({"A": 1}),), (1.5,), (Enum(a=1),),
    ]
    for args in bad_args:
        ex = expect(NotSupportedArgumentError, Enum, *args)
        check(type(ex) is NotSupportedArgumentError, "exact exception type")
        check(
            ex.args == ("use either as dict or provide keyword arguments",),
            "message of NotSupportedArgumentError",
        )
    check(issubclass(NotSupportedArgumentError, Exception), "exception base")
    check(not issubclass(NotSupportedArgumentError, (KeyError, ValueError, TypeError)), "exc kin")
    # several positionals are fine as long as keywords are given
    agrees(Enum(1, 2, A=1), {"A": 1}, "junk positionals + kwargs")
    agrees(Enum((1, 2), A=1, B=1), {"A": 1, "B": 1}, "tuple positional + kwargs")
    # the exception is reachable under both import paths it always had
    import pyscsi.utils.enum as enum_mod
    import pyscsi.utils.exception as exc_mod

    check(enum_mod.NotSupportedArgumentError is exc_mod.NotSupportedArgumentError, "paths")
    check(enum_mod.Enum is Enum, "Enum import path")
    check(isinstance(Enum, type) and issubclass(Enum, type), "Enum is a metaclass")


def test_add_remove_basic():
    e = Enum(A=1, B=2, C=3)
    model = {"A": 1, "B": 2, "C": 3}
    ex = expect(KeyError, e.add, "A", 6)
    check(ex.args == ("key A already exist",), "add message %r" % (ex.args,))
    agrees(e, model, "after refused add")
    ex = expect(KeyError, e.add, "A", 1)  # same value is refused as well
    agrees(e, model, "after refused add (same value)")
    ex = expect(KeyError, e.remove, "Z")
    check(type(ex) is KeyError, "remove raises plain KeyError")
    check(len(ex.args) == 1 and ex.args[0].startswith("Key ") and ex.args[0].endswith(" not found"),
          "remove message %r" % (ex.args,))
    check("Z" in ex.args[0], "remove message names the key")
    check(isinstance(ex.__cause__, (AttributeError, KeyError)), "remove chains the cause")
    agrees(e, model, "after refused remove")

    check(e.add("D", 4) is None, "add returns None")
    model["D"] = 4
    agrees(e, model, "after add")
    check(e.D == 4 and e[4] == "D", "added member")
    check(e.remove("B") is None, "remove returns None")
    del model["B"]
    agrees(e, model, "after remove")
    check(not hasattr(e, "B"), "removed member still there")
    expect(AttributeError, getattr, e, "B")
    check(e[2] == "", "removed value still reversed")
    expect(KeyError, e.remove, "B")  # second removal refused
    agrees(e, model, "after double remove")
    # re-adding puts the name at the end, like a dict
    e.add("B", 1)
    model["B"] = 1
    agrees(e, model, "after re-add")
    check(e.keys == ["A", "C", "D", "B"], "order after re-add %r" % e.keys)
    check(e[1] == "A", "first supplied name wins")
    e.remove("A")
    del model["A"]
    agrees(e, model, "after removing the first holder")
    check(e[1] == "B", "next holder takes over")
    # keyword call style keeps working
    e.add(key="K", value=11)
    model["K"] = 11
    e.remove(key="K")
    del model["K"]
    agrees(e, model, "keyword style")
    # emptying and refilling
    for name in list(model):
        e.remove(name)
        del model[name]
        agrees(e, model, "emptying")
    check(e.keys == [], "empty")
    expect(KeyError, e.remove, "A")
    e.add("ONLY", None)
    model["ONLY"] = None
    agrees(e, model, "refilled")
    check(e[None] == "ONLY", "None value reversed")

    # enumeration that starts empty
    z = Enum({})
    agrees(z, {}, "empty start")
    expect(KeyError, z.remove, "anything")
    z.add("first", [1])
    agrees(z, {"first": [1]}, "empty start + add")

    # unusual values through add
    u = Enum(base=0)
    m = {"base": 0}
    for i, v in enumerate(PROBES):
        u.add("p%d" % i, v)
        m["p%d" % i] = v
    agrees(u, m, "unusual values")
    for i in range(0, len(PROBES), 2):
        u.remove("p%d" % i)
        del m["p%d" % i]
    agrees(u, m, "unusual values thinned")


def test_random_sequences(seed, rounds, steps):
    rng = random.Random(seed)
    pool = ["N%d" % i for i in range(12)] + ["_u", "x__y", "lower", "UPPER", "add", "remove"]
    for r in range(rounds):
        start = {}
        for name in rng.sample(pool, rng.randrange(0, 8)):
            start[name] = rng.randrange(0, 5)
        if rng.random() < 0.5 or not start or not all(n.isidentifier() for n in start):
            e = Enum(dict(start))
        else:
            e = Enum(**start)
        model = dict(start)
        # a bystander built from the very same mapping
        other_src = dict(start)
        other = Enum(other_src)
        agrees(e, model, "r%d start" % r)
        for s in range(steps):
            name = rng.choice(pool)
            callable_add = "add" not in model
            callable_remove = "remove" not in model
            if rng.random() < 0.55:
                value = rng.choice([rng.randrange(0, 5), rng.randrange(0, 5), "s", None, (1,), 2.0])
                if not callable_add:
                    continue
                if name in model:
                    expect(KeyError, e.add, name, value)
                else:
                    e.add(name, value)
                    model[name] = value
            else:
                if not callable_remove:
                    continue
                if name in model:
                    e.remove(name)
                    del model[name]
                else:
                    expect(KeyError, e.remove, name)
            if s % 3 == 0:
                agrees(e, model, "r%d s%d" % (r, s))
        agrees(e, model, "r%d end" % r)
        agrees(other, start, "r%d bystander" % r)
        check(other_src == start, "r%d bystander source" % r)


def test_independence():
    src = {"A": 1, "B": 2}
    one = Enum(src)
    two = Enum(src)
    three = Enum(A=1, B=2)
    one.add("C", 3)
    one.remove("A")
    agrees(one, {"B": 2, "C": 3}, "one")
    agrees(two, {"A": 1, "B": 2}, "two untouched")
    agrees(three, {"A": 1, "B": 2}, "three untouched")
    check(src == {"A": 1, "B": 2}, "source untouched")
    check(not hasattr(two, "C") and not hasattr(three, "C") and not hasattr(Enum, "C"), "leak")
    check(hasattr(two, "A") and hasattr(three, "A"), "removal leaked")
    two.add("C", 30)
    check(one.C == 3 and two.C == 30, "same name, separate values")
    check(one[30] == "" and two[3] == "", "reverse lookups separate")
    three.add("A2", 1)
    check(three[1] == "A" and two[1] == "A" and one[1] == "", "reverse after adds")
    # many enumerations alive together
    many = [Enum({"id": i, "shared": 0}) for i in range(50)]
    for i, e in enumerate(many):
        if i % 2:
            e.add("odd", i)
        if i % 3 == 0:
            e.remove("shared")
    for i, e in enumerate(many):
        model = {"id": i, "shared": 0}
        if i % 2:
            model["odd"] = i
        if i % 3 == 0:
            del model["shared"]
        agrees(e, model, "many[%d]" % i)
    # nothing ever lands on the metaclass itself
    for name in ("A", "B", "C", "id", "shared", "odd"):
        check(name not in vars(Enum), "member leaked onto Enum")
    # the listing / lookups of the metaclass helpers are still there
    for name in ("add", "remove", "keys", "__getitem__"):
        check(name in vars(Enum), "helper %s missing from Enum" % name)


def test_opcode():
    sa = {"READ": 0x09, "WRITE": 0x0B, "ALSO_READ": 0x09}
    a = OpCode("OP_A", 0xA3, sa)
    b = OpCode("OP_B", 0xA4, sa)
    c = OpCode("PLAIN", 0x12, {})
    check(a.name == "OP_A" and a.value == 0xA3, "opcode a")
    check(b.name == "OP_B" and b.value == 0xA4, "opcode b")
    check(c.name == "PLAIN" and c.value == 0x12, "opcode c")
    check(str(a) == "OP_A - a3" and repr(a) == "OP_A - a3", "opcode text")
    check(str(c) == "PLAIN - 12" and repr(c) == "PLAIN - 12", "opcode text c")
    check(a.serviceaction is not b.serviceaction, "service actions shared")
    agrees(a.serviceaction, sa, "a.serviceaction")
    agrees(b.serviceaction, sa, "b.serviceaction")
    agrees(c.serviceaction, {}, "c.serviceaction")
    check(a.serviceaction is a.serviceaction, "serviceaction is stable")
    a.serviceaction.add("EXTRA", 0x7F)
    a.serviceaction.remove("READ")
    agrees(a.serviceaction, {"WRITE": 0x0B, "ALSO_READ": 0x09, "EXTRA": 0x7F}, "a changed")
    agrees(b.serviceaction, sa, "b untouched")
    check(sa == {"READ": 0x09, "WRITE": 0x0B, "ALSO_READ": 0x09}, "sa dict untouched")
    expect(KeyError, a.serviceaction.add, "WRITE", 1)
    expect(KeyError, b.serviceaction.remove, "EXTRA")
    check(a.serviceaction[0x09] == "ALSO_READ" and b.serviceaction[0x09] == "READ", "sa rev")
    # setters
    a.name = "RENAMED"
    a.value = 0x10
    check(a.name == "RENAMED" and a.value == 0x10 and str(a) == "RENAMED - 10", "setters")
    check(a._name == "RENAMED" and a._code == 0x10, "backing attributes")
    check(b.name == "OP_B" and b.value == 0xA4, "setters leaked")
    fresh = Enum(ONLY=1)
    b.serviceaction = fresh
    check(b.serviceaction is fresh and b._serviceaction is fresh, "serviceaction setter")
    check(c.serviceaction is not fresh, "serviceaction setter leaked")
    agrees(c.serviceaction, {}, "c.serviceaction still empty")
    expect(AttributeError, delattr, a, "name")
    check(a.name == "RENAMED", "name survived delete attempt")
    expect(AttributeError, getattr, a, "no_such_attribute")
    # keyword construction of OpCode
    k = OpCode(name="K", code=1, serviceaction={"S": 1})
    check(k.name == "K" and k.value == 1 and k.serviceaction.S == 1, "keyword OpCode")
    # unsupported service action argument is refused by the enumeration
    expect(NotSupportedArgumentError, OpCode, "BAD", 1, None)
    expect(NotSupportedArgumentError, OpCode, "BAD", 1, [("S", 1)])
    # class level defaults
    check(OpCode._name == "" and OpCode._code == 0xFF and OpCode._serviceaction is None, "defaults")


def test_library_enums():
    cmd = scsi_enum_command
    pairs = [
        (cmd.SCSI_STATUS, cmd.scsi_status),
        (cmd.spc, cmd.spc_opcodes),
        (cmd.sbc, cmd.sbc_opcodes),
        (cmd.ssc, cmd.ssc_opcodes),
        (cmd.smc, cmd.smc_opcodes),
        (cmd.mmc, cmd.mmc_opcodes),
        (cmd.OPCODE, cmd.opcodes),
        (cmd.SERVICE_ACTION_IN, cmd.service_action_ins),
    ]
    for i, (enum, src) in enumerate(pairs):
        agrees(enum, dict(src), "library pair %d" % i)
    check(cmd.smc.WRITE_BUFFER.value == 0x3B and cmd.smc.WRITE_BUFFER.name == "WRITE_BUFFER", "smc")
    check(cmd.SCSI_STATUS[0x02] == "CHECK_CONDITION" and cmd.SCSI_STATUS[0x99] == "", "status")
    check(cmd.OPCODE[0x12] == "INQUIRY" and cmd.OPCODE.INQUIRY == 0x12, "OPCODE")
    # opcode families: reverse lookup of an OpCode object gives its (first) name
    for fam in (cmd.spc, cmd.sbc, cmd.ssc, cmd.smc, cmd.mmc):
        for name in fam.keys:
            op = getattr(fam, name)
            check(isinstance(op, OpCode), "family member type")
            check(fam[op] == name, "OpCode reverse lookup")
            check(isinstance(op.serviceaction, Enum), "serviceaction type")
            check("%s - %x" % (op.name, op.value) == str(op), "OpCode text")
    # service actions of different opcodes are separate enumerations
    sa3 = cmd.spc.SPC_OPCODE_A3.serviceaction
    sa4 = cmd.spc.SPC_OPCODE_A4.serviceaction
    check(sa3 is not sa4, "shared service actions")
    agrees(sa3, dict(cmd.service_actions), "A3 service actions")
    agrees(sa4, dict(cmd.service_actions), "A4 service actions")
    check(sa3[0x05] == "REPORT_DEVICE_IDENTIFIER", "first supplied name for a shared value")
    check(sa3[0x0E] == "REPORT_PRIORITY" and sa3[0x12] == "GET_LBA_STATUS", "sa reverse")
    agrees(cmd.sbc.PERSISTENT_RESERVE_IN.serviceaction, dict(cmd.sa_persistent_reserve_in), "pr in")
    agrees(cmd.sbc.PERSISTENT_RESERVE_OUT.serviceaction, dict(cmd.sa_persistent_reserve_out), "pr out")
    agrees(cmd.sbc.MAINTENANCE_IN.serviceaction, dict(cmd.sa_maintenance_in), "maint in")
    agrees(cmd.sbc.INQUIRY.serviceaction, {}, "no service actions")
    # work on a private copy so that the shared library objects stay pristine
    scratch = Enum({n: getattr(sa3, n) for n in sa3.keys})
    scratch.remove("REPORT_DEVICE_IDENTIFIER")
    check(scratch[0x05] == "REPORT_IDENTIFYING_INFORMATION", "next holder in scratch")
    check(sa3[0x05] == "REPORT_DEVICE_IDENTIFIER", "library enumeration changed")
    scratch.add("REPORT_DEVICE_IDENTIFIER", 0x05)
    check(scratch[0x05] == "REPORT_IDENTIFYING_INFORMATION", "re-added goes last")

    # every enumeration the library defines anywhere is self-consistent
    import pyscsi.pyscsi as pkg

    seen = 0
    for info in pkgutil.iter_modules(pkg.__path__):
        if not info.name.startswith("scsi_enum_"):
            continue
        mod = importlib.import_module("pyscsi.pyscsi." + info.name)
        for attr, obj in sorted(vars(mod).items()):
            if isinstance(obj, Enum):
                model = {n: vars(obj)[n] for n in vars(obj) if not n.startswith("__")}
                agrees(obj, model, "%s.%s" % (info.name, attr))
                seen += 1
    check(seen >= 30, "expected to find the library enumerations, saw %d" % seen)


def main():
    test_construction()
    test_add_remove_basic()
    for seed in range(6):
        test_random_sequences(seed, rounds=25, steps=40)
    test_independence()
    test_opcode()
    test_library_enums()
    print("PASS (%d checks)" % CHECKS)
    return 0


if __name__ == "__main__":
    sys.exit(main())
