#!/usr/bin/env python
# Standalone behavioural check of property C13 (facade -> device -> decode).
# Run: cd /tmp/seed/C13t && PYTHONPATH=/tmp/seed/C13t /venv/bin/python SEED/demo.py
import contextlib
import copy
import io
import os
import random
import sys
import types

# --------------------------------------------------------------------------
# fake external bindings (sgio / iscsi), installed before importing pyscsi
# --------------------------------------------------------------------------
sgio = types.ModuleType("sgio")


class _CCE(Exception):
    def __init__(self, sense=None):
        Exception.__init__(self, "check condition")
        self.sense = sense


SGIO_LOG = []
SGIO_HOOK = [None]


def _sgio_execute(fobj, cdb, dataout, datain, *extra, **kw):
    SGIO_LOG.append((fobj, cdb, dataout, datain, extra, kw))
    if SGIO_HOOK[0] is not None:
        SGIO_HOOK[0](fobj, cdb, dataout, datain)
    return 0


sgio.CheckConditionError = _CCE
sgio.execute = _sgio_execute
sys.modules["sgio"] = sgio

iscsi = types.ModuleType("iscsi")
iscsi.SCSI_XFER_NONE = 100
iscsi.SCSI_XFER_READ = 101
iscsi.SCSI_XFER_WRITE = 102
iscsi.ISCSI_SESSION_NORMAL = 7
iscsi.ISCSI_HEADER_DIGEST_NONE_CRC32C = 9
ISCSI_LOG = []
ISCSI_HOOK = [None]


class _Ctx:
    def __init__(self, name):
        self.name = name
        ISCSI_LOG.append(("Context", name))

    def set_targetname(self, t):
        ISCSI_LOG.append(("set_targetname", t))

    def set_session_type(self, t):
        ISCSI_LOG.append(("set_session_type", t))

    def set_header_digest(self, t):
        ISCSI_LOG.append(("set_header_digest", t))

    def connect(self, portal, lun):
        ISCSI_LOG.append(("connect", portal, lun))

    def disconnect(self):
        ISCSI_LOG.append(("disconnect",))

    def command(self, lun, task, dataout, datain):
        ISCSI_LOG.append(("command", lun, task, dataout, datain))
        if ISCSI_HOOK[0] is not None:
            ISCSI_HOOK[0](task, dataout, datain)


class _URL:
    def __init__(self, ctx, url):
        ISCSI_LOG.append(("URL", ctx, url))
        rest = url[len("iscsi://"):]
        parts = rest.split("/")
        self.portal = parts[0]
        self.target = parts[1] if len(parts) > 1 else ""
        self.lun = int(parts[2]) if len(parts) > 2 else 0


class _Task:
    def __init__(self, cdb, direction, xferlen):
        self.cdb = cdb
        self.direction = direction
        self.xferlen = xferlen
        self.status = 0
        ISCSI_LOG.append(("Task", cdb, direction, xferlen))


iscsi.Context = _Ctx
iscsi.URL = _URL
iscsi.Task = _Task
sys.modules["iscsi"] = iscsi

from pyscsi.pyiscsi.iscsi_device import ISCSIDevice  # noqa: E402
from pyscsi.pyscsi import scsi_enum_command as EC  # noqa: E402
from pyscsi.pyscsi.scsi import SCSI  # noqa: E402
from pyscsi.pyscsi.scsi_cdb_atapassthrough12 import ATAPassThrough12  # noqa: E402
from pyscsi.pyscsi.scsi_cdb_atapassthrough16 import ATAPassThrough16  # noqa: E402
from pyscsi.pyscsi.scsi_cdb_exchangemedium import ExchangeMedium  # noqa: E402
from pyscsi.pyscsi.scsi_cdb_extended_copy_spc4 import ExtendedCopy as ExtendedCopy4  # noqa: E402
from pyscsi.pyscsi.scsi_cdb_extended_copy_spc5 import ExtendedCopy as ExtendedCopy5  # noqa: E402
from pyscsi.pyscsi.scsi_cdb_getlbastatus import GetLBAStatus  # noqa: E402
from pyscsi.pyscsi.scsi_cdb_initelementstatus import InitializeElementStatus  # noqa: E402
from pyscsi.pyscsi.scsi_cdb_initelementstatuswithrange import InitializeElementStatusWithRange  # noqa: E402
from pyscsi.pyscsi.scsi_cdb_inquiry import Inquiry  # noqa: E402
from pyscsi.pyscsi.scsi_cdb_modesense6 import ModeSelect6, ModeSense6  # noqa: E402
from pyscsi.pyscsi.scsi_cdb_modesense10 import ModeSelect10, ModeSense10  # noqa: E402
from pyscsi.pyscsi.scsi_cdb_movemedium import MoveMedium  # noqa: E402
from pyscsi.pyscsi.scsi_cdb_openclose_exportimport_element import OpenCloseImportExportElement  # noqa: E402
from pyscsi.pyscsi.scsi_cdb_persistentreservein import (  # noqa: E402
    PersistentReserveInReadFullStatus,
    PersistentReserveInReadKeys,
    PersistentReserveInReadReservation,
    PersistentReserveInReportCapabilities,
)
from pyscsi.pyscsi.scsi_cdb_persistentreserveout import PersistentReserveOut  # noqa: E402
from pyscsi.pyscsi.scsi_cdb_positiontoelement import PositionToElement  # noqa: E402
from pyscsi.pyscsi.scsi_cdb_preventallow_mediumremoval import PreventAllowMediumRemoval  # noqa: E402
from pyscsi.pyscsi.scsi_cdb_read10 import Read10  # noqa: E402
from pyscsi.pyscsi.scsi_cdb_read12 import Read12  # noqa: E402
from pyscsi.pyscsi.scsi_cdb_read16 import Read16  # noqa: E402
from pyscsi.pyscsi.scsi_cdb_readcapacity10 import ReadCapacity10  # noqa: E402
from pyscsi.pyscsi.scsi_cdb_readcapacity16 import ReadCapacity16  # noqa: E402
from pyscsi.pyscsi.scsi_cdb_readcd import ReadCd  # noqa: E402
from pyscsi.pyscsi.scsi_cdb_readdiscinformation import ReadDiscInformation  # noqa: E402
from pyscsi.pyscsi.scsi_cdb_readelementstatus import ReadElementStatus  # noqa: E402
from pyscsi.pyscsi.scsi_cdb_report_luns import ReportLuns  # noqa: E402
from pyscsi.pyscsi.scsi_cdb_report_priority import ReportPriority  # noqa: E402
from pyscsi.pyscsi.scsi_cdb_report_target_port_groups import ReportTargetPortGroups  # noqa: E402
from pyscsi.pyscsi.scsi_cdb_synchronize_cache10 import SynchronizeCache10  # noqa: E402
from pyscsi.pyscsi.scsi_cdb_synchronize_cache16 import SynchronizeCache16  # noqa: E402
from pyscsi.pyscsi.scsi_cdb_testunitready import TestUnitReady  # noqa: E402
from pyscsi.pyscsi.scsi_cdb_write10 import Write10  # noqa: E402
from pyscsi.pyscsi.scsi_cdb_write12 import Write12  # noqa: E402
from pyscsi.pyscsi.scsi_cdb_write16 import Write16  # noqa: E402
from pyscsi.pyscsi.scsi_cdb_writesame10 import WriteSame10  # noqa: E402
from pyscsi.pyscsi.scsi_cdb_writesame16 import WriteSame16  # noqa: E402
from pyscsi.pyscsi.scsi_command import SCSICommand  # noqa: E402
from pyscsi.pyscsi.scsi_device import SCSIDevice  # noqa: E402
from pyscsi.pyscsi.scsi_opcode import OpCode  # noqa: E402
from pyscsi.utils import converter as CV  # noqa: E402
from pyscsi.utils.enum import Enum  # noqa: E402

CHECKS = [0]
FAILS = []


def check(cond, msg):
    CHECKS[0] += 1
    if not cond:
        FAILS.append(msg)
        if len(FAILS) <= 40:
            print("FAIL:", msg)


def outcome(fn):
    """('ok', value) or ('exc', type, str)"""
    try:
        return ("ok", fn())
    except BaseException as e:  # noqa: B902
        if isinstance(e, (KeyboardInterrupt, SystemExit)):
            raise
        return ("exc", type(e), str(e))


SETS = {"spc": EC.spc, "sbc": EC.sbc, "ssc": EC.ssc, "smc": EC.smc, "mmc": EC.mmc}


# --------------------------------------------------------------------------
# a recording device implementing the documented device interface
# --------------------------------------------------------------------------
class RecDevice(object):
    def __init__(self, opcodes, fill=None, fail=None, devtype=None):
        self.opcodes = opcodes
        self.calls = []
        self.fill = fill
        self.fail = fail
        self.devtype = devtype
        self.closed = 0

    def execute(self, *args, **kwargs):
        cmd = args[0]
        rec = dict(
            args=args,
            kwargs=dict(kwargs),
            cmd=cmd,
            cdb_obj=cmd.cdb,
            cdb=bytes(cmd.cdb),
            dataout_obj=cmd.dataout,
            dataout=bytes(cmd.dataout),
            datain_obj=cmd.datain,
            datain_len=len(cmd.datain),
            result=copy.deepcopy(cmd.result),
            opcode=cmd.opcode,
            opcodes_at_exec=self.opcodes,
        )
        self.calls.append(rec)
        if self.fill is not None:
            data = self.fill(len(cmd.datain))
            assert len(data) == len(cmd.datain)
            cmd.datain[:] = data
        if self.devtype is not None and len(cmd.datain):
            cmd.datain[0] = self.devtype
        rec["filled"] = bytes(cmd.datain)
        if self.fail is not None:
            raise self.fail

    def close(self):
        self.closed += 1


def fill_zero(n):
    return bytes(n)


def fill_ff(n):
    return b"\xff" * n


def fill_rnd(seed, hi=255):
    def f(n):
        r = random.Random(seed * 7919 + n)
        return bytes(r.randint(0, hi) for _ in range(n))

    return f


def fill_small_lengths(seed):
    # mostly zero bytes with a few small values: keeps embedded length fields sane
    def f(n):
        r = random.Random(seed * 104729 + n)
        return bytes((r.randint(0, 12) if r.random() < 0.35 else 0) for _ in range(n))

    return f


def fill_pattern(n):
    return (b"\x5a\xc3\x01\xfe\x80" * (n // 5 + 1))[:n]


FILLS = [fill_zero, fill_ff, fill_rnd(1), fill_rnd(2), fill_rnd(3, 3), fill_small_lengths(1), fill_small_lengths(2)]


def expected_opcode(opcodes, opsel):
    if isinstance(opsel, tuple):
        sfx = opsel[1]

        def first():
            for k in opcodes.keys:
                if k[-2:] == sfx:
                    return getattr(opcodes, k)
            raise StopIteration()

        return outcome(first)
    return outcome(lambda: getattr(opcodes, opsel))


class Case(object):
    def __init__(self, method, opsel, cls, args=(), kwargs=None, pre=False, decode=False,
                 ukw=None, raw=False, refargs=None, refkw=None, bindfail=False):
        self.method = method
        self.opsel = opsel
        self.cls = cls
        self.args = tuple(args)
        self.kwargs = dict(kwargs or {})
        self.pre = pre
        self.decode = decode
        self.ukw = dict(ukw or {})
        self.raw = raw
        self.refargs = refargs
        self.refkw = refkw
        self.bindfail = bindfail  # the facade method's own signature rejects the call

    def label(self):
        return "%s%s%s" % (self.method, repr(self.args)[:80], repr(self.kwargs)[:120])

    def build_ref(self, op, bs):
        a = self.args if self.refargs is None else tuple(self.refargs)
        k = self.kwargs if self.refkw is None else dict(self.refkw)
        if self.pre:
            a = (bs,) + a
        return self.cls(op, *a, **copy.deepcopy(k))


def same_exc(got, exp):
    if not (got[0] == "exc" and exp[0] == "exc" and got[1] is exp[1]):
        return False
    # argument-binding errors name the callee, which legitimately differs between
    # the facade method and the command constructor
    return got[1] is TypeError or got[2] == exp[2]


def run_case(case, setname, opcodes, blocksize, fill, scsi_factory=None):
    lab = "%s/%s/bs=%r/%s" % (setname, case.label(), blocksize, getattr(fill, "__name__", "fill"))
    dev = RecDevice(opcodes, fill=fill)
    s = SCSI(None, blocksize) if scsi_factory is None else scsi_factory(blocksize)
    s.device = dev
    exp_op = expected_opcode(opcodes, case.opsel)
    got = outcome(lambda: getattr(s, case.method)(*copy.deepcopy(case.args), **copy.deepcopy(case.kwargs)))
    if case.bindfail:
        check(got[0] == "exc" and got[1] is TypeError, "%s: bad call must raise TypeError, got %r" % (lab, got[:2]))
        check(len(dev.calls) == 0, "%s: device used by a rejected call" % lab)
        return None
    if exp_op[0] == "exc":
        check(got[0] == "exc" and got[1] is exp_op[1], "%s: unsupported opcode must raise %r, got %r" % (lab, exp_op[1], got[:2]))
        check(len(dev.calls) == 0, "%s: device must not be used when opcode is missing" % lab)
        return None
    op = exp_op[1]
    ref = outcome(lambda: case.build_ref(op, blocksize))
    if ref[0] == "exc":
        check(same_exc(got, ref), "%s: constructor failure must propagate: %r vs %r" % (lab, got, ref))
        check(len(dev.calls) == 0, "%s: no execute after failed construction" % lab)
        return None
    refcmd = ref[1]
    check(len(dev.calls) == 1, "%s: execute called %d times" % (lab, len(dev.calls)))
    if len(dev.calls) != 1:
        return None
    rec = dev.calls[0]
    # decode oracle
    if case.decode:
        dec = outcome(lambda: case.cls.unmarshall_datain(bytearray(rec["filled"]), **copy.deepcopy(case.ukw)))
        if dec[0] == "exc" and issubclass(dec[1], AttributeError):
            dec = ("exc", NotImplementedError, "%s has no method to unmarshall datain data" % case.cls.__name__)
        if dec[0] == "exc":
            check(same_exc(got, dec), "%s: decode failure must propagate: %r vs %r" % (lab, got, dec))
            return None
    check(got[0] == "ok", "%s: unexpected failure %r" % (lab, got))
    if got[0] != "ok":
        return None
    cmd = got[1]
    check(type(cmd) is case.cls, "%s: returned %r" % (lab, type(cmd)))
    check(rec["cmd"] is cmd and rec["args"] == (cmd,), "%s: device got another command object" % lab)
    check(rec["kwargs"] == {"en_raw_sense": bool(case.raw)} and rec["kwargs"]["en_raw_sense"] is bool(case.raw),
          "%s: en_raw_sense %r" % (lab, rec["kwargs"]))
    check(cmd.opcode is op and rec["opcode"] is op, "%s: opcode object" % lab)
    check(rec["cdb"][0] == op.value, "%s: cdb[0]=%#x expected %#x" % (lab, rec["cdb"][0], op.value))
    check(rec["cdb"] == bytes(refcmd.cdb), "%s: cdb %s expected %s" % (lab, rec["cdb"].hex(), bytes(refcmd.cdb).hex()))
    check(cmd.cdb is rec["cdb_obj"] and bytes(cmd.cdb) == rec["cdb"], "%s: cdb object/content changed after execute" % lab)
    check(rec["dataout"] == bytes(refcmd.dataout), "%s: dataout differs" % lab)
    check(cmd.dataout is rec["dataout_obj"] and bytes(cmd.dataout) == rec["dataout"], "%s: dataout buffer identity" % lab)
    check(rec["datain_len"] == len(refcmd.datain), "%s: datain length %d vs %d" % (lab, rec["datain_len"], len(refcmd.datain)))
    check(cmd.datain is rec["datain_obj"], "%s: datain buffer identity" % lab)
    check(bytes(cmd.datain) == rec["filled"], "%s: datain content changed after execute" % lab)
    check(rec["result"] == {}, "%s: result decoded before execute: %r" % (lab, rec["result"]))
    if case.decode:
        check(cmd.result == dec[1], "%s: result %r expected %r" % (lab, cmd.result, dec[1]))
    else:
        check(cmd.result == {}, "%s: result should be untouched: %r" % (lab, cmd.result))
    check(cmd.raw_sense_data is None and cmd.sense is None, "%s: sense touched" % lab)
    return cmd


# --------------------------------------------------------------------------
# the facade cases
# --------------------------------------------------------------------------
def kw_variants(full):
    """none, each documented keyword alone, all together"""
    out = [{}]
    for k in full:
        out.append({k: full[k]})
    if len(full) > 1:
        out.append(dict(full))
    return out


MP_CONTROL = {"medium_type": 1, "device_specific_parameter": 0x10,
              "mode_pages": [{"ps": 0, "spf": 0, "page_code": 0x0A, "tst": 1, "d_sense": 1, "qerr": 2}]}
MP_DISC = {"mode_pages": [{"ps": 1, "spf": 0, "page_code": 0x02}]}
MP_ELEM = {"mode_pages": [{"ps": 0, "spf": 0, "page_code": 0x1D, "first_storage_element_address": 0x1234,
                           "num_medium_transport_elements": 3}]}
MP_CTRLX = {"mode_pages": [{"ps": 0, "spf": 1, "page_code": 0x0A, "sub_page_code": 1}]}
MP_EMPTY = {"mode_pages": []}
MP_BAD = {"nothing": 1}

TGT = {
    "descriptor_type_code": "Identification descriptor target descriptor",
    "peripheral_device_type": 0x00,
    "relative_initiator_port_identifier": 42,
    "target_descriptor_parameters": {
        "designator_type": Inquiry.DESIGNATOR.VENDOR_SPECIFIC,
        "designator": {"vendor_specific": bytearray.fromhex("deadbeef")},
    },
    "device_type_specific_parameters": {"pad": 1},
}
SEG = {
    "descriptor_type_code": "Copy from block device to block device",
    "dc": 1,
    "source_target_descriptor_id": 1,
    "destination_target_descriptor_id": 2,
    "block_device_number_of_blocks": 1024,
    "source_block_device_logical_block_address": 2048,
    "destination_block_device_logical_block_address": 4096,
}


def build_cases():
    cs = []
    add = cs.append
    # --- medium changer
    for kw in kw_variants({"inv1": 1, "inv2": 1}) + [{"inv1": True, "inv2": 0}, {"bogus": 1}]:
        add(Case("exchangemedium", "EXCHANGE_MEDIUM", ExchangeMedium, (10, 11, 12, 13), kw))
    add(Case("exchangemedium", "EXCHANGE_MEDIUM", ExchangeMedium, (0xFFFF, 0, 0xFFFF, 0x0102), {}))
    add(Case("initializeelementstatus", "INITIALIZE_ELEMENT_STATUS", InitializeElementStatus))
    for kw in kw_variants({"rng": 1, "fast": 1}) + [{"nope": 0}]:
        add(Case("initializeelementstatuswithrange", "INITIALIZE_ELEMENT_STATUS_WITH_RANGE",
                 InitializeElementStatusWithRange, (15, 3), kw))
    for kw in [{}, {"whatever": 9}]:
        add(Case("opencloseimportexportelement", "OPEN_CLOSE_IMPORT_EXPORT_ELEMENT",
                 OpenCloseImportExportElement, (32, 1), kw))
        add(Case("opencloseimportexportelement", "OPEN_CLOSE_IMPORT_EXPORT_ELEMENT",
                 OpenCloseImportExportElement, (0xFFFF, 0), kw))
    for kw in kw_variants({"invert": 1}) + [{"x": 1}]:
        add(Case("positiontoelement", "POSITION_TO_ELEMENT", PositionToElement, (15, 32), kw))
        add(Case("movemedium", "MOVE_MEDIUM", MoveMedium, (15, 32, 64), kw))
    for kw in kw_variants({"element_type": 2, "voltag": 1, "curdata": 0, "dvcid": 1, "alloclen": 64}) + [{"alloclen": 0}, {"alloclen": 8}]:
        add(Case("readelementstatus", "READ_ELEMENT_STATUS", ReadElementStatus, (300, 700), kw, decode=True))
    # --- primary commands
    for a, kw in [((), {}), ((1,), {}), ((1, 0x80), {}), ((1, 0x83, 255), {}), ((), {"alloclen": 4}),
                  ((), {"evpd": 1, "page_code": 0xB0, "alloclen": 64}), ((0, 0, 5), {}),
                  ((), {"page_code": 0x00, "evpd": 1}), ((), {"evpd": 1, "page_code": 0xB1, "alloclen": 64}),
                  ((), {"evpd": 1, "page_code": 0xB2, "alloclen": 16}), ((True,), {}),
                  ((), {"evpd": 0, "alloclen": 36}), ((), {"bad": 1}), ((1, 2, 3, 4), {})]:
        names = ("evpd", "page_code", "alloclen")
        full = {"evpd": 0, "page_code": 0, "alloclen": 96}
        for i, v in enumerate(a[:3]):
            full[names[i]] = v
        full.update(kw)
        bad = ("bad" in kw) or len(a) > 3
        add(Case("inquiry", "INQUIRY", Inquiry, a, kw, decode=True, ukw={"evpd": full["evpd"]},
                 refargs=(), refkw=full, bindfail=bad))
    for kw in kw_variants({"pf": 0, "sp": 1}) + [{"zz": 1}]:
        for data in (MP_CONTROL, MP_DISC, MP_ELEM, MP_CTRLX):
            add(Case("modeselect6", "MODE_SELECT_6", ModeSelect6, (data,), kw, decode=True))
            add(Case("modeselect10", "MODE_SELECT_10", ModeSelect10, (data,), kw, decode=True))
    for data in (MP_EMPTY, MP_BAD):
        add(Case("modeselect6", "MODE_SELECT_6", ModeSelect6, (data,), {}, decode=True))
        add(Case("modeselect10", "MODE_SELECT_10", ModeSelect10, (data,), {}, decode=True))
    for kw in kw_variants({"sub_page_code": 1, "dbd": 1, "pc": 3, "alloclen": 32}) + [{"alloclen": 4}, {"alloclen": 255}, {"llbaa": 1}]:
        for pc in (0x0A, 0x02, 0x1D, 0x3F, 0):
            add(Case("modesense6", "MODE_SENSE_6", ModeSense6, (pc,), kw, decode=True))
    for kw in kw_variants({"sub_page_code": 1, "llbaa": 1, "dbd": 1, "pc": 2, "alloclen": 40}) + [{"alloclen": 8}, {"alloclen": 0xFFFF}, {"qq": 1}]:
        for pc in (0x0A, 0x1D, 0):
            add(Case("modesense10", "MODE_SENSE_10", ModeSense10, (pc,), kw, decode=True))
    for kw in kw_variants({"prevent": 3}) + [{"prevent": 1}, {"prevent": True}, {"p": 1}]:
        add(Case("preventallowmediumremoval", "PREVENT_ALLOW_MEDIUM_REMOVAL", PreventAllowMediumRemoval, (), kw))
    add(Case("testunitready", "TEST_UNIT_READY", TestUnitReady))
    add(Case("testunitready", "TEST_UNIT_READY", TestUnitReady, (1,), {}, bindfail=True))
    for kw in kw_variants({"report": 2, "alloclen": 40}) + [{"alloclen": 8}, {"alloclen": 16}, {"r": 1}]:
        add(Case("reportluns", "REPORT_LUNS", ReportLuns, (), kw, decode=True))
    for kw in kw_variants({"priority": 1, "alloclen": 36}) + [{"alloclen": 4}, {"pr": 1}]:
        add(Case("reportpriority", ("sfx", "A3"), ReportPriority, (), kw, decode=True))
    for kw in kw_variants({"data_format": 1, "alloclen": 44}) + [{"alloclen": 4}, {"alloclen": 12}, {"df": 1}]:
        add(Case("reporttargetportgroups", ("sfx", "A3"), ReportTargetPortGroups, (), kw, decode=True))
    # --- persistent reservations
    pri = {0: PersistentReserveInReadKeys, 1: PersistentReserveInReadReservation,
           2: PersistentReserveInReportCapabilities, 3: PersistentReserveInReadFullStatus}
    for sa, cls in pri.items():
        for kw in kw_variants({"alloclen": 48}) + [{"alloclen": 8}, {"alloclen": 24}, {"junk": 5}]:
            add(Case("persistentreservein", "PERSISTENT_RESERVE_IN", cls, (sa,), kw, decode=True, refargs=()))
    add(Case("persistentreservein", "PERSISTENT_RESERVE_IN", PersistentReserveInReadKeys, (False,), {}, decode=True, refargs=()))
    add(Case("persistentreservein", "PERSISTENT_RESERVE_IN", PersistentReserveInReadReservation, (1.0,), {}, decode=True, refargs=()))
    K1, K2 = 0xDEADBEEF, 0xABCDEFAABBCCDDEE
    pro = [((0,), {}), ((0, 1, 4), {}), ((0,), {"scope": 1, "pr_type": 4}),
           ((0,), {"service_action_reservation_key": K2}),
           ((0,), {"service_action_reservation_key": K2, "spec_i_pt": 1}),
           ((0,), {"service_action_reservation_key": K2, "all_tg_pt": 1}),
           ((0,), {"service_action_reservation_key": K2, "aptpl": 1}),
           ((1, 0, 1), {"reservation_key": K1}), ((2, 0, 3), {"reservation_key": K1}),
           ((3,), {"reservation_key": K1}), ((4, 0, 5), {"reservation_key": K1, "service_action_reservation_key": K2}),
           ((5, 0, 6), {"reservation_key": K1, "service_action_reservation_key": K2}),
           ((6,), {"service_action_reservation_key": K1}),
           ((7,), {"reservation_key": K2, "service_action_reservation_key": 0x0102030405060708, "unreg": 1,
                   "aptpl": 1, "relative_target_port_id": 0xAABB}),
           ((8,), {"reservation_key": K1}), ((0,), {"unknown_key": 1}), ((31, 15, 15), {})]
    for a, kw in pro:
        add(Case("persistentreserveout", "PERSISTENT_RESERVE_OUT", PersistentReserveOut, a, kw))
    add(Case("persistentreserveout", "PERSISTENT_RESERVE_OUT", PersistentReserveOut, (), {"service_action": 1, "scope": 2, "pr_type": 3}))
    # --- block commands
    rkw = kw_variants({"rdprotect": 2, "dpo": 1, "fua": 1, "rarc": 1, "group": 19}) + [{"fua": True}, {"nokw": 1}]
    for meth, name, cls in (("read10", "READ_10", Read10), ("read12", "READ_12", Read12), ("read16", "READ_16", Read16)):
        for kw in rkw:
            add(Case(meth, name, cls, (1024, 27), kw, pre=True))
        for a in ((0, 0), (0xFFFFFFFF, 1), (5, 0x101), (1, 1)):
            add(Case(meth, name, cls, a, {}, pre=True))
    wkw = kw_variants({"wrprotect": 2, "dpo": 1, "fua": 1, "group": 19}) + [{"nokw": 1}]
    for meth, name, cls in (("write10", "WRITE_10", Write10), ("write12", "WRITE_12", Write12), ("write16", "WRITE_16", Write16)):
        for kw in wkw:
            add(Case(meth, name, cls, (1024, 2, bytearray(range(8)) * 2), kw, pre=True))
        for a in ((0, 0, bytearray()), (7, 1, b"\x01\x02\x03"), (0xFFFFFFFF, 0xFFFF, bytearray(b"xyz")), (3, 1, bytearray(4096))):
            add(Case(meth, name, cls, a, {}, pre=True))
    skw = kw_variants({"wrprotect": 4, "anchor": 1, "unmap": 1, "group": 7}) + [{"nokw": 1}]
    for kw in skw:
        add(Case("writesame10", "WRITE_SAME_10", WriteSame10, (1024, 27, bytearray(b"\xa5" * 16)), kw, pre=True))
    for kw in skw + [{"ndob": 1}]:
        add(Case("writesame16", "WRITE_SAME_16", WriteSame16, (1024, 27, bytearray(b"\x5a" * 16)), kw, pre=True))
    add(Case("writesame16", "WRITE_SAME_16", WriteSame16, (0xFFFFFFFFFF, 0xFFFFFFFF, None), {"ndob": 1}, pre=True))
    add(Case("writesame10", "WRITE_SAME_10", WriteSame10, (0, 0, bytearray()), {}, pre=True))
    for kw in kw_variants({"immed": 1, "group": 19}) + [{"z": 1}]:
        add(Case("synchronizecache10", "SYNCHRONIZE_CACHE_10", SynchronizeCache10, (1024, 27), kw))
        add(Case("synchronizecache16", "SYNCHRONIZE_CACHE_16", SynchronizeCache16, (1024, 27), kw))
    add(Case("synchronizecache10", "SYNCHRONIZE_CACHE_10", SynchronizeCache10, (0xFFFFFFFF, 0xFFFF), {}))
    add(Case("synchronizecache16", "SYNCHRONIZE_CACHE_16", SynchronizeCache16, (0xFFFFFFFFFFFFFFFF, 0xFFFFFFFF), {}))
    for kw in kw_variants({"alloclen": 16}) + [{"alloclen": 0}, {"alloclen": 4}, {"a": 1}]:
        add(Case("readcapacity10", "READ_CAPACITY_10", ReadCapacity10, (), kw, decode=True))
    for kw in kw_variants({"alloclen": 64}) + [{"alloclen": 0}, {"alloclen": 12}, {"a": 1}]:
        add(Case("readcapacity16", ("sfx", "9E"), ReadCapacity16, (), kw, decode=True))
    for kw in kw_variants({"alloclen": 24}) + [{"alloclen": 8}, {"alloclen": 40}, {"a": 1}]:
        add(Case("getlbastatus", ("sfx", "9E"), GetLBAStatus, (19,), kw, decode=True))
    add(Case("getlbastatus", ("sfx", "9E"), GetLBAStatus, (0xFFFFFFFFFFFFFFFF,), {"alloclen": 56}, decode=True))
    # --- multimedia
    for kw in kw_variants({"est": 1, "dap": 1, "mcsb": 0x1F, "c2ei": 1, "scsb": 2}) + [{"mcsb": 0x02}, {"mcsb": 0x10, "c2ei": 2}, {"scsb": 1}, {"scsb": 4}, {"q": 1}]:
        for a in ((640, 2), (0, 0), (100, 1)):
            u = {"lba": a[0], "tl": a[1]}
            u.update(kw)
            add(Case("readcd", "READ_CD", ReadCd, a, kw, decode=True, ukw=u))
    for a, kw in [((0,), {}), ((1, 64), {}), ((2,), {"alloc_len": 12}), ((0,), {"alloc_len": 34}), ((0,), {"alloc_len": 2}), ((0,), {"bad": 1}), ((7, 48), {})]:
        add(Case("readdiscinformation", "READ_DISC_INFORMATION", ReadDiscInformation, a, kw, decode=True, bindfail="bad" in kw))
    # --- ata pass through
    base = (4, 2, 1, 1, 0, 0, 0, 1, 0, 0xEC)
    akw = kw_variants({"blocksize": 512, "extra_tl": 2, "ck_cond": 1, "device": 0xA0, "control": 4,
                       "data": None}) + [{"q": 1}]
    for kw in akw:
        add(Case("atapassthrough12", "ATA_PASS_THROUGH_12", ATAPassThrough12, base, kw, raw=True))
    for kw in akw + [{"extend": 0}, {"extend": 1, "ck_cond": 1}]:
        add(Case("atapassthrough16", "ATA_PASS_THROUGH_16", ATAPassThrough16, base, kw, raw=True))
    others = [(3, 0, 0, 0, 0, 0, 0, 0, 0, 0xE5), (5, 2, 1, 0, 0, 0, 0, 1, 0x10, 0x30),
              (4, 2, 1, 1, 1, 0, 0, 2, 0, 0x20), (4, 3, 0, 1, 0, 0, 0, 0, 0, 0x2F), (4, 1, 0, 1, 0, 3, 7, 0, 0xFFFFFF, 0xB0)]
    for a in others:
        for kw in ({}, {"data": bytearray(b"\x11" * 512)}, {"blocksize": 256}, {"extra_tl": 5}):
            add(Case("atapassthrough12", "ATA_PASS_THROUGH_12", ATAPassThrough12, a, kw, raw=True))
            add(Case("atapassthrough16", "ATA_PASS_THROUGH_16", ATAPassThrough16, a, kw, raw=True))
    # --- extended copy
    e4 = [((), {}), ((0x50,), {}), ((), {"sequential_striped": 1}), ((), {"nrcr": 1}), ((), {"priority": 5}),
          ((), {"inline_data": bytearray.fromhex("deadbeef")}), ((), {"target_descriptor_list": [TGT]}),
          ((0x12, 1, 1, 3, [TGT], [SEG], bytearray(b"\x01\x02")), {}),
          ((), {"list_identifier": 0x12, "segment_descriptor_list": [SEG], "inline_data": bytearray.fromhex("deadbeef")}),
          ((), {"bogus": 1})]
    for a, kw in e4:
        add(Case("extendedcopy4", "EXTENDED_COPY", ExtendedCopy4, a, kw, bindfail="bogus" in kw))
    e5 = [((), {}), ((1,), {}), ((), {"list_id_usage": 2}), ((), {"priority": 5}), ((), {"g_sense": 1}),
          ((), {"immed": 1}), ((), {"list_identifier": 0x77}), ((), {"inline_data": bytearray.fromhex("cafe")}),
          ((), {"cscd_descriptor_list": [TGT]}), ((1, 2, 3, 1, 1, 0x55, [TGT], [SEG], bytearray(b"\x09")), {}),
          ((), {"segment_descriptor_list": [SEG]}), ((), {"bogus": 1})]
    for a, kw in e5:
        add(Case("extendedcopy5", "EXTENDED_COPY", ExtendedCopy5, a, kw, bindfail="bogus" in kw))
    return cs


def test_facade_matrix():
    cases = build_cases()
    n = 0
    for setname, opcodes in SETS.items():
        for case in cases:
            if case.pre:
                bss = (512, 0, 4096, 1)
            else:
                bss = (0,)
            fills = FILLS if case.decode else (fill_pattern,)
            for bs in bss:
                for fill in fills:
                    run_case(case, setname, opcodes, bs, fill)
                    n += 1
    return n


# hard-coded CDB vectors (independent of the command classes)
VECTORS = [
    ("sbc", 512, "read10", (1024, 27), {}, "28000000040000001b00"),
    ("sbc", 512, "read10", (1024, 27), dict(rdprotect=2, dpo=1, fua=1, rarc=1, group=19), "285c0000040013001b00"),
    ("mmc", 2048, "read12", (1024, 27), {}, "a800000004000000001b0000"),
    ("sbc", 512, "read16", (1024, 27), dict(rdprotect=2, dpo=1, fua=1, rarc=1, group=19), "885c0000000000000400" "0000001b1300"),
    ("sbc", 512, "write10", (1024, 1, bytearray(512)), dict(wrprotect=2, dpo=1, fua=1, group=19), "2a580000040013000100"),
    ("ssc", 512, "write16", (1024, 1, bytearray(512)), {}, "8a000000000000000400" "000000010000"),
    ("spc", 0, "inquiry", (), {}, "120000006000"),
    ("mmc", 0, "inquiry", (1, 0x80, 255), {}, "12018000ff00"),
    ("smc", 0, "testunitready", (), {}, "000000000000"),
    ("sbc", 0, "readcapacity10", (), {}, "25000000000000000000"),
    ("sbc", 0, "readcapacity16", (), {}, "9e100000000000000000000000200000"),
    ("sbc", 0, "getlbastatus", (19,), {"alloclen": 24}, "9e120000000000000013" "00000018" "0000"),
    ("smc", 0, "movemedium", (15, 32, 64), {"invert": 1}, "a500000f0020004000000100"),
    ("smc", 0, "exchangemedium", (10, 11, 12, 13), {"inv1": 1}, "a600000a000b000c000d0200"),
    ("smc", 0, "positiontoelement", (15, 32), {"invert": 1}, "2b00000f002000000100"),
    ("smc", 0, "initializeelementstatus", (), {}, "070000000000"),
    ("smc", 0, "initializeelementstatuswithrange", (15, 3), {"rng": 1, "fast": 1}, "3703000f000000030000"),
    ("smc", 0, "opencloseimportexportelement", (32, 1), {}, "1b0000200100"),
    ("smc", 0, "readelementstatus", (300, 700), dict(element_type=2, voltag=1, curdata=1, dvcid=1, alloclen=64), "b812012c02bc03000040" "0000"),
    ("spc", 0, "preventallowmediumremoval", (), {"prevent": 3}, "1e0000000300"),
    ("spc", 0, "modesense6", (0x0A,), dict(sub_page_code=1, dbd=1, pc=3, alloclen=32), "1a08ca012000"),
    ("spc", 0, "modesense10", (0x0A,), dict(sub_page_code=1, llbaa=1, dbd=1, pc=2, alloclen=40), "5a188a01000000002800"),
    ("spc", 0, "reportluns", (), {"report": 2, "alloclen": 40}, "a00002000000000000280000"),
    ("spc", 0, "reportpriority", (), {"priority": 1, "alloclen": 36}, "a30e40000000000000240000"),
    ("sbc", 0, "reporttargetportgroups", (), {"data_format": 1, "alloclen": 44}, "a32a000000000000002c0000"),
    ("sbc", 0, "synchronizecache10", (1024, 27), {"immed": 1, "group": 19}, "35020000040013001b00"),
    ("sbc", 0, "synchronizecache16", (1024, 27), {"immed": 1, "group": 19}, "91020000000000000400" "0000001b1300"),
    ("sbc", 512, "writesame10", (1024, 27, bytearray(512)), dict(wrprotect=4, anchor=1, unmap=1, group=7), "41980000040007001b00"),
    ("sbc", 512, "writesame16", (1024, 27, bytearray(512)), dict(wrprotect=4, anchor=1, unmap=1, ndob=0, group=7), "93980000000000000400" "0000001b0700"),
    ("spc", 0, "persistentreservein", (1,), {"alloclen": 48}, "5e010000000000003000"),
    ("spc", 0, "persistentreserveout", (7, 1, 4), {}, "5f071400000000001800"),
    ("spc", 0, "extendedcopy4", (), {}, "83000000000000000000000000100000"),
    ("mmc", 0, "readcd", (640, 2), dict(est=1, dap=1, mcsb=0x1F, c2ei=1, scsb=2), "be06000002800000" "02fa0200"),
    ("mmc", 0, "readdiscinformation", (1, 64), {}, "51010000000000004000"),
    ("sbc", 0, "atapassthrough16", (4, 2, 1, 1, 0, 0, 0, 1, 0, 0xEC), {}, "85090e0000000100000000000000ec00"),
    ("sbc", 0, "atapassthrough12", (4, 2, 1, 1, 0, 0, 0, 1, 0, 0xEC), {}, "a1080e000100000000ec0000"),
]


def test_vectors(dump=False):
    for setname, bs, meth, a, kw, hexcdb in VECTORS:
        dev = RecDevice(SETS[setname], fill=fill_zero)
        s = SCSI(None, bs)
        s.device = dev
        got = outcome(lambda: getattr(s, meth)(*a, **kw))
        lab = "vector %s.%s%s%r" % (setname, meth, repr(a)[:60], kw)
        check(len(dev.calls) == 1, "%s: %d executes (%r)" % (lab, len(dev.calls), got[:2]))
        if len(dev.calls) != 1:
            continue
        if dump:
            print(lab, dev.calls[0]["cdb"].hex())
        if hexcdb is not None:
            check(dev.calls[0]["cdb"].hex() == hexcdb, "%s: cdb %s expected %s" % (lab, dev.calls[0]["cdb"].hex(), hexcdb))


def attach(dev, bs=0, cls=SCSI):
    s = cls(None, bs)
    s.device = dev
    return s


def test_custom_command_sets():
    sa = EC.service_actions
    custom = Enum({
        "READ_10": OpCode("READ_10", 0x3E, {}),
        "WRITE_16": OpCode("WRITE_16", 0x9A, {}),
        "INQUIRY": OpCode("INQUIRY", 0x13, {}),
        "TEST_UNIT_READY": OpCode("TEST_UNIT_READY", 0x1F, {}),
        "AAA_9E": OpCode("AAA_9E", 0x9D, sa),
        "BBB_9E": OpCode("BBB_9E", 0x9E, sa),
        "X_A3": OpCode("X_A3", 0xA9, sa),
        "REPORT_LUNS": OpCode("REPORT_LUNS", 0xB0, {}),
        "PERSISTENT_RESERVE_IN": OpCode("PERSISTENT_RESERVE_IN", 0x4E, {"READ_KEYS": 9, "READ_RESERVATION": 8,
                                                                    "REPORT_CAPABILITIES": 7, "READ_FULL_STATUS": 6}),
        "READ_CAPACITY_10": OpCode("READ_CAPACITY_10", 0x2F, {}),
        "9E": OpCode("SHORT", 0x80, sa),
    })
    for case in [
        Case("read10", "READ_10", Read10, (7, 3), {"fua": 1}, pre=True),
        Case("write16", "WRITE_16", Write16, (7, 1, bytearray(b"ab")), {}, pre=True),
        Case("inquiry", "INQUIRY", Inquiry, (), {}, decode=True, ukw={"evpd": 0}, refargs=(),
             refkw={"evpd": 0, "page_code": 0, "alloclen": 96}),
        Case("testunitready", "TEST_UNIT_READY", TestUnitReady),
        Case("readcapacity16", ("sfx", "9E"), ReadCapacity16, (), {}, decode=True),
        Case("getlbastatus", ("sfx", "9E"), GetLBAStatus, (5,), {"alloclen": 24}, decode=True),
        Case("reportpriority", ("sfx", "A3"), ReportPriority, (), {"alloclen": 20}, decode=True),
        Case("reporttargetportgroups", ("sfx", "A3"), ReportTargetPortGroups, (), {"alloclen": 20}, decode=True),
        Case("reportluns", "REPORT_LUNS", ReportLuns, (), {"alloclen": 24}, decode=True),
        Case("readcapacity10", "READ_CAPACITY_10", ReadCapacity10, (), {}, decode=True),
        Case("persistentreservein", "PERSISTENT_RESERVE_IN", PersistentReserveInReadKeys, (9,), {}, decode=True, refargs=()),
        Case("persistentreservein", "PERSISTENT_RESERVE_IN", PersistentReserveInReadFullStatus, (6,), {"alloclen": 32}, decode=True, refargs=()),
        Case("read12", "READ_12", Read12, (1, 1), {}, pre=True),
        Case("movemedium", "MOVE_MEDIUM", MoveMedium, (1, 2, 3), {}),
    ]:
        for fill in (fill_zero, fill_rnd(9), fill_small_lengths(3)):
            cmd = run_case(case, "custom", custom, 512, fill)
            if case.method == "readcapacity16" and cmd is not None:
                check(cmd.cdb[0] == 0x9D, "custom set: first ..9E key must win (%#x)" % cmd.cdb[0])
            if case.method == "reportpriority" and cmd is not None:
                check(cmd.cdb[0] == 0xA9, "custom set: ..A3 key (%#x)" % cmd.cdb[0])
    # only the matched service action of the device's PERSISTENT_RESERVE_IN needs to exist
    partial = Enum({"PERSISTENT_RESERVE_IN": OpCode("PERSISTENT_RESERVE_IN", 0x5E, {"READ_KEYS": 0})})
    run_case(Case("persistentreservein", "PERSISTENT_RESERVE_IN", PersistentReserveInReadKeys, (0,), {}, decode=True, refargs=()),
             "partial", partial, 0, fill_zero)
    dev = RecDevice(partial)
    got = outcome(lambda: attach(dev).persistentreservein(1))
    check(got[0] == "exc" and got[1] is AttributeError and not dev.calls, "partial PR-in set: %r" % (got[:2],))
    # a command set without any ..9E / ..A3 key
    none = Enum({"INQUIRY": OpCode("INQUIRY", 0x12, {})})
    for meth, a in (("readcapacity16", ()), ("getlbastatus", (1,)), ("reportpriority", ()), ("reporttargetportgroups", ())):
        dev = RecDevice(none)
        got = outcome(lambda: getattr(attach(dev), meth)(*a))
        check(got[0] == "exc" and got[1] is StopIteration and not dev.calls, "no suffix key: %s -> %r" % (meth, got[:2]))
    # opcode whose value has no CDB size
    bad = Enum({"TEST_UNIT_READY": OpCode("TEST_UNIT_READY", 0x7F, {})})
    dev = RecDevice(bad)
    got = outcome(lambda: attach(dev).testunitready())
    check(got[0] == "exc" and got[1] is SCSICommand.OpcodeException and not dev.calls, "opcode 0x7f: %r" % (got[:2],))


def test_pr_in_invalid_service_action():
    for setname in ("spc", "sbc", "ssc", "smc"):
        for sa in (4, -1, 255, None, "0", [0], (0,), {}, 0.5, b"\x00", 2**70):
            for kw in ({}, {"alloclen": 8}, {"junk": 1}):
                dev = RecDevice(SETS[setname])
                got = outcome(lambda: attach(dev).persistentreservein(sa, **kw))
                check(got[0] == "exc" and got[1] is ValueError and got[2] == "Invalid Service Action",
                      "PR-in sa=%r on %s: %r" % (sa, setname, got))
                check(not dev.calls, "PR-in sa=%r: device used" % (sa,))
    dev = RecDevice(EC.mmc)
    got = outcome(lambda: attach(dev).persistentreservein(0))
    check(got[0] == "exc" and got[1] is AttributeError and not dev.calls, "PR-in on mmc: %r" % (got[:2],))
    got = outcome(lambda: attach(dev).persistentreservein([0]))
    check(got[0] == "exc" and got[1] is AttributeError and not dev.calls, "PR-in [0] on mmc: %r" % (got[:2],))


class Boom(Exception):
    pass


def test_device_failure():
    calls = [
        ("sbc", lambda s: s.read10(1, 1)), ("sbc", lambda s: s.inquiry()), ("sbc", lambda s: s.readcapacity16()),
        ("sbc", lambda s: s.write16(1, 1, bytearray(512))), ("smc", lambda s: s.readelementstatus(0, 1)),
        ("mmc", lambda s: s.readcd(0, 1)), ("spc", lambda s: s.persistentreservein(0)),
        ("sbc", lambda s: s.atapassthrough16(4, 2, 1, 1, 0, 0, 0, 1, 0, 0xEC)), ("spc", lambda s: s.testunitready()),
        ("spc", lambda s: s.modesense6(0x0A)), ("spc", lambda s: s.reportluns()),
        ("mmc", lambda s: s.readdiscinformation(0)), ("spc", lambda s: s.modeselect6(MP_CONTROL)),
    ]
    for excobj in (Boom("x"), KeyError("k"), AttributeError("a"), StopIteration(), NotImplementedError("n"),
                   SCSIDevice.CheckCondition(bytearray(18))):
        for setname, fn in calls:
            dev = RecDevice(SETS[setname], fill=fill_ff, fail=excobj)
            s = attach(dev, 512)
            try:
                fn(s)
                check(False, "device failure swallowed (%r)" % (excobj,))
            except BaseException as e:  # noqa: B902
                check(e is excobj, "device failure altered: %r -> %r" % (excobj, e))
            check(len(dev.calls) == 1, "device failure: %d executes" % len(dev.calls))
            if dev.calls:
                check(dev.calls[0]["cmd"].result == {}, "decoded after a failed execute")


def test_subclass_execute_hook():
    class Counting(SCSI):
        def __init__(self, dev, bs=0):
            self.seen = []
            SCSI.__init__(self, dev, bs)

        def execute(self, cmd, en_raw_sense=False):
            self.seen.append((cmd, en_raw_sense, copy.deepcopy(cmd.result)))
            return SCSI.execute(self, cmd, en_raw_sense=en_raw_sense)

    class Narrow(SCSI):
        seen = 0

        def execute(self, cmd):
            Narrow.seen += 1
            return SCSI.execute(self, cmd)

    for case in build_cases()[::7]:
        for setname in ("sbc", "smc", "mmc"):
            holder = []

            def factory(bs):
                holder.append(Counting(None, bs))
                return holder[0]

            cmd = run_case(case, setname, SETS[setname], 512, fill_small_lengths(4), scsi_factory=factory)
            if cmd is not None:
                s = holder[0]
                check(len(s.seen) == 1 and s.seen[0][0] is cmd and s.seen[0][1] is bool(case.raw) and s.seen[0][2] == {},
                      "subclass execute hook for %s: %r" % (case.label(), s.seen))
            if cmd is not None and not case.raw:
                before = Narrow.seen
                run_case(case, setname, SETS[setname], 512, fill_small_lengths(4), scsi_factory=lambda bs: Narrow(None, bs))
                check(Narrow.seen == before + 1, "narrow execute override for %s" % case.label())


def test_scsi_object():
    table = {0: EC.sbc, 4: EC.sbc, 7: EC.sbc, 1: EC.ssc, 2: EC.ssc, 9: EC.ssc, 3: EC.spc, 8: EC.smc, 5: EC.mmc}
    initial = Enum({"INQUIRY": OpCode("INQUIRY", 0x12, {})})
    odd = Enum({"INQUIRY": OpCode("INQUIRY", 0x13, {})})
    for qual in (0, 1, 3, 7):
        for t in range(32):
            for start in (EC.spc, initial, odd):
                dev = RecDevice(start, devtype=(qual << 5) | t)
                s = SCSI(dev, 520)
                check(s.device is dev and s.blocksize == 520, "SCSI ctor stores device/blocksize")
                check(len(dev.calls) == 1, "SCSI ctor: %d commands" % len(dev.calls))
                rec = dev.calls[0]
                check(type(rec["cmd"]) is Inquiry and rec["cdb"] == bytes([start.INQUIRY.value, 0, 0, 0, 96, 0]),
                      "SCSI ctor inquiry cdb %s" % rec["cdb"].hex())
                check(rec["kwargs"] == {"en_raw_sense": False} and rec["opcodes_at_exec"] is start, "SCSI ctor inquiry call")
                check(dev.devicetype == t and type(dev.devicetype) is int, "devicetype %r expected %r" % (dev.devicetype, t))
                check(dev.opcodes is table.get(t, start), "opcodes for type %d" % t)
    # re-attach through __call__
    d1 = RecDevice(EC.spc, devtype=0)
    d2 = RecDevice(EC.spc, devtype=8)
    s = SCSI(d1, 512)
    ret = s(d2)
    check(ret is None and s.device is d2 and d2.opcodes is EC.smc and d2.devicetype == 8 and len(d2.calls) == 1, "__call__ re-attach")
    check(d1.opcodes is EC.sbc and len(d1.calls) == 1 and s.blocksize == 512, "__call__ leaves the old device alone")
    s(None)
    check(s.device is None, "__call__(None)")
    s0 = SCSI(None)
    check(s0.device is None and s0.blocksize == 0, "SCSI(None)")
    # failure of the probing inquiry propagates
    b = Boom("probe")
    d3 = RecDevice(EC.spc, fail=b)
    try:
        SCSI(d3)
        check(False, "probe failure swallowed")
    except Boom as e:
        check(e is b and d3.opcodes is EC.spc and not hasattr(d3, "devicetype"), "probe failure state")
    # context manager closes the device once, also on error
    d4 = RecDevice(EC.spc, devtype=5)
    with SCSI(d4) as s4:
        check(isinstance(s4, SCSI) and d4.closed == 0, "enter")
    check(d4.closed == 1, "exit closes once")
    try:
        with SCSI(d4):
            raise Boom("body")
    except Boom:
        pass
    check(d4.closed == 2, "exit on error closes")
    # blocksize property
    s5 = SCSI(None, 3)
    s5.blocksize = 2048
    check(s5.blocksize == 2048, "blocksize setter")
    d5 = RecDevice(EC.sbc)
    s5.device = d5
    c = s5.read16(0, 2)
    check(len(c.datain) == 4096 and len(d5.calls) == 1, "blocksize used at call time")
    s5.blocksize = 0
    got = outcome(lambda: s5.read16(0, 2))
    check(got[0] == "exc" and got[1] is SCSICommand.MissingBlocksizeException and len(d5.calls) == 1, "blocksize 0")
    # public execute wrapper
    for a, kw, exp in (((), {}, False), ((True,), {}, True), ((), {"en_raw_sense": True}, True), ((0,), {}, 0), ((), {"en_raw_sense": None}, None)):
        d6 = RecDevice(EC.spc)
        s6 = attach(d6)
        tur = TestUnitReady(EC.spc.TEST_UNIT_READY)
        r = s6.execute(tur, *a, **kw)
        check(r is None and len(d6.calls) == 1 and d6.calls[0]["args"] == (tur,) and list(d6.calls[0]["kwargs"]) == ["en_raw_sense"]
              and d6.calls[0]["kwargs"]["en_raw_sense"] is exp, "SCSI.execute forwarding %r %r" % (a, kw))
    sentinel = object()
    d7 = RecDevice(EC.spc)
    attach(d7).execute.__func__  # bound method exists
    try:
        attach(RecDevice(EC.spc, fail=Boom("e"))).execute(TestUnitReady(EC.spc.TEST_UNIT_READY))
        check(False, "SCSI.execute swallowed")
    except Boom:
        check(True, "")
    del sentinel


# --------------------------------------------------------------------------
# the shipped devices, driven through fake bindings
# --------------------------------------------------------------------------
FIXED_SENSE = bytearray([0x70, 0, 0x05, 0, 0, 0, 0, 10, 0, 0, 0, 0, 0x24, 0x00, 0, 0, 0, 0])


def test_sgio_device():
    for bad in ("", "dev/null", "/de", "/tmp/x", "iscsi://h/t/0", "/DEV/null"):
        got = outcome(lambda: SCSIDevice(bad))
        check(got[0] == "exc" and got[1] is NotImplementedError and got[2] == "No backend implemented for %s" % bad,
              "SCSIDevice(%r): %r" % (bad, got))
    del SGIO_LOG[:]

    def probe(fobj, cdb, dataout, datain):
        if cdb[0] == 0x12 and len(datain):
            datain[0] = 0x00  # direct access block device
            datain[8:16] = b"DEMOVEND"

    SGIO_HOOK[0] = probe
    for rw, mode in ((False, "rb"), (True, "rb+")):
        del SGIO_LOG[:]
        dev = SCSIDevice("/dev/null", readwrite=rw)
        check(dev.opcodes is EC.spc, "SCSIDevice default command set")
        with SCSI(dev, 512) as s:
            check(dev.opcodes is EC.sbc and dev.devicetype == 0, "probe through sgio")
            check(len(SGIO_LOG) == 1 and bytes(SGIO_LOG[0][1]) == bytes([0x12, 0, 0, 0, 96, 0]), "probe cdb via sgio")
            fobj = SGIO_LOG[0][0]
            check(getattr(fobj, "name", None) == "/dev/null" and fobj.mode == mode and not fobj.closed, "sgio file %r" % (fobj,))
            for fn, decode in ((lambda: s.read10(3, 2, fua=1), False), (lambda: s.readcapacity16(), True),
                               (lambda: s.write10(0, 1, bytearray(512)), False), (lambda: s.inquiry(1, 0x80, 40), True),
                               (lambda: s.testunitready(), False), (lambda: s.reportluns(alloclen=24), True)):
                del SGIO_LOG[:]
                state = {}

                def hook(f, cdb, dataout, datain, state=state):
                    state["n"] = state.get("n", 0) + 1
                    if len(datain) >= 8:
                        datain[0:8] = bytes([0, 0x80, 0, 4, 0x31, 0x32, 0x33, 0x34])

                SGIO_HOOK[0] = hook
                cmd = fn()
                check(state.get("n") == 1 and len(SGIO_LOG) == 1, "sgio.execute called %r times" % state.get("n"))
                rec = SGIO_LOG[0]
                check(rec[0] is fobj and rec[1] is cmd.cdb and rec[2] is cmd.dataout and rec[3] is cmd.datain,
                      "sgio got the command's own cdb/buffers")
                check(rec[4] == () and rec[5] == {}, "sgio extra arguments %r %r" % (rec[4], rec[5]))
                if decode:
                    exp = type(cmd).unmarshall_datain(bytearray(cmd.datain), **({"evpd": 1} if isinstance(cmd, Inquiry) else {}))
                    check(cmd.result == exp and cmd.result, "decode of sgio-filled buffer: %r" % (cmd.result,))
                else:
                    check(cmd.result == {}, "no decode expected")
            # check condition handling
            for sense in (FIXED_SENSE, bytearray(b"\x72\x05\x20\x00\x00\x00\x00\x00"), None, bytearray()):
                def cc(f, cdb, dataout, datain, sense=sense):
                    raise sgio.CheckConditionError(sense)

                SGIO_HOOK[0] = cc
                del SGIO_LOG[:]
                got = outcome(lambda: s.readcapacity10())
                check(got[0] == "exc" and got[1] is SCSIDevice.CheckCondition and len(SGIO_LOG) == 1, "check condition: %r" % (got,))
                exp_str = str(SCSIDevice.CheckCondition(sense))
                check(got[2] == exp_str, "check condition text %r vs %r" % (got[2], exp_str))
                del SGIO_LOG[:]
                cmd = s.atapassthrough16(4, 2, 1, 1, 0, 0, 0, 1, 0, 0xEC)
                check(cmd.raw_sense_data is sense and len(SGIO_LOG) == 1 and cmd.result == {}, "raw sense kept for ata pass through")
                del SGIO_LOG[:]
                tur = TestUnitReady(dev.opcodes.TEST_UNIT_READY)
                check(dev.execute(tur, en_raw_sense=True) is None and tur.raw_sense_data is sense, "device.execute(en_raw_sense=True)")
                check(s.execute(tur, True) is None, "SCSI.execute(en_raw_sense=True)")
            # other errors from the binding propagate untouched
            b = Boom("sg")

            def boom(f, cdb, dataout, datain):
                raise b

            SGIO_HOOK[0] = boom
            for fn in (lambda: s.readcapacity10(), lambda: s.atapassthrough12(4, 2, 1, 1, 0, 0, 0, 1, 0, 0xEC)):
                try:
                    fn()
                    check(False, "binding error swallowed")
                except Boom as e:
                    check(e is b, "binding error identity")
            SGIO_HOOK[0] = None
        check(fobj.closed, "context exit closes the sgio file")
    # properties
    dev = SCSIDevice("/dev/null")
    dev.opcodes = EC.mmc
    dev.devicetype = 5
    check(dev.opcodes is EC.mmc and dev.devicetype == 5 and repr(dev) == "SCSIDevice", "SCSIDevice properties")
    with dev as d:
        check(d is dev, "SCSIDevice enter")
    # replug detection
    base = "/dev/shm"
    if os.path.isdir(base) and os.access(base, os.W_OK):
        path = os.path.join(base, "c13_demo_%d" % os.getpid())
        tmp = path + ".new"
        try:
            for detect in (True, False):
                with open(path, "wb") as f:
                    f.write(b"0")
                dev = SCSIDevice(path, detect_replugged=detect)
                del SGIO_LOG[:]
                t1 = TestUnitReady(EC.spc.TEST_UNIT_READY)
                dev.execute(t1)
                f1 = SGIO_LOG[0][0]
                dev.execute(t1)
                check(SGIO_LOG[1][0] is f1 and not f1.closed, "no reopen without replug")
                with open(tmp, "wb") as f:
                    f.write(b"1")
                os.replace(tmp, path)
                dev.execute(t1)
                f3 = SGIO_LOG[2][0]
                if detect:
                    check(f3 is not f1 and f1.closed and not f3.closed and f3.name == path, "reopen after replug")
                    dev.execute(t1)
                    check(SGIO_LOG[3][0] is f3, "stable after reopen")
                else:
                    check(f3 is f1 and not f1.closed, "detect_replugged=False keeps the file")
                check(all(r[1] is t1.cdb and r[2] is t1.dataout and r[3] is t1.datain for r in SGIO_LOG), "buffers across replug")
                dev.close()
        finally:
            for p in (path, tmp):
                if os.path.exists(p):
                    os.unlink(p)


def test_iscsi_device():
    for bad in ("", "/dev/sg0", "iscsi:/x", "ISCSI://h/t/0", "http://h"):
        got = outcome(lambda: ISCSIDevice(bad))
        check(got[0] == "exc" and got[1] is NotImplementedError and got[2] == "No backend implemented for %s" % bad,
              "ISCSIDevice(%r): %r" % (bad, got))
    url = "iscsi://10.0.0.1:3260/iqn.2000-01.demo:tgt/3"
    for ini in ("", "iqn.1999-01.me:init"):
        del ISCSI_LOG[:]
        ISCSI_HOOK[0] = None
        dev = ISCSIDevice(url, ini) if ini else ISCSIDevice(url)
        names = [e[0] for e in ISCSI_LOG]
        check(names == ["Context", "URL", "set_targetname", "set_session_type", "set_header_digest", "connect"], "iscsi open %r" % names)
        check(ISCSI_LOG[0][1] == (ini or url), "iscsi context name %r" % (ISCSI_LOG[0][1],))
        check(ISCSI_LOG[1][2] == url and ISCSI_LOG[2][1] == "iqn.2000-01.demo:tgt" and ISCSI_LOG[3][1] == 7 and ISCSI_LOG[4][1] == 9
              and ISCSI_LOG[5][1:] == ("10.0.0.1:3260", 3), "iscsi open arguments")
        check(dev.opcodes is EC.spc, "ISCSIDevice default command set")

        def probe(task, dataout, datain):
            if task.cdb[0] == 0x12:
                datain[0] = 0x08

        ISCSI_HOOK[0] = probe
        s = SCSI(dev, 512)
        check(dev.opcodes is EC.smc and dev.devicetype == 8, "probe through iscsi")
        dev.opcodes = EC.sbc
        for fn, direction, decode in ((lambda: s.read10(3, 2), 101, False), (lambda: s.write10(0, 1, bytearray(512)), 102, False),
                                      (lambda: s.testunitready(), 100, False), (lambda: s.readcapacity16(), 101, True),
                                      (lambda: s.modeselect6(MP_CONTROL), 102, True), (lambda: s.read10(3, 0), 100, False),
                                      (lambda: s.atapassthrough16(4, 2, 1, 1, 0, 0, 0, 1, 0, 0xEC), 101, False),
                                      (lambda: s.atapassthrough16(5, 2, 1, 0, 0, 0, 0, 1, 0, 0x30, data=bytearray(512)), 102, False)):
            del ISCSI_LOG[:]

            def hook(task, dataout, datain):
                if len(datain) >= 12:
                    datain[0:12] = bytes([0, 0, 0, 0, 0, 0, 0x10, 0, 0, 0, 2, 0])

            ISCSI_HOOK[0] = hook
            cmd = fn()
            names = [e[0] for e in ISCSI_LOG]
            check(names == ["Task", "command"], "iscsi execute sequence %r" % names)
            t, c = ISCSI_LOG
            xfer = len(cmd.dataout) if len(cmd.dataout) else len(cmd.datain)
            check(t[1] is cmd.cdb and t[2] == direction and t[3] == xfer, "iscsi task %r dir=%r len=%r (expected %r/%r)" % (type(cmd).__name__, t[2], t[3], direction, xfer))
            check(c[1] == 3 and c[2].cdb is cmd.cdb and c[3] is cmd.dataout and c[4] is cmd.datain, "iscsi command buffers")
            if decode and not isinstance(cmd, ModeSelect6):
                check(cmd.result == type(cmd).unmarshall_datain(bytearray(cmd.datain)) and cmd.result["returned_lba"] == 0x1000,
                      "decode of iscsi-filled buffer %r" % (cmd.result,))
        # status handling
        st = EC.SCSI_STATUS
        table = [(st.RESERVATION_CONFLICT, "ReservationConflict"), (st.TASK_ABORTED, "TaskAborted"), (st.BUSY, "BusyStatus"),
                 (st.TASK_SET_FULL, "TaskSetFull"), (st.ACA_ACTIVE, "ACAActive"), (st.CONDITIONS_MET, "ConditionsMet"),
                 (st.SGIO_ERROR, None), (0x99, None), (None, None), ("GOOD", None), ([0], None), (-1, None)]
        for status, name in table:
            for fn in (lambda: s.readcapacity10(), lambda: s.atapassthrough12(4, 2, 1, 1, 0, 0, 0, 1, 0, 0xEC), lambda: s.testunitready()):
                def sth(task, dataout, datain, status=status):
                    task.status = status

                ISCSI_HOOK[0] = sth
                del ISCSI_LOG[:]
                got = outcome(fn)
                exp = getattr(ISCSIDevice, name) if name else RuntimeError
                check(got[0] == "exc" and got[1] is exp and got[2] == "", "iscsi status %r -> %r (expected %r)" % (status, got, exp))
                check([e[0] for e in ISCSI_LOG] == ["Task", "command"], "iscsi status: one command")
        for status in (0, 0.0, False):
            def good(task, dataout, datain, status=status):
                task.status = status

            ISCSI_HOOK[0] = good
            check(s.readcapacity10().result == {"returned_lba": 0, "block_length": 0}, "iscsi GOOD status %r" % (status,))
        for has_raw, sense in ((True, FIXED_SENSE), (True, None), (True, bytearray()), (False, None)):
            def cc(task, dataout, datain):
                task.status = 2
                if has_raw:
                    task.raw_sense = sense

            ISCSI_HOOK[0] = cc
            for raw in (False, True):
                tur = TestUnitReady(dev.opcodes.TEST_UNIT_READY)
                got = outcome(lambda: dev.execute(tur, en_raw_sense=raw) if raw else dev.execute(tur))
                check(got[0] == "exc" and got[1] is ISCSIDevice.CheckCondition and got[2] == str(ISCSIDevice.CheckCondition(sense)),
                      "iscsi check condition %r" % (got,))
                check(tur.sense is sense, "iscsi sense stored")
                check(tur.raw_sense_data is (sense if raw else None), "iscsi raw sense %r/%r" % (raw, tur.raw_sense_data))
            got = outcome(lambda: s.readcapacity10())
            check(got[0] == "exc" and got[1] is ISCSIDevice.CheckCondition, "facade surfaces iscsi check condition")
            got = outcome(lambda: s.atapassthrough16(4, 2, 1, 1, 0, 0, 0, 1, 0, 0xEC))
            check(got[0] == "exc" and got[1] is ISCSIDevice.CheckCondition, "ata pass through over iscsi raises as well")
        ISCSI_HOOK[0] = None
        del ISCSI_LOG[:]
        dev.devicetype = 1
        check(dev.devicetype == 1, "ISCSIDevice devicetype")
        with dev as d:
            check(d is dev, "ISCSIDevice enter")
        check(ISCSI_LOG == [("disconnect",)], "ISCSIDevice exit disconnects %r" % ISCSI_LOG)
        del ISCSI_LOG[:]
        with SCSI(None) as sx:
            sx.device = dev
        check(ISCSI_LOG == [("disconnect",)], "SCSI exit disconnects")


# --------------------------------------------------------------------------
# converter helpers and the command base class
# --------------------------------------------------------------------------
def ref_int_to_ba(v, n):
    return bytearray([(v >> (8 * (n - 1 - i))) & 0xFF for i in range(max(n, 0))])


def ref_ba_to_int(ba):
    total = 0
    n = len(ba)
    for i in range(n):
        total += ba[i] << (8 * (n - 1 - i))
    return total


def ref_width(mask):
    n = 1
    while mask > 0xFF:
        mask >>= 8
        n += 1
    return n


def ref_decode(data, check):
    out = {}
    for key in check:
        val = check[key]
        if len(val) == 2:
            mask, pos = val
            v = ref_ba_to_int(data[pos:pos + ref_width(mask)])
            while not mask & 1:
                mask >>= 1
                v >>= 1
            out[key] = v & mask
        else:
            mult = {"b": 1, "w": 2, "dw": 4}[val[0]]
            out[key] = data[val[1]:val[1] + val[2] * mult]
    return out


def ref_encode(d, check, result):
    for key in d:
        if key not in check:
            continue
        val = check[key]
        v = d[key]
        if len(val) == 2:
            mask, pos = val
            n = ref_width(mask)
            m = mask
            while not m & 1:
                m >>= 1
                v <<= 1
            for i, b in enumerate(ref_int_to_ba(v, n)):
                result[pos + i] ^= b
        else:
            mult = {"b": 1, "w": 2, "dw": 4}[val[0]]
            result[val[1]:val[1] + val[2] * mult] = v


def test_converter():
    r = random.Random(1234)
    vals = [0, 1, 34, 255, 256, 0xFFFF, 0x10000, 0xDEADBEEF, 2**32, 2**64 - 1, 2**70 + 5, -1, -256, -(2**33), True]
    for v in vals:
        for n in (0, 1, 2, 3, 4, 8, 9, 16, -1):
            got = outcome(lambda: CV.scsi_int_to_ba(v, n))
            check(got == ("ok", ref_int_to_ba(v, n)) and type(got[1]) is bytearray, "scsi_int_to_ba(%r,%r) -> %r" % (v, n, got))
    check(CV.scsi_int_to_ba() == bytearray(4) and CV.scsi_int_to_ba(34) == bytearray(b'\x00\x00\x00"')
          and CV.scsi_int_to_ba(array_size=2, to_convert=0x1234) == bytearray(b"\x12\x34"), "scsi_int_to_ba defaults/keywords")
    for bad in (1.5, "1", None, b"\x01"):
        got = outcome(lambda: CV.scsi_int_to_ba(bad, 2))
        check(got[0] == "exc" and got[1] is TypeError, "scsi_int_to_ba(%r) -> %r" % (bad, got))
    for _ in range(300):
        n = r.randint(0, 12)
        raw = bytes(r.randint(0, 255) for _ in range(n))
        for ba in (raw, bytearray(raw), list(raw), tuple(raw), memoryview(raw)):
            check(CV.scsi_ba_to_int(ba) == int.from_bytes(raw, "big"), "scsi_ba_to_int(%r)" % (ba,))
    check(CV.scsi_ba_to_int([256, 1]) == 65537 and CV.scsi_ba_to_int([]) == 0 and CV.scsi_ba_to_int([True, 2]) == 258
          and CV.scsi_ba_to_int([-1, 0]) == -256, "scsi_ba_to_int on plain int lists")
    for bad in (None, 5, [1.0], ["a"], [None]):
        got = outcome(lambda: CV.scsi_ba_to_int(bad))
        check(got[0] == "exc" and got[1] is TypeError, "scsi_ba_to_int(%r) -> %r" % (bad, got))
    # decode / encode
    masks = [0x01, 0x80, 0x7F, 0xFF, 0xE0, 0x1C, 0x06, 0x18, 0xFFFF, 0x0FFF, 0xFFF0, 0x8000, 0x0100, 0x3FF8, 0xFFFFFF, 0x7FFFFF,
             0x1F0000, 0xFFFFFFFF, 0xFFFFFFFFFFFF, 0xFFFFFFFFFFFFFFFF, 0xF00000000000000F, 0x180, 0xFF00]
    for rnd in range(120):
        data = bytearray(r.randint(0, 255) for _ in range(24))
        chk = {}
        for j in range(r.randint(0, 9)):
            kind = r.choice(["m", "m", "m", "b", "w", "dw"])
            if kind == "m":
                m = r.choice(masks)
                pos = r.randint(0, 24 - ref_width(m))
                chk["f%d" % j] = r.choice([list, tuple])((m, pos))
            else:
                mult = {"b": 1, "w": 2, "dw": 4}[kind]
                ln = r.randint(0, 3)
                pos = r.randint(0, 24 - ln * mult)
                chk["f%d" % j] = r.choice([list, tuple])((kind, pos, ln))
        for src in (data, bytes(data)):
            res = {"keep": 1}
            ret = CV.decode_bits(src, chk, res)
            exp = ref_decode(src, chk)
            exp_all = dict(keep=1, **exp)
            check(ret is None and res == exp_all and list(res) == list(exp_all), "decode_bits %r -> %r expected %r" % (chk, res, exp_all))
            check(all(type(res[k]) is type(exp[k]) for k in exp), "decode_bits value types")
        # encode what was decoded into a clean buffer and decode again
        vals_in = ref_decode(data, chk)
        vals_in["unknown_field"] = 99
        buf = bytearray(24)
        ref = bytearray(24)
        ret = CV.encode_dict(vals_in, chk, buf)
        ref_encode(vals_in, chk, ref)
        check(ret is None and buf == ref, "encode_dict %r %r -> %s expected %s" % (vals_in, chk, buf.hex(), ref.hex()))
        # xor semantics on a dirty buffer
        buf = bytearray(data)
        ref = bytearray(data)
        only_masks = {k: v for k, v in chk.items() if len(v) == 2}
        some = {k: r.randint(0, 3) for k in only_masks}
        CV.encode_dict(some, only_masks, buf)
        ref_encode(some, only_masks, ref)
        check(buf == ref, "encode_dict xor semantics")
    res = {}
    CV.decode_bits(bytearray(b"\x12\x34\x56\x78"), {"a": [0xF0, 0], "b": (0x0FF0, 1), "c": ("b", 1, 2), "d": ("w", 0, 1), "e": ("dw", 0, 1), "f": [0x80, 9]}, res)
    check(res == {"a": 1, "b": 0x45, "c": bytearray(b"\x34\x56"), "d": bytearray(b"\x12\x34"), "e": bytearray(b"\x12\x34\x56\x78"), "f": 0},
          "decode_bits fixed vector %r" % res)
    buf = bytearray(6)
    CV.encode_dict({"a": 1, "b": 0x45, "c": b"\xaa\xbb", "zz": 1, "t": True}, {"a": [0xF0, 0], "b": (0x0FF0, 1), "c": ("b", 3, 2), "t": [0x01, 5]}, buf)
    check(buf == bytearray(b"\x10\x04\x50\xaa\xbb\x01"), "encode_dict fixed vector %s" % buf.hex())
    buf = bytearray(2)
    got = outcome(lambda: CV.encode_dict({"a": 0x1FF}, {"a": [0xFF, 1]}, buf))
    check(got[0] == "ok" and buf == bytearray(b"\x00\xff"), "encode_dict truncates oversized values %r %s" % (got, buf.hex()))
    got = outcome(lambda: CV.encode_dict({"a": 1}, {"a": [0xFFFF, 1]}, bytearray(2)))
    check(got[0] == "exc" and got[1] is IndexError, "encode_dict past the end %r" % (got,))
    got = outcome(lambda: CV.encode_dict({"a": "x"}, {"a": [0xFF, 0]}, bytearray(2)))
    check(got[0] == "exc" and got[1] is TypeError, "encode_dict non int %r" % (got,))
    got = outcome(lambda: CV.decode_bits(b"", {"a": [0xFF, 3]}, {}))
    check(got == ("ok", None), "decode_bits beyond the data %r" % (got,))
    # get_opcode
    for setname, e in SETS.items():
        for part in ("9E", "A3", "A4", "7F", "_6", "10", "16", "", "E", "XYZ", "A", "3", None, 9):
            exp = [getattr(e, k) for k in e.keys if k[-2:] == part]
            g = CV.get_opcode(e, part)
            check(isinstance(g, types.GeneratorType), "get_opcode returns a generator")
            got = list(g)
            check(len(got) == len(exp) and all(a is b for a, b in zip(got, exp)), "get_opcode(%s,%r) %r" % (setname, part, got))
    g = outcome(lambda: CV.get_opcode(None, "9E"))
    check(g[0] == "ok", "get_opcode is lazy")
    got = outcome(lambda: next(g[1]))
    check(got[0] == "exc" and got[1] is AttributeError, "get_opcode(None) fails on first next: %r" % (got,))
    e = Enum({"X_9E": 1, "Y_9E": 2, "Z_9F": 3})
    g = CV.get_opcode(e, "9E")
    check(next(g) == 1 and next(g) == 2 and next(g, "end") == "end", "get_opcode yields matches in key order")
    # print_data
    out = io.StringIO()
    with contextlib.redirect_stdout(out):
        CV.print_data({"s": "txt", "i": 10, "f": 1.5, "n": {"x": 255, "y": "z"}, "b": True})
    check(out.getvalue() == "s -> txt\ni -> 0x0A\nf -> 01\nn\nx -> 0xFF\ny -> z\nb -> 0x01\n", "print_data %r" % out.getvalue())


def test_command_base():
    class Op(object):
        def __init__(self, v):
            self.value = v

    sizes = {}
    for v in range(-2, 260):
        if 0 <= v <= 0x1F:
            sizes[v] = 6
        elif 0x20 <= v <= 0x5F:
            sizes[v] = 10
        elif 0x80 <= v <= 0x9F:
            sizes[v] = 16
        elif 0xA0 <= v <= 0xBF:
            sizes[v] = 12
        else:
            sizes[v] = None
    for v, n in sizes.items():
        for op in (Op(v), OpCode("X", v, {})):
            got = outcome(lambda: SCSICommand.init_cdb(op))
            if n is None:
                check(got[0] == "exc" and got[1] is SCSICommand.OpcodeException, "init_cdb(%#x) -> %r" % (v, got))
            else:
                check(got == ("ok", bytearray(n)) and type(got[1]) is bytearray, "init_cdb(%#x) -> %r" % (v, got))
    for v, n in ((0.0, 6), (31.5, None), (0x5F, 10), (95.5, None), (True, 6), (0x9F + 0.5, None), (191.0, 12)):
        got = outcome(lambda: SCSICommand.init_cdb(Op(v)))
        check((got == ("ok", bytearray(n))) if n else (got[0] == "exc" and got[1] is SCSICommand.OpcodeException), "init_cdb(%r) -> %r" % (v, got))
    for v in (None, "12", [1]):
        got = outcome(lambda: SCSICommand.init_cdb(Op(v)))
        check(got[0] == "exc" and got[1] is TypeError, "init_cdb(%r) -> %r" % (v, got))
    got = outcome(lambda: SCSICommand.init_cdb(None))
    check(got[0] == "exc" and got[1] is AttributeError, "init_cdb(None)")
    # construction
    op = EC.sbc.READ_10
    c = SCSICommand(op, 3, 5)
    check(c.dataout == bytearray(3) and c.datain == bytearray(5) and type(c.datain) is bytearray and type(c.dataout) is bytearray,
          "buffers allocated")
    check(c.result == {} and c.pagecode is None and c.opcode is op and c.sense is None and c.raw_sense_data is None, "fresh command state")
    check(c.cdb == bytearray(10) and repr(c) == "SCSICommand" and str(c) == "SCSICommand", "fresh cdb/repr")
    c2 = SCSICommand(op, 0, 0)
    check(c2.result is not c.result and c2.datain is not c.datain, "no shared state between commands")
    for name, val in (("result", {"a": 1}), ("cdb", bytearray(b"\x01")), ("datain", bytearray(b"\x02")), ("dataout", bytearray(b"\x03")),
                      ("sense", bytearray(b"\x70")), ("raw_sense_data", b"\x01"), ("pagecode", 0x83), ("opcode", EC.sbc.WRITE_10)):
        setattr(c, name, val)
        check(getattr(c, name) is val, "property %s round trip" % name)
        check(isinstance(getattr(SCSICommand, name), property), "%s is a property" % name)
    check(c2.cdb == bytearray(10) and c2.opcode is op and c2.sense is None, "instances independent")
    out = io.StringIO()
    with contextlib.redirect_stdout(out):
        c2.cdb = bytearray(b"\x12\x00\xff")
        c2.print_cdb()
    check(out.getvalue() == "0x12 \n0x00 \n0xFF \n", "print_cdb %r" % out.getvalue())
    # cdb marshalling through the base class
    r = Read10(op, 512, 1024, 27, fua=1)
    d = Read10.unmarshall_cdb(r.cdb)
    check(d["lba"] == 1024 and d["tl"] == 27 and d["fua"] == 1 and d["opcode"] == 0x28, "unmarshall_cdb %r" % d)
    check(Read10.marshall_cdb(d) == r.cdb and r.marshall_cdb(d) == r.cdb and SCSICommand.marshall_cdb(d) == r.cdb, "marshall_cdb")
    check(r.build_cdb(opcode=0x28, lba=1024, tl=27, fua=1, unknown=5) == r.cdb, "build_cdb")
    check(r.build_cdb() == bytearray(10), "build_cdb()")
    # unmarshall wrapper
    t = TestUnitReady(EC.spc.TEST_UNIT_READY)
    got = outcome(lambda: t.unmarshall())
    check(got == ("exc", NotImplementedError, "TestUnitReady has no method to unmarshall datain data"), "unmarshall without decoder %r" % (got,))
    check(t.result == {}, "result untouched")
    got = outcome(lambda: c2.unmarshall(x=1))
    check(got == ("exc", NotImplementedError, "SCSICommand has no method to unmarshall datain data"), "base unmarshall %r" % (got,))

    class Dec(SCSICommand):
        mode = "ok"
        seen = None

        def __init__(self):
            SCSICommand.__init__(self, EC.spc.INQUIRY, 0, 4)

        def unmarshall_datain(self, data, **kw):
            Dec.seen = (data, kw)
            if self.mode == "attr":
                raise AttributeError("inner")
            if self.mode == "key":
                raise KeyError("inner")
            return {"n": len(data), "kw": kw}

    dcmd = Dec()
    dcmd.datain[:] = b"\x01\x02\x03\x04"
    check(dcmd.unmarshall(a=1, b=2) is None and dcmd.result == {"n": 4, "kw": {"a": 1, "b": 2}}, "unmarshall stores the decoder result")
    check(Dec.seen[0] is dcmd.datain, "decoder sees the command's own datain buffer")
    dcmd.mode = "attr"
    got = outcome(lambda: dcmd.unmarshall())
    check(got == ("exc", NotImplementedError, "Dec has no method to unmarshall datain data"), "AttributeError inside the decoder %r" % (got,))
    dcmd.mode = "key"
    got = outcome(lambda: dcmd.unmarshall())
    check(got[0] == "exc" and got[1] is KeyError, "other decoder errors propagate %r" % (got,))
    check(dcmd.result == {"n": 4, "kw": {"a": 1, "b": 2}}, "failed decode keeps the old result")
    for name in ("CommandNotImplemented", "MissingBlocksizeException", "OpcodeException", "CheckCondition"):
        check(isinstance(getattr(SCSICommand, name), type) and issubclass(getattr(SCSICommand, name), Exception), "exception class %s" % name)


def main():
    tests = [test_facade_matrix, test_vectors, test_custom_command_sets, test_pr_in_invalid_service_action, test_device_failure,
             test_subclass_execute_hook, test_scsi_object, test_sgio_device, test_iscsi_device, test_converter, test_command_base]
    for t in tests:
        before = len(FAILS)
        try:
            t()
        except Exception as e:  # noqa: B902
            import traceback

            traceback.print_exc()
            FAILS.append("%s crashed: %r" % (t.__name__, e))
        if "-v" in sys.argv:
            print("%-36s checks so far %7d  new failures %d" % (t.__name__, CHECKS[0], len(FAILS) - before))
    if FAILS:
        print("FAIL (%d of %d checks failed)" % (len(FAILS), CHECKS[0]))
        return 1
    print("PASS (%d checks)" % CHECKS[0])
    return 0


if __name__ == "__main__":
    sys.exit(main())
