#!/usr/bin/env python
# coding: utf-8
"""
Property C01 demo: every CDB the library builds has the SAM length for its
operation code and carries each argument at the byte/bit positions assigned by
SPC/SBC/SMC/MMC/SAT, with the right opcode / service action and every other bit
zero -- and decoding the CDB gives the caller's arguments back.

The expected CDB layouts below are written down independently of the library
(byte, most-significant bit, width -- the notation used in the T10 tables).

Run:  cd /tmp/seed/C01u && PYTHONPATH=/tmp/seed/C01u /venv/bin/python SEED/demo.py
"""
import importlib
import inspect
import random
import sys
import types

# --------------------------------------------------------------------------
# fake external bindings (never used for real I/O here)
# --------------------------------------------------------------------------
for _name in ("sgio", "iscsi"):
    try:
        importlib.import_module(_name)
    except Exception:  # pragma: no cover
        _m = types.ModuleType(_name)

        class _CheckConditionError(Exception):
            sense = b""

        _m.CheckConditionError = _CheckConditionError
        _m.execute = lambda *a, **k: 0
        sys.modules[_name] = _m

from pyscsi.pyscsi import scsi_enum_command as EC  # noqa: E402
from pyscsi.pyscsi.scsi import SCSI  # noqa: E402
from pyscsi.pyscsi.scsi_cdb_atapassthrough12 import ATAPassThrough12  # noqa: E402
from pyscsi.pyscsi.scsi_cdb_atapassthrough16 import ATAPassThrough16  # noqa: E402
from pyscsi.pyscsi.scsi_cdb_exchangemedium import ExchangeMedium  # noqa: E402
from pyscsi.pyscsi.scsi_cdb_extended_copy_spc4 import (  # noqa: E402
    ExtendedCopy as ExtendedCopy4,
)
from pyscsi.pyscsi.scsi_cdb_extended_copy_spc5 import (  # noqa: E402
    ExtendedCopy as ExtendedCopy5,
)
from pyscsi.pyscsi.scsi_cdb_getlbastatus import GetLBAStatus  # noqa: E402
from pyscsi.pyscsi.scsi_cdb_initelementstatus import (  # noqa: E402
    InitializeElementStatus,
)
from pyscsi.pyscsi.scsi_cdb_initelementstatuswithrange import (  # noqa: E402
    InitializeElementStatusWithRange,
)
from pyscsi.pyscsi.scsi_cdb_inquiry import Inquiry  # noqa: E402
from pyscsi.pyscsi.scsi_cdb_modesense6 import ModeSelect6, ModeSense6  # noqa: E402
from pyscsi.pyscsi.scsi_cdb_modesense10 import ModeSelect10, ModeSense10  # noqa: E402
from pyscsi.pyscsi.scsi_cdb_movemedium import MoveMedium  # noqa: E402
from pyscsi.pyscsi.scsi_cdb_openclose_exportimport_element import (  # noqa: E402
    OpenCloseImportExportElement,
)
from pyscsi.pyscsi.scsi_cdb_persistentreservein import (  # noqa: E402
    PersistentReserveIn,
    PersistentReserveInReadFullStatus,
    PersistentReserveInReadKeys,
    PersistentReserveInReadReservation,
    PersistentReserveInReportCapabilities,
)
from pyscsi.pyscsi.scsi_cdb_persistentreserveout import (  # noqa: E402
    PersistentReserveOut,
)
from pyscsi.pyscsi.scsi_cdb_positiontoelement import PositionToElement  # noqa: E402
from pyscsi.pyscsi.scsi_cdb_preventallow_mediumremoval import (  # noqa: E402
    PreventAllowMediumRemoval,
)
from pyscsi.pyscsi.scsi_cdb_read10 import Read10  # noqa: E402
from pyscsi.pyscsi.scsi_cdb_read12 import Read12  # noqa: E402
from pyscsi.pyscsi.scsi_cdb_read16 import Read16  # noqa: E402
from pyscsi.pyscsi.scsi_cdb_readcapacity10 import ReadCapacity10  # noqa: E402
from pyscsi.pyscsi.scsi_cdb_readcapacity16 import ReadCapacity16  # noqa: E402
from pyscsi.pyscsi.scsi_cdb_readcd import ReadCd  # noqa: E402
from pyscsi.pyscsi.scsi_cdb_readdiscinformation import (  # noqa: E402
    ReadDiscInformation,
)
from pyscsi.pyscsi.scsi_cdb_readelementstatus import ReadElementStatus  # noqa: E402
from pyscsi.pyscsi.scsi_cdb_report_luns import ReportLuns  # noqa: E402
from pyscsi.pyscsi.scsi_cdb_report_priority import ReportPriority  # noqa: E402
from pyscsi.pyscsi.scsi_cdb_report_target_port_groups import (  # noqa: E402
    ReportTargetPortGroups,
)
from pyscsi.pyscsi.scsi_cdb_synchronize_cache10 import (  # noqa: E402
    SynchronizeCache10,
)
from pyscsi.pyscsi.scsi_cdb_synchronize_cache16 import (  # noqa: E402
    SynchronizeCache16,
)
from pyscsi.pyscsi.scsi_cdb_testunitready import TestUnitReady  # noqa: E402
from pyscsi.pyscsi.scsi_cdb_write10 import Write10  # noqa: E402
from pyscsi.pyscsi.scsi_cdb_write12 import Write12  # noqa: E402
from pyscsi.pyscsi.scsi_cdb_write16 import Write16  # noqa: E402
from pyscsi.pyscsi.scsi_cdb_writesame10 import WriteSame10  # noqa: E402
from pyscsi.pyscsi.scsi_cdb_writesame16 import WriteSame16  # noqa: E402
from pyscsi.pyscsi.scsi_command import SCSICommand  # noqa: E402
from pyscsi.pyscsi.scsi_opcode import OpCode  # noqa: E402
from pyscsi.utils.converter import (  # noqa: E402
    decode_bits,
    encode_dict,
    get_opcode,
    scsi_ba_to_int,
    scsi_int_to_ba,
)

RNG = random.Random(0xC01)
CHECKS = 0
SETS = {"spc": EC.spc, "sbc": EC.sbc, "ssc": EC.ssc, "smc": EC.smc, "mmc": EC.mmc}


def check(cond, msg):
    global CHECKS
    CHECKS += 1
    if not cond:
        print("FAIL:", msg)
        sys.exit(1)


# --------------------------------------------------------------------------
# independent reference encoder / decoder (T10 notation: byte, msb, width)
# --------------------------------------------------------------------------
def sam_length(opcode):
    group = (opcode >> 5) & 7
    return {0: 6, 1: 10, 2: 10, 4: 16, 5: 12}.get(group)


def ref_encode(length, layout, values):
    total = length * 8
    whole = 0
    for name, (byte, msb, width) in layout.items():
        v = int(values[name])
        assert 0 <= v < (1 << width), (name, v, width)
        pos = byte * 8 + (7 - msb)
        assert pos + width <= total
        whole |= v << (total - pos - width)
    return whole.to_bytes(length, "big")


def ref_decode(cdb, layout):
    total = len(cdb) * 8
    whole = int.from_bytes(bytes(cdb), "big")
    out = {}
    for name, (byte, msb, width) in layout.items():
        pos = byte * 8 + (7 - msb)
        out[name] = (whole >> (total - pos - width)) & ((1 << width) - 1)
    return out


OP = (0, 7, 8)
SA = (1, 4, 5)

# name -> (opcode, {field: (byte, msb, width)}); "opcode" is always byte 0
L = {
    "inquiry": (0x12, {"evpd": (1, 0, 1), "page_code": (2, 7, 8), "alloc_len": (3, 7, 16)}),
    "exchangemedium": (
        0xA6,
        {
            "medium_transport_address": (2, 7, 16),
            "source_address": (4, 7, 16),
            "first_destination_address": (6, 7, 16),
            "second_destination_address": (8, 7, 16),
            "inv1": (10, 1, 1),
            "inv2": (10, 0, 1),
        },
    ),
    "getlbastatus": (0x9E, {"service_action": SA, "lba": (2, 7, 64), "alloc_len": (10, 7, 32)}),
    "initializeelementstatus": (0x07, {}),
    "initializeelementstatuswithrange": (
        0x37,
        {
            "fast": (1, 1, 1),
            "range": (1, 0, 1),
            "starting_element_address": (2, 7, 16),
            "number_of_elements": (6, 7, 16),
        },
    ),
    "modeselect6": (0x15, {"pf": (1, 4, 1), "sp": (1, 0, 1), "parameter_list_length": (4, 7, 8)}),
    "modesense6": (
        0x1A,
        {
            "dbd": (1, 3, 1),
            "pc": (2, 7, 2),
            "page_code": (2, 5, 6),
            "sub_page_code": (3, 7, 8),
            "alloc_len": (4, 7, 8),
        },
    ),
    "modesense10": (
        0x5A,
        {
            "llbaa": (1, 4, 1),
            "dbd": (1, 3, 1),
            "pc": (2, 7, 2),
            "page_code": (2, 5, 6),
            "sub_page_code": (3, 7, 8),
            "alloc_len": (7, 7, 16),
        },
    ),
    "modeselect10": (0x55, {"pf": (1, 4, 1), "sp": (1, 0, 1), "parameter_list_length": (7, 7, 16)}),
    "opencloseimportexportelement": (0x1B, {"element_address": (2, 7, 16), "action_code": (4, 4, 5)}),
    "positiontoelement": (
        0x2B,
        {
            "medium_transport_address": (2, 7, 16),
            "destination_address": (4, 7, 16),
            "invert": (8, 0, 1),
        },
    ),
    "preventallowmediumremoval": (0x1E, {"prevent": (4, 1, 2)}),
    "read10": (
        0x28,
        {
            "rdprotect": (1, 7, 3),
            "dpo": (1, 4, 1),
            "fua": (1, 3, 1),
            "rarc": (1, 2, 1),
            "lba": (2, 7, 32),
            "group": (6, 4, 5),
            "tl": (7, 7, 16),
        },
    ),
    "read12": (
        0xA8,
        {
            "rdprotect": (1, 7, 3),
            "dpo": (1, 4, 1),
            "fua": (1, 3, 1),
            "rarc": (1, 2, 1),
            "lba": (2, 7, 32),
            "tl": (6, 7, 32),
            "group": (10, 4, 5),
        },
    ),
    "read16": (
        0x88,
        {
            "rdprotect": (1, 7, 3),
            "dpo": (1, 4, 1),
            "fua": (1, 3, 1),
            "rarc": (1, 2, 1),
            "lba": (2, 7, 64),
            "tl": (10, 7, 32),
            "group": (14, 4, 5),
        },
    ),
    "readcapacity10": (0x25, {}),
    "readcapacity16": (0x9E, {"service_action": SA, "alloc_len": (10, 7, 32)}),
    "readcd": (
        0xBE,
        {
            "est": (1, 4, 3),
            "dap": (1, 1, 1),
            "lba": (2, 7, 32),
            "tl": (6, 7, 24),
            "mcsb": (9, 7, 5),
            "c2ei": (9, 2, 2),
            "scsb": (10, 2, 3),
        },
    ),
    "readdiscinformation": (0x51, {"data_type": (1, 2, 3), "alloc_len": (7, 7, 16)}),
    "readelementstatus": (
        0xB8,
        {
            "voltag": (1, 4, 1),
            "element_type": (1, 3, 4),
            "starting_element_address": (2, 7, 16),
            "num_elements": (4, 7, 16),
            "curdata": (6, 1, 1),
            "dvcid": (6, 0, 1),
            "alloc_len": (7, 7, 24),
        },
    ),
    "movemedium": (
        0xA5,
        {
            "medium_transport_address": (2, 7, 16),
            "source_address": (4, 7, 16),
            "destination_address": (6, 7, 16),
            "invert": (10, 0, 1),
        },
    ),
    "synchronizecache10": (
        0x35,
        {"immed": (1, 1, 1), "lba": (2, 7, 32), "group": (6, 4, 5), "numblks": (7, 7, 16)},
    ),
    "synchronizecache16": (
        0x91,
        {"immed": (1, 1, 1), "lba": (2, 7, 64), "numblks": (10, 7, 32), "group": (14, 4, 5)},
    ),
    "testunitready": (0x00, {}),
    "write10": (
        0x2A,
        {
            "wrprotect": (1, 7, 3),
            "dpo": (1, 4, 1),
            "fua": (1, 3, 1),
            "lba": (2, 7, 32),
            "group": (6, 4, 5),
            "tl": (7, 7, 16),
        },
    ),
    "write12": (
        0xAA,
        {
            "wrprotect": (1, 7, 3),
            "dpo": (1, 4, 1),
            "fua": (1, 3, 1),
            "lba": (2, 7, 32),
            "tl": (6, 7, 32),
            "group": (10, 4, 5),
        },
    ),
    "write16": (
        0x8A,
        {
            "wrprotect": (1, 7, 3),
            "dpo": (1, 4, 1),
            "fua": (1, 3, 1),
            "lba": (2, 7, 64),
            "tl": (10, 7, 32),
            "group": (14, 4, 5),
        },
    ),
    "writesame10": (
        0x41,
        {
            "wrprotect": (1, 7, 3),
            "anchor": (1, 4, 1),
            "unmap": (1, 3, 1),
            "lba": (2, 7, 32),
            "group": (6, 4, 5),
            "nb": (7, 7, 16),
        },
    ),
    "writesame16": (
        0x93,
        {
            "wrprotect": (1, 7, 3),
            "anchor": (1, 4, 1),
            "unmap": (1, 3, 1),
            "ndob": (1, 0, 1),
            "lba": (2, 7, 64),
            "nb": (10, 7, 32),
            "group": (14, 4, 5),
        },
    ),
    "reportluns": (0xA0, {"select_report": (2, 7, 8), "alloc_len": (6, 7, 32)}),
    "reportpriority": (
        0xA3,
        {"service_action": SA, "priority_reported": (2, 7, 2), "alloc_len": (6, 7, 32)},
    ),
    "reporttargetportgroups": (
        0xA3,
        {"parameter_data_format": (1, 7, 3), "service_action": SA, "alloc_len": (6, 7, 32)},
    ),
    # SAT: the ATA lba is scattered over the LBA low/mid/high register bytes
    "atapassthrough12": (
        0xA1,
        {
            "protocol": (1, 4, 4),
            "off_line": (2, 7, 2),
            "ck_cond": (2, 5, 1),
            "t_type": (2, 4, 1),
            "t_dir": (2, 3, 1),
            "byte_block": (2, 2, 1),
            "t_length": (2, 1, 2),
            "fetures": (3, 7, 8),
            "count": (4, 7, 8),
            "lba_7_0": (5, 7, 8),
            "lba_15_8": (6, 7, 8),
            "lba_23_16": (7, 7, 8),
            "device": (8, 7, 8),
            "command": (9, 7, 8),
            "control": (11, 7, 8),
        },
    ),
    "atapassthrough16": (
        0x85,
        {
            "protocol": (1, 4, 4),
            "extend": (1, 0, 1),
            "off_line": (2, 7, 2),
            "ck_cond": (2, 5, 1),
            "t_type": (2, 4, 1),
            "t_dir": (2, 3, 1),
            "byte_block": (2, 2, 1),
            "t_length": (2, 1, 2),
            "fetures": (3, 7, 16),
            "count": (5, 7, 16),
            "lba_31_24": (7, 7, 8),
            "lba_7_0": (8, 7, 8),
            "lba_39_32": (9, 7, 8),
            "lba_15_8": (10, 7, 8),
            "lba_47_40": (11, 7, 8),
            "lba_23_16": (12, 7, 8),
            "device": (13, 7, 8),
            "command": (14, 7, 8),
            "control": (15, 7, 8),
        },
    ),
    "persistentreservein": (0x5E, {"service_action": SA, "alloc_len": (7, 7, 16)}),
    "persistentreserveout": (
        0x5F,
        {
            "service_action": SA,
            "scope": (2, 7, 4),
            "pr_type": (2, 3, 4),
            "parameter_list_length": (5, 7, 32),
        },
    ),
    "extendedcopy4": (0x83, {"service_action": SA, "parameter_list_length": (10, 7, 32)}),
    "extendedcopy5": (0x83, {"service_action": SA, "parameter_list_length": (10, 7, 32)}),
}

# which command set offers which command (as the library's opcode maps do)
ALL5 = {"spc", "sbc", "ssc", "smc", "mmc"}
NO_MMC = {"spc", "sbc", "ssc", "smc"}
OFFERED = {
    "inquiry": ALL5,
    "exchangemedium": {"smc"},
    "getlbastatus": {"sbc"},
    "initializeelementstatus": {"smc"},
    "initializeelementstatuswithrange": {"smc"},
    "modeselect6": NO_MMC,
    "modesense6": NO_MMC,
    "modesense10": ALL5,
    "modeselect10": ALL5,
    "opencloseimportexportelement": {"smc"},
    "positiontoelement": {"smc"},
    "preventallowmediumremoval": ALL5,
    "read10": {"sbc", "mmc"},
    "read12": {"sbc", "mmc"},
    "read16": {"sbc", "ssc"},
    "readcapacity10": {"sbc"},
    "readcapacity16": {"sbc"},
    "readcd": {"mmc"},
    "readdiscinformation": {"mmc"},
    "readelementstatus": {"smc"},
    "movemedium": {"smc"},
    "synchronizecache10": {"sbc"},
    "synchronizecache16": {"sbc"},
    "testunitready": ALL5,
    "write10": {"sbc", "mmc"},
    "write12": {"sbc", "mmc"},
    "write16": {"sbc", "ssc"},
    "writesame10": {"sbc"},
    "writesame16": {"sbc"},
    "reportluns": ALL5,
    "reportpriority": NO_MMC,
    "reporttargetportgroups": NO_MMC,
    "atapassthrough12": {"sbc"},
    "atapassthrough16": {"sbc"},
    "persistentreservein": NO_MMC,
    "persistentreserveout": NO_MMC,
    "extendedcopy4": {"spc", "sbc", "ssc"},
    "extendedcopy5": {"spc", "sbc", "ssc"},
}

CLASS_OF = {
    "inquiry": Inquiry,
    "exchangemedium": ExchangeMedium,
    "getlbastatus": GetLBAStatus,
    "initializeelementstatus": InitializeElementStatus,
    "initializeelementstatuswithrange": InitializeElementStatusWithRange,
    "modeselect6": ModeSelect6,
    "modesense6": ModeSense6,
    "modesense10": ModeSense10,
    "modeselect10": ModeSelect10,
    "opencloseimportexportelement": OpenCloseImportExportElement,
    "positiontoelement": PositionToElement,
    "preventallowmediumremoval": PreventAllowMediumRemoval,
    "read10": Read10,
    "read12": Read12,
    "read16": Read16,
    "readcapacity10": ReadCapacity10,
    "readcapacity16": ReadCapacity16,
    "readcd": ReadCd,
    "readdiscinformation": ReadDiscInformation,
    "readelementstatus": ReadElementStatus,
    "movemedium": MoveMedium,
    "synchronizecache10": SynchronizeCache10,
    "synchronizecache16": SynchronizeCache16,
    "testunitready": TestUnitReady,
    "write10": Write10,
    "write12": Write12,
    "write16": Write16,
    "writesame10": WriteSame10,
    "writesame16": WriteSame16,
    "reportluns": ReportLuns,
    "reportpriority": ReportPriority,
    "reporttargetportgroups": ReportTargetPortGroups,
    "atapassthrough12": ATAPassThrough12,
    "atapassthrough16": ATAPassThrough16,
    "persistentreservein": PersistentReserveIn,
    "persistentreserveout": PersistentReserveOut,
    "extendedcopy4": ExtendedCopy4,
    "extendedcopy5": ExtendedCopy5,
}


# --------------------------------------------------------------------------
# a transport that records what it is handed
# --------------------------------------------------------------------------
class RecordingDevice(object):
    def __init__(self, opcodes, devtype=None):
        self._opcodes = opcodes
        self.devtype = devtype
        self.seen = []
        self.closed = 0

    @property
    def opcodes(self):
        return self._opcodes

    @opcodes.setter
    def opcodes(self, value):
        self._opcodes = value

    def execute(self, cmd, en_raw_sense=False):
        check(isinstance(cmd, SCSICommand), "transport got a non-command")
        check(isinstance(cmd.cdb, bytearray), "cdb is not a bytearray: %r" % type(cmd.cdb))
        self.seen.append((bytes(cmd.cdb), cmd, en_raw_sense))
        if self.devtype is not None and cmd.cdb[0] == 0x12 and len(cmd.datain):
            cmd.datain[0] = self.devtype

    def open(self):
        pass

    def close(self):
        self.closed += 1


class BareSCSI(SCSI):
    """SCSI front end bound to a fixed opcode map (no probing INQUIRY)."""

    def __init__(self, dev, blocksize=0):
        self.device = dev
        self._blocksize = blocksize


class MyInt(int):
    """an int subclass, e.g. what an IntEnum member or a numpy-free wrapper is"""


# --------------------------------------------------------------------------
# value generators
# --------------------------------------------------------------------------
def interesting(width, cap=None):
    top = (1 << width) - 1
    vals = {0, 1, top, top >> 1, 1 << (width - 1)}
    vals.add(int("A" * 16, 16) & top)
    vals.add(int("5" * 16, 16) & top)
    for b in range(width):
        vals.add(1 << b)
    for _ in range(3):
        vals.add(RNG.getrandbits(width))
    if cap is not None:
        vals = {v for v in vals if v <= cap}
        vals.add(cap)
    return sorted(vals)


def rnd(width, cap=None):
    v = RNG.getrandbits(width)
    if cap is not None and v > cap:
        v %= cap + 1
    return v


def decorate(v):
    """occasionally pass a bool or an int subclass instead of a plain int"""
    r = RNG.random()
    if v in (0, 1) and r < 0.3:
        return bool(v)
    if r < 0.15:
        return MyInt(v)
    return v


# --------------------------------------------------------------------------
# generic driver
# --------------------------------------------------------------------------
class Case(object):
    """
    One SCSI front-end method.

    params: ordered list of (python parameter name, cdb field name, cap)
            for parameters that map 1:1 to a CDB field; cap limits values that
            drive a buffer allocation.
    npos:   how many leading params are positional in the SCSI method
    fixed:  extra constant CDB field values (service actions)
    """

    def __init__(self, method, params, npos, fixed=None, blocksize=0,
                 defaults=None, caps=None, data=False):
        self.method = method
        self.params = params
        self.npos = npos
        self.fixed = fixed or {}
        self.data = data
        self.blocksize = blocksize
        self.defaults = defaults or {}
        self.caps = caps or {}

    def widths(self):
        layout = L[self.method][1]
        return {p: layout[f][2] for p, f in self.params}


def expected_cdb(method, values):
    opcode, layout = L[method]
    length = sam_length(opcode)
    full = dict(layout)
    full["opcode"] = OP
    vals = dict(values)
    vals["opcode"] = opcode
    return ref_encode(length, full, vals)


def verify_cmd(method, setname, cmd, seen_cdb, values, decode_names=True):
    """values: cdb-field-name -> expected value (without opcode)"""
    opcode, layout = L[method]
    exp = expected_cdb(method, values)
    check(
        seen_cdb == exp,
        "%s/%s: cdb %s != expected %s for %r" % (setname, method, seen_cdb.hex(), exp.hex(), values),
    )
    check(bytes(cmd.cdb) == exp, "%s/%s: cmd.cdb changed after execute" % (setname, method))
    check(len(seen_cdb) == sam_length(opcode), "%s/%s: bad cdb length" % (setname, method))
    # a conformant target decoding the CDB recovers the arguments
    full = dict(layout)
    full["opcode"] = OP
    dec = ref_decode(seen_cdb, full)
    for k, v in values.items():
        check(dec[k] == int(v), "%s/%s: target decodes %s=%r, caller gave %r" % (setname, method, k, dec[k], v))
    check(dec["opcode"] == opcode, "%s/%s: wrong opcode" % (setname, method))
    if decode_names:
        # the library's own decoder agrees and re-encoding is the identity
        own = cmd.unmarshall_cdb(cmd.cdb)
        for k, v in values.items():
            if k in own:
                check(own[k] == int(v), "%s/%s: unmarshall_cdb %s=%r want %r" % (setname, method, k, own[k], v))
        check(own["opcode"] == opcode, "%s/%s: unmarshall_cdb opcode" % (setname, method))
        again = type(cmd).marshall_cdb(own)
        check(bytes(again) == exp, "%s/%s: marshall_cdb(unmarshall_cdb(cdb)) != cdb" % (setname, method))


def call(scsi, dev, method, args, kwargs):
    before = len(dev.seen)
    try:
        cmd = getattr(scsi, method)(*args, **kwargs)
    except (IndexError, KeyError, ValueError, NotImplementedError):
        # the CDB went out, but the all-zero / very short response buffer of the
        # recording transport is not something the response parser accepts;
        # that is outside the property -- keep checking what the transport got
        if len(dev.seen) != before + 1:
            raise
        cmd = dev.seen[-1][1]
    check(len(dev.seen) == before + 1, "%s: executed %d commands" % (method, len(dev.seen) - before))
    cdb, seen_cmd, raw = dev.seen[-1]
    check(seen_cmd is cmd, "%s: returned command is not the executed one" % method)
    return cmd, cdb, raw


def run_simple(case, setname, scsi, dev, nrandom=25):
    """drive a method whose python params map 1:1 to cdb fields"""
    method = case.method
    widths = case.widths()
    names = [p for p, _ in case.params]
    field = dict(case.params)

    def one(pvals, style):
        # pvals: python param -> value (maybe partial -> defaults apply)
        pos = names[: case.npos]
        kw = {p: pvals[p] for p in names[case.npos:] if p in pvals}
        if style == "kw":
            # everything by keyword, the usually positional ones too
            args = []
            kw.update({p: pvals[p] for p in pos})
            if case.data:
                kw["data"] = bytearray(b"\x5a" * 4)
        else:
            args = [pvals[p] for p in pos]
            if case.data:
                args.append(bytearray(b"\xa5" * 4))
        cmd, cdb, raw = call(scsi, dev, method, args, kw)
        check(raw is False, "%s: raw sense requested" % method)
        if case.data and not pvals.get("ndob"):
            check(bytes(cmd.dataout) in (b"\x5a" * 4, b"\xa5" * 4), "%s: dataout not the caller's" % method)
        exp = dict(case.fixed)
        for p in names:
            exp[field[p]] = pvals.get(p, case.defaults.get(p, 0))
        verify_cmd(method, setname, cmd, cdb, exp)
        return cmd

    zero = {p: 0 for p in names}
    one(zero, "pos")
    one(zero, "kw")
    # only the positional ones -> defaults for the rest
    one({p: 0 for p in names[: case.npos]}, "pos")
    # all fields at maximum (subject to allocation caps)
    top = {p: min((1 << widths[p]) - 1, case.caps.get(p, 1 << 80)) for p in names}
    one(top, "pos")
    # one field at a time
    for p in names:
        for v in interesting(widths[p], case.caps.get(p)):
            pv = dict(zero)
            pv[p] = v
            one(pv, "pos")
        pv = dict(top)
        pv[p] = 0
        one(pv, "kw")
    for i in range(nrandom):
        pv = {p: decorate(rnd(widths[p], case.caps.get(p))) for p in names}
        one(pv, "kw" if i % 3 == 0 else "pos")


ALLOC_CAP = 1 << 22  # keep buffers the constructors allocate reasonably small


def marshall_high_bits(method, cls, make):
    """
    Fields that drive a buffer allocation cannot be pushed to 2**32-1 through a
    constructor; exercise their high bits through the public marshall_cdb /
    unmarshall_cdb pair of a freshly built command instead.
    """
    opcode, layout = L[method]
    full = dict(layout)
    full["opcode"] = OP
    if any(k.startswith("lba_") for k in layout):
        return
    cmd = make()
    for name, (byte, msb, width) in layout.items():
        for v in interesting(width):
            vals = {k: 0 for k in layout}
            vals[name] = v
            vals["opcode"] = opcode
            got = cls.marshall_cdb(dict(vals))
            exp = ref_encode(sam_length(opcode), full, vals)
            check(bytes(got) == exp, "%s.marshall_cdb %s=%#x: %s != %s" % (method, name, v, bytes(got).hex(), exp.hex()))
            back = cls.unmarshall_cdb(got)
            check(back == vals, "%s.unmarshall_cdb %s=%#x: %r" % (method, name, v, back))
    # everything at once
    vals = {k: (1 << layout[k][2]) - 1 for k in layout}
    vals["opcode"] = opcode
    got = cmd.marshall_cdb(dict(vals))
    check(bytes(got) == ref_encode(sam_length(opcode), full, vals), "%s.marshall_cdb all ones" % method)
    check(cmd.unmarshall_cdb(got) == vals, "%s.unmarshall_cdb all ones" % method)


# --------------------------------------------------------------------------
# the cases
# --------------------------------------------------------------------------
def simple_cases():
    C = Case
    cases = [
        C("inquiry", [("evpd", "evpd"), ("page_code", "page_code"), ("alloclen", "alloc_len")], 0,
          defaults={"alloclen": 96}),
        C("exchangemedium",
          [("xfer", "medium_transport_address"), ("source", "source_address"),
           ("dest1", "first_destination_address"), ("dest2", "second_destination_address"),
           ("inv1", "inv1"), ("inv2", "inv2")], 4),
        C("getlbastatus", [("lba", "lba"), ("alloclen", "alloc_len")], 1,
          fixed={"service_action": 0x12}, defaults={"alloclen": 16384}, caps={"alloclen": ALLOC_CAP}),
        C("initializeelementstatus", [], 0),
        C("initializeelementstatuswithrange",
          [("xfer", "starting_element_address"), ("elements", "number_of_elements"),
           ("rng", "range"), ("fast", "fast")], 2),
        C("modesense6",
          [("page_code", "page_code"), ("sub_page_code", "sub_page_code"), ("dbd", "dbd"),
           ("pc", "pc"), ("alloclen", "alloc_len")], 1, defaults={"alloclen": 96}),
        C("modesense10",
          [("page_code", "page_code"), ("sub_page_code", "sub_page_code"), ("llbaa", "llbaa"),
           ("dbd", "dbd"), ("pc", "pc"), ("alloclen", "alloc_len")], 1, defaults={"alloclen": 96}),
        C("opencloseimportexportelement", [("xfer", "element_address"), ("acode", "action_code")], 2),
        C("positiontoelement",
          [("xfer", "medium_transport_address"), ("dest", "destination_address"), ("invert", "invert")], 2),
        C("preventallowmediumremoval", [("prevent", "prevent")], 0),
        C("read10",
          [("lba", "lba"), ("tl", "tl"), ("rdprotect", "rdprotect"), ("dpo", "dpo"), ("fua", "fua"),
           ("rarc", "rarc"), ("group", "group")], 2, blocksize=3),
        C("read12",
          [("lba", "lba"), ("tl", "tl"), ("rdprotect", "rdprotect"), ("dpo", "dpo"), ("fua", "fua"),
           ("rarc", "rarc"), ("group", "group")], 2, blocksize=1, caps={"tl": ALLOC_CAP}),
        C("read16",
          [("lba", "lba"), ("tl", "tl"), ("rdprotect", "rdprotect"), ("dpo", "dpo"), ("fua", "fua"),
           ("rarc", "rarc"), ("group", "group")], 2, blocksize=2, caps={"tl": ALLOC_CAP}),
        C("readcapacity10", [], 0),
        C("readcapacity16", [("alloclen", "alloc_len")], 0, fixed={"service_action": 0x10},
          defaults={"alloclen": 32}, caps={"alloclen": ALLOC_CAP}),
        C("readcd",
          [("lba", "lba"), ("tl", "tl"), ("est", "est"), ("dap", "dap"), ("mcsb", "mcsb"),
           ("c2ei", "c2ei"), ("scsb", "scsb")], 2, caps={"tl": 9}),
        C("readdiscinformation", [("data_type", "data_type"), ("alloc_len", "alloc_len")], 1,
          defaults={"alloc_len": 4096}),
        C("readelementstatus",
          [("start", "starting_element_address"), ("num", "num_elements"),
           ("element_type", "element_type"), ("voltag", "voltag"), ("curdata", "curdata"),
           ("dvcid", "dvcid"), ("alloclen", "alloc_len")], 2,
          defaults={"curdata": 1, "alloclen": 16384}, caps={"alloclen": ALLOC_CAP}),
        C("movemedium",
          [("xfer", "medium_transport_address"), ("source", "source_address"),
           ("dest", "destination_address"), ("invert", "invert")], 3),
        C("synchronizecache10",
          [("lba", "lba"), ("numblks", "numblks"), ("immed", "immed"), ("group", "group")], 2),
        C("synchronizecache16",
          [("lba", "lba"), ("numblks", "numblks"), ("immed", "immed"), ("group", "group")], 2),
        C("testunitready", [], 0),
        C("reportluns", [("report", "select_report"), ("alloclen", "alloc_len")], 0,
          defaults={"alloclen": 96}, caps={"alloclen": ALLOC_CAP}),
        C("reportpriority", [("priority", "priority_reported"), ("alloclen", "alloc_len")], 0,
          fixed={"service_action": 0x0E}, defaults={"alloclen": 16384}, caps={"alloclen": ALLOC_CAP}),
        C("reporttargetportgroups", [("data_format", "parameter_data_format"), ("alloclen", "alloc_len")], 0,
          fixed={"service_action": 0x0A}, defaults={"alloclen": 16384}, caps={"alloclen": ALLOC_CAP}),
    ]

    # write-type commands take a data buffer as third positional argument
    def with_data(case):
        case.data = True
        return case

    cases += [
        with_data(C("write10",
                    [("lba", "lba"), ("tl", "tl"), ("wrprotect", "wrprotect"), ("dpo", "dpo"),
                     ("fua", "fua"), ("group", "group")], 2, blocksize=2)),
        with_data(C("write12",
                    [("lba", "lba"), ("tl", "tl"), ("wrprotect", "wrprotect"), ("dpo", "dpo"),
                     ("fua", "fua"), ("group", "group")], 2, blocksize=1, caps={"tl": ALLOC_CAP})),
        with_data(C("write16",
                    [("lba", "lba"), ("tl", "tl"), ("wrprotect", "wrprotect"), ("dpo", "dpo"),
                     ("fua", "fua"), ("group", "group")], 2, blocksize=4, caps={"tl": ALLOC_CAP})),
        with_data(C("writesame10",
                    [("lba", "lba"), ("nb", "nb"), ("wrprotect", "wrprotect"), ("anchor", "anchor"),
                     ("unmap", "unmap"), ("group", "group")], 2, blocksize=512)),
        with_data(C("writesame16",
                    [("lba", "lba"), ("nb", "nb"), ("wrprotect", "wrprotect"), ("anchor", "anchor"),
                     ("unmap", "unmap"), ("ndob", "ndob"), ("group", "group")], 2, blocksize=512)),
    ]
    return cases


def not_offered(method, setname, scsi):
    """a command the set does not offer must not reach the transport"""
    dev = scsi.device
    before = len(dev.seen)
    sig = inspect.signature(getattr(SCSI, method))
    args = []
    for name, p in list(sig.parameters.items())[1:]:
        if p.kind == p.POSITIONAL_OR_KEYWORD and p.default is p.empty:
            args.append({} if name == "data" and "modeselect" in method else 0)
    try:
        getattr(scsi, method)(*args)
    except (AttributeError, StopIteration):
        pass
    except Exception as e:  # pragma: no cover
        check(False, "%s/%s: unexpected %r for a command that is not offered" % (setname, method, e))
    else:
        check(False, "%s/%s: command is not offered by this set but was built" % (setname, method))
    check(len(dev.seen) == before, "%s/%s: something reached the transport" % (setname, method))


# ---- mode select ----------------------------------------------------------
MODE_DATA = [
    ({"mode_pages": []}, 0),
    ({"mode_pages": [{"page_code": 0x0A, "spf": 0, "tst": 1, "d_sense": 1}]}, 12),
    ({"mode_pages": [{"page_code": 0x1D, "spf": 0, "first_storage": 0x1000, "num_storage": 40}]}, 20),
    ({"mode_pages": [{"page_code": 0x02, "spf": 0, "buffer_full_ratio": 3}]}, 16),
    ({"mode_pages": [{"page_code": 0x0A, "spf": 1, "sub_page_code": 1, "initial_command_priority": 3}]}, 32),
    ({"mode_pages": [{"page_code": 0x0A, "spf": 0}, {"page_code": 0x1D, "spf": 0}, {"page_code": 0x02, "spf": 0}]}, 48),
    ({"medium_type": 1, "mode_pages": [{"page_code": 0x0A, "spf": 0}] * 5}, 60),
]


def run_modeselect(method, header, setname, scsi, dev):
    for data, extra in MODE_DATA:
        for pf in (0, 1, True, None):
            for sp in (0, 1, False, None):
                kw = {}
                if pf is not None:
                    kw["pf"] = pf
                if sp is not None:
                    kw["sp"] = sp
                cmd, cdb, raw = call(scsi, dev, method, [data], kw)
                exp = {
                    "pf": 1 if pf is None else int(pf),
                    "sp": 0 if sp is None else int(sp),
                    "parameter_list_length": header + extra,
                }
                verify_cmd(method, setname, cmd, cdb, exp)
                check(len(cmd.dataout) == header + extra, "%s: dataout length" % method)


# ---- ATA pass-through -----------------------------------------------------
def ata_expected(method, a):
    lba = a["lba"]
    exp = {
        "protocol": a["protocal"],
        "t_length": a["t_length"],
        "byte_block": a["byte_block"],
        "t_dir": a["t_dir"],
        "t_type": a["t_type"],
        "off_line": a["off_line"],
        "fetures": a["fetures"],
        "count": a["count"],
        "command": a["command"],
        "ck_cond": a.get("ck_cond", 0),
        "device": a.get("device", 0),
        "control": a.get("control", 0),
        "lba_7_0": lba & 0xFF,
        "lba_15_8": (lba >> 8) & 0xFF,
        "lba_23_16": (lba >> 16) & 0xFF,
    }
    if method == "atapassthrough16":
        exp["lba_31_24"] = (lba >> 24) & 0xFF
        exp["lba_39_32"] = (lba >> 32) & 0xFF
        exp["lba_47_40"] = (lba >> 40) & 0xFF
        exp["extend"] = a.get("extend", 1)
    return exp


ATA_POS = ["protocal", "t_length", "byte_block", "t_dir", "t_type", "off_line", "fetures",
           "count", "lba", "command"]


def run_ata(method, setname, scsi, dev):
    wide = method == "atapassthrough16"
    w = {
        "protocal": 4, "t_length": 2, "byte_block": 1, "t_dir": 1, "t_type": 1, "off_line": 2,
        "fetures": 16 if wide else 8, "count": 16 if wide else 8, "lba": 48 if wide else 24,
        "command": 8, "ck_cond": 1, "device": 8, "control": 8,
    }
    if wide:
        w["extend"] = 1
    opt = [k for k in w if k not in ATA_POS]

    def one(a, style):
        a = dict(a)
        kw = {k: a[k] for k in opt if k in a}
        # a blocksize is needed when byte_block and t_type are set with a length
        if a["byte_block"] and a["t_type"] and a["t_length"]:
            kw["blocksize"] = 512
        if a["t_length"] == 3 and RNG.random() < 0.5:
            kw["extra_tl"] = RNG.randrange(0, 9)
        if style == "kw":
            args = []
            kw.update({k: a[k] for k in ATA_POS})
        else:
            args = [a[k] for k in ATA_POS]
        cmd, cdb, raw = call(scsi, dev, method, args, kw)
        check(raw is True, "%s: raw sense flag not passed" % method)
        verify_cmd(method, setname, cmd, cdb, ata_expected(method, a), decode_names=False)
        own = cmd.unmarshall_cdb(cmd.cdb)
        check(bytes(type(cmd).marshall_cdb(own)) == cdb, "%s: own decode/encode round trip" % method)
        for k in ("t_length", "byte_block", "t_dir", "t_type", "off_line", "fetures", "count",
                  "command", "ck_cond", "device", "control"):
            check(own[k] == int(a.get(k, 0)), "%s: unmarshall_cdb %s" % (method, k))
        check(own["protocol"] == int(a["protocal"]), "%s: unmarshall_cdb protocol" % method)

    zero = {k: 0 for k in ATA_POS}
    one(zero, "pos")
    one(zero, "kw")
    top = {k: (1 << w[k]) - 1 for k in w}
    one(top, "pos")
    one(top, "kw")
    for k in w:
        for v in interesting(w[k]):
            a = dict(zero)
            a[k] = v
            one(a, "pos")
        a = dict(top)
        a[k] = 0
        one(a, "kw")
    for i in range(60):
        a = {k: decorate(rnd(w[k])) for k in w}
        if i % 2:
            for k in opt:
                if RNG.random() < 0.5:
                    del a[k]
        one(a, "kw" if i % 3 == 0 else "pos")
    # data buffers handed through
    buf = bytearray(b"\x11" * 512)
    cmd, cdb, raw = call(scsi, dev, method, [4, 2, 1, 0, 0, 0, 0, 1, 0x1234, 0x35], {"data": buf})
    check(cmd.dataout is buf, "%s: dataout buffer" % method)
    cmd, cdb, raw = call(scsi, dev, method, [4, 2, 1, 1, 0, 0, 0, 1, 0x1234, 0x25], {"data": buf})
    check(cmd.datain is buf, "%s: datain buffer" % method)
    # the missing-blocksize guard
    try:
        getattr(scsi, method)(4, 2, 1, 1, 1, 0, 0, 1, 0, 0x25)
    except SCSICommand.MissingBlocksizeException:
        pass
    else:
        check(False, "%s: missing blocksize not reported" % method)


# ---- persistent reserve ---------------------------------------------------
PRIN = {
    0: PersistentReserveInReadKeys,
    1: PersistentReserveInReadReservation,
    2: PersistentReserveInReportCapabilities,
    3: PersistentReserveInReadFullStatus,
}


def run_prin(setname, scsi, dev):
    for sa, cls in PRIN.items():
        for alloclen in [None] + interesting(16):
            kw = {} if alloclen is None else {"alloclen": alloclen}
            cmd, cdb, raw = call(scsi, dev, "persistentreservein", [MyInt(sa)], kw)
            check(type(cmd) is cls, "persistentreservein: wrong class for sa %d" % sa)
            verify_cmd("persistentreservein", setname, cmd, cdb,
                       {"service_action": sa, "alloc_len": 1024 if alloclen is None else alloclen})
    for bad in (4, 0x1F, -1):
        before = len(dev.seen)
        try:
            scsi.persistentreservein(bad)
        except ValueError:
            pass
        else:
            check(False, "persistentreservein: invalid service action accepted")
        check(len(dev.seen) == before, "persistentreservein: invalid sa reached transport")
    # the base class takes any service action
    for sa in interesting(5):
        for alloclen in (0, 1, 0xFFFF, 0x8001):
            cmd = PersistentReserveIn(dev.opcodes.PERSISTENT_RESERVE_IN, sa, alloclen)
            verify_cmd("persistentreservein", setname, cmd, bytes(cmd.cdb),
                       {"service_action": sa, "alloc_len": alloclen})


def run_prout(setname, scsi, dev):
    tid_fc = {"protocol_id": 0, "tpid_format": 0, "n_port_name": bytearray(b"\x11\x22\x33\x44\x55\x66\x77\x88")}
    for sa in range(0, 9):
        for scope in interesting(4):
            for pr_type in (0, 1, 5, 8, 15):
                variants = [
                    ({}, None),
                    ({"reservation_key": 0xDEADBEEF, "service_action_reservation_key": 1, "aptpl": 1}, None),
                ]
                for kw, _ in variants:
                    cmd, cdb, raw = call(scsi, dev, "persistentreserveout", [sa, scope, pr_type], dict(kw))
                    plen = len(cmd.dataout)
                    check(plen == 24, "persistentreserveout: basic parameter list is 24 bytes")
                    verify_cmd("persistentreserveout", setname, cmd, cdb,
                               {"service_action": sa, "scope": scope, "pr_type": pr_type,
                                "parameter_list_length": plen})
    # keyword form and defaults
    cmd, cdb, raw = call(scsi, dev, "persistentreserveout", [], {"service_action": 3})
    verify_cmd("persistentreserveout", setname, cmd, cdb,
               {"service_action": 3, "scope": 0, "pr_type": 0, "parameter_list_length": 24})
    cmd, cdb, raw = call(scsi, dev, "persistentreserveout", [], {"pr_type": 7, "service_action": 1, "scope": 2})
    verify_cmd("persistentreserveout", setname, cmd, cdb,
               {"service_action": 1, "scope": 2, "pr_type": 7, "parameter_list_length": 24})
    # REGISTER with SPEC_I_PT: parameter list grows by the TransportIDs
    cmd, cdb, raw = call(scsi, dev, "persistentreserveout", [0],
                         {"spec_i_pt": 1, "transport_ids": [tid_fc, tid_fc], "pr_type": 3})
    check(len(cmd.dataout) == 28 + 48, "persistentreserveout: spec_i_pt list length %d" % len(cmd.dataout))
    verify_cmd("persistentreserveout", setname, cmd, cdb,
               {"service_action": 0, "scope": 0, "pr_type": 3, "parameter_list_length": 76})
    # REGISTER AND MOVE
    cmd, cdb, raw = call(scsi, dev, "persistentreserveout", [7, 1, 6],
                         {"transport_id": tid_fc, "relative_target_port_id": 9, "unreg": 1})
    check(len(cmd.dataout) == 48, "persistentreserveout: register-and-move list length")
    verify_cmd("persistentreserveout", setname, cmd, cdb,
               {"service_action": 7, "scope": 1, "pr_type": 6, "parameter_list_length": 48})
    cmd, cdb, raw = call(scsi, dev, "persistentreserveout", [7], {})
    verify_cmd("persistentreserveout", setname, cmd, cdb,
               {"service_action": 7, "scope": 0, "pr_type": 0, "parameter_list_length": 24})


# ---- extended copy --------------------------------------------------------
def run_xcopy(setname, scsi, dev):
    tgt4 = {
        "descriptor_type_code": "Identification descriptor target descriptor",
        "device_type_specific_parameters": {"disk_block_length": 512},
        "peripheral_device_type": 0,
        "target_descriptor_parameters": {
            "association": 0, "code_set": 1,
            "designator": {"ieee_company_id": 5807356, "naa": 6, "vendor_specific_identifier": 3140,
                           "vendor_specific_identifier_extension": 14160104652988484981},
            "designator_length": 16, "designator_type": 3,
        },
    }
    seg = {
        "block_device_number_of_blocks": 4, "dc": 1,
        "descriptor_type_code": "Copy from block device to block device",
        "destination_block_device_logical_block_address": 10,
        "destination_target_descriptor_id": 1,
        "source_block_device_logical_block_address": 1,
        "source_target_descriptor_id": 0,
    }
    for ntgt in (0, 1, 2, 5):
        for nseg in (0, 1, 3):
            for inline in (bytearray(0), bytearray(b"\xde\xad\xbe\xef"), bytearray(300)):
                kw = dict(priority=RNG.randrange(8), list_identifier=RNG.randrange(256),
                          target_descriptor_list=[tgt4] * ntgt, segment_descriptor_list=[seg] * nseg,
                          inline_data=inline)
                cmd, cdb, raw = call(scsi, dev, "extendedcopy4", [], kw)
                plen = 16 + 32 * ntgt + 28 * nseg + len(inline)
                check(len(cmd.dataout) == plen, "extendedcopy4: parameter list %d != %d" % (len(cmd.dataout), plen))
                verify_cmd("extendedcopy4", setname, cmd, cdb,
                           {"service_action": 0, "parameter_list_length": plen})
    cmd, cdb, raw = call(scsi, dev, "extendedcopy4", [], {})
    verify_cmd("extendedcopy4", setname, cmd, cdb, {"service_action": 0, "parameter_list_length": 16})

    cscd = {
        "descriptor_type_code": "Identification Descriptor CSCD descriptor",
        "peripheral_device_type": 0x00,
        "relative_initiator_port_identifier": 42,
        "cscd_descriptor_parameters": {
            "designator_type": 0,
            "designator": {"vendor_specific": bytearray.fromhex("deadbeef")},
        },
        "device_type_specific_parameters": {"pad": 1},
    }
    for ncscd in (0, 1, 4):
        for inline in (bytearray(0), bytearray(b"\x01\x02\x03"), bytearray(70000)):
            kw = dict(priority=RNG.randrange(8), list_identifier=RNG.getrandbits(32),
                      sequential_striped=RNG.randrange(2), immed=RNG.randrange(2),
                      cscd_descriptor_list=[cscd] * ncscd, inline_data=inline)
            cmd, cdb, raw = call(scsi, dev, "extendedcopy5", [], kw)
            plen = 48 + 32 * ncscd + len(inline)
            check(len(cmd.dataout) == plen, "extendedcopy5: parameter list %d != %d" % (len(cmd.dataout), plen))
            verify_cmd("extendedcopy5", setname, cmd, cdb,
                       {"service_action": 1, "parameter_list_length": plen})
    cmd, cdb, raw = call(scsi, dev, "extendedcopy5", [], {})
    verify_cmd("extendedcopy5", setname, cmd, cdb, {"service_action": 1, "parameter_list_length": 48})


# ---- direct construction --------------------------------------------------
def direct_construction():
    """the command classes used directly, with library and ad-hoc OpCode objects"""
    for setname, ops in (("sbc", EC.sbc), ("mmc", EC.mmc)):
        for i in range(30):
            lba, tl = rnd(32), rnd(10)
            f = [rnd(3), rnd(1), rnd(1), rnd(1), rnd(5)]
            c = Read10(ops.READ_10, 7, lba, tl, *f)
            check(len(c.datain) == 7 * tl, "Read10 datain size")
            verify_cmd("read10", setname, c, bytes(c.cdb),
                       dict(zip(["lba", "tl", "rdprotect", "dpo", "fua", "rarc", "group"], [lba, tl] + f)))
            c = Read12(ops.READ_12, blocksize=1, tl=tl, lba=lba, group=f[4], rarc=f[3], fua=f[2], dpo=f[1], rdprotect=f[0])
            verify_cmd("read12", setname, c, bytes(c.cdb),
                       dict(zip(["lba", "tl", "rdprotect", "dpo", "fua", "rarc", "group"], [lba, tl] + f)))
            data = bytearray(5)
            c = Write10(ops.WRITE_10, 3, lba, tl, data, f[0], f[1], f[2], f[4])
            check(c.dataout is data, "Write10 dataout")
            verify_cmd("write10", setname, c, bytes(c.cdb),
                       dict(zip(["lba", "tl", "wrprotect", "dpo", "fua", "group"], [lba, tl, f[0], f[1], f[2], f[4]])))
            c = Write12(ops.WRITE_12, 3, lba, tl, data, group=f[4], wrprotect=f[0])
            verify_cmd("write12", setname, c, bytes(c.cdb),
                       {"lba": lba, "tl": tl, "wrprotect": f[0], "dpo": 0, "fua": 0, "group": f[4]})
    for setname, ops in (("sbc", EC.sbc), ("ssc", EC.ssc)):
        for i in range(30):
            lba, tl = rnd(64), rnd(12)
            f = [rnd(3), rnd(1), rnd(1), rnd(1), rnd(5)]
            c = Read16(ops.READ_16, 2, lba, tl, *f)
            verify_cmd("read16", setname, c, bytes(c.cdb),
                       dict(zip(["lba", "tl", "rdprotect", "dpo", "fua", "rarc", "group"], [lba, tl] + f)))
            c = Write16(ops.WRITE_16, 2, lba, tl, bytearray(1), f[0], f[1], f[2], f[4])
            verify_cmd("write16", setname, c, bytes(c.cdb),
                       dict(zip(["lba", "tl", "wrprotect", "dpo", "fua", "group"], [lba, tl, f[0], f[1], f[2], f[4]])))
    # the blocksize guard of the block commands
    for cls, opn, extra in ((Read10, "READ_10", ()), (Read12, "READ_12", ()), (Read16, "READ_16", ()),
                            (Write10, "WRITE_10", (b"",)), (Write12, "WRITE_12", (b"",)),
                            (Write16, "WRITE_16", (b"",)), (WriteSame10, "WRITE_SAME_10", (b"",)),
                            (WriteSame16, "WRITE_SAME_16", (b"",))):
        try:
            cls(getattr(EC.sbc, opn), 0, 1, 1, *extra)
        except SCSICommand.MissingBlocksizeException:
            pass
        else:
            check(False, "%s: blocksize 0 accepted" % cls.__name__)
    # WRITE SAME(16) with NDOB needs neither data nor a blocksize
    c = WriteSame16(EC.sbc.WRITE_SAME_16, 0, 77, 5, None, ndob=1, unmap=1)
    verify_cmd("writesame16", "sbc", c, bytes(c.cdb),
               {"lba": 77, "nb": 5, "wrprotect": 0, "anchor": 0, "unmap": 1, "ndob": 1, "group": 0})
    check(len(c.dataout) == 0, "WriteSame16 ndob dataout")

    # ad-hoc OpCode objects: opcode value and the service action come from the object
    for method, cls, args in (
        ("inquiry", Inquiry, (1, 0x83, 255)),
        ("testunitready", TestUnitReady, ()),
        ("movemedium", MoveMedium, (1, 2, 3, 1)),
        ("synchronizecache16", SynchronizeCache16, (1 << 63, 1 << 31, 1, 31)),
    ):
        code = L[method][0]
        c = cls(OpCode("ADHOC", code, {}), *args)
        check(c.cdb[0] == code and len(c.cdb) == sam_length(code), "%s with ad-hoc opcode" % method)
    c = ReadCapacity16(OpCode("X_9E", 0x9E, {"READ_CAPACITY_16": 0x10}), 64)
    verify_cmd("readcapacity16", "adhoc", c, bytes(c.cdb), {"service_action": 0x10, "alloc_len": 64})
    c = GetLBAStatus(OpCode("X_9E", 0x9E, {"GET_LBA_STATUS": 0x12}), 1 << 40, 24)
    verify_cmd("getlbastatus", "adhoc", c, bytes(c.cdb), {"service_action": 0x12, "lba": 1 << 40, "alloc_len": 24})
    c = ReportPriority(OpCode("X_A3", 0xA3, {"REPORT_PRIORITY": 0x0E}), 3, 12)
    verify_cmd("reportpriority", "adhoc", c, bytes(c.cdb),
               {"service_action": 0x0E, "priority_reported": 3, "alloc_len": 12})
    c = ReportTargetPortGroups(OpCode("X_A3", 0xA3, {"REPORT_TARGET_PORT_GROUPS": 0x0A}), 1, 12)
    verify_cmd("reporttargetportgroups", "adhoc", c, bytes(c.cdb),
               {"service_action": 0x0A, "parameter_data_format": 1, "alloc_len": 12})

    # the ATA lba shuffles are public helpers
    for i in range(200):
        lba = rnd(24)
        v = ATAPassThrough12.scsi_to_ata_lba_convert(lba)
        check(v.to_bytes(3, "big") == bytes([lba & 0xFF, (lba >> 8) & 0xFF, lba >> 16]), "ata12 lba convert")
        lba = rnd(48)
        v = ATAPassThrough16.scsi_to_ata_lba_convert(lba)
        b = lba.to_bytes(6, "little")
        check(v.to_bytes(6, "big") == bytes([b[3], b[0], b[4], b[1], b[5], b[2]]), "ata16 lba convert")


# ---- SAM CDB length per group code ---------------------------------------
def cdb_length_rule():
    for code in range(256):
        op = OpCode("OP_%02X" % code, code, {})
        want = sam_length(code)
        if want is None:
            try:
                SCSICommand.init_cdb(op)
            except SCSICommand.OpcodeException:
                pass
            else:
                check(False, "init_cdb accepted reserved/vendor opcode %#x" % code)
            try:
                TestUnitReady(op)
            except SCSICommand.OpcodeException:
                pass
            else:
                check(False, "command built with reserved/vendor opcode %#x" % code)
        else:
            cdb = SCSICommand.init_cdb(op)
            check(isinstance(cdb, bytearray) and len(cdb) == want and not any(cdb),
                  "init_cdb(%#x) -> %r" % (code, cdb))
            c = TestUnitReady(op)
            check(bytes(c.cdb) == bytes([code]) + bytes(want - 1), "bare command for %#x" % code)
    for code in (-1, 256, 0x1FF, 1 << 20):
        try:
            SCSICommand.init_cdb(OpCode("BAD", code, {}))
        except SCSICommand.OpcodeException:
            pass
        else:
            check(False, "init_cdb accepted %r" % code)
    # every opcode in every command-set map has a SAM length, and the maps hold
    # the codes the standards assign
    for setname, ops in SETS.items():
        for key in ops.keys:
            op = getattr(ops, key)
            want = sam_length(op.value)
            if want is None:
                check(op.value == 0x7F, "%s.%s: opcode %#x has no fixed length" % (setname, key, op.value))
                continue
            check(len(SCSICommand.init_cdb(op)) == want, "%s.%s length" % (setname, key))


def opcode_maps():
    """opcode values / service actions the front end looks up"""
    name_of = {
        "inquiry": "INQUIRY", "exchangemedium": "EXCHANGE_MEDIUM",
        "initializeelementstatus": "INITIALIZE_ELEMENT_STATUS",
        "initializeelementstatuswithrange": "INITIALIZE_ELEMENT_STATUS_WITH_RANGE",
        "modeselect6": "MODE_SELECT_6", "modesense6": "MODE_SENSE_6", "modesense10": "MODE_SENSE_10",
        "modeselect10": "MODE_SELECT_10", "opencloseimportexportelement": "OPEN_CLOSE_IMPORT_EXPORT_ELEMENT",
        "positiontoelement": "POSITION_TO_ELEMENT", "preventallowmediumremoval": "PREVENT_ALLOW_MEDIUM_REMOVAL",
        "read10": "READ_10", "read12": "READ_12", "read16": "READ_16", "readcapacity10": "READ_CAPACITY_10",
        "readcd": "READ_CD", "readdiscinformation": "READ_DISC_INFORMATION",
        "readelementstatus": "READ_ELEMENT_STATUS", "movemedium": "MOVE_MEDIUM",
        "synchronizecache10": "SYNCHRONIZE_CACHE_10", "synchronizecache16": "SYNCHRONIZE_CACHE_16",
        "testunitready": "TEST_UNIT_READY", "write10": "WRITE_10", "write12": "WRITE_12",
        "write16": "WRITE_16", "writesame10": "WRITE_SAME_10", "writesame16": "WRITE_SAME_16",
        "reportluns": "REPORT_LUNS", "atapassthrough12": "ATA_PASS_THROUGH_12",
        "atapassthrough16": "ATA_PASS_THROUGH_16", "persistentreservein": "PERSISTENT_RESERVE_IN",
        "persistentreserveout": "PERSISTENT_RESERVE_OUT", "extendedcopy4": "EXTENDED_COPY",
        "extendedcopy5": "EXTENDED_COPY",
    }
    for method, attr in name_of.items():
        for setname, ops in SETS.items():
            has = attr in ops.keys
            check(has == (setname in OFFERED[method]), "%s offered by %s: %r" % (method, setname, has))
            if has:
                op = getattr(ops, attr)
                check(op.value == L[method][0], "%s.%s = %#x" % (setname, attr, op.value))
                check(isinstance(op, OpCode), "%s.%s is an OpCode" % (setname, attr))
    for setname, ops in SETS.items():
        for part, code, sas in (("9E", 0x9E, {"GET_LBA_STATUS": 0x12, "READ_CAPACITY_16": 0x10}),
                                ("A3", 0xA3, {"REPORT_PRIORITY": 0x0E, "REPORT_TARGET_PORT_GROUPS": 0x0A})):
            gen = get_opcode(ops, part)
            check(inspect.isgenerator(gen), "get_opcode returns a generator")
            found = list(gen)
            offered = setname in OFFERED["getlbastatus" if part == "9E" else "reportpriority"]
            check(bool(found) == offered, "%s: lookup of %s" % (setname, part))
            if found:
                check(found[0].value == code, "%s: %s opcode value" % (setname, part))
                check(found[0].name == "%s_OPCODE_%s" % (setname.upper(), part), "%s: %s first hit %s" % (setname, part, found[0].name))
                for k, v in sas.items():
                    check(getattr(found[0].serviceaction, k) == v, "%s: service action %s" % (setname, k))
    for setname in NO_MMC:
        ops = SETS[setname]
        sa = ops.PERSISTENT_RESERVE_IN.serviceaction
        check((sa.READ_KEYS, sa.READ_RESERVATION, sa.REPORT_CAPABILITIES, sa.READ_FULL_STATUS) == (0, 1, 2, 3),
              "PR IN service actions")
        sa = ops.PERSISTENT_RESERVE_OUT.serviceaction
        check([sa.REGISTER, sa.RESERVE, sa.RELEASE, sa.CLEAR, sa.PREEMPT, sa.PREEMPT_AND_ABORT,
               sa.REGISTER_AND_IGNORE_EXISTING_KEY, sa.REGISTER_AND_MOVE, sa.REPLACE_LOST_REGISTRATION]
              == list(range(9)), "PR OUT service actions")
    # reverse lookup and the legacy enums
    check(EC.OPCODE.INQUIRY == 0x12 and EC.OPCODE.WRITE_SAME_16 == 0x93 and EC.OPCODE[0x9E] == "SERVICE_ACTION_IN",
          "legacy OPCODE enum")
    check(EC.SERVICE_ACTION_IN.READ_CAPACITY_16 == 0x10 and EC.SERVICE_ACTION_IN.GET_LBA_STATUS == 0x12,
          "legacy SERVICE_ACTION_IN enum")
    check(EC.SCSI_STATUS.CHECK_CONDITION == 2 and EC.SCSI_STATUS[0x18] == "RESERVATION_CONFLICT", "status enum")
    check(str(EC.sbc.READ_16) == "READ_16 - 88" and repr(EC.smc.OPEN_CLOSE_IMPORT_EXPORT_ELEMENT) == "SMC_OPCODE_1B - 1b",
          "OpCode str/repr")
    # the tables stay importable under their public names
    for t in ("spc_opcodes", "sbc_opcodes", "ssc_opcodes", "smc_opcodes", "mmc_opcodes", "service_actions",
              "sa_maintenance_in", "sa_maintenance_out", "sa_persistent_reserve_in",
              "sa_persistent_reserve_out", "scsi_status", "opcodes", "service_action_ins"):
        check(isinstance(getattr(EC, t), dict) and len(getattr(EC, t)) > 0, "table %s" % t)
    check(EC.sbc_opcodes["READ_16"].value == 0x88 and EC.sbc_opcodes["READ_16"] is EC.sbc.READ_16, "table/enum share OpCode")
    check(EC.service_actions["REPORT_TARGET_PORT_GROUPS"] == 0x0A and EC.sa_persistent_reserve_out["REGISTER_AND_MOVE"] == 7,
          "service action tables")
    check(list(EC.sbc_opcodes)[:4] == ["SBC_OPCODE_7F", "SBC_OPCODE_A4", "SBC_OPCODE_A3", "SBC_OPCODE_9E"], "table order")


# ---- device type -> command set ------------------------------------------
def device_type_probe():
    want = {0: EC.sbc, 4: EC.sbc, 7: EC.sbc, 1: EC.ssc, 2: EC.ssc, 9: EC.ssc, 3: EC.spc, 8: EC.smc, 5: EC.mmc}
    for devtype in range(0x20):
        dev = RecordingDevice(EC.spc, devtype)
        s = SCSI(dev, 512)
        check(len(dev.seen) == 1 and dev.seen[0][0] == bytes([0x12, 0, 0, 0, 96, 0]), "probing INQUIRY cdb")
        check(dev.devicetype == devtype, "device type recorded")
        check(dev.opcodes is want.get(devtype, EC.spc), "device type %#x -> command set" % devtype)
        check(s.blocksize == 512, "blocksize kept")
        dev2 = RecordingDevice(EC.spc, (devtype + 1) % 0x20)
        s(dev2)
        check(s.device is dev2 and dev2.opcodes is want.get((devtype + 1) % 0x20, EC.spc), "re-targeting")
    with SCSI(RecordingDevice(EC.spc, 0), 512) as s:
        d = s.device
        s.blocksize = 4096
        c = s.read16(5, 2)
        check(len(c.datain) == 8192, "blocksize setter used")
        try:
            SCSI(RecordingDevice(EC.sbc, 0), 0).read10(0, 1)
        except SCSICommand.MissingBlocksizeException:
            pass
        else:
            check(False, "read10 without blocksize accepted")
    check(d.closed == 1, "context manager closes the device")
    s = SCSI(None)
    check(s.device is None, "SCSI(None) does not probe")


# ---- converter primitives -------------------------------------------------
def converter_primitives():
    for n in range(1, 10):
        for _ in range(50):
            v = rnd(8 * n)
            ba = scsi_int_to_ba(v, n)
            check(type(ba) is bytearray and bytes(ba) == v.to_bytes(n, "big"), "scsi_int_to_ba(%#x,%d)" % (v, n))
            check(scsi_ba_to_int(ba) == v, "scsi_ba_to_int")
            check(scsi_ba_to_int(bytes(ba)) == v and scsi_ba_to_int(list(ba)) == v, "scsi_ba_to_int on bytes/list")
    check(scsi_int_to_ba() == bytearray(4) and scsi_int_to_ba(34) == bytearray(b'\x00\x00\x00"'), "defaults")
    check(scsi_int_to_ba(0x1234, 0) == bytearray() and scsi_ba_to_int(bytearray()) == 0, "empty")
    # every mask shape at every offset, on a non-zero-length buffer, several at once
    for _ in range(300):
        size = RNG.randrange(1, 20)
        layout, values, used = {}, {}, 0
        table = {}
        for i in range(RNG.randrange(1, 6)):
            width = RNG.randrange(1, 65)
            nbytes = RNG.randrange((width + 7) // 8, 9)
            if nbytes > size:
                continue
            shift = RNG.randrange(0, nbytes * 8 - width + 1)
            # masks the library tables use never leave the top byte empty
            mask = ((1 << width) - 1) << shift
            if mask >> (8 * (nbytes - 1)) == 0:
                continue
            off = RNG.randrange(0, size - nbytes + 1)
            bits = mask << (8 * (size - off - nbytes))
            if bits & used:
                continue
            used |= bits
            name = "f%d" % i
            table[name] = [mask, off] if i % 2 else (mask, off)
            values[name] = rnd(width)
            pos = size * 8 - (8 * (size - off - nbytes) + shift + width)
            layout[name] = (pos // 8, 7 - pos % 8, width)
        buf = bytearray(size)
        ret = encode_dict(dict(values, unknown_key=5), table, buf)
        check(ret is None, "encode_dict returns None")
        check(bytes(buf) == ref_encode(size, layout, values), "encode_dict %r %r" % (table, values))
        out = {"keep": 1}
        ret = decode_bits(buf, table, out)
        check(ret is None, "decode_bits returns None")
        check(out == dict(values, keep=1), "decode_bits %r -> %r want %r" % (table, out, values))
        out2 = {}
        decode_bits(bytes(buf), table, out2)
        check(out2 == values, "decode_bits on bytes")
    # byte / word / dword blob notation
    buf = bytearray(32)
    tbl = {"b": ("b", 1, 3), "w": ("w", 4, 2), "dw": ("dw", 8, 2), "bit": [0x80, 0]}
    encode_dict({"b": b"abc", "w": b"WXYZ", "dw": b"12345678", "bit": 1}, tbl, buf)
    check(bytes(buf[:16]) == b"\x80abcWXYZ12345678", "blob notation encode: %r" % bytes(buf[:16]))
    out = {}
    decode_bits(buf, tbl, out)
    check(out == {"b": bytearray(b"abc"), "w": bytearray(b"WXYZ"), "dw": bytearray(b"12345678"), "bit": 1},
          "blob notation decode %r" % out)


def main():
    converter_primitives()
    cdb_length_rule()
    opcode_maps()
    device_type_probe()
    direct_construction()

    cases = {c.method: c for c in simple_cases()}
    special = {
        "modeselect6": lambda sn, s, d: run_modeselect("modeselect6", 4, sn, s, d),
        "modeselect10": lambda sn, s, d: run_modeselect("modeselect10", 8, sn, s, d),
        "atapassthrough12": lambda sn, s, d: run_ata("atapassthrough12", sn, s, d),
        "atapassthrough16": lambda sn, s, d: run_ata("atapassthrough16", sn, s, d),
        "persistentreservein": run_prin,
        "persistentreserveout": run_prout,
    }
    check(set(cases) | set(special) | {"extendedcopy4", "extendedcopy5"} == set(L), "every command covered")
    public = {n for n, f in inspect.getmembers(SCSI, inspect.isfunction) if not n.startswith("_") and n != "execute"}
    check(public == set(L), "front end methods: %r" % sorted(public ^ set(L)))

    for setname, ops in SETS.items():
        for method in sorted(L):
            case = cases.get(method)
            dev = RecordingDevice(ops)
            scsi = BareSCSI(dev, case.blocksize if case else 0)
            if setname not in OFFERED[method]:
                not_offered(method, setname, scsi)
                continue
            if method in special:
                special[method](setname, scsi, dev)
            elif method == "extendedcopy4":
                run_xcopy(setname, scsi, dev)
            elif method == "extendedcopy5":
                pass  # driven by run_xcopy
            else:
                run_simple(case, setname, scsi, dev)
            check(ops is SETS[setname] and dev.opcodes is ops, "opcode map untouched")

    # high bits of allocation-coupled fields through marshall_cdb/unmarshall_cdb
    sbc, smc, mmc, spc = EC.sbc, EC.smc, EC.mmc, EC.spc
    op9e = next(get_opcode(sbc, "9E"))
    opa3 = next(get_opcode(spc, "A3"))
    makers = {
        "inquiry": lambda: Inquiry(spc.INQUIRY),
        "exchangemedium": lambda: ExchangeMedium(smc.EXCHANGE_MEDIUM, 0, 0, 0, 0),
        "getlbastatus": lambda: GetLBAStatus(op9e, 0, 8),
        "initializeelementstatus": lambda: InitializeElementStatus(smc.INITIALIZE_ELEMENT_STATUS),
        "initializeelementstatuswithrange": lambda: InitializeElementStatusWithRange(
            smc.INITIALIZE_ELEMENT_STATUS_WITH_RANGE, 0, 0),
        "modeselect6": lambda: ModeSelect6(spc.MODE_SELECT_6, {"mode_pages": []}),
        "modesense6": lambda: ModeSense6(spc.MODE_SENSE_6, 0),
        "modesense10": lambda: ModeSense10(spc.MODE_SENSE_10, 0),
        "modeselect10": lambda: ModeSelect10(spc.MODE_SELECT_10, {"mode_pages": []}),
        "opencloseimportexportelement": lambda: OpenCloseImportExportElement(
            smc.OPEN_CLOSE_IMPORT_EXPORT_ELEMENT, 0, 0),
        "positiontoelement": lambda: PositionToElement(smc.POSITION_TO_ELEMENT, 0, 0),
        "preventallowmediumremoval": lambda: PreventAllowMediumRemoval(spc.PREVENT_ALLOW_MEDIUM_REMOVAL),
        "read10": lambda: Read10(sbc.READ_10, 1, 0, 0),
        "read12": lambda: Read12(sbc.READ_12, 1, 0, 0),
        "read16": lambda: Read16(sbc.READ_16, 1, 0, 0),
        "readcapacity10": lambda: ReadCapacity10(sbc.READ_CAPACITY_10),
        "readcapacity16": lambda: ReadCapacity16(op9e),
        "readcd": lambda: ReadCd(mmc.READ_CD),
        "readdiscinformation": lambda: ReadDiscInformation(mmc.READ_DISC_INFORMATION, 0),
        "readelementstatus": lambda: ReadElementStatus(smc.READ_ELEMENT_STATUS, 0, 0),
        "movemedium": lambda: MoveMedium(smc.MOVE_MEDIUM, 0, 0, 0),
        "synchronizecache10": lambda: SynchronizeCache10(sbc.SYNCHRONIZE_CACHE_10, 0, 0),
        "synchronizecache16": lambda: SynchronizeCache16(sbc.SYNCHRONIZE_CACHE_16, 0, 0),
        "testunitready": lambda: TestUnitReady(spc.TEST_UNIT_READY),
        "write10": lambda: Write10(sbc.WRITE_10, 1, 0, 0, b""),
        "write12": lambda: Write12(sbc.WRITE_12, 1, 0, 0, b""),
        "write16": lambda: Write16(sbc.WRITE_16, 1, 0, 0, b""),
        "writesame10": lambda: WriteSame10(sbc.WRITE_SAME_10, 1, 0, 0, b""),
        "writesame16": lambda: WriteSame16(sbc.WRITE_SAME_16, 1, 0, 0, b""),
        "reportluns": lambda: ReportLuns(spc.REPORT_LUNS),
        "reportpriority": lambda: ReportPriority(opa3),
        "reporttargetportgroups": lambda: ReportTargetPortGroups(opa3),
        "persistentreservein": lambda: PersistentReserveInReadKeys(spc.PERSISTENT_RESERVE_IN),
        "persistentreserveout": lambda: PersistentReserveOut(spc.PERSISTENT_RESERVE_OUT, 0),
        "extendedcopy4": lambda: ExtendedCopy4(spc.EXTENDED_COPY),
        "extendedcopy5": lambda: ExtendedCopy5(spc.EXTENDED_COPY),
    }
    for method, make in makers.items():
        marshall_high_bits(method, CLASS_OF[method], make)

    print("PASS (%d checks)" % CHECKS)


if __name__ == "__main__":
    main()
